"""C14 — lookup and reference functions return the addressed element."""
import random

from x2p import common as C
from x2p import impl as I

HEADER = ('Require Import X2P.Base.Prelude X2P.Base.PyCmp X2P.Base.PyType X2P.Model.Lookup X2P.Corr.C14.\n'
          'Open Scope Z_scope.\n')
TARGETS = ['theories/Props/C14.vo', 'theories/Corr/C14.vo']

WORDS = ['apple', 'Apple', 'pear', 'PEAR', 'fig', 'kiwi', 'Zed', 'a', 'B']


def empty():
    return I.runtime().EmptyCell()


# ------------------------------------------------------------------ recipes -> cases
def make_case(rc):
    """rc: JSON recipe.  Runs the implementation, returns dict(coq=..., key=..., nontrivial=...)."""
    rt = I.runtime()
    k = rc['kind']
    d = lambda j: C.jdec(j, empty)
    if k == 'vlookup':
        lv, t, col, rl = d(rc['lv']), d(rc['table']), rc['col'], d(rc['rl'])
        out = I.outcome(lambda: rt._vlookup(lv, t, col, rl))
        coq = 'CVlookup %s %s %s %s %s' % (C.cval(lv), C.clist([C.cval(r) for r in t]), C.cz(col), C.cval(rl), C.cres(out))
        nt = len(t) >= 3 and (not t or lv != t[0][0])
    elif k == 'match':
        lv, arr, mt = d(rc['lv']), d(rc['arr']), rc['mt']
        out = I.outcome(lambda: rt._match(lv, arr, mt))
        coq = 'CMatch %s %s %s %s' % (C.cval(lv), C.clist([C.cval(r) for r in arr]), C.cz(mt), C.cres(out))
        nt = len(arr) >= 3 and lv != arr[0][0]
    elif k == 'xmatch':
        lv, arr, mm, sm = d(rc['lv']), d(rc['arr']), rc['mm'], rc['sm']
        out = I.outcome(lambda: rt._xmatch(lv, arr, mm, sm))
        coq = 'CXmatch %s %s %s %s %s' % (C.cval(lv), C.clist([C.cval(r) for r in arr]), C.cz(mm), C.cz(sm), C.cres(out))
        nt = len(arr) >= 3 and lv != arr[0][0]
    elif k == 'index':
        area, r, c, an = d(rc['area']), rc['r'], rc['c'], rc['an']
        out = I.outcome(lambda: rt._index(area, r, c, an))
        coq = 'CIndex %s %s %s %s %s' % (C.clist([C.cval(x) for x in area]), C.cz(r), C.copt(c, C.cz), C.cz(an), C.cres(out))
        nt = len(area) >= 2 and (r != 1 or c != 1)
    elif k == 'address':
        out = I.outcome(lambda: rt._address(rc['row'], rc['col']))
        coq = 'CAddr %s %s %s' % (C.cz(rc['row']), C.cz(rc['col']), C.cres(out))
        nt = rc['col'] > 26
    elif k == 'column':
        letters, row, own = rc['letters'], rc['row'], rc['own']
        if own:
            # the same formula text also sits in other columns of the sheet: each cell answers for its own column
            # (translated as a whole file: the cells A1 and E1 are then translated BEFORE most probes, the way a memo per formula text
            # would need; translated from the entry cell the probe itself always comes first)
            out = I.eval_formula('=COLUMN()', {'A1': '=COLUMN()', 'E1': '=COLUMN()'}, addr='%s%d' % (letters, row), entry_mode=bool(row % 3 == 0))
        else:
            out = I.eval_formula('=COLUMN(%s%s%s%d)' % (rc.get('d1', ''), letters, rc.get('d2', ''), row), {}, addr='B2')
        coq = 'CColumn %s %s' % (C.cstr(letters), C.cres(out))
        nt = len(letters) > 1
    elif k == 'formula':
        # a lookup written as a formula over a workbook: checks translator defaults and reference resolution,
        # then is compared with the model applied to the values the workbook holds
        cells = {a: d(v) for a, v in rc['cells'].items()}
        if rc.get('append'):
            # the table's last rows are NOT in the workbook: they are supplied through set_cells (the area written in the formula covers them)
            ovs = [I.Cell(0, *I.a1(a), d(v)) for a, v in rc['append'].items()]
            base = {a: v for a, v in cells.items() if a not in rc['append']}
            out = I.eval_formula(rc['formula'], base, addr='H1', overrides=ovs)
        elif rc.get('xsheet'):
            # the table lives on ANOTHER sheet; the formula's own sheet holds other values at the same coordinates
            own = {a: I._perturbed(v) for a, v in cells.items()}
            out = I.eval_formula(rc['formula'].replace('A1:', 'Data!A1:'), addr='H9', sheets=[('S', own), ('Data', cells)])
        else:
            out = I.eval_formula(rc['formula'], cells, addr='H9')
        coq = rc['coq_head'] + ' ' + C.cres(out)
        nt = True
    else:
        raise ValueError(k)
    return {'recipe': rc, 'coq': coq, 'key': rc, 'nontrivial': bool(nt)}


# ------------------------------------------------------------------ generators
def gen_keys(rng, n):
    kind = rng.choice(['int_sorted', 'int_sorted', 'int_unsorted', 'int_dups', 'text', 'text_sorted', 'float_sorted', 'mixed'])
    if kind == 'int_sorted':
        ks = sorted(rng.sample(range(-20, 60), n))
    elif kind == 'int_unsorted':
        ks = [rng.randint(-5, 30) for _ in range(n)]
    elif kind == 'int_dups':
        ks = sorted(rng.choice([10, 20, 30, 40]) for _ in range(n))
    elif kind == 'text':
        ks = [rng.choice(WORDS) for _ in range(n)]
    elif kind == 'text_sorted':
        ks = sorted(set(w.lower() for w in rng.sample(WORDS, min(n, len(WORDS)))))
    elif kind == 'float_sorted':
        ks = sorted(rng.choice([0.5, 1.5, 2.25, 10.0, 3, 7, -1.5, 2 ** 53 + 1.0]) for _ in range(n))
    else:
        ks = [rng.choice([1, 2.5, 'x', 'Y', 7, None]) for _ in range(n)]
        ks = [empty() if k is None else k for k in ks]
    return kind, ks


def gen_lookup(rng, ks):
    r = rng.random()
    nums = [k for k in ks if isinstance(k, (int, float)) and type(k).__name__ != 'EmptyCell']
    if ks and r < 0.45:
        v = rng.choice(ks)
        if isinstance(v, str) and rng.random() < 0.4:
            v = v.swapcase()
        return v
    if nums and r < 0.8:
        lo, hi = min(nums), max(nums)
        return rng.choice([lo - 1, hi + 1, (lo + hi) // 2, rng.choice(nums) + 1, rng.choice(nums) + 0.5])
    return rng.choice(['zzz', 'A', 'mango', 0, 5, 2.5, 100, -100])


def payload(rng, i):
    return rng.choice([100 + i, 'v%d' % i, 0.5 * i, True])


def gen_recipes(rng, n):
    out = []
    for _ in range(n):
        r = rng.random()
        rows = rng.randint(1, 7)
        kind, ks = gen_keys(rng, rows)
        lv = gen_lookup(rng, ks)
        if r < 0.3:
            width = rng.randint(1, 3)
            table = [[k] + [payload(rng, i * 3 + j) for j in range(width)] for i, k in enumerate(ks)]
            col = rng.choice([1, 2, width + 1, width + 1, rng.randint(1, width + 1)])
            rl = rng.choice([True, False, True, False, 1, 0])
            out.append({'kind': 'vlookup', 'lv': C.jenc(lv), 'table': C.jenc(table), 'col': col, 'rl': C.jenc(rl)})
        elif r < 0.5:
            out.append({'kind': 'match', 'lv': C.jenc(lv), 'arr': C.jenc([[k] for k in ks]), 'mt': rng.choice([0, 0, 1, 1, -1])})
        elif r < 0.56:
            out.append({'kind': 'xmatch', 'lv': C.jenc(lv), 'arr': C.jenc([[k] for k in ks]), 'mm': 0,
                        'sm': rng.choice([1, 1, 1, -1])})
        elif r < 0.62:
            # binary search modes on strictly sorted integer keys; the looked-up key is often the FIRST or the LAST row
            n = rng.randint(1, 7)
            keys = sorted(rng.sample(range(1, 40), n))
            sm = rng.choice([2, -2])
            if sm == -2:
                keys = keys[::-1]
            lv2 = rng.choice([keys[0], keys[-1], rng.choice(keys), rng.choice(keys), 0, 41, keys[0] + 1])
            out.append({'kind': 'xmatch', 'lv': lv2, 'arr': [[k] for k in keys], 'mm': rng.choice([0, 0, 0, 1, -1]), 'sm': sm})
        elif r < 0.8:
            h, w = rng.randint(1, 5), rng.randint(1, 4)
            area = [[100 * i + j for j in range(w)] for i in range(h)]
            if rng.random() < 0.3:           # an error value stored somewhere in the area: it is the value of THAT cell only
                area[rng.randrange(h)][rng.randrange(w)] = rng.choice(['#N/A', '#REF!', '#VALUE!'])
            an = rng.choice([1, 1, 1, 2, 3, 0])
            rr = rng.randint(-1, h + 2)
            cc = rng.choice([None, rng.randint(0, w + 2), rng.randint(1, w)])
            out.append({'kind': 'index', 'area': C.jenc(area), 'r': rr, 'c': cc, 'an': an})
        elif r < 0.88:
            from openpyxl.utils import get_column_letter
            out.append({'kind': 'column', 'letters': get_column_letter(rng.choice([1, 2, 26, 27, 52, 702, 703, 16384, rng.randint(1, 16384)])),
                        'row': rng.randint(1, 99999), 'own': rng.random() < 0.3, 'd1': rng.choice(['', '$']), 'd2': rng.choice(['', '$'])})
        else:
            out.append({'kind': 'address', 'row': rng.randint(1, 1048576),
                        'col': rng.choice([1, 26, 27, 52, 53, 676, 677, 702, 703, 728, 16384, rng.randint(1, 16384), rng.randint(1, 800)])})
    return out


def gen_formula_recipes(rng, n):
    """Lookups written as formulas: table in A1:C<rows>, formula elsewhere."""
    out = []
    for _ in range(n):
        rows = rng.randint(2, 6)
        kind, ks = gen_keys(rng, rows)
        ks = [k for k in ks]
        rows = len(ks)
        lv = gen_lookup(rng, ks)
        if isinstance(lv, str) or type(lv).__name__ == 'EmptyCell':
            lit = '"%s"' % lv if isinstance(lv, str) else None
        else:
            lit = repr(lv) if lv >= 0 and (isinstance(lv, int) or lv == int(lv) or len(repr(lv)) < 6) else None
        if lit is None or (isinstance(lv, float) and 'e' in repr(lv)):
            continue
        cells = {}
        table = []
        for i, k in enumerate(ks):
            row = [k, 100 + i if rng.random() > 0.12 else rng.choice(['#N/A', '#VALUE!', '#DIV/0!']), 'v%d' % i]
            table.append(row)
            for j, v in enumerate(row):
                if type(v).__name__ != 'EmptyCell':
                    cells['%s%d' % ('ABC'[j], i + 1)] = C.jenc(v)
        lvv = lv
        r = rng.random()
        tj = [C.cval(row) for row in table]
        if r < 0.4:
            col = rng.randint(1, 3)
            form = rng.choice(['omit', 'TRUE', 'FALSE'])
            f = '=VLOOKUP(%s,A1:C%d,%d%s)' % (lit, rows, col, '' if form == 'omit' else ',' + form)
            rl = form != 'FALSE'
            head = 'CVlookup %s %s %s %s' % (C.cval(lvv), C.clist(tj), C.cz(col), C.cval(rl))
        elif r < 0.65:
            mt = rng.choice([0, 1])
            wc = mt == 0 and any(type(k) is type(lv) and k == lv for k in ks) and rng.random() < 0.4          # a whole-column key array: the hit lies inside the table
            f = '=MATCH(%s,%s,%d)' % (lit, rng.choice(['A:A', '$A:$A']) if wc else 'A1:A%d' % rows, mt)
            head = 'CMatch %s %s %s' % (C.cval(lvv), C.clist([C.cval([row[0]]) for row in table]), C.cz(mt))
        elif r < 0.8:
            wc = any(type(k) is type(lv) and k == lv for k in ks) and rng.random() < 0.4
            f = '=XMATCH(%s,%s,0)' % (lit, 'A:A' if wc else 'A1:A%d' % rows)
            head = 'CXmatch %s %s %s %s' % (C.cval(lvv), C.clist([C.cval([row[0]]) for row in table]), C.cz(0), C.cz(1))
        else:
            rr, cc = rng.randint(1, rows + 1), rng.randint(1, 4)
            f = '=INDEX(A1:C%d,%d,%d)' % (rows, rr, cc)
            head = 'CIndex %s %s %s %s' % (C.clist(tj), C.cz(rr), C.copt(cc, C.cz), C.cz(1))
        rec = {'kind': 'formula', 'formula': f, 'cells': cells, 'coq_head': head, 'xsheet': rng.random() < 0.4 and ':A,' not in f and ':$A,' not in f}
        if not rec['xsheet'] and rows >= 3 and rng.random() < 0.35 and ':A,' not in f and ':$A,' not in f:
            k = rng.randint(1, 2)
            rec['append'] = {a: v for a, v in cells.items() if int(a[1:]) > rows - k}
        out.append(rec)
    return out


def corpus():
    """Regression seeds (fixed findings and boundary cases); run first."""
    e = {'E': 1}
    t = [[10, 'a'], [20, 'b'], [20, 'c'], [40, 'd']]
    rs = [{'kind': 'address', 'row': 5, 'col': c} for c in (1, 26, 27, 52, 676, 702, 703, 16384)]
    rs += [{'kind': 'match', 'lv': 45, 'arr': [[10], [20], [30], [40]], 'mt': 1},       # fixed: fell off the loop
           {'kind': 'match', 'lv': 5, 'arr': [[10], [20]], 'mt': 1},
           {'kind': 'vlookup', 'lv': 99, 'table': t, 'col': 2, 'rl': True},
           {'kind': 'vlookup', 'lv': 20, 'table': t, 'col': 2, 'rl': False},
           {'kind': 'vlookup', 'lv': 25, 'table': t, 'col': 2, 'rl': True},
           {'kind': 'vlookup', 'lv': 5, 'table': t, 'col': 2, 'rl': True},
           {'kind': 'vlookup', 'lv': e, 'table': [[e, 1], [0, 2]], 'col': 2, 'rl': False},
           {'kind': 'xmatch', 'lv': 30, 'arr': [[10], [20], [30], [30], [40]], 'mm': 0, 'sm': -1},
           {'kind': 'index', 'area': [[1, 2, 3], [4, 5, 6]], 'r': 2, 'c': 3, 'an': 1},
           {'kind': 'index', 'area': [[1, 2, 3], [4, 5, 6]], 'r': 3, 'c': 1, 'an': 1},
           {'kind': 'index', 'area': [[1], [2], [3]], 'r': 2, 'c': None, 'an': 1},
           {'kind': 'formula', 'formula': '=VLOOKUP(25,A1:C4,2)', 'cells': {'A1': 10, 'B1': 'a', 'A2': 20, 'B2': 'b', 'A3': 30, 'B3': 'c', 'A4': 40, 'B4': 'd'},
            'coq_head': 'CVlookup (VInt 25%Z) [VList [VInt 10%Z; VStr "a"; VEmpty]; VList [VInt 20%Z; VStr "b"; VEmpty]; VList [VInt 30%Z; VStr "c"; VEmpty]; VList [VInt 40%Z; VStr "d"; VEmpty]] 2%Z (VBool true)'},
           ]
    rs += [f['witness'] for f in C.known_findings()['findings'] if f['property'] == 'C14']
    return rs


def run(R, tier):
    R.coverage['rule'] = ('cases = direct calls of the runtime helpers of a class generated from the current template and '
                          'lookups written as formulas over generated workbooks; non-trivial = table with >= 3 rows and a '
                          'lookup value different from the first key, INDEX not at (1,1), ADDRESS column > 26; '
                          'distinct by recipe hash')
    C.proof_obligations(R, 'theories/Props/C14.v', 'Props.C14', TARGETS)
    if R.broken and any('Coq build failed' in b for b in R.broken):
        # the model itself may not compile: search directly on the implementation is impossible without the spec,
        # so report the broken obligation
        return
    n = 500 if tier == 'quick' else 6000
    recipes = corpus() + gen_recipes(R.rng, n) + gen_formula_recipes(R.rng, n // 4)
    cases = [make_case(rc) for rc in recipes]
    for c in cases[:3] + cases[-3:]:
        R.sample({'recipe': c['recipe']})
    dist = {}
    for c in cases:
        dist[c['recipe']['kind']] = dist.get(c['recipe']['kind'], 0) + 1
    R.extra['input_distribution'] = dist
    C.correspond(R, HEADER, 'report', cases, 'c14', 'runtime lookup helpers (_vlookup/_match/_xmatch/_index/_address) and their translators')
    R.assumptions += ['keys in theorems are integers; text/float keys are covered by model=implementation correspondence and the executable general spec',
                      'binary-search modes of XMATCH (search_mode 2/-2) are not modelled']


def replay(R, rp):
    rc = rp.get('recipe') or (rp.get('examples') or [None])[0]
    if rc is None:
        print('nothing to replay: ' + str(rp.get('broken')))
        return 1
    ok, log = C.build(TARGETS)
    c = make_case(rc)
    rows = C.eval_report(HEADER, [c['coq']], 'report', 'c14_replay')
    print('recipe:', rc)
    print('coq case:', c['coq'])
    print('row (model=impl spec=model spec=impl class):', rows[0])
    return 0 if rows[0].split()[0] == '1' and rows[0].split()[1] != '0' else 1
