"""C15 — date functions follow the Gregorian calendar exactly."""
import calendar
import datetime as dt

from x2p import common as C
from x2p import impl as I

HEADER = ('Require Import X2P.Base.Prelude X2P.Corr.C15.\nOpen Scope Z_scope.\n')
TARGETS = ['theories/Props/C15.vo', 'theories/Corr/C15.vo']


def empty():
    return I.runtime().EmptyCell()


def D(y, m, d, *t):
    return {'dt': dt.datetime(y, m, d, *t).isoformat()}


def make_case(rc):
    rt = I.runtime()
    k, via = rc['kind'], rc.get('via', 'direct')
    d = lambda j: C.jdec(j, empty)
    if k == 'date':
        y, m, dd = rc['y'], rc['m'], rc['d']
        if via == 'direct':
            out = I.outcome(lambda: rt._date(y, m, dd))
        elif via == 'literal':          # the three numbers written in the formula text
            out = I.eval_formula('=DATE(%d,%d,%d)' % (y, m, dd), {}, addr='H9')
        else:
            out = I.eval_formula('=DATE(A1,B1,C1)', {'A1': y, 'B1': m, 'C1': dd}, addr='H9')
        coq = 'CDate %s %s %s %s' % (C.cz(y), C.cz(m), C.cz(dd), C.cres(out))
        nt = not (1 <= m <= 12) or not (1 <= dd <= 28)
    elif k == 'ymd':
        v = d(rc['v'])
        fn = ['_year', '_month', '_day'][rc['w']]
        if via == 'direct':
            out = I.outcome(lambda: getattr(rt, fn)(v))
        else:
            out = I.eval_formula('=%s(A1)' % fn[1:].upper(), {'A1': v}, addr='H9')
        coq = 'CYmd %s %s %s' % (C.cz(rc['w']), C.cval(v), C.cres(out))
        nt = True
    elif k in ('edate', 'eomonth'):
        s, mo = d(rc['s']), d(rc['m'])
        if via == 'direct':
            out = I.outcome(lambda: getattr(rt, '_' + k)(s, mo))
        else:
            # the months argument as a plain reference, or as an expression that begins with one (B1*C1, B1+D1 with C1 = 1, D1 = 0)
            arg = ['B1', 'B1*C1', 'B1+D1', 'B1*1', '(B1)', 'D1+B1'][rc.get('argform', 0)] if isinstance(mo, int) and not isinstance(mo, bool) else 'B1'
            out = I.eval_formula('=%s(A1,%s)' % (k.upper(), arg), {'A1': s, 'B1': mo, 'C1': 1, 'D1': 0}, addr='H9')
        coq = 'C%s %s %s %s' % (k.capitalize(), C.cval(s), C.cval(mo), C.cres(out))
        nt = True
    elif k == 'datedif':
        s, e, mode = d(rc['s']), d(rc['e']), rc['mode']
        if via == 'direct':
            out = I.outcome(lambda: rt._datedif(s, e, mode))
        else:
            out = I.eval_formula('=DATEDIF(A1,B1,"%s")' % mode, {'A1': s, 'B1': e}, addr='H9')
        coq = 'CDatedif %s %s %s %s' % (C.cval(s), C.cval(e), C.cstr(mode), C.cres(out))
        nt = True
    elif k == 'netdays':
        s, e, h = d(rc['s']), d(rc['e']), d(rc['h'])
        if via == 'direct':
            out = I.outcome(lambda: rt._network_days(s, e, h))
            hv = h
        else:
            cells = {'A1': s, 'B1': e}
            hol = h or []
            ov = []
            for i, row in enumerate(hol):
                if type(row[0]).__name__ != 'EmptyCell':
                    if i in (rc.get('ov_rows') or []):
                        ov.append(I.Cell(0, 5, i, row[0]))       # blank in the workbook, supplied through set_cells
                    else:
                        cells['F%d' % (i + 1)] = row[0]
            f = '=NETWORKDAYS(A1,B1%s)' % (',F1:F%d' % len(hol) if hol else '')
            out = I.eval_formula(f, cells, addr='H9', overrides=ov or None)
            hv = h
        coq = 'CNetdays %s %s %s %s' % (C.cval(s), C.cval(e), C.cval(hv) if hv is not None else 'VNone', C.cres(out))
        nt = True
    elif k == 'cal':
        y, m, dd = rc['y'], rc['m'], rc['d']
        x = dt.date(y, m, dd)
        coq = 'CCal %s %s %s %s %s %s' % (C.cz(y), C.cz(m), C.cz(dd), C.cz(x.toordinal()), C.cz(x.weekday()), C.cz(calendar.monthrange(y, m)[1]))
        nt = True
    else:
        raise ValueError(k)
    return {'recipe': rc, 'coq': coq, 'key': rc, 'nontrivial': bool(nt)}


YEARS = [1900, 1901, 1999, 2000, 2001, 2019, 2020, 2023, 2024, 2025, 2096, 2100, 2400, 9998, 9999, 1904, 50, 0, 1899]


def rdate(rng, time=False):
    y = rng.choice([1900, 1999, 2000, 2019, 2020, 2021, 2023, 2024, 2025, 2096, 2100])
    m = rng.randint(1, 12)
    d = rng.randint(1, calendar.monthrange(y, m)[1])
    if rng.random() < 0.3:
        d = calendar.monthrange(y, m)[1]
    if time and rng.random() < 0.3:
        return D(y, m, d, rng.randint(0, 23), rng.randint(0, 59))
    return D(y, m, d)


def gen_recipes(rng, n):
    out = []
    for _ in range(n):
        r = rng.random()
        via = 'direct' if rng.random() < 0.7 else 'formula'
        if r < 0.3:
            y = rng.choice(YEARS)
            m = rng.choice([rng.randint(-14, 26), rng.randint(1, 12), 0, 13, -1])
            d = rng.choice([rng.randint(-800, 800), rng.randint(-3, 35), 0, -1, -2, 31, 29])
            if via == 'formula' and (m < 0 or d < 0 or y < 0):
                pass   # negative numbers in cells are fine
            if via == 'formula' and y >= 0 and m >= 0 and d >= 0 and rng.random() < 0.5:
                via = 'literal'
            out.append({'kind': 'date', 'y': y, 'm': m, 'd': d, 'via': via})
        elif r < 0.4:
            out.append({'kind': 'ymd', 'w': rng.randint(0, 2), 'v': rdate(rng, True), 'via': via})
        elif r < 0.58:
            mo = rng.choice([rng.randint(-60, 60), rng.randint(-60, 60), 2.7, -1.5, 0, 12, -12, 1200])
            out.append({'kind': rng.choice(['edate', 'eomonth']), 's': rdate(rng, True), 'm': C.jenc(mo), 'via': via, 'argform': rng.randrange(6)})
        elif r < 0.8:
            s, e = rdate(rng), rdate(rng)
            if rng.random() < 0.3:
                # end-of-month pairs: a start on the 29th..31st against the last day of a shorter month (the day-borrow corner of M / YM / MD)
                y1, y2 = rng.choice([1999, 2000, 2023, 2024, 2100]), rng.choice([2000, 2023, 2024, 2025, 2100])
                s = D(y1, rng.choice([1, 3, 5, 7, 8, 10, 12]), rng.choice([29, 30, 31]))
                m2 = rng.choice([2, 4, 6, 9, 11])
                e = D(y2, m2, calendar.monthrange(y2, m2)[1])
            if rng.random() < 0.8 and s['dt'] > e['dt']:
                s, e = e, s
            out.append({'kind': 'datedif', 's': s, 'e': e, 'mode': rng.choice(['D', 'M', 'Y', 'YM', 'MD', 'YD', 'Q']), 'via': via})
        elif r < 0.93:
            s = rdate(rng)
            span = rng.randint(-70, 70)
            e = {'dt': (dt.datetime.fromisoformat(s['dt']) + dt.timedelta(days=span)).isoformat()}
            lo = min(dt.datetime.fromisoformat(s['dt']), dt.datetime.fromisoformat(e['dt']))
            hol = None
            if rng.random() < 0.6:
                hol = [[{'dt': (lo + dt.timedelta(days=rng.randint(-3, abs(span) + 3))).isoformat()}] for _ in range(rng.randint(1, 5))]
                if rng.random() < 0.3:
                    hol.append([{'E': 1}])
                if rng.random() < 0.3:
                    hol.append(['note'])
            rc2 = {'kind': 'netdays', 's': s, 'e': e, 'h': hol, 'via': via}
            if hol and via == 'formula' and rng.random() < 0.5:
                rc2['ov_rows'] = sorted(rng.sample(range(len(hol)), rng.randint(1, len(hol))))
            out.append(rc2)
        else:
            y = rng.choice([1, 4, 100, 400, 1899, 1900, 2000, 2024, 2100, 9999, rng.randint(1, 9999)])
            m = rng.randint(1, 12)
            out.append({'kind': 'cal', 'y': y, 'm': m, 'd': rng.randint(1, calendar.monthrange(y, m)[1])})
    return out


def corpus():
    rs = [{'kind': 'date', 'y': 2023, 'm': 2, 'd': 30, 'via': 'literal'}, {'kind': 'date', 'y': 2023, 'm': 14, 'd': 31, 'via': 'literal'}, {'kind': 'date', 'y': 2024, 'm': 4, 'd': 31, 'via': 'literal'},
          {'kind': 'date', 'y': 2022, 'm': 5, 'd': -2, 'via': 'direct'}, {'kind': 'date', 'y': 2022, 'm': 5, 'd': -2, 'via': 'formula'},
          {'kind': 'date', 'y': 2021, 'm': 14, 'd': 31, 'via': 'direct'}, {'kind': 'date', 'y': 2020, 'm': 0, 'd': 0, 'via': 'direct'},
          {'kind': 'date', 'y': 2020, 'm': -13, 'd': 400, 'via': 'direct'}, {'kind': 'date', 'y': 9999, 'm': 12, 'd': 32, 'via': 'direct'},
          {'kind': 'datedif', 's': D(2019, 12, 25), 'e': D(2020, 12, 10), 'mode': 'YM', 'via': 'direct'},
          {'kind': 'eomonth', 's': D(2023, 11, 30), 'm': 3, 'via': 'direct'}, {'kind': 'eomonth', 's': D(2024, 12, 31), 'm': 2, 'via': 'formula'},
          {'kind': 'edate', 's': D(2024, 1, 31), 'm': 1, 'via': 'direct'}, {'kind': 'edate', 's': D(2023, 1, 31), 'm': 1, 'via': 'formula'},
          {'kind': 'netdays', 's': D(2023, 5, 31), 'e': D(2023, 4, 1), 'h': [[D(2023, 5, 1)], [D(2023, 5, 9)]], 'via': 'direct'},
          {'kind': 'netdays', 's': D(2023, 4, 1), 'e': D(2023, 5, 31), 'h': [[D(2023, 5, 1)], [D(2023, 5, 9)]], 'via': 'formula'}]
    rs += [x['witness'] for x in C.known_findings()['findings'] if x['property'] == 'C15']
    return rs


def today_check(R):
    """TODAY is the current local date at midnight: the clock is an oracle, read before and after."""
    rt = I.runtime()
    before = dt.date.today()
    got = I.eval_formula('=TODAY()', {}, addr='B2')
    after = dt.date.today()
    R.count(('today',), True)
    ok = got[0] == 'ok' and isinstance(got[1], dt.datetime) and got[1].time() == dt.time(0, 0) and before <= got[1].date() <= after
    if not ok:
        R.violation('TODAY() is not the current local date at midnight: %r (clock read %s .. %s)' % (got, before, after),
                    {'recipe': {'kind': 'today'}, 'input_found': True})


def today_follows_the_clock(R):
    """TODAY on a LONG-LIVED executor: the generated module's clock (datetime.date.today / datetime.datetime.now) is replaced by a
    controlled one and moved between queries of one executor; every query must show the date of the clock at that moment."""
    import types
    NOW = [dt.date(2024, 2, 28)]

    class _M(type):
        def __instancecheck__(cls, inst):
            return isinstance(inst, cls.__mro__[1])

    class FDate(dt.date, metaclass=_M):
        @classmethod
        def today(cls):
            return dt.date(NOW[0].year, NOW[0].month, NOW[0].day)

    class FDateTime(dt.datetime, metaclass=_M):
        @classmethod
        def now(cls, tz=None):
            return dt.datetime(NOW[0].year, NOW[0].month, NOW[0].day, 13, 14, 15)

        @classmethod
        def today(cls):
            return cls.now()

        @classmethod
        def utcnow(cls):
            return cls.now()
    fake = types.ModuleType('datetime')
    fake.__dict__.update({k: v for k, v in dt.__dict__.items() if not k.startswith('__')})
    fake.date, fake.datetime = FDate, FDateTime
    src, _ = I.translate([('S', {'A1': dt.datetime(2024, 1, 1), 'B2': '=TODAY()', 'B3': '=DAY(TODAY())', 'B4': '=EOMONTH(TODAY(),0)', 'B5': '=YEAR(TODAY())+MONTH(TODAY())'})])
    ns = {}
    exec(compile(src, '<generated>', 'exec'), ns)
    if 'datetime' not in ns or not isinstance(ns['datetime'], types.ModuleType):
        return
    ns['datetime'] = fake
    e = I.executor(ns['ExcelInPython'])
    steps = [dt.date(2024, 2, 28), dt.date(2024, 2, 29), dt.date(2024, 3, 1), dt.date(2024, 12, 31), dt.date(2025, 1, 1), dt.date(2100, 2, 28), dt.date(2100, 3, 1)]
    for k, d in enumerate(steps):
        NOW[0] = d
        if k == 4:
            e.set_cells([I.Cell(0, 0, 0, dt.datetime(2024, 1, 2))])        # an unrelated override in the middle of the history
        last = (d.replace(day=28) + dt.timedelta(days=4)).replace(day=1) - dt.timedelta(days=1)
        want = {1: ('ok', dt.datetime(d.year, d.month, d.day)), 2: ('ok', d.day), 3: ('ok', dt.datetime(last.year, last.month, last.day)), 4: ('ok', d.year + d.month)}
        for r, w in want.items():
            got = I.outcome(lambda: e.get_cell(I.Cell(0, 1, r)).value)
            if k == 0 and r == 1 and got != w and got[0] == 'ok' and isinstance(got[1], dt.datetime) and got[1].date() == dt.date.today():
                return                                   # the class reads the clock in a way this harness cannot steer: not covered
            R.count(('today_clock', k, r), True)
            if got != w:
                R.violation('TODAY on a long-lived executor does not follow the clock: with the local date %s (query %d of one executor) cell B%d evaluates to %r, expected %r'
                            % (d, k + 1, r + 1, got, w), {'recipe': {'kind': 'today_clock'}, 'input_found': True})
                return


def reused_cells_history(R):
    """Date functions on ONE executor fed through set_cells with the SAME Cell objects, whose values the caller changes between the
    calls (the usual what-if loop): every answer must be that of the values supplied last."""
    src, _ = I.translate([('S', {'A1': 2020, 'B1': 1, 'C1': 15, 'D1': '=DATE(A1,B1,C1)', 'D2': '=EDATE(D1,1)', 'D3': '=EOMONTH(D1,0)', 'D4': '=YEAR(D1)*100+MONTH(D1)'})])
    e = I.executor(I.load(src))
    a, b, c = I.Cell(0, 0, 0, 2020), I.Cell(0, 1, 0, 1), I.Cell(0, 2, 0, 15)
    import calendar
    for k, (y, m, d) in enumerate([(2021, 3, 31), (2024, 1, 31), (1999, 12, 1), (2024, 2, 29), (2100, 2, 28), (2023, 11, 30)]):
        a.value, b.value, c.value = y, m, d
        e.set_cells([a, b, c])
        ny, nm = (y, m + 1) if m < 12 else (y + 1, 1)
        want = {0: dt.datetime(y, m, d), 1: dt.datetime(ny, nm, min(d, calendar.monthrange(ny, nm)[1])),
                2: dt.datetime(y, m, calendar.monthrange(y, m)[1]), 3: y * 100 + m}
        for r, w in want.items():
            R.count(('reused_cells', k, r), True)
            got = I.outcome(lambda: e.get_cell(I.Cell(0, 3, r)).value)
            if got != ('ok', w):
                R.violation('one executor, set_cells called again with the same Cell objects carrying new values (%d, %d, %d): cell D%d evaluates to %r, expected %r'
                            % (y, m, d, r + 1, got, w), {'recipe': {'kind': 'reused_cells'}, 'input_found': True})
                return


def run(R, tier):
    R.coverage['rule'] = ('(y,m,d) with m in -14..26 and d in -800..800 over leap/century/boundary years; date pairs in 1900-2100; month offsets '
                          '-60..60 (and fractional); holiday subsets; direct helper calls and formulas; plus datetime/calendar library facts for the '
                          'calendar model; non-trivial = month outside 1..12 or day outside 1..28, or any two-date case; distinct by recipe')
    C.proof_obligations(R, 'theories/Props/C15.v', 'Props.C15', TARGETS)
    if any('Coq build failed' in b for b in R.broken):
        return
    n = 500 if tier == 'quick' else 8000
    recipes = corpus() + gen_recipes(R.rng, n)
    cases = [make_case(rc) for rc in recipes]
    for c in cases[:2] + cases[-3:]:
        R.sample({'recipe': c['recipe']})
    dist = {}
    for c in cases:
        dist[c['recipe']['kind']] = dist.get(c['recipe']['kind'], 0) + 1
    R.extra['input_distribution'] = dist
    C.correspond(R, HEADER, 'report', cases, 'c15', '_date/_year/_month/_day/_edate/_eomonth/_datedif/_network_days and their translators')
    today_check(R)
    today_follows_the_clock(R)
    reused_cells_history(R)
    R.assumptions += ['the system clock is an oracle for TODAY (read before and after the call)',
                      'datetime/calendar/dateutil are modelled; their agreement with Base/Calendar.v is part of the correspondence (CCal cases)']


def replay(R, rp):
    rc = rp.get('recipe') or (rp.get('examples') or [None])[0]
    if rc is not None and rc.get('kind') in ('today_clock', 'reused_cells'):
        today_follows_the_clock(R) if rc['kind'] == 'today_clock' else reused_cells_history(R)
        for w, _ in R.violations:
            print(w)
        return 1 if R.violations else 0
    if rc is None or rc.get('kind') == 'today':
        print('nothing to replay in Coq: ' + str(rp.get('what')))
        return 1
    C.build(TARGETS)
    c = make_case(rc)
    rows = C.eval_report(HEADER, [c['coq']], 'report', 'c15_replay')
    print('recipe:', rc, '\ncoq case:', c['coq'], '\nrow (model=impl spec=model spec=impl class):', rows[0])
    return 0 if rows[0].split()[0] == '1' and rows[0].split()[1] != '0' else 1
