"""C16 — rounding and percent are decimal-exact."""
from x2p import common as C
from x2p import impl as I

HEADER = ('Require Import X2P.Base.Prelude X2P.Spec.Round X2P.Corr.C16.\nOpen Scope Z_scope.\n')
TARGETS = ['theories/Props/C16.vo', 'theories/Corr/C16.vo']
FN = {'ROUND': 'FRound', 'ROUNDUP': 'FUp', 'ROUNDDOWN': 'FDown', 'PERCENT': 'FPercent'}


def dec_str(neg, mant, scale):
    s = str(mant).rjust(scale + 1, '0')
    s = (s[:-scale] + '.' + s[-scale:]) if scale else s
    return ('-' if neg else '') + s


def number_of(neg, mant, scale, as_int):
    if scale == 0 and as_int:
        return -mant if neg else mant
    return float(dec_str(neg, mant, scale))


def literal_faithful(mant, scale):
    """The formula literal is rebuilt as int(I) + float('0.F'); usable only when that equals the nearest double."""
    s = dec_str(False, mant, scale)
    if scale == 0:
        return True
    i, f = s.split('.')
    return int(i) + float('0.' + f) == float(s)


def make_case(rc):
    rt = I.runtime()
    neg, mant, scale, n, fn, via = rc['neg'], rc['mant'], rc['scale'], rc['n'], rc['fn'], rc['via']
    x = number_of(neg, mant, scale, rc.get('as_int', True) or via == 'literal')
    if fn == 'PERCENT':
        if via == 'cell':
            out = I.eval_formula('=A1%', {'A1': x}, addr='H9')
        elif via == 'override':
            out = I.eval_formula('=A1%', {'A1': 1}, addr='H9', overrides=[I.Cell(0, 0, 0, x)])
        elif via == 'override_far':
            out = I.eval_formula('=K20%', {'A1': 1}, addr='H9', overrides=[I.Cell(0, 10, 19, x)])
        else:
            out = I.eval_formula('=%s%%' % dec_str(False, mant, scale), {}, addr='H9')
    else:
        if via == 'direct':
            out = I.outcome(lambda: getattr(rt, '_' + fn.lower())(x, n))
        elif via == 'cell':
            out = I.eval_formula('=%s(A1,B1)' % fn, {'A1': x, 'B1': n}, addr='H9')
        elif via == 'override':
            out = I.eval_formula('=%s(A1,B1)' % fn, {'A1': 1, 'B1': 0}, addr='H9', overrides=[I.Cell(0, 0, 0, x), I.Cell(0, 1, 0, n)], split=mant % 2 == 0)
        elif via == 'override_far':     # the operands are blank cells BEYOND the used range of the sheet; the overrides put values there
            out = I.eval_formula('=%s(K20,L21)' % fn, {'A1': 1}, addr='H9', overrides=[I.Cell(0, 10, 19, x), I.Cell(0, 11, 20, n)])
        else:   # literal number and literal digit count, either of them possibly written with a minus sign
            out = I.eval_formula('=%s(%s%s,%d)' % (fn, '-' if neg else '', dec_str(False, mant, scale), n), {}, addr='H9')
    coq = 'CR %s {| dneg := %s; dmant := %s; dscale := %s |} %s %s %s' % (
        FN[fn], C.cbool(neg), C.cz(mant), C.cz(scale), C.cval(x), C.cz(n), C.cres(out))
    nt = scale > 0 or n < 0
    return {'recipe': rc, 'coq': coq, 'key': rc, 'nontrivial': nt}


IPARTS = [0, 1, 2, 7, 12, 99, 100, 1234]


def gen_recipes(rng, n):
    out = []
    for _ in range(n):
        scale = rng.choice([0, 1, 2, 2, 3, 3, 4, 4])
        ip = rng.choice(IPARTS)
        frac = rng.randint(0, 10 ** scale - 1) if scale else 0
        if scale and rng.random() < 0.35:      # tie-shaped: ...5 at the last digit
            frac = frac - frac % 10 + 5
        mant = ip * 10 ** scale + frac
        neg = rng.random() < 0.35 and mant != 0
        fn = rng.choice(['ROUND', 'ROUND', 'ROUNDUP', 'ROUNDDOWN', 'PERCENT'])
        nd = rng.randint(-3, 6)
        via = rng.choice(['direct', 'direct', 'cell', 'override', 'override_far', 'literal'])
        if fn == 'PERCENT' and via == 'direct':
            via = 'cell'
        if via == 'literal' and ((fn == 'PERCENT' and neg) or not literal_faithful(mant, scale)):      # -x% is C01's business (sign scope)
            via = 'cell'
        out.append({'neg': neg, 'mant': mant, 'scale': scale, 'n': nd if fn != 'PERCENT' else 0, 'fn': fn, 'via': via,
                    'as_int': rng.random() < 0.7})
    # random extension: up to 15 significant digits
    for _ in range(n // 5):
        digits = rng.randint(5, 15)
        scale = rng.randint(0, min(digits, 10))
        mant = rng.randint(10 ** (digits - 1), 10 ** digits - 1)
        fn = rng.choice(['ROUND', 'ROUNDUP', 'ROUNDDOWN', 'PERCENT'])
        out.append({'neg': rng.random() < 0.3, 'mant': mant, 'scale': scale, 'n': rng.randint(-3, 6) if fn != 'PERCENT' else 0,
                    'fn': fn, 'via': 'direct' if fn != 'PERCENT' else 'cell', 'as_int': True})
    # percent of numbers below 100 with 11-18 decimal places (results below 1 whose 15 significant digits reach far behind the point)
    for _ in range(n // 6):
        digits = rng.randint(1, 15)
        scale = rng.randint(max(11, digits), 18)
        mant = rng.randint(10 ** (digits - 1), 10 ** digits - 1)
        out.append({'neg': rng.random() < 0.3, 'mant': mant, 'scale': scale, 'n': 0, 'fn': 'PERCENT', 'via': rng.choice(['cell', 'override']), 'as_int': True})
    return out


def corpus():
    mk = lambda neg, mant, scale, n, fn, via='direct': {'neg': neg, 'mant': mant, 'scale': scale, 'n': n, 'fn': fn, 'via': via, 'as_int': True}
    rs = [mk(False, 12345678, 4, -2, 'ROUND', 'literal'), mk(False, 12345678, 4, -1, 'ROUNDUP', 'literal'), mk(True, 19995, 1, -3, 'ROUNDDOWN', 'literal'),
          mk(False, 123456789012345, 14, 0, 'PERCENT', 'cell'), mk(False, 625, 16, 0, 'PERCENT', 'cell'), mk(False, 1234, 0, -2, 'ROUND'), mk(False, 987, 0, -3, 'ROUND'), mk(False, 105, 2, 1, 'ROUND', 'literal'),
          mk(False, 30005, 4, 3, 'ROUNDUP', 'literal'), mk(False, 100625, 4, 2, 'ROUNDDOWN', 'literal'), mk(False, 105, 2, 0, 'PERCENT', 'literal'),
          mk(False, 7, 0, 0, 'PERCENT', 'cell'), mk(False, 2675, 3, 2, 'ROUND'), mk(True, 115, 2, 1, 'ROUNDDOWN'),
          mk(False, 7, 2, 2, 'ROUNDUP'), mk(False, 29, 2, 2, 'ROUNDDOWN'), mk(False, 123456, 2, 1, 'ROUND', 'cell'),
          mk(False, 5, 0, 0, 'ROUNDUP'), mk(False, 5, 1, 0, 'ROUND')]
    rs += [x['witness'] for x in C.known_findings()['findings'] if x['property'] == 'C16']
    return rs


def run(R, tier):
    R.coverage['rule'] = ('decimals sign x integer part in {0,1,2,7,12,99,100,1234} x up to 4 fractional digits (35% tie-shaped) x digit counts '
                          '-3..6, plus random decimals of 5-15 significant digits; supplied as direct helper arguments, cells, overrides and literals; '
                          'non-trivial = has fractional digits or a negative digit count; distinct by recipe')
    C.proof_obligations(R, 'theories/Props/C16.v', 'Props.C16', TARGETS)
    if any('Coq build failed' in b for b in R.broken):
        return
    n = 800 if tier == 'quick' else 12000
    recipes = corpus() + gen_recipes(R.rng, n)
    cases = [make_case(rc) for rc in recipes]
    for c in cases[:2] + cases[-3:]:
        R.sample({'recipe': c['recipe']})
    dist = {}
    for c in cases:
        key = c['recipe']['fn'] + '/' + c['recipe']['via']
        dist[key] = dist.get(key, 0) + 1
    R.extra['input_distribution'] = dist
    C.correspond(R, HEADER, 'report', cases, 'c16', '_round/_roundup/_rounddown/_normalize_float_number, the % emission and the numeric literal rebuild')
    R.assumptions += ['binary64 arithmetic of the kernel (PrimFloat) is the same IEEE arithmetic CPython uses',
                      'the literal route is exercised only for literals whose rebuild int(I)+float(0.F) equals the nearest double (C01 covers the rest)']


def replay(R, rp):
    rc = rp.get('recipe') or (rp.get('examples') or [None])[0]
    if rc is None:
        print('nothing to replay: ' + str(rp.get('broken')))
        return 1
    C.build(TARGETS)
    c = make_case(rc)
    rows = C.eval_report(HEADER, [c['coq']], 'report', 'c16_replay')
    print('recipe:', rc, '\ncoq case:', c['coq'], '\nrow (model=impl spec=model spec=impl class):', rows[0])
    return 0 if rows[0].split()[0] == '1' and rows[0].split()[1] != '0' else 1
