"""Shared harness for the Executor state machine (C04, C08)."""
import copy

from x2p import common as C
from x2p import impl as I

HEADER = ('Require Import X2P.Base.Prelude X2P.Model.Executor X2P.Corr.Exec.\nOpen Scope Z_scope.\n')
TITLES = ['Main', 'Other', '0']          # the third title is a number that is not the sheet's own position: a NAME, not an index
COLS = 'ABCDEFGH'


def empty():
    return I.runtime().EmptyCell()


def gen_workbook(rng):
    s0 = {'A1': rng.randint(1, 9), 'A2': rng.randint(1, 9), 'A3': rng.choice([2.5, 7, 'txt']), 'B1': '=A1+A2', 'B2': '=B1*2',
          'B3': '=SUM(A1:A3)', 'C1': '=IF(A1>3,B2,A2)', 'C2': '=1/0' if rng.random() < 0.5 else '=A1/A2', 'C3': '=A1&"x"'}
    if rng.random() < 0.5:
        s0['D2'] = '=Other!A1+B2'
    if rng.random() < 0.6:
        s0['D1'] = '=B2/0'                      # a query that fails AFTER evaluating other formula cells on the way
    if rng.random() < 0.5:
        # helpers whose answer could depend on what was evaluated before (VALUE tries several date notations in order)
        s0.update({'D3': '12/31/2023', 'D4': '01/02/2023', 'C4': '=VALUE(D3)', 'B4': '=VALUE(D4)', 'A4': '=B4+1'})
    for k in rng.sample(list(s0), rng.randint(0, 3)):
        if k not in ('A1', 'A2'):
            del s0[k]
    s1 = {'A1': rng.randint(1, 9), 'B2': '=A1*3', 'C3': '=Main!A1+A1'}
    if rng.random() < 0.6:
        # "mirror" cells (a formula that is nothing but a reference) and readers of mirrors: an override of the mirror must reach its readers
        s1.update({'A2': '=Main!A1', 'A3': '=A2+1', 'B1': '=A2', 'B3': '=B1*2+SUM(A2:A3)'})
    s1.update({'C1': 'name', 'C2': '=C1&A1', 'D3': '=C1&"-"&C1'})
    s2 = {'A1': 70 + rng.randint(1, 9), 'B2': "=A1+'0'!A1+Main!A1"}
    return [['Main', s0], ['Other', s1], ['0', s2]]


def gen_addr(rng, wide=True):
    """an address as (title, column, row) in one of the spellings Cell accepts; returns (spelling, kind)"""
    t = rng.randrange(2) if rng.random() < 0.8 else 2
    c = rng.randrange(4 if not wide or rng.random() < 0.8 else 8)
    r = rng.randrange(4 if not wide or rng.random() < 0.8 else 9)
    style = rng.random()
    if style < 0.45:
        return [t, c, r]
    if style < 0.85:
        return [TITLES[t], COLS[c] if rng.random() < 0.85 else COLS[c].lower(), str(r + 1)]
    if style < 0.93:
        return [t, COLS[c], r]            # mixed: letters with a numeric row
    return rng.choice([['Nope', 'A', '1'], [0, 'A1', 0], [TITLES[t], COLS[c], ''], [5, 0, 0], [0, 'AAAA', '2'], [TITLES[t], COLS[c], 'x']])


def gen_value(rng):
    return rng.choice([0, 1, 5, -3, 12, 2.5, 0.5, 'hello', '', True, False, 100, 1 / 3, 2 / 3, 0.1 + 0.2, 1234.567890123456, 0.9000000000000001])


def gen_ops(rng, n, writes=True):
    ops = []
    if rng.random() < 0.12:
        # directed prefix: the same coordinate on the three sheets one after the other (the values differ: the caller's query cell is
        # re-pointed from sheet to sheet)
        col, row = rng.choice([(0, 0), (1, 1)])
        order = [0, 1, 2]
        rng.shuffle(order)
        ops += [['get', [t, col, row]] for t in order]
    elif rng.random() < 0.35:
        # directed prefix: a failing query (D1), then an edit of an input, then a query of a cell evaluated during the failure;
        # or the two VALUE cells in either order
        if rng.random() < 0.6:
            ops.append(['get', rng.choice([[0, 3, 0], ['Main', 'D', '1']])])
            if writes:
                ops.append(['set', [[[0, 0, rng.randrange(2)], rng.choice([5, 7, 12])]]])
            ops.append(['get', [0, 1, rng.randrange(3)]])
        elif rng.random() < 0.25 and writes:
            ops += [['get', [1, 2, 1]], ['set', [[[1, 2, 0], rng.choice([5, 2.5, True])]]], ['get', [1, 2, 1]], ['get', [1, 3, 2]], ['set', [[[1, 2, 0], 'again']]], ['get', [1, 2, 1]]]
        elif rng.random() < 0.35 and writes:
            v1, v2 = rng.choice([(1, True), (True, 1), (0, False), (False, 0), (1, 1.0), (2.0, 2), (0.0, 0)])
            ops += [['set', [[[0, 0, 0], v1]]], ['get', [0, 1, rng.randrange(3)]], ['set', [[[0, 0, 0], v2]]], ['get', [0, 0, 0]], ['get', [0, 2, 2]], ['many', [[0, 0, 0], [0, 1, 0]]]]
        elif rng.random() < 0.5 and writes:
            ops += [['set', [[[1, 0, 1], rng.choice([50, 0, 'txt'])]]], ['get', [1, 0, 2]], ['get', [1, 1, 2]], ['set', [[[0, 0, 0], 9]]], ['get', [1, 1, 2]], ['get', [1, 1, 0]]]
        else:
            pair = [[0, 2, 3], [0, 1, 3]]
            rng.shuffle(pair)
            ops += [['get', pair[0]], ['get', pair[1]], ['get', [0, 0, 3]]]
    for _ in range(n):
        r = rng.random()
        if writes and r < 0.4:
            ops.append(['set', [[gen_addr(rng), C.jenc(gen_value(rng))] for _ in range(rng.randint(1, 3))]])
        elif r < 0.75:
            ops.append(['get', gen_addr(rng)])
        elif r < 0.9:
            ops.append(['many', [gen_addr(rng) for _ in range(rng.randint(0, 3))]])
        else:
            ops.append(['sheet', rng.choice([0, 1, 'Main', 'Other', 'Nope', 2, '0', 3])])
    return ops


def mkcell(a, value=None):
    return I.Cell(a[0], a[1], a[2], value) if value is not None else I.Cell(a[0], a[1], a[2])


def snapshot(ex):
    cells = [(c.uid, c.value) for c in ex._cells]
    args = list(ex._executed_instance._arguments.items())
    sizes = [(d['last_row'], d['last_column']) for d in ex._sheets_size]
    return cells, args, sizes


def run_history(cls, ops, reuse=True):
    """Runs the ops on a fresh real Executor.  Returns (observations, values) where observations is a list of
    (('exc', name) | ('done', [uids]), snapshot) and values a list of per-op lists of evaluated (uid, outcome)."""
    ex = I.executor(cls)
    # the class is abstract in the model: an exception raised while EVALUATING a cell is recorded as that cell's outcome
    inst = ex._executed_instance
    real_exec = inst.exec_function_in

    class Raised:
        def __init__(self, name):
            self.name = name

    def guarded(uid):
        try:
            return real_exec(uid)
        except RecursionError:
            return Raised('RecursionError')
        except Exception as e:  # noqa
            return Raised(type(e).__name__)
    inst.exec_function_in = guarded

    def outc(v):
        return ('exc', v.name) if isinstance(v, Raised) else ('ok', v)
    obs, vals = [], []
    held_get = {}
    held = {}          # the caller's own Cell objects, reused (with a new value) when the same spelling is written again

    undo = []

    def own_cell(a, v):
        k = repr(a)
        if reuse and k in held:
            undo.append((held[k], held[k].value))
            held[k].value = v
            return held[k]
        return mkcell(a, v)
    for op in ops:
        kind = op[0]
        try:
            if kind == 'set':
                del undo[:]
                batch = [own_cell(a, C.jdec(v)) for a, v in op[1]]
                try:
                    ex.set_cells(batch)
                except Exception:
                    for c_, old in undo:          # the call failed: the caller's objects keep the values they had
                        c_.value = old
                    raise
                for (a, _), c_ in zip(op[1], batch):
                    held[repr(a)] = c_               # kept by the caller after a successful call
                o, v = ('done', []), []
            elif kind == 'get':
                a_ = op[1]
                if reuse and all(isinstance(x, int) for x in a_) and (a_[1], a_[2]) in held_get:
                    qc = held_get[(a_[1], a_[2])]          # the caller's own query cell, pointed at another sheet
                    qc.title = a_[0]
                else:
                    qc = mkcell(a_)
                    if all(isinstance(x, int) for x in a_):
                        held_get[(a_[1], a_[2])] = qc
                c = ex.get_cell(qc)
                # the value is filed under the cell that was ASKED for (a numeric address names it outright), not under whatever the
                # returned object calls itself: an answer taken from another cell must not pass as that cell's value
                asked = '_%d_%d_%d' % tuple(a_) if all(isinstance(x, int) and x >= 0 for x in a_) else c.uid
                o, v = ('done', [c.uid]), [(asked, outc(c.value))]
            elif kind == 'many':
                cs = ex.get_cells([mkcell(a) for a in op[1]])
                o, v = ('done', [c.uid for c in cs]), [(c.uid, outc(c.value)) for c in cs]
            else:
                grid = ex.get_sheet(op[1])
                flat = [c for row in grid for c in row]
                o, v = ('done', [c.uid for c in flat]), [(c.uid, outc(c.value)) for c in flat]
                v.append(('__shape__', [len(row) for row in grid]))
        except RecursionError:
            o, v = ('exc', 'RecursionError'), []
        except Exception as e:  # noqa
            o, v = ('exc', type(e).__name__), []
        obs.append((o, snapshot(ex)))
        vals.append(v)
    return obs, vals


# ---------------------------------------------------------------- Coq encoding
def caddr(a):
    t = 'TIdx %s' % C.cz(a[0]) if isinstance(a[0], int) else 'TName %s' % C.cstr(a[0])
    c = 'CIdx %s' % C.cz(a[1]) if isinstance(a[1], int) else 'CLetters %s' % C.cstr(a[1])
    r = 'RNone' if a[2] is None else ('RIdx %s' % C.cz(a[2]) if isinstance(a[2], int) else 'RDigits %s' % C.cstr(a[2]))
    return '{| a_t := %s; a_c := %s; a_r := %s |}' % (t, c, r)


def cop(op):
    k = op[0]
    if k == 'set':
        return 'SetCells %s' % C.clist(['(%s, %s)' % (caddr(a), C.cval(C.jdec(v))) for a, v in op[1]])
    if k == 'get':
        return 'Get %s' % caddr(op[1])
    if k == 'many':
        return 'GetMany %s' % C.clist([caddr(a) for a in op[1]])
    return 'GetSheet (%s)' % ('TIdx %s' % C.cz(op[1]) if isinstance(op[1], int) else 'TName %s' % C.cstr(op[1]))


def cdict(items):
    return C.clist(['(%s, %s)' % (C.cstr(k), C.cval(v)) for k, v in items])


def cobs(o, snap):
    cells, args, sizes = snap
    io = '(IExc %s)' % C.cexn(o[1]) if o[0] == 'exc' else '(IDone %s)' % C.clist([C.cstr(u) for u in o[1]])
    return '(%s, {| sn_cells := %s; sn_args := %s; sn_sizes := %s |})' % (
        io, cdict(cells), cdict(args), C.clist(['(%s, %s)' % (C.cz(a), C.cz(b)) for a, b in sizes]))


def coq_case(sheets, ops, obs, oracle_ok):
    ex = I.mkexcel([(t, cells) for t, cells in sheets])
    ts = C.clist(['(%s, %s)' % (C.cstr(t), C.cz(i)) for t, i in ex.get_titles().items()])
    sizes = C.clist(['(%s, %s)' % (C.cz(d['last_row']), C.cz(d['last_column'])) for d in ex.get_sheets_size()])
    return 'CE %s %s %s %s %s' % (ts, sizes, C.clist([cop(o) for o in ops]), C.clist([cobs(o, s) for o, s in obs]), C.cbool(oracle_ok))


def canon(v):
    kind, val = v
    if kind == 'exc':
        return ('exc', val)
    return ('ok', type(val).__name__, repr(val))


def build_class(sheets):
    return I.build([(t, dict(cells)) for t, cells in sheets])


def uid_to_addr(u):
    t, c, r = u[1:].split('_')
    return int(t), int(c), int(r)


def last_write_map(cls, ops):
    """the abstract spec computed independently of the Executor: uid -> most recent value (failed batches write nothing)"""
    titles = cls().get_titles()
    nsheets = len(cls().get_sheets_size())
    m = {}
    for op in ops:
        if op[0] != 'set':
            continue
        batch, ok = [], True
        for a, v in op[1]:
            try:
                c = mkcell(a, C.jdec(v))
                I.__dict__  # noqa
                from excel2pycl.src.handle_cell import handle_cell
                handle_cell(c, titles)
                if not isinstance(c.title, int) or not (-nsheets <= c.title < nsheets) or c.row is None:
                    ok = False
                    break
                if not isinstance(c.row, int) or not isinstance(c.column, int):
                    ok = False
                    break
                batch.append((c.uid, C.jdec(v)))
            except Exception:  # noqa
                ok = False
                break
        if ok:
            for u, v in batch:
                m[u] = v
        # a failing batch leaves the override map unchanged
    return m
