"""C08 — evaluation is pure and repeatable; all query APIs agree."""
from x2p import common as C
from x2p import impl as I
from props import exec_common as E

TARGETS = ['theories/Props/C08.vo', 'theories/Corr/Exec.vo']


def oracle(sheets, cls, ops, obs, vals, src=None):
    """Relational checks on the implementation:
       (1) every value returned for a uid equals the value a FRESH executor (same class, same overrides applied in one batch,
           single numeric query, nothing queried before) returns;
       (2) queries do not change overrides nor sizes;
       (3) the whole-sheet grid has exactly last_row x last_column entries."""
    done = []
    prev = ([], None, None)
    for i, op in enumerate(ops):
        done.append(op)
        o, (cells, args, sizes) = obs[i]
        if op[0] != 'set':
            if i > 0:
                pc, pa, ps = obs[i - 1][1]
                if cells != pc:
                    return 'operation %d (%s) changed the overrides' % (i + 1, op[0])
                if sizes != ps:
                    return 'operation %d (%s) changed the reported sheet sizes from %r to %r' % (i + 1, op[0], ps, sizes)
            else:
                base = [(d['last_row'], d['last_column']) for d in cls().get_sheets_size()]
                if sizes != base:
                    return 'operation %d (%s) changed the reported sheet sizes from %r to %r' % (i + 1, op[0], base, sizes)
        if op[0] == 'set' or not vals[i]:
            continue
        m = E.last_write_map(cls, done)
        fresh = I.executor(cls)
        if m:
            fresh.set_cells([I.Cell(*E.uid_to_addr(u), v) for u, v in m.items()])
        # the reference executor runs on a FRESHLY LOADED class (state kept on the class object would be shared otherwise); for a
        # whole-sheet query one fresh class answers all cells, asked in the reverse order
        whole = op[0] == 'sheet'
        shared = None
        seq = list(reversed(vals[i])) if whole else vals[i]
        for u, got in seq:
            if u == '__shape__':
                t = op[1] if isinstance(op[1], int) else fresh._titles[op[1]]
                lr, lc = sizes[t]
                if got != [lc] * lr:
                    return 'get_sheet returned rows of lengths %r for sizes last_row=%d last_column=%d' % (got, lr, lc)
                continue
            if 'any' in u:
                continue
            t, c, r = E.uid_to_addr(u)
            if whole and shared is not None:
                fr = shared
            else:
                fr = I.executor(I.load(src) if src is not None else cls)
                if m:
                    fr.set_cells([I.Cell(*E.uid_to_addr(k), v) for k, v in m.items()])
                shared = fr
            exp = I.outcome(lambda: fr.get_cell(I.Cell(t, c, r)).value)
            if E.canon(got) != E.canon(exp):
                return 'after %d operation(s) the query of %s returned %r; a fresh executor with the same overrides returns %r' % (
                    i + 1, u, E.canon(got), E.canon(exp))
    return None


def make_case(rc):
    sheets, ops = rc['sheets'], rc['ops']
    src, _ = I.translate([(t, dict(cells)) for t, cells in sheets])
    cls = I.load(src)
    obs, vals = E.run_history(cls, ops)
    fail = oracle(sheets, cls, ops, obs, vals, src)
    kinds = {o[0] for o in ops if o[0] != 'set'}
    return {'recipe': rc, 'coq': E.coq_case(sheets, ops, obs, fail is None), 'key': rc, 'nontrivial': len(kinds) >= 2, 'oracle_fail': fail}


def corpus():
    base = [['Main', {'A1': 1, 'A2': 2, 'A3': 3, 'B1': '=A1+A2', 'B2': '=B1*2', 'C3': '=A1&"x"', 'B3': '=SUM(A1:A3)'}], ['Other', {'A1': 4, 'B2': '=A1*3'}]]
    return [
        {'sheets': base, 'ops': [['get', [0, 5, 6]], ['sheet', 0], ['get', ['Main', 'H', '9']], ['sheet', 'Main']]},           # queries outside the used range
        {'sheets': base, 'ops': [['get', [0, 3, 0]], ['get', [0, 0, 1]], ['get', [0, 3, 0]], ['many', [[0, 0, 1], [0, 3, 0], [0, 4, 0]]]]},
        {'sheets': base, 'ops': [['sheet', 1], ['get', [1, 1, 1]], ['get', ['Other', 'b', '2']], ['sheet', 'Other'], ['many', []]]},
        {'sheets': base, 'ops': [['set', [[[0, 0, 0], 10]]], ['get', [0, 1, 1]], ['sheet', 0], ['get', [0, 1, 1]], ['many', [[0, 1, 1], ['Main', 'B', '2']]]]},
        {'sheets': base, 'ops': [['get', [0, 1, 1]], ['set', [[[0, 7, 8], 1]]], ['sheet', 0], ['get', [0, 7, 8]], ['get', [0, 8, 9]], ['sheet', 0]]},
    ]


def run(R, tier):
    R.coverage['rule'] = ('interleavings of get_cell / get_cells / get_sheet with numeric, A1-style, lower-case, mixed and invalid addressing, inside and '
                          'outside the used range, with and without override batches, re-using one Executor; non-trivial = >= 2 different query '
                          'APIs in the schedule; every returned value is compared with a fresh executor (history independence), overrides and sizes '
                          'are compared before/after each query, grid shapes with the sizes')
    C.proof_obligations(R, 'theories/Props/C08.v', 'Props.C08', TARGETS)
    if any('Coq build failed' in b for b in R.broken):
        return
    n = 150 if tier == 'quick' else 2000
    recipes = corpus()
    while len(recipes) < n:
        with_sets = R.rng.random() < 0.5
        ops = E.gen_ops(R.rng, R.rng.randint(3, 10), writes=with_sets)
        recipes.append({'sheets': E.gen_workbook(R.rng), 'ops': ops})
    cases = [make_case(rc) for rc in recipes]
    for c in cases[:2] + cases[-2:]:
        R.sample({'ops': c['recipe']['ops']})
    R.coverage['traces_validated_against_impl'] = len(cases)
    C.correspond(R, E.HEADER, 'report', cases, 'c08', 'Executor query APIs (get_cell/get_cells/get_sheet), handle_cell, sizes bookkeeping')
    pipeline_sizes(R)
    R.assumptions += ['TODAY()-containing workbooks are excluded; the generated class is abstract in the Coq model and its purity is checked on the implementation']


def pipeline_sizes(R):
    """Through the real pipeline (xlsx file -> Parser -> Executor): the whole-sheet query has exactly one entry per coordinate of the used
    range - rows and columns that hold only 0 / FALSE at the end included - and agrees entry by entry with the single-cell query."""
    import os
    from openpyxl import Workbook
    d = os.path.join(C.BUILD, 'c08')
    os.makedirs(d, exist_ok=True)
    books = {'Stock': [[5, 7, 0], [3, 0, 0], [0, 0, 0]], 'Flags': [[True, False], [False, False]], 'Mixed': [[1, 'x', 0], [2, None, 0], [None, None, None], [0, None, False]],
             # a sheet whose TITLE is the number of another sheet: addressed by title it is this sheet, by number the first one
             '0': [[9, 8], [0, 4]]}
    wb = Workbook()
    first = True
    for t, rows in books.items():
        ws = wb.active if first else wb.create_sheet()
        first = False
        ws.title = t
        for r, row in enumerate(rows):
            for c, v in enumerate(row):
                if v is not None:
                    ws.cell(row=r + 1, column=c + 1, value=v)
    path = os.path.join(d, 'sizes_%d.xlsx' % os.getpid())
    wb.save(path)
    src = I.Parser().set_excel_file_path(path).disable_safety_check().get_translation()
    e = I.executor(I.load(src))
    for i, (t, rows) in enumerate(books.items()):
        R.count(('pipeline_sizes', t), True)
        nr = max(r + 1 for r, row in enumerate(rows) for v in row if v is not None)
        nc = max(c + 1 for row in rows for c, v in enumerate(row) if v is not None)
        grid = e.get_sheet(t)
        fail = None
        if [len(row) for row in grid] != [nc] * nr:
            fail = 'get_sheet(%r) has rows of lengths %r, the used range of the stored sheet is %d rows x %d columns' % (t, [len(row) for row in grid], nr, nc)
        else:
            for r in range(nr):
                for c in range(nc):
                    want = rows[r][c] if c < len(rows[r]) else None
                    one = e.get_cell(I.Cell(i, c, r)).value
                    got = grid[r][c].value
                    by_title = e.get_cell(I.Cell(t, chr(65 + c), str(r + 1))).value
                    if E.canon(('ok', by_title)) != E.canon(('ok', got)):
                        fail = 'sheet %r, row %d column %d: get_sheet(%r) gives %r, get_cell(Cell(%r, %r, %r)) gives %r' % (
                            t, r + 1, c + 1, t, got, t, chr(65 + c), str(r + 1), by_title)
                    if E.canon(('ok', one)) != E.canon(('ok', got)) or (want is not None and (type(got) is not type(want) or got != want)):
                        fail = 'sheet %r, row %d column %d: get_sheet gives %r, get_cell gives %r, the file stores %r' % (t, r + 1, c + 1, got, one, want)
        if fail:
            R.violation('through the xlsx pipeline: ' + fail, {'recipe': {'kind': 'pipeline_sizes'}, 'input_found': True})
            return


def replay(R, rp):
    rc = rp.get('recipe') or (rp.get('examples') or [None])[0]
    if rc is None:
        print('nothing to replay: ' + str(rp.get('broken')))
        return 1
    if rc.get('kind') == 'pipeline_sizes':
        pipeline_sizes(R)
        for w, _ in R.violations:
            print(w)
        return 1 if R.violations else 0
    C.build(TARGETS)
    c = make_case(rc)
    rows = C.eval_report(E.HEADER, [c['coq']], 'report', 'c08_replay')
    print('history:', rc['ops'], '\nworkbook:', rc['sheets'], '\noracle:', c['oracle_fail'], '\nrow (model=impl proved oracle class):', rows[0])
    return 0 if rows[0].split()[0] == '1' and not c['oracle_fail'] else 1
