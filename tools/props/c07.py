"""C07 — workbook text never becomes executable code."""
import ast
import builtins

from x2p import common as C
from x2p import impl as I

HEADER = ('Require Import X2P.Base.Prelude X2P.Corr.C07.\n')
TARGETS = ['theories/Props/C07.vo', 'theories/Corr/C07.vo']
ALPHA = ["'", '"', '\\', '\n', '#', '{', '}', '%', '(', ')', '?', '*', '~', 'a', 'z', ' ', '+', ',']
PHRASES = ["zzcanary(1)", "'+zzcanary(1)+'", '"+zzcanary(1)+"', "\\'+zzcanary(1)+\\'", "*\"+zzcanary(1)+\"*", "a*\"+zzcanary (1)+\"", "{titles}", "{0}", "%s", "'''", '"""',
           'it\'s ""x""', '\'""+str (zzcanary(1))+""', 'say ""hi""', '""', 'a""b\'c', "it'*", "a?'b", "*'+zzcanary(1)+'*", "p*'+str(zzcanary(1))+'*", "?\\", "a*\\'", "x*\ny",
           "\\", "\\n", "it's", 'say "hi"', "x\ny", "#", "a?b", "~*", "__import__('os').system('true')", "');zzcanary(1);('", "\\\\'", "ends\\"]
MARK = []
# a text literal as an argument of a function whose translator builds its code in its own way
FNARG = ['=ADDRESS(3,7,2,FALSE,"%s")', '=ADDRESS(1,1,4,TRUE,"%s")', '=TEXT(B2,"%s")', '=DATEDIF(B2,B2,"%s")', '=IF(C1=1,"%s","n")', '=IFERROR(1/0,"%s")', '=LEFT("%s",200)',
         '=CONCATENATE("%s")', '=VLOOKUP("%s",B1:B2,1,FALSE)', '=MATCH("%s",B1:B2,0)', '=SEARCH("%s",B1)', '=VALUE("%s")', '=IFS(C1=1,"%s")', '=MID("%s",1,200)', '=RIGHT("%s",200)']


def gen_text(rng):
    r = rng.random()
    if r < 0.4:
        return rng.choice(PHRASES)
    if r < 0.7:
        return ''.join(rng.choice(ALPHA) for _ in range(rng.randint(0, 6)))
    return rng.choice(PHRASES)[:rng.randint(1, 8)] + ''.join(rng.choice(ALPHA) for _ in range(rng.randint(0, 3)))


def idents(tree):
    out = set()
    for n in ast.walk(tree):
        if isinstance(n, ast.Name):
            out.add(n.id)
        elif isinstance(n, ast.Attribute):
            out.add(n.attr)
    return out


def make_case(rc):
    kind, text = rc['kind'], rc['text']
    title = rc.get('title', 'S')
    if kind == 'constant':
        cells = {'A1': text, 'B2': 5}
        if 'title' in rc:
            # a sheet title can reach the generated code through any translator that mentions where it is: formulas of several families sit
            # on the titled sheet (none of them refers to the text cell)
            cells.update({'D1': '=SUMIFS(B2:B3,B2:B3,">0")', 'D2': '=COUNTIFS(B2:B3,">0")', 'D3': '=AVERAGEIFS(B2:B3,B2:B3,">0")', 'D4': '=SUMIF(B2:B3,">0")',
                          'D5': '=VLOOKUP(5,B2:C3,1,FALSE)', 'D6': '=IF(B2>1,"y","n")', 'D7': '=SUM(B2:B3)+COLUMN()', 'D8': '=IFERROR(B2/0,"e")', 'D9': '=ADDRESS(1,2)'})
        uid = '_0_0_0'
    elif kind == 'formula':
        cells = {'A1': '="%s"' % text, 'B2': 5}
        uid = '_0_0_0'
    elif kind == 'criterion':
        cells = {'A1': 'x', 'A2': 'y', 'B1': '=COUNTIFS(A1:A2,"%s")' % text}
        uid = '_0_1_0'
    elif kind == 'fnarg':
        cells = {'A1': FNARG[rc['fn']] % text, 'B1': 'mid', 'B2': 5, 'C1': 1}
        uid = '_0_0_0'
    elif kind == 'title_ref':
        cells = {'A1': "='%s'!A1&\"%s\"" % (rc['title'], text), 'B1': 'mid'}
        uid = '_0_0_0'
    elif kind in ('concat', 'concat_fn', 'concat_cell', 'concat_fn_cell'):
        t2 = rc['text2']
        f = {'concat': '="%s"&"%s"', 'concat_fn': '=CONCATENATE("%s","%s")', 'concat_cell': '="%s"&B1&"%s"',
             'concat_fn_cell': '=CONCATENATE("%s",B1,"%s")'}[kind] % (text, t2)
        cells = {'A1': f, 'B1': 'mid'}
        uid = '_0_0_0'
    else:
        raise ValueError(kind)
    fail = None
    impl = None
    value = None
    builtins.zzcanary = lambda *a, **k: MARK.append(1)
    del MARK[:]
    try:
        try:
            if kind == 'title_ref':
                # through the real pipeline: an xlsx file read by Excel.parse (whatever the reader does to formula texts happens here)
                import os
                from openpyxl import Workbook
                wb = Workbook()
                wb.active.title = 'Calc'
                for a_, v_ in cells.items():
                    wb.active[a_] = v_
                wb.create_sheet(title)['A1'] = 'v'
                os.makedirs(os.path.join(C.BUILD, 'c07'), exist_ok=True)
                path = os.path.join(C.BUILD, 'c07', 't%d.xlsx' % os.getpid())
                wb.save(path)
                src, ctx = I.Parser().set_excel_file_path(path).disable_safety_check().get_translation(), None
            else:
                src, ctx = I.translate([(title, cells)])
            impl = ctx._cell_translations.get(uid) if ctx is not None else None
        except I.X.E2PyclParserException:
            src = None
        except Exception as e:  # noqa
            src = None
            impl = None
            rc = dict(rc, foreign=type(e).__name__)
        if src is not None:
            try:
                tree = ast.parse(src)
            except SyntaxError:
                tree = None      # not loadable: nothing can execute (C06 decides loadability in general)
                if kind.startswith('concat'):
                    fail = 'the module generated for two joined string literals cannot be loaded (SyntaxError)'
                elif kind == 'fnarg':
                    fail = 'the module generated for %s cannot be loaded (SyntaxError): the text argument left its quotes' % (cells['A1'],)
                elif 'title' in rc:
                    fail = 'the module generated for a workbook whose sheet title is %r cannot be loaded (SyntaxError): the title left its quotes' % (title,)
                else:
                    # a text of the workbook is emitted inside quotes; if the module no longer parses, the text ended its literal early and
                    # the rest of it was read as code (that this code is ill-formed is luck, not protection)
                    fail = 'the module generated for the %s text %r cannot be loaded (SyntaxError): the text left its quotes' % (kind, text)

            if tree is not None:
                if 'zzcanary' in idents(tree):
                    fail = 'the generated module contains the workbook identifier zzcanary as executable code'
                else:
                    try:
                        cls = I.load(src)
                        e = I.executor(cls)
                        got = I.outcome(lambda: e.get_cell(I.Cell(0, int(uid.split('_')[2]), int(uid.split('_')[3]))).value)
                        if got[0] == 'ok' and isinstance(got[1], str):
                            value = got[1]
                        if 'title' in rc and kind == 'constant':
                            for r_ in range(9):
                                I.outcome(lambda: e.get_cell(I.Cell(0, 3, r_)).value)       # run the formulas of the titled sheet too
                        if MARK:
                            fail = 'code taken from the workbook was executed while loading / evaluating the class'
                        elif kind == 'constant' and got != ('ok', text):
                            fail = 'the constant text %r evaluates to %r' % (text, got)
                        elif kind in ('concat', 'concat_fn') and got != ('ok', text + rc['text2']):
                            fail = 'the joined literals %r and %r evaluate to %r' % (text, rc['text2'], got)
                        elif kind in ('concat_cell', 'concat_fn_cell') and got != ('ok', text + 'mid' + rc['text2']):
                            fail = 'the joined literals %r, cell, %r (%s) evaluate to %r' % (text, rc['text2'], kind, got)
                        elif kind == 'fnarg' and rc['fn'] in (4, 5, 6, 7, 12, 13, 14) and got != ('ok', text):
                            fail = 'the text argument %r of %s comes back as %r' % (text, cells['A1'], got)
                        elif kind == 'title_ref' and got != ('ok', 'v' + text):
                            fail = 'the text literal %r joined to a cell of the sheet titled %r evaluates to %r' % (text, title, got)
                        elif kind != 'title_ref' and list(cls().get_titles()) != [title]:
                            fail = 'sheet title %r reported as %r' % (title, list(cls().get_titles()))
                    except Exception as ex:  # noqa
                        if MARK:
                            fail = 'code taken from the workbook was executed'
    finally:
        if hasattr(builtins, 'zzcanary'):
            del builtins.zzcanary
    k = 'KConstant' if kind == 'constant' else 'KFormulaText'
    if kind == 'criterion' or kind.startswith('concat') or kind in ('title_ref', 'fnarg'):
        return {'recipe': rc, 'coq': None, 'vcoq': None, 'key': rc, 'nontrivial': True, 'oracle_fail': fail}
    coq = 'CT %s %s %s %s' % (k, C.cstr(text), 'None' if impl is None else '(Some %s)' % C.cstr(impl), C.cbool(fail is None))
    nt = any(ch in text for ch in '\'"\\\n?*')
    vcoq = None
    if kind == 'formula':
        vcoq = 'CV %s %s' % (C.cstr(text), 'None' if value is None else '(Some %s)' % C.cstr(value))
    return {'recipe': rc, 'coq': coq, 'vcoq': vcoq, 'key': rc, 'nontrivial': nt, 'oracle_fail': fail}


def corpus():
    rs = [{'kind': 'formula', 'text': "'+zzcanary(1)+'"}, {'kind': 'formula', 'text': "it's"}, {'kind': 'formula', 'text': 'a\\b'}, {'kind': 'formula', 'text': 'a\nb'},
          {'kind': 'constant', 'text': "'+zzcanary(1)+'"}, {'kind': 'constant', 'text': '"""+zzcanary(1)+"""'}, {'kind': 'constant', 'text': 'x\ny\\'},
          {'kind': 'constant', 'text': 'x', 'title': "Data\nzzcanary(1)"}, {'kind': 'constant', 'text': 'x', 'title': "a'b\"c\\"}, {'kind': 'constant', 'text': '{titles}{0}'},
          {'kind': 'concat', 'text': 'a', 'text2': "it's"}, {'kind': 'concat', 'text': "it's", 'text2': ' ok'}, {'kind': 'concat', 'text': 'a', 'text2': "'+str(zzcanary(1))+'x'#"},
          {'kind': 'concat_fn', 'text': "x'", 'text2': "'+zzcanary(1)+'"}, {'kind': 'concat_fn_cell', 'text': "{", 'text2': "}"},
          {'kind': 'concat_fn_cell', 'text': "{0.__class__}", 'text2': "%s"}, {'kind': 'concat_cell', 'text': "it's", 'text2': "\\"}, {'kind': 'concat', 'text': '', 'text2': "'"},
          {'kind': 'title_ref', 'title': '6" pipes', 'text': 'x  y'}, {'kind': 'fnarg', 'fn': 0, 'text': "O'Brien"}, {'kind': 'fnarg', 'fn': 0, 'text': "+str(zzcanary(1))+''+"},
          {'kind': 'fnarg', 'fn': 2, 'text': "it's"}, {'kind': 'fnarg', 'fn': 3, 'text': "M'"}, {'kind': 'title_ref', 'title': 'a"b"c"', 'text': ' padded '},
          {'kind': 'criterion', 'text': ">7 or (zzcanary)(1)"}, {'kind': 'criterion', 'text': ">7"}, {'kind': 'criterion', 'text': "x')+zzcanary(1)+('"}]
    rs += [x['witness'] for x in C.known_findings()['findings'] if x['property'] == 'C07']
    return rs


def run(R, tier):
    R.coverage['rule'] = ('strings over an alphabet with quotes, backslash, newline, # { } % ( ) ? * ~ and Python call syntax (a canary call zzcanary(1) '
                          'planted in builtins), placed in constant cells, formula string literals (plain and wildcard-pattern), pairs of literals joined by & / CONCATENATE / a cell in between, criterion positions and '
                          'sheet titles; the emitted code of the cell is compared with the model; the generated module is parsed (no workbook identifier '
                          'may be executable), loaded and evaluated (canary untouched, texts evaluate to themselves); non-trivial = text with a quote, '
                          'backslash, newline or wildcard')
    C.proof_obligations(R, 'theories/Props/C07.v', 'Props.C07', TARGETS)
    if any('Coq build failed' in b for b in R.broken):
        return
    n = 300 if tier == 'quick' else 4000
    recipes = corpus()
    while len(recipes) < n:
        kind = R.rng.choice(['constant', 'formula', 'formula', 'criterion', 'concat', 'concat_fn', 'concat_cell', 'concat_fn_cell'])
        rc = {'kind': kind, 'text': gen_text(R.rng)}
        if kind.startswith('concat'):
            # two plain literals joined by & / CONCATENATE: no double quote (it would end the literal) and no wildcard (pattern literal) inside
            clean = lambda t: ''.join(ch for ch in t if ch not in '"?*\n')
            rc['text'], rc['text2'] = clean(rc['text']), clean(gen_text(R.rng))
        if R.rng.random() < 0.15:
            rc['title'] = gen_text(R.rng) or 'T'
        if R.rng.random() < 0.15:
            # a text literal (no double quote, wildcard or line break) as an argument of one of the functions
            rc = {'kind': 'fnarg', 'fn': R.rng.randrange(len(FNARG)), 'text': ''.join(ch for ch in gen_text(R.rng) if ch not in '"?*\n') or "it's"}
        if R.rng.random() < 0.08:
            # a title the formula can spell (no apostrophe, ! or line break), possibly with double quotes, and a literal with blanks in it
            t = ''.join(ch for ch in (gen_text(R.rng) or 'T') if ch not in "'!\n\\") or 'T'
            lit = ''.join(ch for ch in gen_text(R.rng) if ch not in '"?*\n') + R.rng.choice(['', '  x', ' y ', '\tz'])
            rc = {'kind': 'title_ref', 'title': t, 'text': lit}
        if kind != 'constant' and ('\n' in rc['text']) and False:
            continue
        recipes.append(rc)
    cases = [make_case(rc) for rc in recipes]
    for c in cases[:2] + cases[-3:]:
        R.sample({'recipe': c['recipe']})
    coq_cases = [c for c in cases if c['coq'] is not None]
    for c in cases:
        if c['coq'] is None:
            R.count(c['key'], True)
            if c['oracle_fail']:
                R.violation('%s position: ' % c['recipe']['kind'] + c['oracle_fail'], {'recipe': c['recipe'], 'input_found': True})
    C.correspond(R, HEADER, 'report', coq_cases, 'c07', 'LiteralToken / PatternToken emission, CellTranslator repr of constants, titles in the class template', shard=150)
    vcases = [dict(c, coq=c['vcoq'], key=('value', c['key'])) for c in cases if c['vcoq'] is not None]
    C.correspond(R, HEADER, 'report_value', vcases, 'c07v', 'value of a cell ="<text>" (LiteralToken payload; _regexp of a PatternToken payload)', shard=150)
    R.assumptions += ['CPython reads a short string literal as Base/PyRepr.v models it (escapes \\\\ \\\' \\" \\n \\r \\t \\xNN); validated by loading every generated module',
                      'payloads are harmless: a canary function planted in builtins for the duration of one case']


def replay(R, rp):
    rc = rp.get('recipe') or (rp.get('examples') or [None])[0]
    if rc is None:
        print('nothing to replay: ' + str(rp.get('broken')))
        return 1
    C.build(TARGETS)
    c = make_case(rc)
    print('case:', rc, '\noracle:', c['oracle_fail'])
    if c['coq']:
        rows = C.eval_report(HEADER, [c['coq']], 'report', 'c07_replay')
        print('coq case:', c['coq'], '\nrow (model=impl inert oracle class):', rows[0])
        ok = rows[0].split()[0] == '1' and rows[0].split()[1] != '0' and not c['oracle_fail']
        if c['vcoq']:
            vr = C.eval_report(HEADER, [c['vcoq']], 'report_value', 'c07_replay')
            print('value case:', c['vcoq'], '\nrow (model=impl spec(model) spec(impl) class):', vr[0])
            ok = ok and vr[0].split()[0] == '1'
        return 0 if ok else 1
    return 1 if c['oracle_fail'] else 0
