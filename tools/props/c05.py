"""C05 — a formula is translated whole or rejected, never silently truncated."""
import re
import signal

from x2p import common as C
from x2p import impl as I

HEADER = ('Require Import X2P.Base.Prelude X2P.Corr.C05.\n')
TARGETS = ['theories/Props/C05.vo', 'theories/Corr/C05.vo']

BASE = ['=1+2', '=A1*B2-3', '=(A1+B2)*3', '=B2%%+7', '=A1%%-B2/4', '=(A1+B2)%+3', '=A1%*2+B2', '=5%%+A1&B2', '=A1<B2+3', '=2*(A1-4)/B2&7', '=SUM(A1:B2,3)', '=SUM(A1:A3;B1)', '=IF(A1>1,2,3)', '=IF(A1>1,"x")', '=ROUND(A1/3,2)', '=ROUNDUP(A1,1)',
        '=ROUNDDOWN(2.5)', '=VLOOKUP(3,A1:C5,2,FALSE())', '=VLOOKUP(3,A1:C5,2)', '=MATCH(3,A1:A5,0)', '=INDEX(A1:C5,2,3)', '=LEFT("abc",2)', '=RIGHT(A1)',
        '=MID(A1,2,3)', '=A1&"x"&B1', '=A1%', '=-A1*2', '=A1<=B1', '=A1<>B1', '=DATE(2020,1,31)', '=DATEDIF(A1,B1,"M")', '=EDATE(A1,1)', '=EOMONTH(A1,-1)',
        '=YEAR(A1)+MONTH(A1)+DAY(A1)', '=MIN(A1:A3)', '=MAX(A1:A3,5)', '=AVERAGE(A1:B2)', '=COUNT(A1:A5)', '=COUNTBLANK(A1:A5)', '=AND(A1>1,B1<2)', '=OR(A1,B1)',
        '=IFERROR(A1/B1,0)', '=IFS(A1>1,1,A1>0,2)', '=SUMIF(A1:A5,">2",B1:B5)', '=SUMIFS(C1:C5,A1:A5,">2",B1:B5,3)', '=COUNTIFS(A1:A5,">2")',
        '=AVERAGEIFS(C1:C5,A1:A5,"<=6")', '=SEARCH("b",A1,2)', '=ADDRESS(1,2)', '=ADDRESS(1,2,4)', '=COLUMN()', '=COLUMN(C5)', '=TODAY()', '=NETWORKDAYS(A1,B1)',
        '=NETWORKDAYS(A1,B1,F1:F4)', '=XMATCH(3,A1:A5,0)', '=VALUE("12")', '=TEXT(A1,"0.00")', '=CONCATENATE(A1,"x",B1)', "='My Sheet'!B3+Data!C4", '=$A$1+B$2+$C3',
        '=A:A', '=SUM(B:C)', '=12.5e-3+1', '=TRUE()', '=FALSE', '=SUM(A1:A2)*(1+2)', '=1']
EXTRA = [')', '(', '+', '1', 'A1', ',', ';', '"x"', '%', '&', '<', ' ', 'SUM(', '2)', '""', '"', 'FOO(1)', '#', '~']


class Timeout(Exception):
    pass


def _alarm(*a):
    raise Timeout()


def tokens_of(s):
    return re.findall(r'"[^"]*"|\'[^\']*\'![$A-Z0-9:]+|[A-Za-z_$][A-Za-z0-9_$.:!]*|\d+\.?\d*(?:e-?\d+)?|<>|>=|<=|\s+|.', s)


def mutate(rng, f):
    toks = tokens_of(f[1:])
    k = rng.random()
    if k < 0.2:
        return f + rng.choice(EXTRA)
    if k < 0.4 and toks:
        i = rng.randrange(len(toks) + 1)
        return '=' + ''.join(toks[:i] + [rng.choice(EXTRA)] + toks[i:])
    if k < 0.6 and toks:
        i = rng.randrange(len(toks))
        return '=' + ''.join(toks[:i] + toks[i + 1:])
    if k < 0.7 and toks:
        i = rng.randrange(len(toks))
        return '=' + ''.join(toks[:i] + [toks[i], toks[i]] + toks[i + 1:])
    if k < 0.8:
        return f[:rng.randrange(2, len(f) + 1)]
    if k < 0.9 and toks:
        i = rng.randrange(len(toks))
        j = rng.randrange(len(toks))
        toks[i], toks[j] = toks[j], toks[i]
        return '=' + ''.join(toks)
    return f.replace(',', ',,', 1) if ',' in f else f + '+'


def nl_variants(f, rng=None, k=None):
    """the formula with one line break inserted at a token boundary (all boundaries, or k random ones)"""
    toks = tokens_of(f[1:])
    idx = [i for i in range(1, len(toks)) if not (toks[i] == '(' and re.match(r'[A-Za-z]', toks[i - 1]))]
    if k is not None and rng is not None and len(idx) > k:
        idx = rng.sample(idx, k)
    return ['=' + ''.join(toks[:i]) + '\n' + ''.join(toks[i:]) for i in idx]


def split_variants(f, rng=None, k=None):
    """the formula with one blank inserted INSIDE a multi-character token (a number, a reference, a two-character comparison sign,
    a function name): a different text, which must not be read as the original formula"""
    toks = tokens_of(f[1:])
    idx = [i for i, t in enumerate(toks) if len(t) >= 2 and not t.isspace() and not t.startswith('"') and not t.startswith("'")]
    if k is not None and rng is not None and len(idx) > k:
        idx = rng.sample(idx, k)
    out = []
    for i in idx:
        t = toks[i]
        cut = 1 if rng is None else rng.randint(1, len(t) - 1)
        out.append('=' + ''.join(toks[:i]) + t[:cut] + ' ' + t[cut:] + ''.join(toks[i + 1:]))
    return out


def ws_variant(rng, f):
    toks = tokens_of(f[1:])
    out = []
    for i, t in enumerate(toks):
        out.append(t)
        nxt = toks[i + 1] if i + 1 < len(toks) else ''
        # Excel itself allows no blank between a function name and its opening bracket: not a "whitespace between tokens" placement
        if rng.random() < 0.5 and not t.isspace() and not (nxt == '(' and re.match(r'[A-Za-z]', t)):
            out.append(rng.choice([' ', '  ', '\t']))
    s = ''.join(out).rstrip()
    return '=' + (rng.choice(['', ' ']) + s)


def analyse(f):
    """returns (iout term, signature or None, oracle failure or None)"""
    from excel2pycl.src.lexer import Lexer
    from excel2pycl.src.ast_builder import AstBuilder
    from excel2pycl.src.tokens.composite_base_token import CompositeBaseToken
    leaf_idx = {c: i for i, c in enumerate(c for c in Lexer.TOKENS if c.__name__ != 'UndefinedToken')}
    comps = [c for c in CompositeBaseToken.subclasses() if c.__name__ != 'UndefinedToken']
    nt_idx = {c: i for i, c in enumerate(comps)}
    cell = I.Cell(0, 7, 8)
    signal.signal(signal.SIGALRM, _alarm)
    signal.alarm(20)
    try:
        try:
            toks = Lexer.parse(f, in_cell=cell)
        except I.X.E2PyclParserException:
            return 'ILexExc', ('lexexc',), None
        except Timeout:
            raise
        except Exception as e:  # noqa
            return 'IForeign', ('foreign', type(e).__name__), 'the lexer raised a foreign exception %s' % type(e).__name__
        classes = [leaf_idx[type(t)] for t in toks]
        cl = C.clist(['%d%%nat' % c for c in classes])
        try:
            tree = AstBuilder.parse(toks, in_cell=cell)
        except I.X.E2PyclParserException:
            return '(IRejected %s)' % cl, ('rejected', tuple(classes)), None
        except Timeout:
            raise
        except Exception as e:  # noqa
            return 'IForeign', ('foreign', type(e).__name__), 'the parser raised a foreign exception %s' % type(e).__name__
    finally:
        signal.alarm(0)
    shape, leaves, bad = [], [], []

    def walk(t):
        if type(t) in nt_idx:
            sig = [type(v) for v in t.value]
            alt = next((i for i, s in enumerate(type(t).get_token_sets()) if list(s) == sig), None)
            if alt is None:
                # the accepted tree contains a node whose children instantiate none of the token sets of its class
                bad.append('%s(%s)' % (type(t).__name__, ', '.join(x.__name__ for x in sig)))
                alt = 99
            shape.append((nt_idx[type(t)], alt))
            for v in t.value:
                walk(v)
        else:
            leaves.append(t)
    walk(tree)
    fail = None
    if bad:
        fail = 'accepted, but the tree has a node that matches none of the token sets of its class: %s' % bad[0]
    elif len(leaves) != len(toks) or any(a is not b for a, b in zip(leaves, toks)):
        fail = 'accepted, but the tree covers %d of %d tokens' % (len(leaves), len(toks))
    term = '(IParsed %s %s)' % (cl, C.clist(['(%d%%nat, %d%%nat)' % p for p in shape]))
    return term, ('parsed', tuple(classes), tuple(shape)), fail


def lexer_cover(f):
    """Independent evidence that no text is dropped while lexing: replay the lexer loop with the real token classes and check, at
    every step, that the returned rest is a suffix of the input and that the consumed prefix is a full match of the class's regexp."""
    from excel2pycl.src.lexer import Lexer
    from excel2pycl.src.tokens import WhitespaceToken
    cell = I.Cell(0, 7, 8)
    expr = f
    steps = 0
    while expr and steps < 200:
        steps += 1
        progressed = False
        for tc in Lexer.TOKENS:
            try:
                tok, sub = tc.get(expr.lstrip(), cell)
            except Exception:  # noqa
                return None
            if tok and tok.__class__ is not WhitespaceToken:
                src = expr.lstrip()
                if not src.endswith(sub):
                    return 'the lexer dropped text: after a %s token the rest %r is not a suffix of %r' % (tc.__name__, sub, src)
                consumed = src[:len(src) - len(sub)]
                if re.fullmatch(tc.regexp, consumed) is None:
                    return 'the lexer token %s consumed %r, which its own regexp does not match' % (tc.__name__, consumed)
                expr = sub
                progressed = True
                break
        if not progressed:
            return None
    return None


def pipeline_agrees(f):
    """The public pipeline (CellTranslator over a workbook holding the text) must do exactly what its pieces do on the same text:
    Lexer.parse -> AstBuilder.parse -> EntryPointTokenTranslator.translate.  Same emitted code, or the same exception class; a text the
    parser rejects must not come out of the pipeline as a value, and an accepted one must not be translated from anything but its tree."""
    from excel2pycl.src.lexer import Lexer
    from excel2pycl.src.ast_builder import AstBuilder
    from excel2pycl.src.translators.entry_point_token_translator import EntryPointTokenTranslator
    sheets = [('S', {'A1': 1, 'B2': 2, 'H9': f}), ('My Sheet', {'B3': 3}), ('Data', {'C4': 4})]

    def pieces():
        ex = I.mkexcel(sheets)
        ctx = I.Context()
        ctx._titles = ex.get_titles()
        ctx._sheets_size = ex.get_sheets_size()
        cell = I.Cell(0, 7, 8)
        ex.fill_cell(cell)
        ctx._cells_in_progress.add(cell.uid)
        toks = Lexer.parse(cell.value, in_cell=cell)
        return EntryPointTokenTranslator.translate(AstBuilder.parse(toks, in_cell=cell), ex, ctx)

    def pipeline():
        ex = I.mkexcel(sheets)
        ctx = I.Context()
        ctx._titles = ex.get_titles()
        ctx._sheets_size = ex.get_sheets_size()
        I.CellTranslator.translate(I.Cell(0, 7, 8), ex, ctx)
        return ctx._cell_translations['_0_7_8']

    def outcome(fn):
        try:
            return ('code', fn())
        except Timeout:
            raise
        except RecursionError:
            return ('exc', 'RecursionError')
        except Exception as e:  # noqa
            return ('exc', type(e).__name__)
    signal.signal(signal.SIGALRM, _alarm)
    signal.alarm(20)
    try:
        a = outcome(pieces)
        b = outcome(pipeline)
    finally:
        signal.alarm(0)
    if a != b:
        return 'the pipeline does not translate the text as its lexer, parser and entry-point translator do: pieces give %r, Parser/CellTranslator gives %r' % (
            a if a[0] == 'exc' else ('code', a[1][:80]), b if b[0] == 'exc' else ('code', b[1][:80]))
    return None


def operands_emitted(f):
    """For an accepted formula made of operands and operators only (no function call, no text): every cell reference and every number of
    the text must occur in the code emitted for the cell — a translator that accepts the whole text but writes code for a part of it has
    dropped the rest just the same."""
    if not re.fullmatch(r'=[A-Z0-9$.%+\-*/&<>=() e]+', f) or re.search(r'[A-Z]\s*\(', f) or 'TRUE' in f or 'FALSE' in f:
        return None
    sheets = [('S', {'A1': 1, 'B2': 2, 'H9': f})]
    try:
        src, ctx = I.translate(sheets, entry=I.Cell(0, 7, 8))
    except Exception:  # noqa
        return None
    code = ctx._cell_translations['_0_7_8'] + ' ' + ' '.join(str(v) for k, v in getattr(ctx, '_sub_cell_translations', {}).items() if k.startswith('_0_7_8'))
    for ref in re.findall(r'\$?([A-Z]{1,3})\$?(\d+)', f):
        c, r = I.a1(ref[0] + ref[1])
        if "'_0_%d_%d'" % (c, r) not in code:
            return 'the formula is accepted, but the reference %s%s of its text does not occur in the emitted code %r' % (ref[0], ref[1], code[:160])
    bare = re.sub(r"'[^']*'", "''", code)
    have = set()
    for m in re.findall(r'(?<![\w.])\d+(?:\.\d+)?(?:e[+-]?\d+)?(?![\w.])', bare):
        try:
            have.add(float(m))
        except ValueError:
            pass
    nocells = re.sub(r'\$?[A-Z]{1,3}\$?\d+', ' ', f)
    for m in re.findall(r'(?<![\w.])\d+(?:\.\d+)?(?:e-?\d+)?(?![\w.])', nocells):
        try:
            v = float(m)
        except ValueError:
            continue
        if v not in have:
            return 'the formula is accepted, but the number %s of its text does not occur in the emitted code %r' % (m, code[:160])
    return None


def make_case(rc):
    f = rc['formula']
    term, sig, fail = analyse(f)
    if fail is None and sig[0] != 'foreign':
        fail = pipeline_agrees(f)
    if fail is None and sig[0] == 'parsed':
        fail = operands_emitted(f)
    if fail is None and rc.get('twin'):
        # an argument written as an expression (5+1, A1*2) must count as a whole: the formula has the value of its twin with the arguments worked out by hand
        def val(g):
            return I.eval_formula(g, {'A1': 1, 'B2': 2, 'C3': dt_.datetime(2024, 1, 31)}, addr='H9')
        import datetime as dt_
        a_, b_ = val(f), val(rc['twin'])
        if a_ != b_:
            fail = 'the formula evaluates to %r, its twin %s with the arguments worked out to %r' % (a_, rc['twin'], b_)
    if fail is None and rc.get('parts'):
        # a formula that contains an ill-formed part is ill-formed: when one of its parts, written as a formula of its own, is rejected by the
        # pipeline, so must be the whole
        def rejected(g):
            try:
                I.translate([('S', {'A1': 1, 'B2': 2, 'H9': g})], entry=I.Cell(0, 7, 8))
                return False
            except I.X.E2PyclException:
                return True
        bad = [g for g in rc['parts'] if rejected(g)]
        if bad and not rejected(f):
            fail = 'the formula is accepted although its part %r, written as a formula of its own, is rejected' % bad[0]
    if fail is None and sig[0] == 'parsed':
        fail = lexer_cover(f)
    if fail is None and rc.get('nl_of'):
        # a line break between tokens: Excel accepts it as whitespace; the translator may reject the formula (a recorded limitation of the
        # lexer), but when it accepts it the result must be that of the one-line formula
        _, bsig, _ = analyse(rc['nl_of'])
        if sig[0] == 'parsed' and sig != bsig:
            fail = 'the formula with a line break is accepted but read differently from %r: %r vs %r' % (rc['nl_of'], sig[1:], bsig[1:])
    if fail is None and rc.get('split_of'):
        _, bsig, _ = analyse(rc['split_of'])
        if sig[0] == 'parsed' and bsig[0] == 'parsed' and sig == bsig:
            fail = 'a blank INSIDE a token was ignored: the formula is read exactly as %r' % rc['split_of']
    if fail is None and rc.get('same_as'):
        _, bsig, _ = analyse(rc['same_as'])
        if bsig[0] == 'parsed' and sig != bsig:
            fail = 'whitespace / separator variant of %r is treated differently: %r vs %r' % (rc['same_as'], sig[:1], bsig[:1])
    coq = 'CF %s %s %s' % (C.cstr(f), term, C.cbool(fail is None))
    nl_rejected = bool(rc.get('nl_of')) and sig[0] != 'parsed' and analyse(rc['nl_of'])[1][0] == 'parsed'
    return {'nl_rejected': nl_rejected, 'recipe': rc, 'coq': coq, 'key': f, 'nontrivial': bool(rc.get('mutated') or rc.get('same_as') or rc.get('nl_of')), 'oracle_fail': fail}


def printable(f):
    return all(32 <= ord(c) < 127 or c in '\t\n' for c in f)


def run(R, tier):
    R.coverage['rule'] = ('%d valid base formulas covering every supported function and operator, each with random single mutations (append / insert / '
                          'delete / duplicate / swap a token, truncate, unbalance brackets, doubled separators and quotes) and with whitespace / '
                          'separator variants that must be treated identically; non-trivial = mutated or variant formula; distinct by formula text' % len(BASE))
    C.proof_obligations(R, 'theories/Props/C05.v', 'Props.C05', TARGETS)
    if any('Coq build failed' in b for b in R.broken):
        return
    per = 3 if tier == 'quick' else 40
    recipes = [{'formula': f} for f in BASE]
    recipes += [{'formula': f, 'mutated': True} for f in ['=1+2)', '=1 2', '="a""b"', '=SUM(1,2)3', '=(1+2', '=1+', '=IF(1,2', '=ROUND(1,2,3)', '=1 ', '=', '=*1',
                                                             '=SUM()', '=SUM(A1;;A2)', '=MAX', '=TODAY(', '=1+SUM(A1:A2', '=FOO(1)', '=A1+B1\n+A2', '=SUM(A1,B1)\n*B2',
                                                             '="ab"&"cd"', '="ab" "cd"', '="ab"="cd"', '="ab";"cd"', '="ab"&A1&"cd"']]
    recipes += [x['witness'] for x in C.known_findings()['findings'] if x['property'] == 'C05']
    for f_, t_ in [('=DATE(2024,5+1,17)', '=DATE(2024,6,17)'), ('=DATE(2024,2*A1,17)', '=DATE(2024,2,17)'), ('=DATE(2023+A1,5,17+B2)', '=DATE(2024,5,19)'),
                   ('=ROUND(2.345+1,1+1)', '=ROUND(3.345,2)'), ('=LEFT("abcdef",1+2)', '=LEFT("abcdef",3)'), ('=MID("abcdef",1+1,2*1)', '=MID("abcdef",2,2)'),
                   ('=EDATE(C3,A1*2)', '=EDATE(C3,2)'), ('=EOMONTH(C3,B2-1)', '=EOMONTH(C3,1)'), ('=EDATE(C3,A1+B2)', '=EDATE(C3,3)'), ('=YEAR(EDATE(C3,B2*6))', '=YEAR(EDATE(C3,12))'),
                   ('=SUM(A1+1,B2*2)', '=SUM(2,4)'), ('=MAX(A1*5,B2+1)', '=MAX(5,3)'), ('=IF(A1+1>1,B2*3,0)', '=IF(TRUE,6,0)'), ('=ROUNDUP(B2/3,A1+1)', '=ROUNDUP(0.666666666666667,2)'),
                   ('=RIGHT("abcdef",B2+1)', '=RIGHT("abcdef",3)'), ('=ADDRESS(A1+1,B2*2)', '=ADDRESS(2,4)'), ('=VLOOKUP(A1+1,A1:B2,1,FALSE)', '=VLOOKUP(2,A1:B2,1,FALSE)')]:
        recipes.append({'formula': f_, 'twin': t_, 'mutated': True})
    for cond in ['TRUE', 'FALSE', 'TRUE()', 'FALSE()', 'A1>0', '1=1']:
        for a, b in [('1', '2%3'), ('2%(3)', '1'), ('1', 'SUM(A1:B)'), ('A:B2', '7'), ('MAX(1,2)', 'MIN(4%5,6)'), ('1', '2'), ('A1', 'B2*2')]:
            recipes.append({'formula': '=IF(%s,%s,%s)' % (cond, a, b), 'parts': ['=' + a, '=' + b], 'mutated': True})
            recipes.append({'formula': '=1+IF(%s,%s,%s)*3' % (cond, a, b), 'parts': ['=' + a, '=' + b], 'mutated': True})
    for a, b in [('1', '2%3'), ('SUM(A1:B)', '0'), ('A1', '2')]:
        recipes.append({'formula': '=IFERROR(%s,%s)' % (a, b), 'parts': ['=' + a, '=' + b], 'mutated': True})
        recipes.append({'formula': '=IFS(TRUE,%s,FALSE,%s)' % (a, b), 'parts': ['=' + a, '=' + b], 'mutated': True})
    for f in BASE:
        for _ in range(per):
            m = mutate(R.rng, f)
            if printable(m) and len(m) < 60:
                recipes.append({'formula': m, 'mutated': True})
        v = ws_variant(R.rng, f)
        recipes.append({'formula': v, 'same_as': f})
        if ',' in f or ';' in f:
            recipes.append({'formula': f.replace(',', ';') if ',' in f else f.replace(';', ','), 'same_as': f})
        for v in nl_variants(f, R.rng, 2 if tier == 'quick' else 8):
            recipes.append({'formula': v, 'nl_of': f})
        for v in split_variants(f, R.rng, 2 if tier == 'quick' else 8):
            recipes.append({'formula': v, 'split_of': f, 'mutated': True})
    cases = []
    for rc in recipes:
        try:
            cases.append(make_case(rc))
        except Timeout:
            R.extra['timeouts'] = R.extra.get('timeouts', 0) + 1
    for c in cases[:2] + cases[-3:]:
        R.sample({'formula': c['recipe']['formula']})
    outcomes = {}
    for c in cases:
        k = c['coq'].split(' ')[2 if False else -2] if False else ('parsed' if 'IParsed' in c['coq'] else 'rejected' if 'IRejected' in c['coq'] else 'lexexc' if 'ILexExc' in c['coq'] else 'foreign')
        outcomes[k] = outcomes.get(k, 0) + 1
    R.extra['outcome_distribution'] = outcomes
    n_nl = sum(1 for c in cases if c.get('nl_rejected'))
    if n_nl:
        R.known('line_break_between_tokens_rejected', n_nl)
    def search(drifting):
        """the correspondence broke: every base formula with a line break at every token boundary, and blank-separated variants"""
        out = []
        for f in BASE:
            for v in nl_variants(f):
                try:
                    out.append(make_case({'formula': v, 'nl_of': f}))
                except Timeout:
                    pass
            for v in split_variants(f):
                try:
                    out.append(make_case({'formula': v, 'split_of': f, 'mutated': True}))
                except Timeout:
                    pass
        return out
    C.correspond(R, HEADER, 'report', cases, 'c05', 'Lexer.parse / RegexpBaseToken.get / CompositeBaseToken.get / AstBuilder.parse', shard=60, timeout=900,
                 search=search)
    R.assumptions += ['printable ASCII formulas; the regex engine Base/Regex.v runs the source regex strings (validated against Python re separately)',
                      'parse time is exponential in nesting depth: formulas are kept shallow and each implementation call runs under a 20 s alarm']


def replay(R, rp):
    rc = rp.get('recipe') or (rp.get('examples') or [None])[0]
    if rc is None:
        print('nothing to replay: ' + str(rp.get('broken')))
        return 1
    C.build(TARGETS)
    c = make_case(rc)
    rows = C.eval_report(HEADER, [c['coq']], 'report', 'c05_replay')
    print('formula:', repr(rc['formula']), '\ncoq case:', c['coq'], '\noracle:', c['oracle_fail'], '\nrow (model=impl proved oracle class):', rows[0])
    return 0 if rows[0].split()[0] == '1' and not c['oracle_fail'] else 1
