"""C04 — overrides mean edit-the-cell-and-recalculate; the last write wins."""
from x2p import common as C
from x2p import impl as I
from props import exec_common as E

TARGETS = ['theories/Props/C04.vo', 'theories/Corr/Exec.vo']


def oracle(sheets, cls, ops, vals):
    """Every value a query returned must equal what a FRESH translation of the edited workbook reports."""
    # replay the history on the abstract map, op by op
    done = []
    for i, op in enumerate(ops):
        done.append(op)
        if op[0] == 'set' or not vals[i]:
            continue
        m = E.last_write_map(cls, done)
        edited = [[t, dict(cells)] for t, cells in sheets]
        for u, v in m.items():
            t, c, r = E.uid_to_addr(u)
            if t < 0:
                t += len(edited)
            a = '%s%d' % (I.get_column_letter(c + 1), r + 1)
            if v is None:
                edited[t][1].pop(a, None)
            else:
                edited[t][1][a] = ('="' + v[1:] + '"' if False else v)
        # text overrides that start with '=' would be formulas in a workbook: not generated
        fresh = I.executor(E.build_class(edited))
        for u, got in vals[i]:
            if u == '__shape__' or 'any' in u:
                continue
            t, c, r = E.uid_to_addr(u)
            exp = I.outcome(lambda: fresh.get_cell(I.Cell(t, c, r)).value)
            if E.canon(got) != E.canon(exp):
                return 'after %d operation(s) the query of %s returned %r, a fresh translation of the edited workbook gives %r' % (
                    i + 1, u, E.canon(got), E.canon(exp))
    return None


def make_case(rc):
    sheets, ops = rc['sheets'], rc['ops']
    cls = E.build_class(sheets)
    obs, vals = E.run_history(cls, ops)
    fail = oracle(sheets, cls, ops, vals)
    sets = [o for o in ops if o[0] == 'set']
    written = {}
    nt = False
    for o in sets:
        for a, v in o[1]:
            k = repr(a)
            if k in written and written[k] != v:
                nt = True
            written[k] = v
    return {'recipe': rc, 'coq': E.coq_case(sheets, ops, obs, fail is None), 'key': rc, 'nontrivial': nt or len(sets) >= 2, 'oracle_fail': fail}


def corpus():
    base = [['Main', {'A1': 1, 'A2': 2, 'B1': '=A1+A2', 'B2': '=B1*2', 'C2': '=1/0', 'C3': '=A1&"x"', 'B3': '=SUM(A1:A3)'}], ['Other', {'A1': 4, 'B2': '=A1*3'}]]
    rs = [
        {'sheets': base, 'ops': [['set', [[[0, 0, 0], 1]]], ['get', [0, 1, 0]], ['set', [[[0, 0, 0], True]]], ['get', [0, 1, 0]], ['get', [0, 2, 2]]]},
        {'sheets': base, 'ops': [['set', [[[0, 2, 1], 5]]], ['get', [0, 2, 1]], ['get', ['Main', 'C', '2']]]},                       # overriding =1/0
        {'sheets': base, 'ops': [['set', [[[0, 0, 2], 7]]], ['get', [0, 1, 2]], ['set', [[['Main', 'A', '3'], 9]]], ['get', [0, 1, 2]]]},   # blank cell in SUM range
        {'sheets': base, 'ops': [['set', [[[0, 6, 7], 3]]], ['get', [0, 6, 7]], ['sheet', 0]]},                                         # beyond the used range
        {'sheets': base, 'ops': [['set', [[[0, 0, 0], 5], [[0, 0, 0], 6]]], ['get', [0, 1, 1]], ['set', [[['Nope', 'A', '1'], 1], [[0, 0, 0], 9]]], ['get', [0, 1, 1]]]},
        {'sheets': base, 'ops': [['set', [[[1, 0, 0], 10]]], ['get', [1, 1, 1]], ['many', [[1, 0, 0], ['Other', 'B', '2']]]]},
    ]
    return rs


def run(R, tier):
    R.coverage['rule'] = ('histories of 2-10 operations over generated two-sheet workbooks: override batches (same cell written repeatedly with '
                          'different values, formula cells, constants, blanks, out-of-range cells, both sheets, numeric / A1-style / mixed / invalid '
                          'addressing) interleaved with get_cell / get_cells / get_sheet; non-trivial = a cell written twice with different values or '
                          '>= 2 batches; every returned value is compared with a fresh translation of the edited workbook')
    C.proof_obligations(R, 'theories/Props/C04.v', 'Props.C04', TARGETS)
    if any('Coq build failed' in b for b in R.broken):
        return
    n = 150 if tier == 'quick' else 2000
    recipes = corpus()
    while len(recipes) < n:
        recipes.append({'sheets': E.gen_workbook(R.rng), 'ops': E.gen_ops(R.rng, R.rng.randint(2, 10))})
    cases = [make_case(rc) for rc in recipes]
    for c in cases[:2] + cases[-2:]:
        R.sample({'ops': c['recipe']['ops'], 'sheets': c['recipe']['sheets']})
    R.coverage['traces_validated_against_impl'] = len(cases)
    for c in cases:
        if c['oracle_fail']:
            R.extra.setdefault('oracle_failures', []).append(c['oracle_fail'])
    C.correspond(R, E.HEADER, 'report', cases, 'c04', 'Executor (set_cells/_set_cells_to_executed_instance/get_cell/get_cells/get_sheet), handle_cell, Cell.uid, set_arguments/_cell_preprocessor')
    R.assumptions += ['the generated class is abstract in the Coq model (a function of uid and argument map); that it really is one, and equals a fresh '
                      'translation of the edited workbook, is checked on the implementation for every query of every generated history']


def replay(R, rp):
    rc = rp.get('recipe') or (rp.get('examples') or [None])[0]
    if rc is None:
        print('nothing to replay: ' + str(rp.get('broken')))
        return 1
    C.build(TARGETS)
    c = make_case(rc)
    rows = C.eval_report(E.HEADER, [c['coq']], 'report', 'c04_replay')
    print('history:', rc['ops'], '\nworkbook:', rc['sheets'], '\noracle:', c['oracle_fail'], '\nrow (model=impl proved oracle class):', rows[0])
    return 0 if rows[0].split()[0] == '1' and not c['oracle_fail'] else 1
