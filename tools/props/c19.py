"""C19 — the safety gate reports exactly the Python-like cells."""
import os

from x2p import common as C
from x2p import impl as I

HEADER = ('Require Import X2P.Base.Prelude X2P.Model.Safety X2P.Corr.C19.\nOpen Scope Z_scope.\n')
TARGETS = ['theories/Props/C19.vo', 'theories/Corr/C19.vo']
DIR = os.path.join(C.BUILD, 'c19')
SUSP = ['eval(1)', 'os.system("x")', '__import__(x)', 'quit()', 'foo(bar)', 'a(1)', 'print (1)', 'x_1(2) + y(3)', 'aB(c)', 'getB(1)', 'exit()', 'f(g(1))', 'open(f).read()']
INNO = ['hello', 'SUM(A1:A2)', 'IF(A1>1,2,3)', 'no call here', 'x (1)', '12', 'A1+B2', 'MAX(1,2)+MIN(3,4)', '(1+2)', 'ROUND(2.5,0)']
MIXED = ['SUM(eval(1))', 'IF(f(1),2,3)', 'eval(SUM(1))', 'MAX(1) and min(2)']
TITLES = ['Main', "Bob's data", 'S3']         # the report key quotes the title as it is: '<title>'<address>


def gen_recipe(rng):
    nsheets = rng.randint(1, 3)
    cells = []
    used = set()
    for _ in range(rng.randint(1, 6) if rng.random() < 0.85 else rng.randint(11, 18)):       # now and then MANY Python-like cells: each must be listed
        s = rng.randrange(nsheets)
        col = rng.choice([1, 2, 3, 5, 26, 27, 28])
        row = rng.choice([1, 2, 3, 4, 7, 11])
        if (s, col, row) in used:
            continue
        used.add((s, col, row))
        r = rng.random() * (0.6 if len(cells) >= 6 else 1)
        text = rng.choice(SUSP) if r < 0.45 else rng.choice(INNO) if r < 0.85 else rng.choice(MIXED)
        if rng.random() < 0.35:
            text = '=' + text
        cells.append([s, col, row, text])
    return {'nsheets': nsheets, 'cells': cells, 'safety': rng.random() < 0.75, 'chart_at': rng.choice([None, None, None, 0, 1]), 'array': rng.random() < 0.2, 'entry': rng.random() < 0.25}


WRITE_FAIL = []


def make_case(rc, k=[0]):
    from openpyxl import Workbook
    from openpyxl.utils import get_column_letter
    os.makedirs(DIR, exist_ok=True)
    wb = Workbook()
    for i in range(rc['nsheets']):
        ws = wb.active if i == 0 else wb.create_sheet()
        ws.title = TITLES[i]
    for s, col, row, text in rc['cells']:
        a = '%s%d' % (get_column_letter(col), row)
        if rc.get('array') and text.startswith('='):
            from openpyxl.worksheet.formula import ArrayFormula          # the same text stored as an array formula {=...}
            wb.worksheets[s][a] = ArrayFormula('%s:%s' % (a, a), text)
        else:
            wb.worksheets[s][a] = text
    if rc.get('chart_at') is not None:
        # a chart sheet in the tab order: it is a sheet name but not a worksheet (titles must still be those of the worksheets)
        from openpyxl.chart import BarChart, Reference
        cs = wb.create_chartsheet('Chart', rc['chart_at'])
        ch = BarChart()
        ch.add_data(Reference(wb.worksheets[0], min_col=1, min_row=1, max_row=2))
        cs.add_chart(ch)
    k[0] += 1
    path = os.path.join(DIR, 'w%d_%d.xlsx' % (os.getpid(), k[0] % 4))
    wb.save(path)
    pr = I.Parser().set_excel_file_path(path)
    if rc.get('entry'):
        pr.set_entrypoint_cell(I.Cell(0, 40, 40))          # a blank cell far away: nothing Python-like is among its precedents
    if not rc['safety']:
        pr.disable_safety_check()
    try:
        pr.get_translation()
        impl = 'INoRaise'
    except I.X.E2PyclSafetyException as e:
        try:
            pr.write_translation(path + '.py')
            wrote = 'no exception'
        except I.X.E2PyclSafetyException as e2:
            wrote = None if dict(e2.suspicious_cells) == dict(e.suspicious_cells) and str(e2) == str(e) else 'report %r / message %r' % (dict(e2.suspicious_cells), str(e2)[:80])
        except Exception as e2:  # noqa
            wrote = type(e2).__name__
        if wrote is not None:
            WRITE_FAIL.append((rc, 'get_translation reports %r, write_translation on the same parser gives: %s' % (dict(e.suspicious_cells), wrote)))
        impl = '(IRaised %s)' % C.clist(['(%s, %s)' % (C.cstr(kk), C.clist([C.cstr(x) for x in v])) for kk, v in e.suspicious_cells.items()])
    except I.X.E2PyclParserException:
        impl = 'INoRaise'      # the gate let it through; the formula itself is not translatable (other properties)
    except Exception:  # noqa
        impl = 'INoRaise' if not rc['safety'] else 'IOther'
    # cells in the order Excel.parse reads them: sheets, rows, columns
    order = sorted(rc['cells'], key=lambda c: (c[0], c[2], c[1]))
    tcells = C.clist(['{| tc_title := %s; tc_col := %s; tc_row := %s; tc_text := %s |}' % (C.cstr(TITLES[s]), C.cz(col), C.cz(row), C.cstr(t))
                      for s, col, row, t in order])
    coq = 'CS %s %s %s' % (tcells, C.cbool(rc['safety']), impl)
    return {'recipe': rc, 'coq': coq, 'key': rc, 'nontrivial': any(c[1] != c[2] for c in rc['cells'])}


def corpus():
    rs = [{'nsheets': 2, 'cells': [[0, 2, 3, 'eval(1)'], [1, 3, 5, 'os.system(1)'], [0, 1, 1, 'SUM(A1)']], 'safety': True},
          {'nsheets': 1, 'cells': [[0, 2, 3, 'quit()']], 'safety': True}, {'nsheets': 1, 'cells': [[0, 2, 3, '=os.getcwd()']], 'safety': True},
          {'nsheets': 1, 'cells': [[0, 2, 3, 'eval(1)']], 'safety': False}, {'nsheets': 1, 'cells': [[0, 27, 11, 'SUM(1)'], [0, 1, 2, 'x']], 'safety': True}]
    rs.append({'nsheets': 2, 'safety': True, 'entry': True, 'cells': [[0, 2, 3, 'eval(1)'], [1, 3, 5, 'os.system(1)'], [0, 1, 1, 'five']]})
    rs.append({'nsheets': 1, 'safety': True, 'array': True, 'cells': [[0, 1, 1, '=eval(1)'], [0, 2, 2, '=SUM(1,2)']]})           # array formulas (fixed by 610ac1e)
    rs.append({'nsheets': 3, 'safety': True, 'cells': [[i % 3, 1 + i % 4, 1 + i // 3, 'eval(%d)' % i] for i in range(14)]})       # 14 Python-like cells on 3 sheets
    rs += [x['witness'] for x in C.known_findings()['findings'] if x['property'] == 'C19']
    return rs


def run(R, tier):
    R.coverage['rule'] = ('workbooks of 1-3 sheets (one title with a blank) with 1-6 planted text cells at (column,row) positions with row <> column '
                          'incl. columns Z/AA/AB: suspicious fragments (eval(1), os.system("x"), quit(), nested, with blank before the bracket), '
                          'innocent texts (upper-case calls, no call) and mixed ones, as constants and inside formulas; check enabled/disabled; '
                          'written as real xlsx and read by the real Parser; non-trivial = a cell with row <> column')
    C.proof_obligations(R, 'theories/Props/C19.v', 'Props.C19', TARGETS, )
    if any('Coq build failed' in b for b in R.broken):
        return
    n = 150 if tier == 'quick' else 1500
    recipes = corpus() + [gen_recipe(R.rng) for _ in range(n)]
    cases = [make_case(rc) for rc in recipes]
    for c in cases[:2] + cases[-2:]:
        R.sample({'cells': c['recipe']['cells'], 'safety': c['recipe']['safety']})
    gate_histories(R)
    for rc_, w_ in WRITE_FAIL[:3]:
        R.violation(w_, {'recipe': rc_, 'input_found': True})
    C.correspond(R, HEADER, 'report', cases, 'c19', 'Excel._get_suspicious_constructions, the report key in Excel.parse, is_safe and the gate in Parser._translate')
    R.assumptions += ['printable ASCII texts; regexes through Base/Regex.v; openpyxl delivers the cell texts (reader covered by C18)']


def gate_histories(R, only=None):
    """the gate follows the workbook and the setting in force on ONE parser object: toggling the check or changing the file between two
    calls takes effect, a rejected call leaves nothing behind that lets a later call through, and a call that is let through returns
    the translation of the CURRENT workbook.  Steps: d/e = disable/enable the check, p0/p1 = set the path to the clean / the Python-like
    workbook, g = get_translation, w = write_translation."""
    from openpyxl import Workbook
    os.makedirs(DIR, exist_ok=True)
    paths = []
    for k, cells in enumerate([{'A1': 41, 'B1': '=A1+1'}, {'A1': 7, 'B3': 'eval(1)', 'C1': '=A1*2'}]):
        wb = Workbook()
        for a, v in cells.items():
            wb.active[a] = v
        path = os.path.join(DIR, 'hist_%d_%d.xlsx' % (os.getpid(), k))
        wb.save(path)
        paths.append(path)
    out = os.path.join(DIR, 'hist_%d_out.py' % os.getpid())
    fresh = [I.Parser().set_excel_file_path(p).disable_safety_check().get_translation() for p in paths]

    def call(pr, st):
        try:
            if st == 'g':
                return ('text', pr.get_translation())
            if os.path.exists(out):
                os.remove(out)
            pr.write_translation(out)
            return ('text', open(out).read())
        except I.X.E2PyclSafetyException:
            return ('raised', None)
    fixed = [['p1', 'd', 'g', 'e', 'g'], ['p1', 'g', 'd', 'g', 'e', 'g'], ['p1', 'd', 'g', 'e', 'e', 'g'], ['p1', 'g', 'd', 'd', 'g'],
             ['p0', 'g', 'p1', 'g', 'g'], ['p0', 'g', 'p1', 'g', 'w'], ['p1', 'g', 'g'], ['p1', 'd', 'g', 'p0', 'e', 'g', 'p1', 'g', 'g'],
             ['p0', 'g', 'p1', 'g', 'p0', 'g'], ['p1', 'g', 'p0', 'g', 'p1', 'g']]
    rng = R.rng
    hists = [only] if only else fixed + [[rng.choice(['p0', 'p1'])] + [rng.choice(['d', 'e', 'g', 'g', 'p0', 'p1', 'g', 'w']) for _ in range(rng.randint(2, 7))]
                                         for _ in range(60)]
    can_write = True
    for steps in hists:
        pr = I.Parser()
        on, cur = True, None
        for k, st in enumerate(steps):
            if st == 'd':
                pr.disable_safety_check(); on = False
            elif st == 'e':
                pr.enable_safety_check(); on = True
            elif st in ('p0', 'p1'):
                cur = int(st[1]); pr.set_excel_file_path(paths[cur])
            else:
                if st == 'w' and not can_write:
                    continue
                R.count(('hist', tuple(steps), k), True)
                got = call(pr, st)
                exp = ('raised', None) if (cur == 1 and on) else ('text', fresh[cur])
                if got != exp:
                    what = ('raised the safety exception although %s' % ('the check is disabled' if not on else 'the current workbook is clean')) if got[0] == 'raised' else (
                        'did not raise the safety exception although the check is enabled and the current workbook has a Python-like cell' if exp[0] == 'raised'
                        else 'returned a translation that is not the translation of the current workbook')
                    R.violation('history %s on one Parser (p0 = clean workbook, p1 = workbook with a Python-like cell): call %d %s' % (','.join(steps), k + 1, what),
                                {'recipe': {'kind': 'history', 'steps': steps}, 'input_found': True})
                    break


def replay(R, rp):
    rc = rp.get('recipe') or (rp.get('examples') or [None])[0]
    if rc is None:
        print('nothing to replay: ' + str(rp.get('broken')))
        return 1
    if rc.get('kind') == 'history':
        gate_histories(R, only=rc['steps'])
        for w, _ in R.violations:
            print(w)
        return 1 if R.violations else 0
    C.build(TARGETS)
    c = make_case(rc)
    rows = C.eval_report(HEADER, [c['coq']], 'report', 'c19_replay')
    print('workbook cells (sheet, column, row, text):', rc['cells'], 'safety:', rc['safety'], '\ncoq case:', c['coq'], '\nrow (model=impl spec=model spec=impl class):', rows[0])
    return 0 if rows[0].split()[0] == '1' and rows[0].split()[1] != '0' else 1
