"""C06 — translation is total: a loadable Python class or a library exception."""
import datetime
import os
import signal
import time

from x2p import common as C
from x2p import impl as I

HEADER = 'Require Import X2P.Base.Prelude X2P.Corr.C06.\nOpen Scope string_scope.\n'
TARGETS = ['theories/Props/C06.vo', 'theories/Corr/C06.vo']
DIR = os.path.join(C.BUILD, 'c06')
LIMIT = 12          # seconds of wall clock allowed for one translation


class Timeout(Exception):
    pass


def _alarm(*a):
    raise Timeout()


VALID = ['=COLUMN()-1', '=A1+COLUMN()', '=2*COLUMN()', '=SUM(A1:A2,COLUMN())', '=MAX(COLUMN(),A1)', '=IF(COLUMN()>1,COLUMN()*2,0)', '=A1+B1*2', '=SUM(A1:B2)', '=IF(A1>1,"x","y")', '=ROUND(B1,1)', '=A1&"t"', '=MAX(A1,B1,3)', '=LEFT("hello",2)', '=AVERAGE(A1:A2)', '=-A1%', '=COUNTIFS(A1:A2,">0")',
         '=VLOOKUP(1,A1:B2,2,0)', '=IFERROR(A1/0,7)', '=DATE(2020,1,31)', '=AND(A1>0,B1>0)', '=MIN(A1:A2)', '=MATCH(2,A1:A2,0)', '=MATCH(2,A1:A2)', '=XMATCH(2,A1:A2)',
         '=INDEX(A1:B2,1,2)', '=(A1+1)*(B1-1)', '=Other!A1+1', '=COLUMN(B1)', '=SUMIF(A1:A2,">0",B1:B2)', '=MID("abcdef",2,3)', '=YEAR(DATE(2020,5,6))', '=A2', '=IFS(A1>5,1,A1>0,2)']
UNSUPPORTED = ['=FOO(1)', '=SIN(1)', '=A1^2', '=SUMPRODUCT(A1:A2,B1:B2)', '=NOW()', '=A1:A2 B1:B2', '={1,2}', '=[Book]S!A1', '=@A1', '=#REF!+1', '=1E', '=.5', '=A1..B2', '=TRUE+FALSE()']
MALFORMED = ['=(1', '=', '=*1', '=1+', '=+', '=()', '=SUM(', '=SUM()', '=SUM(1,)', '=IF(1)', '=IF(1,2,3,4)', '=1 2', '=A1A1', '="', '=1<>', '=&', '=%', '=1%%', '=(2)%', '=50%20%',
             '=2%3', '=2%(3)', '=SUM(A1;A2', '=MAX', '=IF(A1>1;A2', '=1+SUM(A1:A2', '=TODAY(', '=ROUND(1)', '=LEFT()', '=VLOOKUP(1,A1:B2)', '=INDEX(A1:B2)', '=DATE(1,2)',
             '=AND()', '=OR(1', '=IFERROR(1)', '=IFS(1)', '=COUNT()', '=MIN(1,)', '=1e400', '=1.5e400', '=1e5000', '=1e309', '=1e308', '=SUM(1,,2)', '=))((', '=A1:', '=:A1', '=A1:B', '=$', '=A$', '=1,2', '=;',
             '=IF(A1>3;"the total exceeds the configured limit for this period', '=CONCATENATE(A1;" units in stock, reorder level is ;A1;A1)',
             '=A1&"' + 'x' * 40, '="a"&"b"&"' + 'tail without a closing quote ' * 2,
             '=IF(,,)', '=SUM(A1:A2:A3)', '=--', '=1--', '=MATCH(1)', '=XMATCH(1)', '=SEARCH("a")', '=TEXT(1)', '=VALUE()', '=CONCATENATE()', '=YEAR()', '=COUNTIFS(A1:A2)']
REFS = ['=SUMIF(D6:A6,">1",A7)', '=SUMIF(C6:A6,">0",B7)', '=SUMIF(B8:A8,"y",A7)', '=SUMIF(B:A,">0",A:A)', '=SUM(B2:A1)', '=SUMIFS(B2:A1,B2:A1,">0")', '=VLOOKUP(1,B2:A1,1,0)', '=COUNTBLANK(B2:A1)',
        '=SUMIF(Other!D6:B6,">0",Other!A7)', '=Nope!A1', "='No such'!B2", '=A0', '=AAAA1', '=A1048577', '=XFE1', '=ZZZ99999', '=Other!ZZ9', '=A0:B2', '=A1:B0', '=SUM(A0:A2)', '=A:A', '=A:B', '=1:1', '=Other!A:A',
        '=C3', '=C4', '=SUM(C3:C4)']                  # C3/C4 are written as a cycle when this family is chosen
SOUP = ['1', 'A1', '+', '-', '*', '/', '&', '<', '>=', '<>', '=', '%', '(', ')', ',', ';', '"x"', 'SUM(', 'IF(', 'TRUE', 'A1:B2', ':', '!', '$', '.', 'e', ' ']
TEXTS = ['plain', "it's", 'say "hi"', 'a\\b', 'line1\nline2', '{name}', 'total: {0}', 'a}b', '{{x}}', '{titles}', '%s %d', '#comment', 'tab\there', 'éü中', "'''", '"""', '\\', '']
TITLES = ['Main', 'Other', 'My Data', "it's", 'a"b', '{t}', 'xé', '1', 'Sheet.2', 'A+B', 'q#1', 'long title with blanks']
CONSTS = [0, 1, -7, 2.5, -0.001, 1e300, 1e-300, True, False, datetime.datetime(2020, 2, 29, 13, 14, 15), datetime.date(1999, 12, 31), datetime.time(1, 2, 3),
          datetime.timedelta(days=1, seconds=5), 123456789012]


ARGFORMS = ['COLUMN()', 'COLUMN()+1', '">007"', '"<=010"', '"<>00"', '">1.50"', '"=007"', '-1', '+2', '(A2)', 'A1%', '-B1', '"x"', '"a*"', 'A1+1', 'SUM(A1:A2)', 'TRUE', '1.5', '""', 'A1', '-A1%', '(1+2)*3', '">"&A1', 'Other!A1', 'C9', '1=1', '2*-3', 'B:B', 'A1:A2', 'ZZZZ1', 'Other!A:A', 'A1:B']
ARGTEMPLATES = ['=SUMIF(A1:A2,{x},B1:B2)', '=SUMIF(A1:A2,{x})', '=COUNTIFS(A1:A2,{x})', '=SUMIFS(B1:B2,A1:A2,{x})', '=AVERAGEIFS(B1:B2,A1:A2,{x})', '=IF({x},1,2)',
                '=IF(1,{x},2)', '=ROUND({x},1)', '=ROUND(2.5,{x})', '=LEFT("abc",{x})', '=MID("abcdef",{x},2)', '=VLOOKUP({x},A1:B2,2,0)', '=INDEX(A1:B2,{x},1)',
                '=MATCH({x},A1:A2,0)', '=SUM({x},1)', '=MAX({x},A1)', '=IFERROR({x},0)', '=DATE(2020,{x},1)', '=AND({x},TRUE)', '=CONCATENATE({x},"z")',
                '=EDATE(DATE(2020,1,31),{x})', '=XMATCH({x},A1:A2)', '=SEARCH({x},"abc")', '=RIGHT("abc",{x})', '=VALUE({x})', '=YEAR({x})', '=IFS({x},1,TRUE,2)', '=SUMIF(A1:A2,">0",{x})', '=COLUMN({x})', '=VLOOKUP(1,{x},1,0)', '=INDEX({x},1,1)', '=COUNTBLANK({x})',
                '=ROUNDUP({x},0)', '=MIN({x})', '=COUNT({x},A1:A2)', '=DATEDIF(DATE(2020,1,1),DATE(2021,1,1),{x})', '={x}', '=-({x})', '=({x})&"t"', '={x}<3']


def argform_recipes():
    out = []
    for t in ARGTEMPLATES:
        for x in ARGFORMS:
            f = t.replace('{x}', x)
            out.append({'family': 'argforms', 'titles': ['Main', 'Other'], 'cells': {'A1': 1, 'A2': 2, 'B1': 2.5, 'B2': 'y', 'C1': f}, 'probe': f})
    return out


def nesting(kind, d):
    if kind == 'IF':
        return '=' + 'IF(1,' * d + '1' + ',0)' * d
    if kind == 'SUM':
        return '=' + 'SUM(' * d + '1' + ')' * d
    return '=' + '(' * d + '1' + ')' * d


def gen_recipe(rng, family=None):
    family = family or rng.choice(['valid', 'valid', 'unsupported', 'malformed', 'malformed', 'refs', 'soup', 'soup', 'consts', 'nest'])
    titles = ['Main'] + rng.sample(TITLES[1:], rng.randint(0, 2))
    if 'Other' not in titles and rng.random() < 0.7:
        titles.insert(1, 'Other')
    cells = {'A1': rng.choice([1, 2, 5]), 'A2': rng.choice([2, 0, 3.5]), 'B1': rng.choice([2.5, 4, 'x']), 'B2': rng.choice([1, 'y', True])}
    for _ in range(rng.randint(0, 3)):
        cells[rng.choice(['D1', 'D2', 'E5', 'F1', 'H9'])] = ('text', rng.choice(TEXTS)) if rng.random() < 0.6 else ('const', rng.randrange(len(CONSTS)))
    for _ in range(rng.randint(0, 2)):
        cells[rng.choice(['G1', 'G2', 'G3'])] = rng.choice(VALID)
    if family == 'valid':
        probe = rng.choice(VALID)
    elif family == 'unsupported':
        probe = rng.choice(UNSUPPORTED)
    elif family == 'malformed':
        probe = rng.choice(MALFORMED)
        if rng.random() < 0.3:                       # truncate a valid formula
            v = rng.choice(VALID)
            probe = v[:rng.randint(1, len(v) - 1)]
    elif family == 'refs':
        probe = rng.choice(REFS)
        if 'C3' in probe or 'C4' in probe:
            cells['C3'] = '=C4+1'
            cells['C4'] = '=C3*2'
    elif family == 'soup':
        probe = '=' + ''.join(rng.choice(SOUP) for _ in range(rng.randint(1, 7)))
    elif family == 'consts':
        probe = rng.choice(VALID)
        for k, a in enumerate(['J1', 'J2', 'J3', 'J4']):
            cells[a] = ('const', rng.randrange(len(CONSTS)))
        cells['K1'] = ('text', rng.choice(TEXTS))
    else:
        probe = nesting(rng.choice(['IF', 'SUM', 'P']), rng.randint(2, 4))
    cells['C1'] = probe
    return {'family': family, 'titles': titles, 'cells': {k: (list(v) if isinstance(v, tuple) else v) for k, v in cells.items()}, 'probe': probe}


def cell_value(v):
    if isinstance(v, (list, tuple)):
        if v[0] == 'dtf':
            from openpyxl.worksheet.formula import DataTableFormula
            return DataTableFormula(ref='A1:B2', r1='C1', dt2D=False)
        return CONSTS[v[1]] if v[0] == 'const' else v[1]
    return v


def shape_recipes():
    """Workbook SHAPES decided by the oracle alone (the modelled layers say nothing about them): long chains of dependent cells, very long
    digit strings, many unary signs, joined areas, a cell value of a foreign type, a spilling COLUMN(area).  'known' names the recorded
    finding whose failure text ('expect') such a workbook is allowed to show."""
    def wb(cells, **kw):
        cells = dict(cells)
        cells.setdefault('C1', '=1+1')
        return dict({'family': 'shapes', 'titles': ['Main'], 'cells': cells, 'probe': cells['C1'], 'oracle_only': True}, **kw)
    back = lambda n: dict([('A%d' % i, '=A%d+1' % (i + 1)) for i in range(1, n)] + [('A%d' % n, 1)])          # A1 needs A2 needs A3 ...
    fwd = lambda n: dict([('A1', 1)] + [('A%d' % i, '=A%d+1' % (i - 1)) for i in range(2, n + 1)])              # a running total
    return [wb(back(120)), wb(back(260)), wb(back(700)), wb(fwd(150)), wb(fwd(450)),
            wb(fwd(700), known='evaluation_recursion_on_long_dependency_chain', expect='not evaluable: RecursionError'),
            wb({'A1': '=' + '9' * 5000}), wb({'A1': '=A' + '1' * 5000}), wb({'A1': '=1e' + '1' * 5000}), wb({'A1': '=' + '9' * 5000 + '.5'}),
            wb({'A1': '=' + '-' * 90 + '1'}),
            wb({'A1': '=' + '-' * 250 + '1'}, known='many_unary_signs_nest_too_many_parentheses', expect='too many nested parentheses'),
            wb({'B1': 1, 'B2': 2, 'B3': 3, 'D1': 'x', 'D2': 'y', 'D3': 'z', 'E1': 7, 'E2': 8, 'E3': 9, 'A1': '=INDEX(B1:B3&D1:D3&E1:E3,2)', 'A2': '=INDEX(B1:B3&D1:D3&E1:E3&B1:B3,1)'}),
            wb({'A1': ['dtf'], 'B1': 1}),
            wb({'D5': '=COLUMN(A1:C1)', 'E5': 7, 'F5': 8}, known='column_of_an_area_spills_over_stored_constants', expect='constant cell E5 holds 7')]


def write_xlsx(rc, path):
    from openpyxl import Workbook
    wb = Workbook()
    for i, t in enumerate(rc['titles']):
        ws = wb.active if i == 0 else wb.create_sheet()
        ws.title = t
    ws = wb.worksheets[0]
    for a, v in rc['cells'].items():
        ws[a] = cell_value(v)
    if len(wb.worksheets) > 1:
        wb.worksheets[1]['A1'] = 11
        wb.worksheets[1]['B2'] = 'other'
    wb.save(path)


def run_workbook(rc, k=[0]):
    """-> (ioutcome term, oracle failure or None, seconds)"""
    os.makedirs(DIR, exist_ok=True)
    k[0] += 1
    path = os.path.join(DIR, 'w%d_%d.xlsx' % (os.getpid(), k[0]))
    mod = os.path.join(DIR, 'm%d_%d.py' % (os.getpid(), k[0]))
    try:
        write_xlsx(rc, path)
    except Exception as e:  # noqa  (openpyxl refuses the workbook: not a readable workbook, outside the property)
        return None, None, 0.0
    signal.signal(signal.SIGALRM, _alarm)
    t0 = time.time()
    try:
        signal.alarm(LIMIT)
        try:
            pr = I.Parser().set_excel_file_path(path).disable_safety_check()
            src = pr.get_translation()
        except Timeout:
            return 'TIMEOUT', 'translation did not finish within %d s' % LIMIT, time.time() - t0
        except I.X.E2PyclException as e:
            return 'ILib %s' % C.cstr(type(e).__name__), None, time.time() - t0
        except RecursionError:
            return 'IForeign "RecursionError"', 'translation raised RecursionError', time.time() - t0
        except Exception as e:  # noqa
            return 'IForeign %s' % C.cstr(type(e).__name__), 'translation raised the foreign exception %s: %s' % (type(e).__name__, str(e)[:80]), time.time() - t0
        finally:
            signal.alarm(0)
        dt = time.time() - t0
        try:
            code = compile(src, '<generated>', 'exec')
        except SyntaxError as e:
            return 'ISyntaxErr', 'the returned source does not compile: %s' % str(e)[:100], dt
        fail = None
        try:
            ns = {}
            exec(code, ns)
            cls = ns['ExcelInPython']
            inst = cls()
            want_titles = {t: i for i, t in enumerate(rc['titles'])}
            if dict(inst.get_titles()) != want_titles:
                fail = 'titles of the class %r differ from the workbook %r' % (dict(inst.get_titles()), want_titles)
            # one member per stored cell of the first sheet
            for a in rc['cells']:
                c, r = I.a1(a)
                if not hasattr(cls, '_0_%d_%d' % (c, r)):
                    fail = fail or 'no member for the stored cell %s' % a
            # the same behaviour from the written file and from the class object
            pr.write_translation(mod)
            e1 = I.Executor().set_executed_class(class_object=cls)
            e2 = I.Executor().set_executed_class(class_file=mod)
            signal.alarm(LIMIT)
            try:
                for a in rc['cells']:
                    c, r = I.a1(a)
                    v1 = I.outcome(lambda: e1.get_cell(I.Cell(0, c, r)).value)
                    v2 = I.outcome(lambda: e2.get_cell(I.Cell(0, c, r)).value)
                    if repr(v1) != repr(v2) and not (a == 'C1' and 'TODAY' in rc['probe']):
                        fail = fail or 'cell %s: %r from the class object, %r from the written file' % (a, v1, v2)
                    if v1[0] == 'exc' and v1[1] in ('NameError', 'UnboundLocalError', 'RecursionError', 'SyntaxError'):
                        fail = fail or 'member of cell %s is not evaluable: %s' % (a, v1[1])
                    v = cell_value(rc['cells'][a])
                    if type(v).__module__.startswith('openpyxl'):
                        continue
                    if not (isinstance(v, str) and v.startswith('=')) and v1 != ('ok', v) and not (isinstance(v, datetime.time) or isinstance(v, datetime.timedelta)):
                        if not (isinstance(v, datetime.date) and not isinstance(v, datetime.datetime)):      # openpyxl returns a date as datetime
                            fail = fail or 'constant cell %s holds %r, the class returns %r' % (a, v, v1)
                # the class object and the written file keep behaving the same after one executor of the class object was given an override
                # far outside the stored cells: a NEW object of either reports the workbook's titles and sizes
                e1.set_cells([I.Cell(0, 40, 60, 1)])
                I.outcome(lambda: e1.get_cell(I.Cell(0, 40, 60)).value)
                a_ = cls()
                b_ = I.Executor().set_executed_class(class_file=mod).get_executed_class()
                if a_.get_sheets_size() != b_.get_sheets_size() or dict(a_.get_titles()) != dict(b_.get_titles()):
                    fail = fail or 'after an executor was given a far-away override, a new object of the class object reports %r / %r, one loaded from the written file %r / %r' % (
                        a_.get_titles(), a_.get_sheets_size(), b_.get_titles(), b_.get_sheets_size())
            except Timeout:
                fail = fail or 'evaluation did not finish'
            finally:
                signal.alarm(0)
        except Timeout:
            fail = fail or 'loading did not finish'
        except Exception as e:  # noqa
            return 'IBadModule', 'the returned source cannot be loaded/used: %s: %s' % (type(e).__name__, str(e)[:100]), dt
        return 'ILoadable', fail, dt
    finally:
        signal.alarm(0)
        for p in (path, mod):
            try:
                os.remove(p)
            except OSError:
                pass


def depth_of(f):
    d = m = 0
    for ch in f:
        if ch == '(':
            d += 1
            m = max(m, d)
        elif ch == ')':
            d -= 1
    return m


def make_case(rc):
    io, fail, dt = run_workbook(rc)
    if io is None:
        return None
    c = {'recipe': rc, 'key': rc, 'nontrivial': rc['family'] != 'valid' or len(rc['titles']) > 1, 'oracle_fail': fail, 'seconds': dt, 'io': io}
    c['coq'] = None if io == 'TIMEOUT' or rc.get('oracle_only') else 'CW %s (%s) %s' % (C.cstr(rc['probe']), io, C.cbool(fail is None))
    return c


def corpus():
    rs = []
    import random
    rng = random.Random(6)
    for fam, lst in [('valid', VALID), ('unsupported', UNSUPPORTED), ('malformed', MALFORMED), ('refs', REFS)]:
        for f in lst:
            rc = gen_recipe(rng, fam)
            rc['cells']['C1'] = f
            rc['probe'] = f
            if fam == 'refs' and ('C3' in f or 'C4' in f):        # the cycle only where the probe refers to it: it ends the whole translation
                rc['cells']['C3'] = '=C4+1'
                rc['cells']['C4'] = '=C3*2'
            rs.append(rc)
    for t in TEXTS:
        rc = gen_recipe(rng, 'valid')
        rc['cells']['K1'] = ['text', t]
        rs.append(rc)
    for f in ['=SUMIF(A1:A2,">007")', '=COUNTIFS(A1:A2,"<=010")', '=SUMIFS(B1:B2,A1:A2,"<>0012")', '=AVERAGEIFS(B1:B2,A1:A2,">=00")',
              '=COUNTIFS(A1:A2,">\u0663.\u0665")', '=SUMIF(A1:A2,"<\u0661")']:                  # non-ASCII digits in a criterion (fixed by c26138d)
        rc = gen_recipe(rng, 'valid')          # a criterion number written with leading zeros (fixed by b21d900)
        rc['cells']['C1'] = f
        rc['probe'] = f
        rs.append(rc)
    for t in TITLES:
        rc = gen_recipe(rng, 'valid')
        rc['titles'] = ['Main', t] if t != 'Main' else ['Main']
        rs.append(rc)
    for k in range(len(CONSTS)):
        rc = gen_recipe(rng, 'valid')
        rc['cells']['J1'] = ['const', k]
        rs.append(rc)
    rs += [x['witness'] for x in C.known_findings()['findings'] if x['property'] == 'C06']
    return rs


def run(R, tier):
    R.coverage['rule'] = ('real xlsx workbooks (openpyxl) through Parser.get_translation with the safety check off: 1-3 sheets with unusual titles, constants of every '
                          'type openpyxl delivers, texts with quotes / braces / newlines / non-ASCII, supported formulas, and ONE probe formula per workbook from the '
                          'families valid / unsupported / malformed and truncated / references (unknown sheets, row 0, beyond the grid, cycles) / random token soups / every function with every argument form (signed, bracketed, percent, text, pattern, call, comparison) / '
                          'nesting; outcome = library exception, or source that compiles, loads, reports the titles, has a member per stored cell, returns the '
                          'constants and behaves the same from the written file and from the class object; foreign exceptions, SyntaxError and %d s of wall clock '
                          'are failures; non-trivial = probe not from the valid family or more than one sheet' % LIMIT)
    C.proof_obligations(R, 'theories/Props/C06.v', 'Props.C06', TARGETS)
    if any('Coq build failed' in b for b in R.broken):
        return
    n = 160 if tier == 'quick' else 3000
    recipes = corpus() + shape_recipes()
    af = argform_recipes()
    recipes += af if tier != 'quick' else R.rng.sample(af, 160)
    while len(recipes) < n + len(corpus()) + len(shape_recipes()):
        recipes.append(gen_recipe(R.rng))
    cases = [c for c in (make_case(rc) for rc in recipes) if c is not None]
    R.extra['slowest_translation_s'] = round(max(c['seconds'] for c in cases), 2)
    fam = {}
    for c in cases:
        fam[c['recipe']['family']] = fam.get(c['recipe']['family'], 0) + 1
        fam[c['io'].split()[0]] = fam.get(c['io'].split()[0], 0) + 1
    R.extra['distribution'] = fam
    for c in cases[:2] + cases[-3:]:
        R.sample({'recipe': c['recipe'], 'outcome': c['io']})
    for c in cases:
        if c['recipe'].get('oracle_only') and c['io'] != 'TIMEOUT':
            R.count(c['key'], True)
            rc, fail = c['recipe'], c['oracle_fail']
            if fail and rc.get('known') and rc['expect'] in fail:
                R.known(rc['known'])
            elif fail:
                R.violation('workbook shape: ' + fail, {'recipe': rc, 'input_found': True})
            continue
        if c['coq'] is None:                   # wall-clock limit exceeded
            R.count(c['key'], True)
            if depth_of(c['recipe']['probe']) >= 4:
                R.known('parse_time_exponential_in_nesting_depth')
            else:
                R.violation('translation of a workbook did not finish within %d s' % LIMIT, {'recipe': c['recipe'], 'input_found': True})
    C.correspond(R, HEADER, 'report', [c for c in cases if c['coq'] is not None], 'c06',
                 'Parser._translate on a real workbook (reader, lexer, parser, translators, class assembly, loading)', shard=40)
    R.assumptions += ['the generated module is loaded with compile/exec and with the library\'s own load_module; evaluation errors of a member that are ordinary '
                      'Python runtime errors of the formula (TypeError, ZeroDivisionError, ...) are other properties\' business',
                      'wall clock: %d s per translation' % LIMIT]


def replay(R, rp):
    rc = rp.get('recipe') or (rp.get('examples') or [None])[0]
    if rc is None:
        print('nothing to replay: ' + str(rp.get('broken')))
        return 1
    c = make_case(rc)
    print('workbook:', rc, '\noutcome:', c['io'], '\noracle:', c['oracle_fail'], '\nseconds: %.2f' % c['seconds'])
    if c['coq'] is None:
        return 1
    C.build(TARGETS)
    rows = C.eval_report(HEADER, [c['coq']], 'report', 'c06_replay')
    print('row (model=impl spec oracle class):', rows[0])
    return 0 if rows[0].split()[0] != '0' and c['oracle_fail'] is None else 1
