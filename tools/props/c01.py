"""C01 — formula operators keep their Excel meaning (precedence, sign, %, &)."""
import ast
import itertools
import re

from x2p import common as C
from x2p import impl as I

HEADER = ('Require Import X2P.Base.Prelude X2P.Base.PyCmp X2P.Base.PyArith X2P.Model.Emit X2P.Corr.C01.\n'
          'Open Scope string_scope.\n')
TARGETS = ['theories/Props/C01.vo', 'theories/Corr/C01.vo']

# referenced cells: workbook constants; a recipe may override some of them
CELLS = {'A2': 5, 'B2': 2.5, 'C2': 'ab', 'D2': True, 'A3': 0, 'B3': 12, 'C3': '3', 'D3': 0.1}     # E2, E3 stay blank
REFS = ['A2', 'B2', 'A3', 'B3', 'D3', 'E2', 'C2', 'D2', 'C3', '$A$2', 'B$3']
NUMS = ['1', '2', '3', '7', '10', '100', '0', '12', '0.5', '2.25', '0.1', '1.1', '3e-1', '1.5e3', '2e2', '12.034e-2', '007', '1.50', '0.3', '4',
        '1.11e1', '1.16e1', '2.2222e3', '1.27e1', '2.14e1', '1.25e1']      # a fraction AND a positive exponent smaller than the number of fraction digits
TEXTS = ['"ab"', '"x"', '""', '"3"', '"a  b"', '"  "', '" x "', '")"', '"(x"', '"1) "', '":("']          # blanks INSIDE a text literal are part of the text
OV_VALUES = [0, 1, -4, 2.5, -0.75, 1e-3, 'q', '7', True, False, 3, 1000]
CMP = ['=', '<>', '<', '<=', '>', '>=']
PYCMP = {'==': 'OEq', '!=': 'ONe', '<': 'OLt', '<=': 'OLe', '>': 'OGt', '>=': 'OGe'}
PYOP = {ast.Add: 'AAdd', ast.Sub: 'ASub', ast.Mult: 'AMul', ast.Div: 'ADiv'}


class Unsupported(Exception):
    pass


def name_of_uid(uid):
    _, s, c, r = uid.split('_')
    if s != '0':
        raise Unsupported(uid)
    return I.get_column_letter(int(c) + 1) + str(int(r) + 1)


def py_of_ast(n):
    if isinstance(n, ast.Constant):
        if isinstance(n.value, (bool, int, float, str)):
            return 'PConst %s' % C.cval(n.value)
        raise Unsupported(ast.dump(n))
    if isinstance(n, ast.UnaryOp) and isinstance(n.op, (ast.USub, ast.UAdd)):
        return 'PUn %s (%s)' % ('true' if isinstance(n.op, ast.USub) else 'false', py_of_ast(n.operand))
    if isinstance(n, ast.BinOp) and type(n.op) in PYOP:
        return 'PBin %s (%s) (%s)' % (PYOP[type(n.op)], py_of_ast(n.left), py_of_ast(n.right))
    if isinstance(n, ast.Call) and not n.keywords:
        f = n.func
        if isinstance(f, ast.Name) and f.id == 'str' and len(n.args) == 1:
            return 'PStrOf (%s)' % py_of_ast(n.args[0])
        if isinstance(f, ast.Attribute) and isinstance(f.value, ast.Name) and f.value.id == 'self':
            if f.attr == '_compare' and len(n.args) == 3 and isinstance(n.args[0], ast.Constant) and n.args[0].value in PYCMP:
                return 'PCompare %s (%s) (%s)' % (PYCMP[n.args[0].value], py_of_ast(n.args[1]), py_of_ast(n.args[2]))
            if f.attr == '_normalize_float_number' and len(n.args) == 1:
                return 'PNorm (%s)' % py_of_ast(n.args[0])
            if f.attr == '_cell_preprocessor' and len(n.args) == 1 and isinstance(n.args[0], ast.Constant):
                return 'PCell %s' % C.cstr(name_of_uid(n.args[0].value))
    raise Unsupported(ast.dump(n))


def floats_of(tree, inst):
    """every float that occurs as the value of a sub-expression of the emitted code (for the repr table of the model)"""
    out = set()
    for n in ast.walk(tree):
        if isinstance(n, ast.expr):
            try:
                v = eval(compile(ast.Expression(n), '<sub>', 'eval'), {'self': inst, 'str': str})
            except Exception:  # noqa
                continue
            if isinstance(v, float):
                out.add(v)
    return out


SYMBOLS = ["2", "3", "4", "5", "6", "7", "+", "-", "*", "/", "&", "<", "%", "(", ")", "A2", "E2", "0.5", "=", "<>", ">=", "100"]


def join_symbols(ids):
    """the formula text of a symbol sequence: a blank keeps two adjacent atoms or two adjacent comparison signs apart"""
    out = ''
    prev = None
    for i in ids:
        kind = 'a' if i in ATOM_IDS + OTHER_ATOMS else 'c' if i in [11] + OTHER_CMP else 'o'
        if prev == kind and kind in 'ac':
            out += ' '
        out += SYMBOLS[i]
        prev = kind
    return out


def valid_formula(ids):
    """is the symbol sequence a well-formed operator formula (Excel's grammar; independent recursive-descent recogniser)"""
    pos = 0
    n = len(ids)
    isatom = lambda i: i in ATOM_IDS + OTHER_ATOMS
    iscmp = lambda i: i in [11] + OTHER_CMP

    def primary():
        nonlocal pos
        while pos < n and ids[pos] in (6, 7):
            pos += 1
        if pos >= n:
            return False
        if isatom(ids[pos]):
            pos += 1
        elif ids[pos] == 13:
            pos += 1
            if not expr() or pos >= n or ids[pos] != 14:
                return False
            pos += 1
        else:
            return False
        while pos < n and ids[pos] == 12:
            pos += 1
        return True

    def expr():
        nonlocal pos
        if not primary():
            return False
        while pos < n and (ids[pos] in (6, 7, 8, 9, 10) or iscmp(ids[pos])):
            pos += 1
            if not primary():
                return False
        return True
    return expr() and pos == n


def valid_sequences(n, rng=None):
    for rc in token_sequences(n, rng):
        if valid_formula(rc['symbols']):
            yield rc


def make_case(rc):
    if 'symbols' in rc:
        formula = '=' + join_symbols(rc['symbols'])
        source = 'SSymbols %s' % C.clist(['%d%%nat' % i for i in rc['symbols']])
    else:
        formula = rc['formula']
        source = 'SFormula %s' % C.cstr(formula)
    ov = rc.get('overrides', {})
    cells = dict(CELLS)
    cells.update(rc.get('extra_cells', {}))          # e.g. cells in columns spelled like function names (IF, OR): wide sheets, a few cases only
    cells['A1'] = formula
    it, iv, fl = 'IOther', ('exc', 'OtherExc'), set()
    leak = None
    env = dict(CELLS)
    env.update(rc.get('extra_cells', {}))
    env.update({k: C.jdec(v) for k, v in ov.items()})
    for v in env.values():
        if isinstance(v, float):
            fl.add(v)
    try:
        # a second sheet holds the same cell texts (the formula included) over other constants: its formula must be translated for ITS sheet
        decoy = {a: (v if isinstance(v, str) and v.startswith('=') else I._perturbed(v)) for a, v in cells.items()}
        src, ctx = I.translate([('S', cells), ('Decoy 1', decoy)])
        code = ctx._cell_translations['_0_0_0']
        code2 = ctx._cell_translations['_1_0_0']
        if code2 != code.replace("'_0_", "'_1_"):
            leak = 'the same formula text on a second sheet is translated to %r, on the first sheet to %r' % (code2[:120], code[:120])
    except I.X.E2PyclParserException:
        src, code, it, iv = None, None, 'IReject', ('exc', 'E2PyclParserException')
    except RecursionError:
        src, code = None, None
    except Exception as e:  # noqa
        src, code, iv = None, None, ('exc', type(e).__name__)
    if code is not None:
        try:
            tree = ast.parse(code, mode='eval')
        except SyntaxError:
            tree, it, iv = None, 'ISyntax', ('exc', 'SyntaxError')
        if tree is not None:
            try:
                it = 'ITree (%s)' % py_of_ast(tree.body)
            except Unsupported:
                it = 'IOther'
            cls = I.load(src)
            e = I.executor(cls)
            if ov:
                e.set_cells([I.Cell(0, *I.a1(k), C.jdec(v)) for k, v in ov.items()])
            iv = I.outcome(lambda: e.get_cell(I.Cell(0, 0, 0)).value)
            inst = cls()
            inst._arguments = {'_0_%d_%d' % I.a1(k): C.jdec(v) for k, v in ov.items()}
            fl |= floats_of(tree, inst)
            if iv[0] == 'ok' and isinstance(iv[1], float):
                fl.add(iv[1])
    if it == 'IReject' and re.fullmatch(r'=[A-Z0-9$.+\-*/() ]+', formula) and not re.search(r'[+\-*/(]\s*[*/)]|\(\s*\)|[+\-*/]\s*$|\d\s+\d|[A-Z0-9)]\s*\(', formula) \
            and formula.count('(') == formula.count(')') and rc.get('wellformed'):
        leak = 'a well-formed arithmetic formula over numbers and references is rejected'
    if leak:
        it, iv = 'IOther', ('exc', 'OtherExc')           # reported as: the implementation leaves the model and the spec on this input
        rc = dict(rc, observed=leak)
    cells_coq = C.clist(['(%s, %s)' % (C.cstr(k), C.cval(v)) for k, v in sorted(env.items())])
    reprs = C.clist(['(%s, %s)' % (C.cfloat(f), C.cstr(repr(f))) for f in sorted(fl, key=repr)])
    coq = 'CF (%s) %s %s (%s) %s' % (source, cells_coq, reprs, it, C.cres(iv))
    nt = sum(formula.count(o) for o in '+-*/&<>=%') >= 3
    return {'recipe': rc, 'coq': coq, 'key': (formula, sorted(ov.items(), key=repr)), 'nontrivial': nt, 'leak': leak}


# ---------------------------------------------------------------- generators

def gen_atom(rng):
    r = rng.random()
    if r < 0.5:
        return rng.choice(NUMS)
    if r < 0.85:
        return rng.choice(REFS[:6]) if rng.random() < 0.8 else rng.choice(REFS)
    if r < 0.93:
        return rng.choice(TEXTS)
    return rng.choice(['TRUE', 'FALSE'])


def gen_expr(rng, depth, numeric):
    """a well-formed operator formula as text; numeric=True keeps to arithmetic operators"""
    if depth <= 0 or rng.random() < 0.25:
        a = gen_atom(rng) if not numeric else (rng.choice(NUMS) if rng.random() < 0.6 else rng.choice(REFS[:6]))
        if rng.random() < 0.12:
            a += '%'
        return a
    r = rng.random()
    if r < 0.12:
        return rng.choice('-+') + gen_expr(rng, depth - 1, numeric)
    if r < 0.27:
        return '(' + gen_expr(rng, depth - 1, numeric) + ')'
    ops = ['+', '-', '*', '/'] * 3 + ([] if numeric else ['&', '&'] + CMP)
    op = rng.choice(ops)
    sp = ' ' if rng.random() < 0.1 else ''
    return gen_expr(rng, depth - 1, numeric) + sp + op + sp + gen_expr(rng, depth - 1, numeric)


ALPHABET = [0, 6, 7, 8, 9, 10, 11, 12, 13, 14]           # indices into SYMBOLS: atom + - * / & < % ( )
ATOM_IDS = [0, 1, 2, 3, 4, 5]
OTHER_ATOMS = [15, 16, 17, 21]
OTHER_CMP = [18, 19, 20]


def token_sequences(n, rng=None):
    """every sequence of n symbols over the 10-symbol alphabet; the k-th atom is the literal k+1 (or, with rng, any atom kind)"""
    for seq in itertools.product(ALPHABET, repeat=n):
        k = 0
        out = []
        for s in seq:
            if s == 0:
                out.append(ATOM_IDS[k % 6] if rng is None or rng.random() < 0.6 else rng.choice(OTHER_ATOMS))
                k += 1
            elif s == 11 and rng is not None and rng.random() < 0.5:
                out.append(rng.choice(OTHER_CMP))
            else:
                out.append(s)
        yield {'symbols': out}


def bracket_family():
    """((a o1 b) o2 (c o3 d)) o4 e  and  e o4 ((a o1 b) o2 (c o3 d)) for all operator choices: groups that begin and end with a bracket"""
    out = []
    for o1, o2, o3, o4 in itertools.product('+-*/', repeat=4):
        out.append({'formula': '=((2%s3)%s(5%s7))%s4' % (o1, o2, o3, o4)})
        out.append({'formula': '=12%s((A2%s3)%s(B3%s7))' % (o4, o1, o2, o3)})
    return out


def corpus():
    fs = ['=1+2*3', '=(1+2)*3', '=2*3+4*5', '=8/4/2', '=8-4-2', '=2-3*4+5', '=-2*3', '=2*-3', '=-A2*B2', '=10%', '=A2%', '=-2%', '=2*5%', '=1<2+3', '=1&2+3',
          '=1<2&3', '=A2=B2', '=E2+1', '=E2*A2', '=A2-E2', '=-E2', '=D2+1', '=1.5+2.25', '=0.1+0.2', '=7/2', '=1-(2-3)-4', '=((1+2))*(3-4)', '="ab"&"x"', '=1&2&3',
          '=3e-1', '=12.034e-2', '=1.5e3', '=8/4&""', '=TRUE&""', '=E2&"x"', '="3"+1', '=C2+1', '=1/0', '=A2/A3', '=-1+2', '=2*-3+1', '=1+2<3', '=1+2&3',
          '=50%-1-2', '=8/50%*2', '=1%%', '=(2)%', '=2%*3', '=1.1%', '=$A$2+B$3', '= 1 + 2 * 3', '=1<2<3', '=2%+3', '=-A2+B2', '=1--2', '=+3', '=--3']
    rs = [{'formula': f} for f in fs]
    rs += [{'formula': f, 'extra_cells': {'IF1': 4, 'OR1': 6}, 'wellformed': True} for f in ['=IF1+OR1*2', '=(IF1-OR1)*2', '=IF1*3-OR1/2', '=2*(IF1+1)', '=IF1<OR1', '=IF1&OR1']]
    rs += [{'formula': '=A2+B2*E2', 'overrides': {'A2': C.jenc(1.5), 'E2': C.jenc(4)}}, {'formula': '=-A2*B2', 'overrides': {'B2': C.jenc(-3)}},
           {'formula': '=A2&B3', 'overrides': {'A2': C.jenc('q')}}, {'formula': '=E2+A3', 'overrides': {}}, {'formula': '=A2%', 'overrides': {'A2': C.jenc(1.1)}}]
    rs += [x['witness'] for x in C.known_findings()['findings'] if x['property'] == 'C01']
    return rs


def run(R, tier):
    R.coverage['rule'] = ('formulas over number/text/boolean literals, cell references (int, float, text, boolean, blank; workbook values and overrides), '
                          'parentheses, unary +/-, postfix %, + - * / & and the six comparisons: (a) every token sequence up to a length bound over the '
                          '10-symbol alphabet {atom + - * / & < % ( )}, (b) random well-formed formulas of depth <= 4 with blanks, (c) a corpus; the emitted '
                          'code is parsed with ast and compared with the model\'s tree, the value with the model\'s value and with the Excel-side evaluator; '
                          'non-trivial = at least 3 operator characters; distinct by (formula, overrides)')
    C.proof_obligations(R, 'theories/Props/C01.v', 'Props.C01', TARGETS)
    if any('Coq build failed' in b for b in R.broken):
        return
    n_rand = 400 if tier == 'quick' else 6000
    maxlen, maxvalid = (3, 6) if tier == 'quick' else (5, 7)
    recipes = corpus()
    fam = bracket_family()
    recipes += fam if tier != 'quick' else R.rng.sample(fam, 100)
    for n in range(1, maxlen + 1):
        recipes += list(token_sequences(n))
    for n in range(maxlen + 1, maxvalid + 1):
        vs = list(valid_sequences(n)) + (list(valid_sequences(n, R.rng)) if n <= 6 else [])
        if len(vs) > 9000:
            vs = R.rng.sample(vs, 9000)
        recipes += vs
    R.extra['exhaustive_all_sequences_up_to'] = maxlen
    R.extra['exhaustive_valid_formulas_up_to'] = maxvalid
    for _ in range(n_rand):
        numeric = R.rng.random() < 0.55
        rc = {'formula': '=' + gen_expr(R.rng, R.rng.randint(1, 4), numeric), 'wellformed': True}
        if re.search(r'".*[?*].*"', rc['formula']):
            continue        # a * between two text literals is lexed as ONE wildcard-pattern literal (recorded under C07): not an operator formula any more
        if R.rng.random() < 0.35:
            ks = R.rng.sample(['A2', 'B2', 'A3', 'B3', 'D3', 'E2'], R.rng.randint(1, 3))
            rc['overrides'] = {k: C.jenc(R.rng.choice(OV_VALUES if not numeric else OV_VALUES[:6] + OV_VALUES[10:])) for k in ks}
        recipes.append(rc)
    seen, cases = set(), []
    for rc in recipes:
        key = repr(sorted(rc.items(), key=repr))
        if key in seen:
            continue
        seen.add(key)
        cases.append(make_case(rc))
    for c in cases[:2] + cases[-4:]:
        R.sample({'recipe': c['recipe']})
    R.extra['formulas'] = len(cases)
    def search(drifting):
        """the correspondence broke on formulas that still have Excel's value: put each of them into every operator context"""
        out, seen2 = [], set()
        for c in drifting[:40]:
            rc = c['recipe']
            f = rc['formula'][1:] if 'formula' in rc else join_symbols(rc['symbols'])
            for ctx in ['%s*2', '2*%s', '%s/2', '2/%s', '2-%s', '-%s', '%s-2', '%s&1', '1&%s', '%s<1', '1<%s', '(%s)*2', '2*(%s)', '2-(%s)', '(%s)%%', '%s+A2*B2']:
                g = '=' + ctx % f
                if g not in seen2:
                    seen2.add(g)
                    out.append(make_case(dict({k: v for k, v in rc.items() if k == 'overrides'}, formula=g)))
        for rc in bracket_family():
            if rc['formula'] not in seen2:
                seen2.add(rc['formula'])
                out.append(make_case(rc))
        return out
    for c in cases:
        if c.get('leak'):
            # decided on the implementation alone (the model's lexer is regenerated from the same source and cannot disagree with it)
            R.violation('operator formula %s: %s' % (c['recipe'].get('formula'), c['leak']), {'recipe': c['recipe'], 'input_found': True})
    C.correspond(R, HEADER, 'report', cases, 'c01', 'lexer + token-set parser + ExpressionTokenTranslator/OperandTokenTranslator/LiteralToken + runtime operators',
                 shard=300, search=search)
    R.assumptions += ['Python\'s own grouping of the emitted text is observed with ast.parse on every case and compared with the model\'s regroup',
                      'Excel\'s reading and values are the independent evaluator Spec/Formula.v (IEEE doubles, literal = nearest double); it is silent on '
                      'number->text of fractions, numeric-text spellings other than plain digits, integers beyond 2^53 and mixed-kind comparisons']


def replay(R, rp):
    rc = rp.get('recipe') or (rp.get('examples') or [None])[0]
    if rc is None:
        print('nothing to replay: ' + str(rp.get('broken')))
        return 1
    C.build(TARGETS)
    c = make_case(rc)
    rows = C.eval_report(HEADER, [c['coq']], 'report', 'c01_replay')
    print('case:', rc, '\ncoq case:', c['coq'], '\nrow (model=impl spec(model) spec(impl) class):', rows[0])
    p = rows[0].split()
    return 0 if p[0] == '1' and p[1] != '0' and p[2] != '0' else 1
