"""C02 — every reference form denotes exactly the intended cells of the intended sheet."""
import ast
import re

from x2p import common as C
from x2p import impl as I

HEADER = ('Require Import X2P.Base.Prelude X2P.Model.Executor X2P.Spec.Refs X2P.Corr.C02.\nOpen Scope Z_scope.\n')
TARGETS = ['theories/Props/C02.vo', 'theories/Corr/C02.vo']
TITLES = ['Main', 'Data_2', 'My Sheet', "It's", 'Q1  Totals', 'Q1 Totals']      # the last two differ by one blank only
FN_COLS = [I.column_index_from_string(x) for x in ('IF', 'OR', 'AND', 'SUM', 'MAX', 'MIN', 'MID', 'DAY', 'IFS', 'ORA')]      # columns spelled like function names
WRAP = ['SUM({r})', 'COUNT({r})', 'MAX({r})', 'INDEX({r},1,1)', 'SUM({r})+1', 'COUNTBLANK({r})', 'AVERAGE({r})', 'MIN({r},5)']


def col_letters(c):
    return I.get_column_letter(c)


def gen_ref(rng, ntitles):
    s = rng.choice([None, None] + list(range(ntitles)))
    own = rng.randrange(ntitles)
    form = rng.choice(['cell', 'cell', 'col', 'row', 'rect', 'rect', 'single_area', 'wholecol', 'wholecols'])
    c1 = rng.choice([1, 2, 3, 26, 27, 28, 52, 702, 703, 16384, rng.randint(1, 40), rng.choice(FN_COLS)])
    r1 = rng.choice([1, 2, 9, 10, 11, 99, 100, 99999, rng.randint(1, 30)])
    d = lambda: rng.choice(['', '$'])
    if s is None:
        pre, sname = '', None
    elif rng.random() < 0.15:
        # a title that does not exist: a foreign one, or a look-alike of an existing one (other letter case, an extra blank)
        t = TITLES[s]
        look = [x for x in (t.upper(), t.lower(), t.swapcase(), t + ' ', ' ' + t) if x not in TITLES[:ntitles] and "'" not in x]
        pre = rng.choice(['Nope!', "'No such'!"] + ["'%s'!" % x if (' ' in x) else '%s!' % x for x in look])
        sname = pre[:-1][1:-1] if pre.startswith("'") else pre[:-1]
    else:
        t = TITLES[s]
        pre = ("'%s'!" % t) if (' ' in t or "'" in t or rng.random() < 0.3) else '%s!' % t
        if "'" in t:
            pre = "'%s'!" % t.replace("'", "''")
        sname = t
    if form == 'cell':
        text = '%s%s%s%s%d' % (pre, d(), col_letters(c1), d(), r1)
        x = (sname, c1, r1, c1, r1)
        return own, text, x, False
    if form == 'col':
        r2 = r1 + rng.randint(1, 3)
        c2 = c1
    elif form == 'row':
        r2, c2 = r1, min(16384, c1 + rng.randint(1, 3))
    elif form == 'rect':
        r2, c2 = r1 + rng.randint(1, 2), min(16384, c1 + rng.randint(1, 2))
    elif form == 'single_area':
        r2, c2 = r1, c1
    elif form == 'wholecol':
        c1 = rng.randint(1, 6)
        return own, '%s%s:%s' % (pre, col_letters(c1), col_letters(c1)), (sname, c1, None, c1, None), True
    else:
        c1 = rng.randint(1, 4)
        c2 = c1 + rng.randint(1, 2)
        return own, '%s%s:%s' % (pre, col_letters(c1), col_letters(c2)), (sname, c1, None, c2, None), True
    text = '%s%s%s%s%d:%s%s%s%d' % (pre, d(), col_letters(c1), d(), r1, d(), col_letters(c2), d(), r2)
    return own, text, (sname, c1, r1, c2, r2), True


def make_case(rc):
    ntitles = rc['ntitles']
    own, text, x, area = rc['own'], rc['text'], rc['x'], rc['area']
    # workbook: a few cells per sheet with unique values; the formula sits at H20 of the own sheet
    sheets = []
    for i in range(ntitles):
        cells = {'A1': 100000 * i + 101, 'B2': 100000 * i + 202, 'C5': 100000 * i + 305, 'D12': 100000 * i + 412}
        sheets.append((TITLES[i], cells))
    formula = '=' + (rc['wrap'].format(r=text) if area else text)
    sheets[own][1]['H20'] = formula
    if rc.get('dup'):
        # the same formula TEXT on every sheet (its bare references then denote each sheet's own cells); the whole file is translated
        for i in range(ntitles):
            sheets[i][1]['H20'] = formula
    ex = I.mkexcel(sheets)
    ctx = I.Context()
    ctx._titles = ex.get_titles()
    ctx._sheets_size = ex.get_sheets_size()
    try:
        if rc.get('dup'):
            I.CellTranslator.translate_file(ex, ctx)
        else:
            I.CellTranslator.translate(I.Cell(own, 7, 19), ex, ctx)
        code = ctx._cell_translations['_%d_7_19' % own]
        subcode = ctx._get_divided_sub_cell_translations()

        def find_matrix(c, depth=0):
            if c.startswith('[[') or c == '[]':
                return c
            if depth > 8:
                return None
            for name in re.findall(r"_cell_preprocessor\('(_[-\d]+_[-\d]+_(?:[-\d]+|any)_\d+)'\)", c):
                r_ = find_matrix(subcode[name], depth + 1)
                if r_ is not None:
                    return r_
            return None
        if area:
            mat = find_matrix(code)
            lit = re.sub(r"self\._cell_preprocessor\('(_[-\d]+_[-\d]+_[-\d]+)'\)", r"'\1'", mat)
            m = ast.literal_eval(lit)
        else:
            u = re.fullmatch(r"self\._cell_preprocessor\('(_[-\d]+_[-\d]+_[-\d]+)'\)", code)
            m = [[u.group(1)]]
        coords = [[tuple(int(v) for v in u[1:].split('_')) for u in row] for row in m]
        impl = '(ICells %s)' % C.clist([C.clist(['(%s, %s, %s)' % (C.cz(a), C.cz(b), C.cz(c)) for a, b, c in row]) for row in coords])
    except Exception as e:  # noqa
        impl = '(IExc %s)' % C.cexn(type(e).__name__)
    ts = C.clist(['(%s, %s)' % (C.cstr(t), C.cz(i)) for i, t in enumerate(TITLES[:ntitles])])
    rows = C.clist([C.cz(len(sh)) for sh in ex._data])
    sname, c1, r1, c2, r2 = x
    xr = '{| x_sheet := %s; x_c1 := %s; x_r1 := %s; x_c2 := %s; x_r2 := %s |}' % (
        'None' if sname is None else '(Some %s)' % C.cstr(sname), C.cz(c1), C.copt(r1, C.cz), C.cz(c2), C.copt(r2, C.cz))
    coq = 'CRf %s %s %s %s %s %s' % (ts, rows, C.cz(own), C.cstr(text), xr, impl)
    nt = c1 > 26 or (r1 or 0) >= 10 or sname is not None or area
    return {'recipe': rc, 'coq': coq, 'key': rc, 'nontrivial': nt}


def gen_recipe(rng):
    ntitles = rng.choice([1, 2, 3, 4, 6, 6])
    while True:
        own, text, x, area = gen_ref(rng, ntitles)
        sname, c1, r1, c2, r2 = x
        # the formula sits at H20 of sheet `own`: a reference that contains that very cell would be a circular one (C03's subject)
        if (sname is None or sname == TITLES[own]) and c1 <= 8 <= c2 and (r1 is None or r1 <= 20 <= r2):
            continue
        break
    return {'ntitles': ntitles, 'own': own, 'text': text, 'x': list(x), 'area': area, 'wrap': rng.choice(WRAP), 'dup': rng.random() < 0.3}


def corpus():
    rs = [{'ntitles': 3, 'own': 0, 'text': "'My Sheet'!B3", 'x': ['My Sheet', 2, 3, 2, 3], 'area': False, 'wrap': ''},
          {'ntitles': 3, 'own': 1, 'text': 'A1:B2', 'x': [None, 1, 1, 2, 2], 'area': True, 'wrap': 'SUM({r})'},
          {'ntitles': 3, 'own': 2, 'text': 'Main!$XFD$1048576', 'x': ['Main', 16384, 1048576, 16384, 1048576], 'area': False, 'wrap': ''},
          {'ntitles': 2, 'own': 0, 'text': "'Data_2'!$A$1:$D$2", 'x': ['Data_2', 1, 1, 4, 2], 'area': True, 'wrap': 'COUNTBLANK({r})'},
          {'ntitles': 2, 'own': 0, 'text': 'Nope!A1', 'x': ['Nope', 1, 1, 1, 1], 'area': False, 'wrap': ''},
          {'ntitles': 2, 'own': 1, 'text': 'MAIN!A1', 'x': ['MAIN', 1, 1, 1, 1], 'area': False, 'wrap': ''},
          {'ntitles': 3, 'own': 0, 'text': "'my sheet'!A1:B2", 'x': ['my sheet', 1, 1, 2, 2], 'area': True, 'wrap': 'SUM({r})'},
          {'ntitles': 2, 'own': 1, 'text': 'B:B', 'x': [None, 2, None, 2, None], 'area': True, 'wrap': 'SUM({r})'}]
    rs += [x['witness'] for x in C.known_findings()['findings'] if x['property'] == 'C02']
    return rs


def run(R, tier):
    R.coverage['rule'] = ('references in every spelling ($ markers, bare / unquoted / quoted sheet prefix incl. a doubled apostrophe, unknown sheets) x '
                          'coordinates (columns A..XFD incl. Z/AA/ZZ/AAA boundaries, rows up to 99999) x shapes (cell, column, row, rectangle, 1x1 area, '
                          'whole column(s)) in 8 function positions, over 1-4 sheets; the cells the translated code refers to are compared with the '
                          'model and with the row-major spec; non-trivial = multi-letter column, row >= 10, a sheet prefix or an area')
    C.proof_obligations(R, 'theories/Props/C02.v', 'Props.C02', TARGETS)
    if any('Coq build failed' in b for b in R.broken):
        return
    n = 300 if tier == 'quick' else 4000
    recipes = corpus() + [gen_recipe(R.rng) for _ in range(n)]
    cases = [make_case(rc) for rc in recipes]
    for c in cases[:3] + cases[-2:]:
        R.sample({'reference': c['recipe']['text'], 'own_sheet': c['recipe']['own']})
    C.correspond(R, HEADER, 'report', cases, 'c02', 'reference token regexes and group indices, handle_cell, Excel.get_matrix/_get_vertical_range/_get_matrix, the cell/matrix translators', shard=150)
    pipeline_cases(R)
    R.assumptions += ['values behind the coordinates are covered by C18 (reader) and C11 (aggregates); here the denoted coordinates are compared (plus one workbook through the xlsx pipeline, by value)',
                      'CellIdentifierRangeToken is never produced by the lexer (MatrixOfCellIdentifiersToken precedes it): all areas go through get_matrix']


def pipeline_cases(R):
    """References evaluated through the real pipeline (xlsx file -> Parser -> Executor): stored zeros and FALSE at the END of rows and in
    the last rows are values, never-written cells are blanks, and areas / whole columns over them count and sum exactly the stored cells."""
    import os
    from openpyxl import Workbook
    d = os.path.join(C.BUILD, 'c02')
    os.makedirs(d, exist_ok=True)
    data = {'A1': 5, 'B1': 7, 'C1': 0, 'A2': 3, 'B2': 0, 'A3': 0, 'B4': 8, 'D4': False, 'A5': 0, 'B5': 0}
    # formula cells (with function calls of their own) at the top-left corner of areas that other formulas read
    fcells = {'F1': ('=SUM(A1:B1)', 12), 'F2': ('=MAX(A2,B2)', 3), 'F3': ('=A3+1', 1), 'G1': ('=SUM(F1:F3)+COUNT(A1:B2)', 20)}
    nums = {a: v for a, v in data.items() if not isinstance(v, bool)}

    def inside(a, c1, r1, c2, r2):
        c, r = I.a1(a)
        return c1 <= c + 1 <= c2 and r1 <= r + 1 <= r2
    checks = []
    for a in ['C1', 'B2', 'A3', 'D4', 'B5', 'C2', 'E1', 'A6', 'C5']:
        checks.append(('=Data!%s' % a, ('cell', data.get(a))))
    for (c1, r1, c2, r2) in [(1, 1, 3, 1), (1, 1, 2, 5), (1, 1, 3, 3), (1, 1, 3, 5), (2, 1, 3, 2), (1, 3, 2, 5), (3, 1, 3, 1), (1, 5, 2, 5)]:
        area = 'Data!%s%d:%s%d' % (col_letters(c1), r1, col_letters(c2), r2)
        inn = [v for a, v in nums.items() if inside(a, c1, r1, c2, r2)]
        allin = [a for a in data if inside(a, c1, r1, c2, r2)]
        checks += [('=COUNT(%s)' % area, ('num', len(inn))), ('=SUM(%s)' % area, ('num', sum(inn))),
                   ('=COUNTBLANK(%s)' % area, ('num', (c2 - c1 + 1) * (r2 - r1 + 1) - len(allin)))]
    checks += [('=SUM(Data!F1:F3)', ('num', 16)), ('=COUNT(Data!$F$1:$F$3)', ('num', 3)), ('=Data!F1', ('num', 12)), ('=MAX(Data!F1:G1)', ('num', 20)),
               ('=SUM(Data!F1:F3)+SUM(Data!F1:F2)', ('num', 31))]
    for col in 'AB':
        inn = [v for a, v in nums.items() if a[0] == col]
        checks += [('=COUNT(Data!%s:%s)' % (col, col), ('num', len(inn))), ('=SUM(Data!$%s:$%s)' % (col, col), ('num', sum(inn)))]
    wb = Workbook()
    ws = wb.active
    ws.title = 'Main'
    for i, (f, _) in enumerate(checks):
        ws['A%d' % (i + 1)] = f
    wd = wb.create_sheet('Data')
    for a, v in data.items():
        wd[a] = v
    for a, (f_, _) in fcells.items():
        wd[a] = f_
    path = os.path.join(d, 'pipe_%d.xlsx' % os.getpid())
    wb.save(path)
    src = I.Parser().set_excel_file_path(path).disable_safety_check().get_translation()
    cls = I.load(src)
    e = I.executor(cls)
    other = I.executor(cls)                       # another executor of the SAME class object, with its own overrides, read in between
    other.set_cells([I.Cell('Data', 'A', '1', 5000), I.Cell('Data', 'B', '4', 8000), I.Cell('Data', 'F', '1', 70000)])
    for i, (f, (kind, want)) in enumerate(checks):
        I.outcome(lambda: other.get_cell(I.Cell(0, 0, i)).value)
        R.count(('pipeline', f), True)
        got = I.outcome(lambda: e.get_cell(I.Cell(0, 0, i)).value)
        if kind == 'cell':
            ok = got[0] == 'ok' and ((want is None and type(got[1]).__name__ == 'EmptyCell') or (want is not None and type(got[1]) is type(want) and got[1] == want))
        else:
            ok = got[0] == 'ok' and type(got[1]).__name__ != 'EmptyCell' and got[1] == want
        if not ok:
            R.violation('through the xlsx pipeline the reference formula %s evaluates to %r (%s); the sheet Data stores %r, so it denotes %r'
                        % (f, got[1] if got[0] == 'ok' else got, type(got[1]).__name__ if got[0] == 'ok' else 'exception', data, want),
                        {'recipe': {'kind': 'pipeline', 'formula': f}, 'input_found': True})
            return


def replay(R, rp):
    rc = rp.get('recipe') or (rp.get('examples') or [None])[0]
    if rc is None:
        print('nothing to replay: ' + str(rp.get('broken')))
        return 1
    if rc.get('kind') == 'pipeline':
        pipeline_cases(R)
        for w, _ in R.violations:
            print(w)
        return 1 if R.violations else 0
    C.build(TARGETS)
    c = make_case(rc)
    rows = C.eval_report(HEADER, [c['coq']], 'report', 'c02_replay')
    print('reference:', rc['text'], 'written on sheet', rc['own'], '\ncoq case:', c['coq'][:600], '\nrow (model=impl spec=model spec=impl class):', rows[0])
    return 0 if rows[0].split()[0] == '1' and rows[0].split()[1] != '0' else 1
