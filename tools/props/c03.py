"""C03 — entry-point translation is a closed, faithful slice; cycles are rejected."""
from x2p import common as C
from x2p import impl as I

HEADER = ('Require Import X2P.Base.Prelude X2P.Corr.C03.\n')
TARGETS = ['theories/Props/C03.vo', 'theories/Corr/C03.vo']
TITLES = ['S0', 'Data', '1']          # the third title is a number that is not the sheet's own position: it must be looked up as a NAME
COLS = 'ABCD'


def addr(c, r):
    return '%s%d' % (COLS[c], r + 1)


def gen_workbook(rng, cyclic):
    """returns sheets [(title,{A1:val})], positions list [(s,c,r)], deps {pos:[pos...]}"""
    n = rng.randint(3, 10)
    nsheets = rng.choice([1, 1, 2, 3])
    pos = []
    while len(pos) < n:
        p = (rng.randrange(nsheets), rng.randrange(4), rng.randrange(4))
        if p not in pos:
            pos.append(p)
    cells = {}
    deps = {}
    relmap = {}
    for i, p in enumerate(pos):
        if i < 2 or rng.random() < 0.3:
            cells[p] = rng.randint(1, 9)
            deps[p] = []
            continue
        cand = pos[:i] if not cyclic or rng.random() < 0.6 else pos
        parts, ds, rel = [], [], []
        for _ in range(rng.randint(1, 3)):
            n_before = len(ds)
            q = rng.choice(cand)
            form = rng.random()
            pre = '' if q[0] == p[0] and rng.random() < 0.7 else rng.choice(['%s!' % TITLES[q[0]], "'%s'!" % TITLES[q[0]]])
            if pre and TITLES[q[0]].isdigit():
                pre, form = "'%s'!" % TITLES[q[0]], min(form, 0.5)      # a numeric title is written quoted, and (see below) before a single cell only
            if form >= 0.55 and pre.startswith("'"):
                # a quoted sheet prefix before a RANGE is lexed wrongly when another quote precedes it (recorded under C02): keep clear
                pre = pre.replace("'", '')
            if form < 0.55:
                d1, d2 = rng.choice(['', '$']), rng.choice(['', '$'])
                parts.append('%s%s%s%s%d' % (pre, d1, COLS[q[1]], d2, q[2] + 1))
                if rng.random() < 0.2:
                    # a dependency reached through IFERROR's guarded argument is a dependency like any other (cycles through it included)
                    parts[-1] = 'IFERROR(%s+1,0)' % parts[-1]          # no * here: a * between two quoted criteria would make one greedy pattern literal
                ds.append(q)
            elif form < 0.67:
                # SUMIF whose sum range is written SHORTER than (or as one cell of) the criteria range: Excel — and the translator — sum the
                # cells that start at its top-left corner and have the shape of the criteria range, so those are the dependencies
                r2 = min(3, q[2] + rng.randint(1, 2))
                n_rows = r2 - q[2] + 1
                t = rng.choice(cand)
                if t[2] + n_rows - 1 > 3:
                    t = (t[0], t[1], 3 - (n_rows - 1))
                if t[0] != p[0] and TITLES[t[0]].isdigit():
                    t = (q[0], t[1], t[2])                     # a numeric title cannot be written unquoted
                tpre = '' if t[0] == p[0] else '%s!' % TITLES[t[0]]
                written_end = t[2] + rng.choice([0, 0, n_rows - 1, max(0, n_rows - 2)])
                tgt = addr(t[1], t[2]) if written_end == t[2] and rng.random() < 0.5 else '%s:%s' % (addr(t[1], t[2]), addr(t[1], written_end))
                parts.append('SUMIF(%s%s:%s,">0",%s%s)' % (pre, addr(q[1], q[2]), addr(q[1], r2), tpre, tgt))
                ds += [(q[0], q[1], r) for r in range(q[2], r2 + 1)] + [(t[0], t[1], t[2] + k) for k in range(n_rows)]
                rel += [pre == ''] * n_rows + [tpre == ''] * n_rows
                continue
            elif form < 0.8:
                r2 = min(3, q[2] + rng.randint(1, 2))
                parts.append('SUM(%s%s:%s)' % (pre, addr(q[1], q[2]), addr(q[1], r2)))
                ds += [(q[0], q[1], r) for r in range(q[2], r2 + 1)]
            else:
                c2 = min(3, q[1] + 1)
                r2 = min(3, q[2] + 1)
                parts.append('SUM(%s%s:%s)' % (pre, addr(q[1], q[2]), addr(c2, r2)))
                ds += [(q[0], c, r) for r in range(q[2], r2 + 1) for c in range(q[1], c2 + 1)]
            rel += [pre == ''] * (len(ds) - n_before)
        if rng.random() < 0.2 and len(parts) >= 2:
            f = '=IF(%s>2,%s,%s)' % (parts[0], parts[1], parts[-1])
        else:
            # a * between two quoted criteria would be lexed as ONE wildcard-pattern literal (the greedy pattern token, recorded under C07)
            f = '=' + ('+' if sum('"' in x for x in parts) >= 2 else rng.choice(['+', '*', '+'])).join(parts)
        cells[p] = f
        deps[p] = ds
        relmap[p] = rel
    # the same formula TEXT on another sheet: its unprefixed references then denote that other sheet's cells
    if nsheets >= 2 and rng.random() < 0.5:
        fcells = [p for p in relmap if any(relmap[p])]
        if fcells:
            p = rng.choice(fcells)
            s2 = rng.choice([x for x in range(nsheets) if x != p[0]])
            q = (s2, p[1], p[2]) if rng.random() < 0.5 else (s2, rng.randrange(4), rng.randrange(4))
            if q not in cells and not cyclic:
                cells[q] = cells[p]
                deps[q] = [((s2, d[1], d[2]) if r else d) for d, r in zip(deps[p], relmap[p])]
                if q in deps[q] or any(q in deps.get(d, []) for d in deps[q]):
                    del cells[q], deps[q]
    sheets = [(TITLES[s], {addr(c, r): v for (ss, c, r), v in cells.items() if ss == s}) for s in range(nsheets)]
    return sheets, deps


def make_case(rc):
    sheets = [(t, {a: v for a, v in cells.items()}) for t, cells in rc['sheets']]
    deps = {tuple(k): [tuple(d) for d in ds] for k, ds in rc['deps']}
    ex = I.mkexcel(sheets)
    # numbering: every stored position (as Excel.get_cells enumerates them) and every referenced position
    order = []
    for s, sheet in enumerate(ex._data):
        for r, row in enumerate(sheet):
            for c, _ in enumerate(row):
                order.append((s, c, r))
    allpos = list(order)
    for k, ds in deps.items():
        for p in [k] + ds:
            if p not in allpos:
                allpos.append(p)
    idx = {p: i for i, p in enumerate(allpos)}
    entry = tuple(rc['entry']) if rc['entry'] is not None else None

    def translate(e):
        ctx = I.Context()
        ctx._titles = ex.get_titles()
        ctx._sheets_size = ex.get_sheets_size()
        if e is None:
            I.CellTranslator.translate_file(ex, ctx)
        else:
            I.CellTranslator.translate(I.Cell(e[0], e[1], e[2]), ex, ctx)
        return ctx

    def uid_pos(u):
        t, c, r = u[1:].split('_')
        return (int(t), int(c), int(r))

    rel_fail = None
    try:
        ctx = translate(entry)
        got = [uid_pos(u) for u in ctx._cell_translations]
        unknown = [p for p in got if p not in idx]
        impl = '(IOk %s)' % C.clist(['%d%%nat' % idx[p] for p in got if p in idx]) if not unknown else 'IOther'
        if entry is not None and not unknown:
            # relational check of the property itself: every cell of the slice evaluates as in the whole-workbook class
            try:
                full = I.load(translate(None).build_class())()
                sl = I.load(ctx.build_class())()
                for u in ctx._cell_translations:
                    a = I.outcome(lambda: sl.exec_function_in(u))
                    b = I.outcome(lambda: full.exec_function_in(u))
                    if repr(a) != repr(b):
                        rel_fail = 'cell %s evaluates to %r in the slice and %r in the whole-workbook class' % (u, a, b)
                        break
            except I.X.E2PyclParserException:
                pass    # the whole workbook has a cycle elsewhere: nothing to compare with
    except I.X.E2PyclParserException as e:
        impl = 'ICycle' if 'ircular' in str(e.args[0] if e.args else '') else 'IOther'
    except RecursionError:
        impl = 'IOther'
    except Exception:
        impl = 'IOther'
    tbl = C.clist(['(%d%%nat, %s)' % (idx[k], C.clist(['%d%%nat' % idx[d] for d in ds])) for k, ds in deps.items() if ds])
    coq = 'CG %d%%nat %s %s %s %s' % (len(allpos), tbl, 'None' if entry is None else '(Some %d%%nat)' % idx[entry],
                                      C.clist(['%d%%nat' % idx[p] for p in order]), impl)
    shared = sum(1 for p in allpos if sum(1 for ds in deps.values() if p in ds) >= 2)
    return {'recipe': rc, 'coq': coq, 'key': rc, 'nontrivial': shared >= 1 and entry is not None, 'rel_fail': rel_fail}


def gen_recipes(rng, n):
    out = []
    while len(out) < n:
        cyclic = rng.random() < 0.25
        sheets, deps = gen_workbook(rng, cyclic)
        base = {'sheets': [[t, cells] for t, cells in sheets], 'deps': [[list(k), [list(d) for d in ds]] for k, ds in deps.items()]}
        keys = list(deps)
        for e in rng.sample(keys, min(len(keys), 3)) + [None]:
            out.append(dict(base, entry=list(e) if e is not None else None))
    return out[:n]


def corpus():
    sh = [['S0', {'A1': 1, 'A2': 2, 'B1': '=A1+A2', 'B2': '=B1*2', 'C1': '=SUM(A1:B2)', 'D4': 5}], ['Data', {'A1': '=S0!B2+1', 'B2': 7}]]
    deps = [[[0, 1, 0], [[0, 0, 0], [0, 0, 1]]], [[0, 1, 1], [[0, 1, 0]]], [[0, 2, 0], [[0, 0, 0], [0, 1, 0], [0, 0, 1], [0, 1, 1]]],
            [[1, 0, 0], [[0, 1, 1]]]]
    cyc = [['S0', {'A1': '=B1+1', 'B1': '=C1+1', 'C1': '=A1+1', 'D1': '=A1', 'A2': 3}]]
    cdeps = [[[0, 0, 0], [[0, 1, 0]]], [[0, 1, 0], [[0, 2, 0]]], [[0, 2, 0], [[0, 0, 0]]], [[0, 3, 0], [[0, 0, 0]]]]
    selfc = [['S0', {'B2': '=B2+1', 'A1': 1}]]
    rs = [{'sheets': sh, 'deps': deps, 'entry': e} for e in ([1, 0, 0], [0, 2, 0], [0, 1, 1], [0, 3, 3], None)]
    rs += [{'sheets': cyc, 'deps': cdeps, 'entry': e} for e in ([0, 0, 0], [0, 3, 0], [0, 0, 1], None)]
    rs += [{'sheets': selfc, 'deps': [[[0, 1, 1], [[0, 1, 1]]]], 'entry': [0, 1, 1]}]
    # the same whole column reached from several formulas (and twice from one) in one translation
    wc = [['S0', {'A1': 1, 'A2': 2, 'A3': 5, 'C1': '=SUM(A:A)', 'C2': '=COUNT(A:A)+SUM(A:A)', 'D1': '=C1+C2'}], ['Data', {'B1': 4, 'B2': 6, 'A1': '=SUM(Data!B:B)+S0!C1', 'A2': '=MAX(B:B)'}]]
    colA, colB = [[0, 0, 0], [0, 0, 1], [0, 0, 2]], [[1, 1, 0], [1, 1, 1]]
    wdeps = [[[0, 2, 0], colA], [[0, 2, 1], colA], [[0, 3, 0], [[0, 2, 0], [0, 2, 1]]], [[1, 0, 0], colB + [[0, 2, 0]]], [[1, 0, 1], colB]]
    rs += [{'sheets': wc, 'deps': wdeps, 'entry': e} for e in ([0, 3, 0], [1, 0, 0], [0, 2, 1], [1, 0, 1], None)]
    # long cycles: a ring of 60 cells in column A (A1 -> A2 -> ... -> A60 -> A1), reached through a tail B1 -> B2 -> A7
    ring = {'A%d' % i: '=A%d+1' % (i % 60 + 1) for i in range(1, 61)}
    ring.update({'B1': '=B2+1', 'B2': '=A7*2', 'C1': 5})
    rdeps = [[[0, 0, i - 1], [[0, 0, i % 60]]] for i in range(1, 61)] + [[[0, 1, 0], [[0, 1, 1]]], [[0, 1, 1], [[0, 0, 6]]]]
    rs += [{'sheets': [['S0', ring]], 'deps': rdeps, 'entry': e} for e in ([0, 0, 0], [0, 1, 0], [0, 0, 30], [0, 2, 0], None)]
    return rs


def parser_entry_reuse(R):
    """ONE Parser given one entry cell after the other (same workbook): every slice must be the slice a fresh Parser gives for that entry
    cell - also when two entry cells are spelled with integers whose digits read alike ((1, 11) / (11, 1)) or as 'B','2' / 'B', 2."""
    import os
    from openpyxl import Workbook
    d = os.path.join(C.BUILD, 'c03')
    os.makedirs(d, exist_ok=True)
    wb = Workbook()
    ws = wb.active
    ws.title = 'S0'
    for a, v in {'A1': 1, 'A2': 5, 'B12': '=A1+1', 'L2': '=A2+2', 'B2': '=A1*3', 'B3': '=A2*4', 'V4': '=B2+B3', 'C23': '=L2*2'}.items():
        ws[a] = v
    path = os.path.join(d, 'entries_%d.xlsx' % os.getpid())
    wb.save(path)
    entries = [('S0', 1, 11), ('S0', 11, 1), ('S0', 'B', '2'), ('S0', 'B', 2), ('S0', 2, 13), ('S0', 21, 3), ('S0', 1, 11)]
    fresh = [I.Parser().set_excel_file_path(path).set_entrypoint_cell(I.Cell(*e)).get_translation() for e in entries]
    for order in (entries, list(reversed(entries))):
        pr = I.Parser().set_excel_file_path(path)
        for e in order:
            R.count(('parser_entries', e, order is entries), True)
            got = pr.set_entrypoint_cell(I.Cell(*e)).get_translation()
            if got != fresh[entries.index(e)]:
                R.violation('one Parser, entry cells set one after the other %r: the slice for the entry cell %r is not the slice a fresh Parser gives for it'
                            % ([x[1:] for x in order], e[1:]), {'recipe': {'kind': 'parser_entries'}, 'input_found': True})
                return


def run(R, tier):
    R.coverage['rule'] = ('random dependency graphs of 3-10 stored cells over 1-3 sheets (single refs incl. $ and quoted/unquoted sheet prefixes, '
                          'column and rectangular ranges overlapping formula cells, shared sub-expressions, IF), 25% with back edges (cycles, self '
                          'references); up to 3 cells of each graph as entry point plus the whole-workbook translation; non-trivial = entry '
                          'translation of a graph with a shared dependency; distinct by workbook+entry')
    C.proof_obligations(R, 'theories/Props/C03.v', 'Props.C03', TARGETS)
    if any('Coq build failed' in b for b in R.broken):
        return
    n = 300 if tier == 'quick' else 4000
    recipes = corpus() + gen_recipes(R.rng, n)
    cases = [make_case(rc) for rc in recipes]
    for c in cases[:2] + cases[-2:]:
        R.sample({'sheets': c['recipe']['sheets'], 'entry': c['recipe']['entry']})
    outcomes = {}
    for c in cases:
        k = c['coq'].split()[-1] if c['coq'].endswith(('ICycle', 'IOther')) else 'IOk'
        outcomes[k] = outcomes.get(k, 0) + 1
    R.extra['outcome_distribution'] = outcomes
    for c in cases:
        if c['rel_fail']:
            R.violation('slice is not faithful: ' + c['rel_fail'], {'recipe': c['recipe'], 'input_found': True})
    parser_entry_reuse(R)
    C.correspond(R, HEADER, 'report', cases, 'c03', 'CellTranslator._set_cell_to_context / translate / translate_file and the reference translators (dependency recursion)')
    R.assumptions += ['formulas are abstracted to their dependency lists (den_ext: a formula looks only at the cells it refers to); the value-level '
                      'faithfulness of the slice is additionally checked on the implementation itself for every generated graph']


def replay(R, rp):
    rc = rp.get('recipe') or (rp.get('examples') or [None])[0]
    if rc is None:
        print('nothing to replay: ' + str(rp.get('broken')))
        return 1
    if rc.get('kind') == 'parser_entries':
        parser_entry_reuse(R)
        for w, _ in R.violations:
            print(w)
        return 1 if R.violations else 0
    C.build(TARGETS)
    c = make_case(rc)
    rows = C.eval_report(HEADER, [c['coq']], 'report', 'c03_replay')
    print('workbook:', rc['sheets'], 'entry:', rc['entry'], '\ncoq case:', c['coq'], '\nrelational check:', c['rel_fail'],
          '\nrow (model=impl spec=model spec=impl class):', rows[0])
    return 0 if rows[0].split()[0] == '1' and rows[0].split()[1] != '0' and not c['rel_fail'] else 1
