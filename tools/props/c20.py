"""C20 — the importable runtime base class and the emitted runtime agree."""
import datetime as dt
import inspect
import itertools

from x2p import common as C
from x2p import impl as I

TARGETS = ['theories/Props/C20.vo']


def pools(rt):
    E = rt.EmptyCell
    d = dt.datetime
    scal = [0, 1, 5, -2, 2.5, 0.07, 1234.5678, True, False, None, '', 'abc', 'Apple', 'a?b', 'a*', '[x]*', 'a~?c', '~*', '#N/A', '10', ' 5 ', '3,5', '12%', 'M', 'YM', 'D', 'Y', 'MD', 'YD',
            d(2020, 1, 31), d(2024, 2, 29), d(2023, 5, 31, 12, 30), dt.date(2020, 1, 1), d(2023, 2, 28), d(2023, 4, 30), d(2021, 8, 31)]
    lists = [[], [1, 2, 3], [[1], [2], [3]], [[10, 'a'], [20, 'b'], [30, 'c']], [1, 'x', True, 2.5], [[1, 2], [3, 4]],
             [['apple'], ['pear'], ['Apple']], [[d(2023, 5, 1)], [d(2023, 5, 9)]], [0, 0, 1], ['#N/A', 1]]
    return scal, lists, E


def shape(x):
    """an argument after the call, in a form comparable across the two copies (each side gets its own deep copy of the arguments)"""
    if isinstance(x, (list, tuple)):
        return [shape(i) for i in x]
    if callable(x):
        return 'callable'
    if type(x).__name__ in ('EmptyCell', 'Undefined'):
        return type(x).__name__
    return (type(x).__name__, repr(x))


def call_both(name, gen, ab, args):
    import copy
    after = {}

    def one(o):
        f = getattr(o, name)
        mine = copy.deepcopy(args)
        try:
            return ('ok', f(*mine))
        except RecursionError:
            return ('exc', 'RecursionError')
        except Exception as e:  # noqa
            return ('exc', type(e).__name__)
        finally:
            after[id(o)] = shape(mine)
    a, b = one(gen), one(ab)
    if a == b or (a[0] == b[0] == 'ok'):
        # what the helper did to the CALLER's arguments is behaviour too
        if after[id(gen)] != after[id(ab)]:
            return ('ok', 'arguments after the call', repr(after[id(gen)])[:300]), ('ok', 'arguments after the call', repr(after[id(ab)])[:300])

    def canon(x):
        k, v = x
        if k == 'exc':
            return x
        if callable(v):
            return ('ok', 'callable')
        return ('ok', type(v).__name__, repr(v))
    return canon(a), canon(b)


def differential(R, names, budget, boost=(), boost_budget=0):
    """Run helper `name` of the generated class and of a subclass of the base on the same arguments."""
    gen = I.runtime()
    ab = I.abstract_runtime()
    scal, lists, E = pools(gen)
    found = []
    n_eval = 0
    base_budget = budget
    for name in names:
        try:
            sig = inspect.signature(getattr(gen, name))
        except (TypeError, ValueError):
            continue
        params = [p for p in sig.parameters.values()]
        arity = len([p for p in params if p.kind in (p.POSITIONAL_OR_KEYWORD,) and p.default is p.empty])
        maxar = len([p for p in params if p.kind == p.POSITIONAL_OR_KEYWORD])
        if name in ('set_arguments', 'exec_function_in', '_cell_preprocessor', '_today', 'get_titles', 'get_sheets_size'):
            continue
        pool = scal + lists + [E()]
        lam = [lambda x: x == 1, lambda x: True]
        if name in ('_sum_if', '_countifs', '_sumifs', '_averageifs', '_iferror'):
            pool = lists + lam + [1, 'a']
        budget = boost_budget if name in boost else base_budget
        for ar in range(arity, min(maxar, 4) + 1):
            total = len(pool) ** ar
            if total <= budget:
                combos = itertools.product(pool, repeat=ar)
            else:
                # the space is larger than the budget: sample it uniformly (seeded) instead of taking a prefix in which the first
                # argument never changes
                combos = (tuple(R.rng.choice(pool) for _ in range(ar)) for _ in range(budget))
            for k, args in enumerate(combos):
                if k >= budget:
                    break
                n_eval += 1
                a, b = call_both(name, gen, ab, list(args))
                key = (name, repr(args)[:200])
                R.count(key, True)
                if a != b:
                    found.append({'helper': name, 'args': repr(args)[:400], 'generated': a, 'base': b})
                    if len(found) >= 3:
                        return found, n_eval
    return found, n_eval


def emptycell_differential(R):
    """the nested EmptyCell class of both copies: every operator against the value pools, both operand orders"""
    import operator
    gen, ab = I.runtime(), I.abstract_runtime()
    scal, lists, _ = pools(gen)
    vals = scal + lists + [(), {}, b'', 0.0, -0.0]
    ops = ['eq', 'ne', 'lt', 'le', 'gt', 'ge', 'add', 'sub', 'mul', 'truediv']
    found = []
    for name in ops:
        f = getattr(operator, name)
        for v in vals:
            for swap in (False, True):
                def one(o):
                    e = o.EmptyCell()
                    try:
                        r = f(v, e) if swap else f(e, v)
                        return ('ok', type(r).__name__, repr(r))
                    except Exception as ex:  # noqa
                        return ('exc', type(ex).__name__)
                a, b = one(gen), one(ab)
                R.count(('EmptyCell', name, repr(v)[:60], swap), True)
                if a != b and len(found) < 3:
                    found.append({'helper': 'EmptyCell.__%s__' % name, 'args': '(%s%r)' % ('reflected, ' if swap else '', v), 'generated': a, 'base': b})
    # call histories of the two state-carrying entry points: overrides given in two calls, then read back
    def hist(o):
        try:
            x = type(o)()
            x.set_arguments([{'uid': '_0_0_0', 'value': 1}, {'uid': '_0_1_0', 'value': 'a'}])
            x.set_arguments([{'uid': '_0_1_0', 'value': 2}])
            x.set_arguments([])
            return ('ok', repr(sorted(x._arguments.items())))
        except Exception as ex:  # noqa
            return ('exc', type(ex).__name__)
    a, b = hist(gen), hist(ab)
    R.count(('history', 'set_arguments x3'), True)
    if a != b and len(found) < 3:
        found.append({'helper': 'set_arguments', 'args': "three calls: [_0_0_0:=1, _0_1_0:='a'], [_0_1_0:=2], []; then the stored overrides", 'generated': a, 'base': b})
    for extra in ('str', 'repr', 'bool', 'int', 'float', 'hash'):
        def one2(o):
            try:
                return ('ok', repr({'str': str, 'repr': repr, 'bool': bool, 'int': int, 'float': float, 'hash': hash}[extra](o.EmptyCell())))
            except Exception as ex:  # noqa
                return ('exc', type(ex).__name__)
        a, b = one2(gen), one2(ab)
        if a != b and len(found) < 3:
            found.append({'helper': 'EmptyCell.%s' % extra, 'args': '()', 'generated': a, 'base': b})
    return found


def differing_helpers():
    """names whose normalised ASTs differ (Python-side mirror of the Coq comparison, used only to direct the search)"""
    import ast
    import subprocess
    out = subprocess.run([C.PY, '-W', 'ignore', '-c', '''
import ast,sys
sys.path.insert(0,'/verif/tools'); sys.argv=['x']
import importlib.util
spec=importlib.util.spec_from_file_location('gh','/verif/tools/gen_helpers.py'); m=importlib.util.module_from_spec(spec)
import io,contextlib
with contextlib.redirect_stdout(io.StringIO()): spec.loader.exec_module(m)
d=[k for k in set(m.T)|set(m.A) if k not in m.SKIP and (k not in m.T or k not in m.A or ast.dump(m.T[k])!=ast.dump(m.A[k]))]
print(' '.join(sorted(d)))
'''], capture_output=True, text=True, env=dict(__import__('os').environ, PYTHONPATH='/repo'))
    return out.stdout.split()


def run(R, tier):
    R.coverage['rule'] = ('obligations: the regenerated syntax trees of all helpers of both runtime copies are equal (kernel computation); in addition '
                          'every helper of the generated class and of a subclass of the base class is executed on argument pools (numbers, texts, '
                          'wildcard patterns, dates, nested lists, blanks, lambdas) of arity up to 4; distinct = (helper, arguments)')
    ok = C.proof_obligations(R, 'theories/Props/C20.v', 'Props.C20', TARGETS)
    budget = 60 if tier == 'quick' else 1500
    gen = I.runtime()
    names = sorted(n for n in dir(gen) if n.startswith('_') and not n.startswith('__') and callable(getattr(gen, n, None)))
    abn = sorted(n for n in dir(I.abstract_runtime()) if n.startswith('_') and not n.startswith('__') and callable(getattr(I.abstract_runtime(), n, None)))
    if not ok and R.broken:
        diff = differing_helpers()
        first = [n for n in diff if n in names]
        names = first + [n for n in names if n not in first]
        R.extra['helpers_with_different_code'] = diff
        if tier == 'quick':
            budget = 400
    # the helpers whose code differs get a deep search (the obligation already broke: this is the hunt for a concrete input)
    found, n_eval = differential(R, names, budget, boost=set(R.extra.get('helpers_with_different_code', [])), boost_budget=40000)
    if len(found) < 3:
        found += emptycell_differential(R)
    R.coverage['samples'] = [{'helper': '_regexp', 'args': "('a?b',)"}, {'helper': '_vlookup', 'args': "(5, [[10,'a'],[20,'b']], 2, True)"}]
    R.extra['helpers_executed'] = len(names)
    R.extra['differential_evaluations'] = n_eval
    missing = sorted(set(names) ^ set(abn))
    if missing:
        found.append({'helper': missing[0], 'args': '-', 'generated': 'present' if missing[0] in names else 'absent', 'base': 'present' if missing[0] in abn else 'absent'})
    if found:
        R.broken = []      # a concrete failing input replaces the bare "obligation broke" report
        for f in found[:3]:
            R.violation('helper %s differs between the generated class and the base class on %s: %r vs %r' % (f['helper'], f['args'], f['generated'], f['base']),
                        {'recipe': f, 'input_found': True, 'broken': 'C20_every_helper_same_code' if not ok else None})
    R.assumptions += ['identical syntax trees give identical behaviour for any deterministic semantics of Python (no model of Python is needed)',
                      'the translator tools/gen_helpers.py (ast of the rendered template and of the base class) is trusted']


def replay(R, rp):
    f = rp.get('recipe')
    if not f:
        print('broken obligation without input: ' + str(rp.get('broken')))
        return 1
    gen, ab = I.runtime(), I.abstract_runtime()
    print('helper', f['helper'], 'args', f['args'], '\nrecorded: generated', f['generated'], 'base', f['base'])
    try:
        args = eval(f['args'], {'datetime': dt, 'EmptyCell': gen.EmptyCell})
        print('now:', call_both(f['helper'], gen, ab, list(args)))
    except Exception as e:  # noqa
        print('arguments are not re-evaluable from their repr (%s); re-run the check' % e)
    return 1
