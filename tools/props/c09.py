"""C09 — translation output depends only on the current workbook and settings."""
import hashlib
import os
import subprocess
import threading

from x2p import common as C
from x2p import impl as I

HEADER = ('Require Import X2P.Base.Prelude X2P.Model.Facade X2P.Corr.C09.\n')
TARGETS = ['theories/Props/C09.vo', 'theories/Corr/C09.vo']
DIR = os.path.join(C.BUILD, 'c09')
ENTRIES = [('Main', 'A', '1'), ('Main', 'B', '2'), ('Other', 'A', '1'), ('Main', 'C', '3'), ('Main', 1, 11), ('Main', 11, 1), ('Main', 'B', 2)]      # the last three: integer coordinates whose digits read alike, a 0-based row next to a letter


def mkbooks():
    from openpyxl import Workbook
    os.makedirs(DIR, exist_ok=True)
    specs = [
        {'Main': {'A1': 1, 'A2': 2, 'B1': '=A1+A2', 'B2': '=SUM(A1:A2)*2', 'C3': '=IF(B1>2,"x","y")', 'D1': '=AND(A1>0,A2>0,B1>0,A1>0)', 'D2': '=IF(OR(A1>2,A2>1,A1>2),1,2)', 'D3': '=MAX(A1,A2,A1)+MIN(A2,A1,A2)', 'D4': '=SUM(A1:A2,A1:A2)+COUNT(A1,A2,A1)', 'D5': '=IFS(A1>5,1,A2>5,2,A1>5,3,TRUE,4)&CONCATENATE(A1,A2,A1)', 'D6': '=SUMIF(A1:A2,">"&A1)+COUNTIFS(A1:A2,A2)+SUMIFS(A1:A2,A1:A2,"<"&B1)', 'B12': '=A1*7', 'L2': '=A2*9', 'B3': '=A1+100'}, 'Other': {'A1': '=Main!B2+1', 'B1': 5}},
        # same formula texts in the same cells as workbook 0, different constants (a process-wide cache keyed by text would leak)
        {'Main': {'A1': 10, 'A2': 20, 'B1': '=A1+A2', 'B2': '=SUM(A1:A2)*2', 'C3': '=IF(B1>2,"x","y")', 'D1': '=AND(A1>0,A2>0,B1>0,A1>0)', 'D2': '=IF(OR(A1>2,A2>1,A1>2),1,2)', 'D3': '=MAX(A1,A2,A1)+MIN(A2,A1,A2)', 'D4': '=SUM(A1:A2,A1:A2)+COUNT(A1,A2,A1)', 'D5': '=IFS(A1>5,1,A2>5,2,A1>5,3,TRUE,4)&CONCATENATE(A1,A2,A1)', 'D6': '=SUMIF(A1:A2,">"&A1)+COUNTIFS(A1:A2,A2)+SUMIFS(A1:A2,A1:A2,"<"&B1)', 'B12': '=A1*7', 'L2': '=A2*9', 'B3': '=A1+100'}, 'Other': {'A1': '=Main!B2+1', 'B1': 50}},
        {'Main': {'A1': 1, 'B2': '=A1+1', 'C3': 'eval(1)'}, 'Other': {'A1': 'os.system(1)'}},       # unsafe workbook
        # workbooks whose translation FAILS in the middle of a formula (state left behind by a failed translation would leak into the next one)
        {'Main': {'A1': 1, 'A2': 2, 'B1': '=A1+A2', 'B2': '=SUM(1;', 'C3': '=IF(B2>2,"x","y")'}, 'Other': {'A1': '=Main!B2+1', 'B1': 5}},      # malformed formula
        {'Main': {'A1': 1, 'A2': 2, 'B1': '=B2+1', 'B2': '=B1*2', 'C3': '=IF(B1>2,"x","y")'}, 'Other': {'A1': '=Main!B2+1', 'B1': 5}},         # circular reference
        {'Main': {'A1': 1, 'A2': 2, 'B1': '=A1+A2', 'B2': '=Nope!A1+1', 'C3': '=IF(B2>2,"x","y")'}, 'Other': {'A1': '=Main!B2+1', 'B1': 5}},   # missing sheet
        # the same sheet names in the OTHER tab order (a name resolved once and remembered across workbooks would point at the wrong tab)
        {'Other': {'A1': '=Main!B2+1', 'B1': 5, 'B2': '=Other!B1+Main!A1'}, 'Main': {'A1': 3, 'A2': 4, 'B1': '=A1+A2', 'B2': '=SUM(Main!A1:A2)*2', 'C3': '=IF(B1>2,"x","y")'}},
        # a very long flat formula, and a chain of dependent cells far too long for the interpreter's stack (rejected): what the first one needs
        # must not change what happens to the second
        {'Main': {'A1': 1, 'A2': 2, 'B2': '=' + '+'.join(['A1', 'A2'] * 200), 'C3': 3}, 'Other': {'A1': 1}},
        {'Main': dict([('A1', '=D1+1'), ('A2', 2), ('B2', '=A1*2'), ('C3', 3)] + [('D%d' % i, '=D%d+1' % (i + 1)) for i in range(1, 360)] + [('D360', 1)]), 'Other': {'A1': 1}},
    ]
    paths = []
    for i, sp in enumerate(specs):
        wb = Workbook()
        first = True
        for title, cells in sp.items():
            ws = wb.active if first else wb.create_sheet()
            first = False
            ws.title = title
            for a, v in cells.items():
                ws[a] = v
        p = os.path.join(DIR, 'wb%d.xlsx' % i)
        wb.save(p)
        paths.append(p)
    return paths


def sha(t):
    return hashlib.sha256(t.encode('utf8')).hexdigest()[:16]


def classify_exc(e):
    n = type(e).__name__
    return {'E2PyclParserException': 'parser', 'E2PyclSafetyException': 'safety', 'E2PyclCellException': 'cell'}.get(n, 'other')


def fresh(paths, p, e, safety):
    pr = I.Parser()
    if not safety:
        pr.disable_safety_check()
    if p is not None:
        pr.set_excel_file_path(paths[p])
    if e is not None:
        pr.set_entrypoint_cell(I.Cell(*ENTRIES[e]))
    try:
        return ('text', sha(pr.get_translation()))
    except Exception as ex:  # noqa
        return (classify_exc(ex), None)


def run_ops(paths, ops):
    pr = I.Parser()
    outs = []
    oracle = None
    st = {'safety': True, 'p': None, 'e': None}
    for k, op in enumerate(ops):
        kind = op[0]
        try:
            if kind == 'enable':
                pr.enable_safety_check(); st['safety'] = True; outs.append(('none', None))
            elif kind == 'disable':
                pr.disable_safety_check(); st['safety'] = False; outs.append(('none', None))
            elif kind == 'path':
                pr.set_excel_file_path(paths[op[1]]); st['p'] = op[1]; outs.append(('none', None))
            elif kind == 'entry':
                pr.set_entrypoint_cell(I.Cell(*ENTRIES[op[1]])); st['e'] = op[1]; outs.append(('none', None))
            elif kind == 'get':
                t = pr.get_translation()
                outs.append(('text', sha(t)))
            else:
                f = os.path.join(DIR, 'out_%d.py' % os.getpid())
                pr.write_translation(f)
                written = open(f, encoding='utf-8').read()
                os.remove(f)
                outs.append(('text', sha(written)))
                t2 = pr.get_translation()
                if t2 != written and oracle is None:
                    oracle = 'operation %d: the written file differs from the returned text' % (k + 1)
        except Exception as ex:  # noqa
            outs.append((classify_exc(ex), None))
        if kind in ('get', 'write') and oracle is None:
            exp = expected(paths, st['p'], st['e'], st['safety'])
            if outs[-1] != exp:
                oracle = 'operation %d (%s) returned %r; a fresh parser with the settings in force (path %r, entry %r, safety %r) returns %r' % (
                    k + 1, kind, outs[-1], st['p'], st['e'], st['safety'], exp)
    return outs, oracle


def cout(o):
    k, v = o
    return {'none': 'PNone', 'parser': 'PParserExc', 'safety': 'PSafetyExc', 'other': 'POtherExc', 'cell': 'POtherExc'}.get(k) or '(PText (Some %s))' % C.cstr(v)


def cop(op):
    return {'enable': 'Enable', 'disable': 'Disable', 'get': 'Get', 'write': 'Write'}.get(op[0]) or (
        '(SetPath %d%%nat)' % op[1] if op[0] == 'path' else '(SetEntry %d%%nat)' % op[1])


def gen_ops(rng, n):
    ops = []
    for _ in range(n):
        r = rng.random()
        if r < 0.3:
            ops.append(['get'])
        elif r < 0.4:
            ops.append(['write'])
        elif r < 0.6:
            ops.append(['path', rng.randrange(9)])
        elif r < 0.8:
            ops.append(['entry', rng.randrange(len(ENTRIES))])
        elif r < 0.9:
            ops.append(['enable'])
        else:
            ops.append(['disable'])
    return ops


_TABLE = None
_FRESH = None
_CODE = ("import sys,hashlib,warnings;warnings.filterwarnings('ignore');sys.path.insert(0,'/repo');sys.path.insert(0,'/verif/tools');"
         "from props import c09;import json;a=json.loads(sys.argv[1]);print(json.dumps(c09.fresh(a['paths'],a['p'],a['e'],a['safety'])))")


def fresh_results(paths):
    """what a fresh Parser returns for every (workbook, entry, safety off) and (workbook, no entry, safety on) — each computed in its OWN
    fresh process, so that nothing an earlier translation left behind in this process can influence the reference"""
    global _FRESH
    if _FRESH is None:
        import json
        from concurrent.futures import ThreadPoolExecutor
        jobs = [(p, e, False) for p in range(len(paths)) for e in [None] + list(range(len(ENTRIES)))] + [(p, None, True) for p in range(len(paths))]

        def one(job):
            p, e, sf = job
            env = dict(os.environ, PYTHONPATH='/repo:/verif/tools', PYTHONHASHSEED='0')
            out = subprocess.run([C.PY, '-W', 'ignore', '-c', _CODE, json.dumps({'paths': paths, 'p': p, 'e': e, 'safety': sf})],
                                 capture_output=True, text=True, env=env, timeout=300)
            try:
                r = json.loads(out.stdout.strip().splitlines()[-1])
                return job, (r[0], r[1])
            except Exception:  # noqa
                return job, ('other', None)
        with ThreadPoolExecutor(8) as ex:
            _FRESH = dict(ex.map(one, jobs))
    return _FRESH


def expected(paths, p, e, safety):
    if p is None:
        return fresh(paths, None, e, safety)         # no workbook involved: 'The file path is not set'
    fr = fresh_results(paths)
    if safety and fr[(p, None, True)][0] == 'safety':
        return ('safety', None)
    return fr[(p, e, False)]


def table(paths):
    global _TABLE
    if _TABLE is None:
        fr = fresh_results(paths)
        rows, unsafe = [], []
        for p in range(len(paths)):
            if fr[(p, None, True)][0] == 'safety':
                unsafe.append(p)
            for e in [None] + list(range(len(ENTRIES))):
                k, v = fr[(p, e, False)]
                tr = '(TOk %s)' % C.cstr(v) if k == 'text' else ('TParserExc' if k == 'parser' else 'TOtherExc')
                rows.append('(%d%%nat, %s, %s)' % (p, 'None' if e is None else '(Some %d%%nat)' % e, tr))
        _TABLE = (C.clist(rows), C.clist(['%d%%nat' % u for u in unsafe]))
    return _TABLE


def make_case(rc, paths):
    outs, oracle = run_ops(paths, rc['ops'])
    tbl, unsafe = table(paths)
    coq = 'CP %s %s %s %s %s' % (tbl, unsafe, C.clist([cop(o) for o in rc['ops']]), C.clist([cout(o) for o in outs]), C.cbool(oracle is None))
    nt = any(rc['ops'][i][0] in ('path', 'entry', 'enable', 'disable') and any(o[0] in ('get', 'write') for o in rc['ops'][:i])
             for i in range(len(rc['ops'])))
    return {'recipe': rc, 'coq': coq, 'key': rc, 'nontrivial': nt, 'oracle_fail': oracle}


def determinism(R, paths, tier):
    """byte-identical text across processes / hash seeds, after earlier translations, and from concurrent threads (sampled)."""
    base = {}
    for p in (0, 1):
        pr = I.Parser().set_excel_file_path(paths[p])
        base[p] = sha(pr.get_translation())
    seeds = [0, 1, 7] if tier == 'quick' else [0, 1, 2, 3, 7, 11, 99, 12345]
    code = ("import sys,hashlib,warnings;warnings.filterwarnings('ignore');sys.path.insert(0,'/repo');from excel2pycl import Parser;"
            "print(hashlib.sha256(Parser().set_excel_file_path(sys.argv[1]).get_translation().encode('utf8')).hexdigest()[:16])")
    for sd in seeds:
        for p in (0, 1):
            env = dict(os.environ, PYTHONHASHSEED=str(sd), PYTHONPATH='/repo')
            out = subprocess.run([C.PY, '-W', 'ignore', '-c', code, paths[p]], capture_output=True, text=True, env=env, timeout=120)
            R.count(('proc', sd, p), True)
            if out.stdout.strip() != base[p]:
                R.violation('translation of workbook %d differs in a fresh process with PYTHONHASHSEED=%d' % (p, sd),
                            {'recipe': {'kind': 'process', 'seed': sd, 'workbook': p}, 'input_found': True})
    res = {}

    def work(i):
        res[i] = sha(I.Parser().set_excel_file_path(paths[i % 2]).get_translation())
    th = [threading.Thread(target=work, args=(i,)) for i in range(4)]
    [t.start() for t in th]
    [t.join() for t in th]
    for i, v in res.items():
        R.count(('thread', i), True)
        if v != base[i % 2]:
            R.violation('translation of workbook %d differs when produced by concurrent threads' % (i % 2),
                        {'recipe': {'kind': 'threads'}, 'input_found': True})


def corpus():
    return [{'ops': [['path', 0], ['get'], ['entry', 1], ['get'], ['get']]},
            {'ops': [['path', 0], ['get'], ['entry', 1], ['enable'], ['get'], ['write']]},          # redundant safety call after a pending change
            {'ops': [['disable'], ['path', 2], ['get'], ['enable'], ['get']]},
            {'ops': [['path', 2], ['get'], ['disable'], ['get'], ['disable'], ['entry', 0], ['get']]},
            {'ops': [['get'], ['path', 1], ['write'], ['path', 0], ['get'], ['entry', 2], ['path', 1], ['get']]},
            {'ops': [['path', 0], ['entry', 1], ['get'], ['entry', 3], ['disable'], ['get'], ['enable'], ['enable'], ['get']]},
            {'ops': [['path', 3], ['get'], ['path', 0], ['get']]}, {'ops': [['path', 4], ['get'], ['path', 1], ['get'], ['write']]},
            {'ops': [['path', 0], ['entry', 4], ['get'], ['entry', 5], ['get'], ['entry', 1], ['get'], ['entry', 6], ['get']]},
            {'ops': [['path', 7], ['get'], ['path', 8], ['get'], ['entry', 1], ['get']]}, {'ops': [['path', 8], ['get'], ['path', 7], ['get'], ['path', 8], ['get']]},
            {'ops': [['path', 0], ['get'], ['path', 6], ['get'], ['entry', 0], ['get']]}, {'ops': [['path', 6], ['entry', 1], ['get'], ['path', 1], ['get']]},
            {'ops': [['path', 5], ['get'], ['get'], ['path', 0], ['entry', 1], ['get']]}, {'ops': [['path', 3], ['entry', 3], ['get'], ['path', 1], ['get']]}]


def run(R, tier):
    R.coverage['rule'] = ('sequences of 3-9 facade calls (set path over 9 workbooks: two sharing formula texts, an unsafe one, three whose translation fails inside a formula (malformed, circular, missing sheet), one with the same sheet names in the other tab order, one with a 400-operand formula, one with a chain of 360 dependent cells; set/replace entry cell, enable/disable safety, '
                          'get, write) on one Parser, each get/write compared with what a fresh parser IN A FRESH PROCESS returns for the settings in force; plus the '
                          'text hash across subprocesses with several PYTHONHASHSEEDs and from 4 concurrent threads; non-trivial = a setter after a get')
    C.proof_obligations(R, 'theories/Props/C09.v', 'Props.C09', TARGETS)
    if any('Coq build failed' in b for b in R.broken):
        return
    paths = mkbooks()
    n = 150 if tier == 'quick' else 1500
    recipes = corpus()
    while len(recipes) < n:
        recipes.append({'ops': gen_ops(R.rng, R.rng.randint(3, 9))})
    cases = [make_case(rc, paths) for rc in recipes]
    for c in cases[:3]:
        R.sample({'ops': c['recipe']['ops']})
    R.coverage['traces_validated_against_impl'] = len(cases)
    C.correspond(R, HEADER, 'report', cases, 'c09', 'Parser facade (setters, _translate cache flags, get_translation, write_translation)')
    determinism(R, paths, tier)
    R.assumptions += ['the translation proper is an abstract deterministic function T(path, entry) in the model; its determinism across processes, hash seeds '
                      'and threads is sampled on the implementation, not proved', 'attribute assignment is atomic under the GIL (lazy-init theorem)']


def replay(R, rp):
    rc = rp.get('recipe') or (rp.get('examples') or [None])[0]
    if rc is None or 'ops' not in rc:
        print('nothing to replay in Coq: ' + str(rp.get('what')))
        return 1
    C.build(TARGETS)
    paths = mkbooks()
    c = make_case(rc, paths)
    rows = C.eval_report(HEADER, [c['coq']], 'report', 'c09_replay')
    print('calls:', rc['ops'], '\noracle:', c['oracle_fail'], '\nrow (model=impl proved oracle class):', rows[0])
    return 0 if rows[0].split()[0] == '1' and not c['oracle_fail'] else 1
