"""C18 — the workbook is read at true coordinates, with true types and sizes."""
import datetime as dt
import os

from x2p import common as C
from x2p import impl as I

HEADER = ('Require Import X2P.Base.Prelude X2P.Model.Reader X2P.Corr.C18.\n')
TARGETS = ['theories/Props/C18.vo', 'theories/Corr/C18.vo']
DIR = os.path.join(C.BUILD, 'c18')
TITLES = ['Main', 'Second sheet', '\U00020bb7 S3 \U0001F4CA', "T4", 'Ünï', 'Last']       # the third one has characters beyond U+FFFF


SHARED = I.Executor()


def gen_value(rng):
    return rng.choice([1, 0, -7, 123456789, 1e16, -2.5e17, 1e20, 6.02214076e23, 2.5, -0.125, 1e-7, 0.1 + 0.7, 0.1 + 0.2 + 0.3, 1.4 * 3, 0.57 * 100, 1 / 3, True, False, 'text', '  indented', ' ', 'ends ', ' =1+2', '  =C3*2', ' = see note', 'it\'s "q"', 'a\\b', 'line1\nline2',
                       '=A1+1', '', dt.datetime(2020, 2, 29), dt.datetime(1999, 12, 31, 23, 59, 58), 'eval', '{x}', '%s', '#'])


def gen_recipe(rng, far_col=(300, 16384), far_row=(500, 3000)):
    ns = rng.randint(1, 4)
    sheets = []
    for s in range(ns):
        cells = {}
        if rng.random() < 0.15:
            sheets.append(cells)
            continue
        base_c = rng.choice([1, 1, 2, 5, 27])
        base_r = rng.choice([1, 1, 3, 10])
        for _ in range(rng.randint(1, 7)):
            c = base_c + rng.choice([0, 1, 2, 4, 9])
            r = base_r + rng.choice([0, 1, 2, 5, 11])
            v = gen_value(rng)
            if v != '':
                cells['%d,%d' % (c, r)] = C.jenc(v)
        if rng.random() < 0.08:
            cells['%d,%d' % (rng.choice(far_col), 1)] = 5
        if rng.random() < 0.08:
            cells['1,%d' % rng.choice(far_row)] = 'far'
        sheets.append(cells)
    return {'sheets': sheets, 'chart_at': rng.choice([None, None, None, 0, 1])}


def make_case(rc, k=[0]):
    from openpyxl import Workbook
    from openpyxl.utils import get_column_letter
    os.makedirs(DIR, exist_ok=True)
    wb = Workbook()
    planted = []
    for i, cells in enumerate(rc['sheets']):
        ws = wb.active if i == 0 else wb.create_sheet()
        ws.title = TITLES[i]
        m = {}
        for key, v in cells.items():
            c, r = map(int, key.split(','))
            val = C.jdec(v)
            ws['%s%d' % (get_column_letter(c), r)] = val
            m[(c, r)] = val
        planted.append(m)
    if rc.get('chart_at') is not None:
        # a chart sheet in the tab order: a sheet name that is not a worksheet; titles and indices are those of the worksheets only
        from openpyxl.chart import BarChart, Reference
        cs = wb.create_chartsheet('Chart', min(rc['chart_at'], len(rc['sheets'])))
        ch = BarChart()
        ch.add_data(Reference(wb.worksheets[0], min_col=1, min_row=1, max_row=2))
        cs.add_chart(ch)
    k[0] += 1
    path = os.path.join(DIR, 'r%d_%d.xlsx' % (os.getpid(), k[0] % 4))
    wb.save(path)
    ex = I.Excel.parse(path)
    impl = []
    for sheet, size in zip(ex._data, ex._sheets_size):
        rows = C.clist([C.clist(['None' if v is None else '(Some %s)' % C.cval(v) for v in row]) for row in sheet])
        impl.append('(%s, (%d%%nat, %d%%nat))' % (rows, size['last_column'], size['last_row']))
    sheets = C.clist([C.clist(['(%d%%nat, %d%%nat, %s)' % (c, r, C.cval(v)) for (c, r), v in m.items()]) for m in planted])
    # property-level oracle on the implementation: titles, and every planted / blank cell through the translated class
    fail = None
    if list(ex.get_titles().items()) != [(TITLES[i], i) for i in range(len(planted))]:
        fail = 'titles %r' % (ex.get_titles(),)
    big = any(c > 60 or r > 100 for m in planted for (c, r) in m)
    if fail is None and big:
        # far-away cells: sizes only (translating 16384 padded cells per row is slow and adds nothing here)
        for i, m in enumerate(planted):
            size = ex._sheets_size[i]
            exp = (max([c for c, _ in m] or [0]), max([r for _, r in m] or [0]))
            if (size['last_column'], size['last_row']) != exp:
                fail = 'sheet %s reports size %r, stored extent is %r' % (TITLES[i], size, exp)
    if fail is None and not big:
        try:
            src = I.Parser().set_excel_file_path(path).disable_safety_check().get_translation()
            cls = I.load(src)
            e = I.executor(cls)
            if list(cls().get_titles().items()) != [(TITLES[i], i) for i in range(len(planted))]:
                fail = 'the translated class reports the titles %r' % (cls().get_titles(),)
            # sizes and titles belong to the workbook, not to a run: an override far outside the used range on one executor must not
            # change what a NEW object of the same class reports
            sizes0 = [dict(x) for x in cls().get_sheets_size()]
            e_far = I.executor(cls)
            e_far.set_cells([I.Cell(0, 40, 50, 1)])
            I.outcome(lambda: e_far.get_cell(I.Cell(0, 40, 50)).value)
            if [dict(x) for x in cls().get_sheets_size()] != sizes0 or dict(cls().get_titles()) != {TITLES[i]: i for i in range(len(planted))}:
                fail = 'after another executor of the same class was given a far-away override, a new object reports sizes %r (workbook: %r)' % (
                    cls().get_sheets_size(), sizes0)
            # ONE long-lived Executor is handed every translated class in turn: what it reports is the class it holds now
            SHARED.set_executed_class(class_object=cls)
            for i, m in enumerate(planted):
                for (c, r) in list(m)[:6] + [(1, 1), (2, 2)]:
                    a_ = I.outcome(lambda: SHARED.get_cell(I.Cell(i, c - 1, r - 1)).value)
                    b_ = I.outcome(lambda: e.get_cell(I.Cell(i, c - 1, r - 1)).value)
                    if fail is None and (a_[0] != b_[0] or type(a_[1]) is not type(b_[1]) or (a_[1] != b_[1] and type(a_[1]).__name__ != 'EmptyCell')):
                        fail = 'an Executor that held another class before reports %r for %s!%s%d, a fresh Executor %r' % (a_, TITLES[i], get_column_letter(c), r, b_)
            for i, m in enumerate(planted):
                if fail:
                    break
                if m:
                    (c0, r0), v0 = next(iter(m.items()))
                    if not (isinstance(v0, str) and v0.startswith('=')):
                        got = I.outcome(lambda: e.get_cell(I.Cell(TITLES[i], get_column_letter(c0), str(r0))).value)
                        if got[0] != 'ok' or type(got[1]) is not type(v0) or got[1] != v0:
                            fail = 'cell %s%d addressed by the sheet title %r evaluates to %r, stored %r' % (get_column_letter(c0), r0, TITLES[i], got, v0)
                            break
                for (c, r), v in list(m.items())[:12]:
                    if isinstance(v, str) and v.startswith('='):
                        continue
                    got = e.get_cell(I.Cell(i, c - 1, r - 1)).value
                    if type(got) is not type(v) or got != v:
                        fail = 'cell %s!%s%d stores %r (%s) but evaluates to %r (%s)' % (TITLES[i], get_column_letter(c), r, v, type(v).__name__, got, type(got).__name__)
                        break
                # a gap cell and a cell beyond the used range read as blank
                for (c, r) in [(1, 1), (2, 2), (40, 40)]:
                    if (c, r) not in m:
                        got = e.get_cell(I.Cell(i, c - 1, r - 1)).value
                        if type(got).__name__ != 'EmptyCell':
                            fail = 'never-written cell %s!%s%d evaluates to %r' % (TITLES[i], get_column_letter(c), r, got)
                if fail:
                    break
                size = ex._sheets_size[i]
                exp = (max([c for c, _ in m] or [0]), max([r for _, r in m] or [0]))
                if (size['last_column'], size['last_row']) != exp:
                    fail = 'sheet %s reports size %r, stored extent is %r' % (TITLES[i], size, exp)
                    break
        except I.X.E2PyclParserException:
            pass      # a planted "=..." text that is not a translatable formula: other properties
    coq = 'CRd %s %s %s' % (sheets, C.clist(impl), C.cbool(fail is None))
    gaps = any(m and (min(c for c, _ in m) > 1 and min(r for _, r in m) > 1) for m in planted)
    return {'recipe': rc, 'coq': coq, 'key': rc, 'nontrivial': gaps, 'oracle_fail': fail}


def corpus():
    return [{'sheets': [{'1,1': 1, '2,1': 2, '8,1': 8}, {}, {'1,1': 'a', '3,2': 'c'}, {'1,1': 5}, {'10,3': 1}]},
            {'sheets': [{'2,2': '  indented', '3,3': ' ', '4,4': 'ends '}]},
            {'sheets': [{'5,7': {'dt': '2020-02-29T00:00:00'}, '6,7': True, '7,7': {'f': '0x1.4000000000000p+1'}, '5,9': 'it\'s "q"', '6,9': 'a\\b', '7,9': 'l1\nl2'}]}]


def run(R, tier):
    R.coverage['rule'] = ('real xlsx files written with openpyxl: 1-4 sheets (titles with blanks / non-ASCII), sparse layouts with row and column gaps, '
                          'cells far from the origin (column XFD, row 3000), empty sheets; values of every stored type (int, float, bool, text with '
                          'quotes / backslashes / newlines / outer blanks, date-time, formula text); compared: Excel.parse data, sizes and titles with '
                          'the model, and every planted / never-written cell through the translated class; non-trivial = first stored cell not at A1')
    C.proof_obligations(R, 'theories/Props/C18.v', 'Props.C18', TARGETS)
    if any('Coq build failed' in b for b in R.broken):
        return
    n = 120 if tier == 'quick' else 1200
    recipes = corpus() + [gen_recipe(R.rng, *(((300, 700), (300, 500)) if tier == 'quick' else ((300, 16384), (500, 3000)))) for _ in range(n)]
    if tier == 'quick':
        recipes.append({'sheets': [{'16384,1': 5, '1,3': 'x'}]})
    cases = [make_case(rc) for rc in recipes]
    for c in cases[:2] + cases[-2:]:
        R.sample({'sheets': c['recipe']['sheets']})
    C.correspond(R, HEADER, 'report', cases, 'c18', 'Excel.parse (row stream position = coordinate, sizes, titles), _fill_cell and the constant emission of CellTranslator', shard=40)
    R.assumptions += ['openpyxl read-only row stream contract (rows 1..max_row, each padded from column A to its last stored cell) is an oracle, '
                      'validated here on real files; time / timedelta cells are not generated']


def replay(R, rp):
    rc = rp.get('recipe') or (rp.get('examples') or [None])[0]
    if rc is None:
        print('nothing to replay: ' + str(rp.get('broken')))
        return 1
    C.build(TARGETS)
    c = make_case(rc)
    rows = C.eval_report(HEADER, [c['coq']], 'report', 'c18_replay')
    print('sheets (column,row -> value):', rc['sheets'], '\noracle:', c['oracle_fail'], '\nrow (model=impl proved oracle class):', rows[0])
    return 0 if rows[0].split()[0] == '1' and not c['oracle_fail'] else 1
