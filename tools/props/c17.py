"""C17 — text functions obey the substring algebra."""
import datetime as dt

from x2p import common as C
from x2p import impl as I

HEADER = ('Require Import X2P.Base.Prelude X2P.Corr.C17.\nOpen Scope Z_scope.\n')
TARGETS = ['theories/Props/C17.vo', 'theories/Corr/C17.vo']
ALPHA = ['a', 'B', 'c', '?', '*', '~', '.', ' ', ' ', '1', 'b', 'A']


def empty():
    return I.runtime().EmptyCell()


NUMTEXTS = ['007', '00', '1.50', '12.0', '3.', ' 42', '+5', '1e3', '1_0', 'NaN', '2024', '0.5', '-0', 'TRUE', '1/2']     # texts that LOOK like numbers: still texts


def rtext(rng, maxlen=5, alpha=ALPHA):
    if alpha is ALPHA and maxlen == 5 and rng.random() < 0.2:
        return rng.choice(NUMTEXTS)
    return ''.join(rng.choice(alpha) for _ in range(rng.randint(0, maxlen)))


def reprs_of(vals):
    return C.clist(['(%s, %s)' % (C.cfloat(f), C.cstr(repr(f))) for f in vals if isinstance(f, float)])


def quote(s):
    return '"%s"' % s


def literal_ok(s):
    return '"' not in s and '?' not in s and '*' not in s and s == s.strip() and "'" not in s and '\\' not in s


def make_case(rc):
    rt = I.runtime()
    k, via = rc['kind'], rc.get('via', 'direct')
    d = lambda j: C.jdec(j, empty)
    if k in ('left', 'right'):
        t, n = rc['t'], rc['n']
        if via == 'direct':
            out = I.outcome(lambda: getattr(rt, '_' + k)(t, n))
        else:
            if rc.get('lit'):
                out = I.eval_formula('=%s("%s"%s)' % (k.upper(), t, '' if n is None else ',%d' % n), {}, addr='D4')
            else:
                f = '=%s(A1%s)' % (k.upper(), '' if n is None else ',%d' % n)
                out = I.eval_formula(f, {'A1': t} if t != '' else {'A1': "=\"\""}, addr='D4')
        coq = 'C%s %s %s %s' % (k.capitalize(), C.cstr(t), C.copt(n, C.cz), C.cres(out))
        nt = n is not None and (n <= 0 or n >= len(t))
    elif k == 'mid':
        t, s, n = rc['t'], rc['k'], rc['n']
        if via == 'direct':
            out = I.outcome(lambda: rt._mid(t, s, n))
        else:
            out = I.eval_formula('=MID("%s",%d,%d)' % (t, s, n), {}, addr='D4') if rc.get('lit') else I.eval_formula('=MID(A1,%d,%d)' % (s, n), {'A1': t}, addr='D4')
        coq = 'CMid %s %s %s %s' % (C.cstr(t), C.cz(s), C.cz(n), C.cres(out))
        nt = s <= 1 or s >= len(t) or n == 0 or s + n > len(t)
    elif k == 'search':
        f, w, s = rc['f'], rc['w'], rc['s']
        if via == 'direct':
            out = I.outcome(lambda: rt._search(f, w, s))
        else:
            if rc.get('lit'):
                out = I.eval_formula('=SEARCH("%s",A1%s)' % (f, '' if s is None else ',%d' % s), {'A1': w}, addr='D4')
            else:
                out = I.eval_formula('=SEARCH(A2,A1%s)' % ('' if s is None else ',%d' % s), {'A1': w, 'A2': f}, addr='D4')
        coq = 'CSearch %s %s %s %s' % (C.cstr(f), C.cstr(w), C.copt(s, C.cz), C.cres(out))
        nt = any(c in f for c in '?*~') or (s is not None and (s <= 1 or s >= len(w)))
    elif k == 'amp':
        l, r = d(rc['l']), d(rc['r'])
        cells = {}
        if type(l).__name__ != 'EmptyCell':
            cells['A1'] = l
        if type(r).__name__ != 'EmptyCell':
            cells['B1'] = r
        if rc.get('ov'):
            # the workbook holds texts in both cells; the operands arrive as overrides (of any type)
            out = I.eval_formula('=A1&B1', {'A1': 'p', 'B1': 'q'}, addr='D4', overrides=[I.Cell(0, 0, 0, l), I.Cell(0, 1, 0, r)])
        else:
            out = I.eval_formula('=A1&B1', cells, addr='D4')
        coq = 'CAmp %s %s %s %s' % (C.cval(l), C.cval(r), reprs_of([l, r]), C.cres(out))
        nt = True
    elif k == 'concat':
        vals = [d(v) for v in rc['vals']]
        cells = {'%s1' % 'ABCDE'[i]: v for i, v in enumerate(vals) if type(v).__name__ != 'EmptyCell'}
        if rc.get('ov'):
            out = I.eval_formula('=CONCATENATE(%s)' % ','.join('%s1' % 'ABCDE'[i] for i in range(len(vals))), {k: 't' for k in cells}, addr='D4',
                                 overrides=[I.Cell(0, i, 0, v) for i, v in enumerate(vals)])
        else:
            out = I.eval_formula('=CONCATENATE(%s)' % ','.join('%s1' % 'ABCDE'[i] for i in range(len(vals))), cells, addr='D4')
        coq = 'CConcat %s %s %s' % (C.clist([C.cval(v) for v in vals]), reprs_of(vals), C.cres(out))
        nt = len(vals) >= 2
    elif k == 'value':
        t = rc['t']
        if via == 'direct':
            out = I.outcome(lambda: rt._value(t))
        else:
            out = I.eval_formula('=VALUE(A1)', {'A1': t}, addr='D4')
        coq = 'CValue %s %s' % (C.cstr(t), C.cres(out))
        nt = t != t.strip() or '.' in t or ',' in t
    else:
        raise ValueError(k)
    return {'recipe': rc, 'coq': coq, 'key': rc, 'nontrivial': bool(nt)}


def gen_recipes(rng, n):
    out = []
    for _ in range(n):
        r = rng.random()
        via = 'direct' if rng.random() < 0.6 else 'formula'
        if r < 0.2:
            t = rtext(rng)
            nn = rng.choice([None, rng.randint(-2, len(t) + 3), len(t), 0])
            kind = rng.choice(['left', 'right'])
            if via == 'formula' and (t.startswith('=') or t == '' and nn is None):
                via = 'direct'
            out.append({'kind': kind, 't': t, 'n': nn, 'via': via, 'lit': via == 'formula' and t != '' and not any(ch in t for ch in '"?*~') and rng.random() < 0.5})
        elif r < 0.35:
            t = rtext(rng)
            if via == 'formula' and t == '':
                via = 'direct'
            out.append({'kind': 'mid', 't': t, 'k': rng.randint(-1, len(t) + 2), 'n': rng.randint(-1, len(t) + 2), 'via': via,
                        'lit': via == 'formula' and not any(ch in t for ch in '"?*~') and rng.random() < 0.5})
        elif r < 0.7:
            w = rtext(rng, 6, ['a', 'b', 'B', 'A', 'c', '.', '*', '?', '~', ' ', '(', '+', '$'])
            f = rtext(rng, 3, ['a', 'B', 'b', '?', '*', '~', '.', 'c', '(', '+', '$'])
            if rng.random() < 0.4 and len(w) >= 2:
                i = rng.randint(0, len(w) - 1); f = w[i:i + rng.randint(1, 3)]
                if rng.random() < 0.5:
                    f = f.swapcase()
            if rng.random() < 0.25:
                # a find text LONGER than what is left of within_text that still matches: a * that matches nothing, ~-escaped specials
                w = rtext(rng, 3, ['a', 'b', 'c', '*', '?']) or 'a'
                f = ''.join(('~' + ch if ch in '*?' else ch) for ch in w)
                for _ in range(rng.randint(0, 2)):
                    i = rng.randint(0, len(f))
                    if not (i > 0 and f[i - 1] == '~'):
                        f = f[:i] + '*' + f[i:]
            if any(ch in f for ch in '?*'):
                # with a wildcard the find text becomes a regular expression as it stands (known class search_wildcard_regex_special); ( and + can make it an
                # INVALID one, for which Python raises re.error - the Gallina engine does not model invalid expressions
                f = f.replace('(', '').replace('+', '')
            s = rng.choice([None, None, 1, rng.randint(-1, len(w) + 2)])
            if via == 'formula' and (w == '' or f == '' or w.startswith('=') or f.startswith('=') or w != w.strip() or (s is not None and s < 0)):
                via = 'direct'
            out.append({'kind': 'search', 'f': f, 'w': w, 's': s, 'via': via, 'lit': via == 'formula' and not any(ch in f for ch in '"?*~') and rng.random() < 0.6})
        elif r < 0.8:
            pool = ['abc', '', 'x y', 7, -3, 0, 0, 10, 2.5, 2.0, 0.1, True, False, {'E': 1}, 10 ** 20, 'Q']
            jp = [p if isinstance(p, dict) else C.jenc(p) for p in pool]
            rec = {'kind': 'amp', 'l': rng.choice(jp), 'r': rng.choice(jp)}
            rec['ov'] = rng.random() < 0.4 and not any(isinstance(x, dict) and 'E' in x for x in (rec['l'], rec['r']))
            out.append(rec)
        elif r < 0.88:
            pool = ['abc', 'x', 7, -3, 0, 0, 10, '', 2.5, 4.0, True, {'E': 1}, dt.datetime(2020, 1, 2)]
            rec = {'kind': 'concat', 'vals': [p if isinstance(p, dict) else C.jenc(p) for p in [rng.choice(pool) for _ in range(rng.randint(1, 4))]]}
            rec['ov'] = rng.random() < 0.4 and not any(isinstance(x, dict) and 'E' in x for x in rec['vals'])
            out.append(rec)
        else:
            t = rng.choice(['12', ' 12 ', '-7', '+3', '3.5', '3,5', '0.1', '1e3', 'abc', '', '12%', '1 234,5', '007', '.5', '5.', '1_0', 'nan', '12abc', ' -2.25 ', '1e-2'])
            if via == 'formula' and (t == '' or t != t.strip()):
                via = 'direct'
            out.append({'kind': 'value', 't': t, 'via': via})
    return out


def corpus():
    rs = []
    for t in ['Hello', 'a', 'ab?*']:
        for n in range(-1, len(t) + 3):
            rs += [{'kind': 'left', 't': t, 'n': n, 'via': 'direct'}, {'kind': 'right', 't': t, 'n': n, 'via': 'direct'}]
            for k in range(0, len(t) + 2):
                rs.append({'kind': 'mid', 't': t, 'k': k, 'n': n, 'via': 'direct'})
    rs += [{'kind': 'right', 't': 'Hello', 'n': 6, 'via': 'formula'}, {'kind': 'right', 't': 'Hello', 'n': 9, 'via': 'formula'},
           {'kind': 'search', 'f': 'b?', 'w': 'abcabd', 's': 3, 'via': 'direct'}, {'kind': 'search', 'f': 'b?', 'w': 'abcabd', 's': None, 'via': 'formula'},
           {'kind': 'search', 'f': 'B*d', 'w': 'xxAbcDxx', 's': 1, 'via': 'direct'}, {'kind': 'search', 'f': 'cab', 'w': 'abcabd', 's': 2, 'via': 'formula'},
           {'kind': 'search', 'f': 'zz', 'w': 'abcabd', 's': 1, 'via': 'direct'}, {'kind': 'search', 'f': 'a~?', 'w': 'xa?b', 's': 1, 'via': 'direct'}]
    rs += [x['witness'] for x in C.known_findings()['findings'] if x['property'] == 'C17']
    return rs


def run(R, tier):
    R.coverage['rule'] = ('strings over {a,B,c,A,b,?,*,~,.,blank,1} up to length 5-6 x integer positions/counts in a box around the length; '
                          'LEFT/RIGHT/MID/SEARCH/VALUE by direct helper calls and through formulas, & and CONCATENATE through formulas; '
                          'non-trivial = argument at or beyond a boundary, or a pattern with a wildcard; distinct by recipe')
    C.proof_obligations(R, 'theories/Props/C17.v', 'Props.C17', TARGETS)
    if any('Coq build failed' in b for b in R.broken):
        return
    n = 500 if tier == 'quick' else 6000
    recipes = corpus() + gen_recipes(R.rng, n)
    cases = [make_case(rc) for rc in recipes]
    for c in cases[:2] + cases[-3:]:
        R.sample({'recipe': c['recipe']})
    dist = {}
    for c in cases:
        key = c['recipe']['kind'] + '/' + c['recipe'].get('via', 'formula')
        dist[key] = dist.get(key, 0) + 1
    R.extra['input_distribution'] = dist
    C.correspond(R, HEADER, 'report', cases, 'c17', '_left/_right/_mid/_search/_value/_excel_value_to_string, the & emission and the text translators', shard=300)
    R.assumptions += ['ASCII alphabet; repr(float) is an oracle; the strptime ladder of _value is not modelled (texts with / - : are outside the domain)',
                      'Base/Regex.v is validated against Python re separately (tools/x2p/rxtest.py)']


def replay(R, rp):
    rc = rp.get('recipe') or (rp.get('examples') or [None])[0]
    if rc is None:
        print('nothing to replay: ' + str(rp.get('broken')))
        return 1
    C.build(TARGETS)
    c = make_case(rc)
    rows = C.eval_report(HEADER, [c['coq']], 'report', 'c17_replay')
    print('recipe:', rc, '\ncoq case:', c['coq'], '\nrow (model=impl spec=model spec=impl class):', rows[0])
    return 0 if rows[0].split()[0] == '1' and rows[0].split()[1] != '0' else 1
