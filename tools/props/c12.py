"""C12 — conditional aggregates select exactly the positions meeting every criterion."""
import re

from x2p import common as C
from x2p import impl as I

HEADER = ('Require Import X2P.Base.Prelude X2P.Base.PyCmp X2P.Model.Crit X2P.Corr.C12.\nOpen Scope Z_scope.\n')
TARGETS = ['theories/Props/C12.vo', 'theories/Corr/C12.vo']
FN = {'SUMIF': 'FSumif', 'SUMIFS': 'FSumifs', 'COUNTIFS': 'FCountifs', 'AVERAGEIFS': 'FAvgifs'}
WORDS = ['apple', 'Apple', 'APPLE', 'pear', 'fig', 'ab', 'a', 'b', 'abc', 'xay', 'K10', 'L10', 'R7', 'L7', 'lot 5', 'LOT 5', 'bin 5']


def strict_date(s):
    """the oracle for 'does this text read as a date': dateutil's strict parser, called directly (not through the runtime helper)"""
    from dateutil import parser as dp
    try:
        return dp.parse(s)
    except (dp.ParserError, TypeError):
        return None


def empty():
    return I.runtime().EmptyCell()


def gen_column(rng, n, kind):
    out = []
    for _ in range(n):
        k = rng.choice(kind)
        if k == 'int':
            out.append(rng.randint(0, 9))
        elif k == 'pos':
            out.append(rng.randint(1, 9))
        elif k == 'float':
            out.append(rng.choice([0.5, 2.5, 7.25, 1.5, 3.0]))
        elif k == 'neg':
            out.append(-rng.randint(1, 5))
        elif k == 'text':
            out.append(rng.choice(WORDS))
        elif k == 'zero':
            out.append(0)
        elif k == 'emptytext':
            out.append('')
        elif k == 'bool':
            out.append(rng.random() < 0.5)
        else:
            out.append(None)
    return out


KINDS = [['pos', 'emptytext'], ['zero', 'emptytext', 'pos'], ['pos'], ['pos'], ['int'], ['int', 'float'], ['text'], ['text'], ['pos', 'text'], ['pos', 'blank'], ['int', 'neg', 'float'],
         ['text', 'blank'], ['pos', 'zero'], ['pos', 'text', 'blank', 'float']]


def gen_crit(rng, col, allow_quote=True, idx=0):
    """returns (formula text, ksyn json, extra cells)"""
    nums = [v for v in col if isinstance(v, (int, float)) and not isinstance(v, bool)]
    texts = [v for v in col if isinstance(v, str)]
    pick_num = rng.choice(nums) if nums and rng.random() < 0.7 else rng.choice([0, 3, 5, 2.5, 10])
    r = rng.random()
    if r < 0.15 or not allow_quote:
        if rng.random() < 0.6 or not allow_quote:
            return repr(pick_num) if pick_num >= 0 else '0', {'k': 'num', 'v': C.jenc(pick_num if pick_num >= 0 else 0)}, {}
    if r < 0.5:
        op = rng.choice(['>', '<', '>=', '<=', '<>', '='])
        n = pick_num
        if rng.random() < 0.1:
            n = -1
        t = '%s%s' % (op, repr(n) if not (isinstance(n, float) and n == int(n) and rng.random() < 0.5) else str(int(n)))
        return '"%s"' % t, {'k': 'text', 's': t}, {}
    if r < 0.62:
        op = rng.choice(['>', '<', '>=', '<=', '<>', '=', 'x'])
        v = rng.choice([pick_num, rng.choice(WORDS)]) if rng.random() < 0.3 else pick_num
        return '"%s"&F%d' % (op, 1 + 2 * idx), {'k': 'amp', 's': op, 'v': C.jenc(v)}, {'F%d' % (1 + 2 * idx): v}
    if r < 0.78:
        t = rng.choice(texts) if texts and rng.random() < 0.7 else rng.choice(WORDS + ['zzz'])
        if rng.random() < 0.3:
            t = t.swapcase()
        if rng.random() < 0.15:
            t = '<>' + t
        return '"%s"' % t, {'k': 'text', 's': t}, {}
    if r < 0.9:
        base = rng.choice(texts) if texts else rng.choice(WORDS)
        p = rng.choice([base[:1] + '*', '?' + base[1:], '*' + base[-1:], base[:1] + '?' * max(0, len(base) - 1), 'a*e', '*', base + '~*', 'A*', '??',
                        # a ? next to a *: the cell equal to the base text is one character too short for the first two
                        base + '?*', base[:2] + '?*', base[:1] + '*?', '??*'])
        if not re.search(r'(?<![~])[?*]', p):
            p = p + '*'
        return '"%s"' % p, {'k': 'pat', 's': p}, {}
    v = rng.choice([pick_num, rng.choice(texts) if texts else 'apple', '>3'])
    return 'F%d' % (2 + 2 * idx), {'k': 'expr', 'v': C.jenc(v)}, {'F%d' % (2 + 2 * idx): v}


def gen_recipe(rng):
    n = rng.randint(1, 7)
    fn = rng.choice(['SUMIF', 'SUMIFS', 'SUMIFS', 'COUNTIFS', 'COUNTIFS', 'AVERAGEIFS'])
    npairs = 1 if fn == 'SUMIF' else rng.choice([1, 1, 2, 3])
    cols = {}
    cells = {}
    target = gen_column(rng, n + 1, rng.choice([['pos'], ['int', 'float'], ['pos', 'blank'], ['pos', 'text'], ['int', 'neg']]))
    cols['E'] = target
    pairs = []
    texts = []
    quoted_wild = False
    any_quoted = False
    for i in range(npairs):
        c = 'ABC'[i]
        col = gen_column(rng, n + 1, rng.choice(KINDS))
        cols[c] = col
        ln = n
        if fn != 'SUMIF' and rng.random() < 0.08:
            ln = max(1, n + rng.choice([-1, 1]))
        for _ in range(10):
            t, k, extra = gen_crit(rng, col[:ln], allow_quote=not quoted_wild, idx=i)
            is_wild = k['k'] == 'pat'
            quoted = t.startswith('"')
            if is_wild and any_quoted:
                continue
            break
        else:
            t, k, extra = '1', {'k': 'num', 'v': 1}, {}
            is_wild = quoted = False
        quoted_wild = quoted_wild or is_wild
        any_quoted = any_quoted or quoted
        cells.update(extra)
        pairs.append({'col': c, 'len': ln, 'k': k, 'text': t})
    # whole-column spellings (A:A): every range then spans all rows of the sheet, however far each column is filled
    whole = rng.random() < 0.15
    if whole:
        for c in list(cols):
            if c != 'E' and rng.random() < 0.6:
                cols[c] = cols[c][:max(1, len(cols[c]) - rng.randint(1, 3))]            # columns filled to different heights
        cols['E'] = cols['E'] + [rng.randint(1, 50) for _ in range(rng.randint(0, 3))]
    for c, col in cols.items():
        for r, v in enumerate(col):
            if v is not None:
                cells['%s%d' % (c, r + 1)] = v
    off = rng.choice([0, 0, 0, 1]) if fn == 'SUMIF' and not whole else 0
    rng_txt = lambda c, ln, o=0: '%s%d:%s%d' % (c, 1 + o, c, ln + o)
    if whole:
        rows = max([9] + [int(''.join(ch for ch in a if ch.isdigit())) for a in cells])       # the formula sits in H9
        n = rows
        for p in pairs:
            p['len'] = rows
        rng_txt = lambda c, ln, o=0: '%s:%s' % (c, c)
    if fn == 'SUMIF':
        p = pairs[0]
        with_target = rng.random() < 0.8
        xt = with_target and not whole and off == 0 and rng.random() < 0.3
        if xt:
            # the target lies on ANOTHER sheet, at the very addresses of the criteria range
            f = '=SUMIF(%s,%s,T2!%s)' % (rng_txt(p['col'], p['len']), p['text'], rng_txt(p['col'], p['len']))
        else:
            f = '=SUMIF(%s,%s%s)' % (rng_txt(p['col'], p['len']), p['text'], ',' + rng_txt('E', p['len'], off) if with_target else '')
        tcol, toff, tlen = ('E', off, p['len']) if with_target else (p['col'], 0, p['len'])
    elif fn == 'COUNTIFS':
        f = '=COUNTIFS(%s)' % ','.join('%s,%s' % (rng_txt(p['col'], p['len']), p['text']) for p in pairs)
        tcol, toff, tlen = None, 0, 0
    else:
        f = '=%s(%s,%s)' % (fn, rng_txt('E', n), ','.join('%s,%s' % (rng_txt(p['col'], p['len']), p['text']) for p in pairs))
        tcol, toff, tlen = 'E', 0, n
    return {'fn': fn, 'formula': f, 'xt': (pairs[0]['col'] if fn == 'SUMIF' and 'T2!' in f else None), 'cells': {a: C.jenc(v) for a, v in cells.items()},
            'target': [tcol, toff, tlen], 'pairs': [{'col': p['col'], 'len': p['len'], 'k': p['k']} for p in pairs]}


def col_vals(cells, c, off, ln):
    out = []
    for r in range(1 + off, 1 + off + ln):
        v = cells.get('%s%d' % (c, r))
        out.append(empty() if v is None else v)
    return out


def ksyn(k):
    d = lambda j: C.jdec(j, empty)
    if k['k'] == 'num':
        return 'KNum %s' % C.cval(d(k['v']))
    if k['k'] == 'text':
        return 'KText %s' % C.cstr(k['s'])
    if k['k'] == 'amp':
        return 'KTextAmp %s %s' % (C.cstr(k['s']), C.cval(d(k['v'])))
    if k['k'] == 'pat':
        return 'KPat %s' % C.cstr(k['s'])
    return 'KExpr %s' % C.cval(d(k['v']))


def make_case(rc):
    rt = I.runtime()
    cells = {a: C.jdec(v) for a, v in rc['cells'].items()}
    if rc.get('xt'):
        other = {rc['xt'] + a[1:]: v for a, v in cells.items() if a[0] == 'E'}          # the target values, on sheet T2 under the criteria column's letter
        out = I.eval_formula(rc['formula'], addr='H9', sheets=[('S', {a: v for a, v in cells.items() if a[0] != 'E'}), ('T2', other)])
    else:
        out = I.eval_formula(rc['formula'], cells, addr='H9')
    tcol, toff, tlen = rc['target']
    target = col_vals(cells, tcol, toff, tlen) if tcol else []
    pairs = [(col_vals(cells, p['col'], 0, p['len']), p['k']) for p in rc['pairs']]
    strings = set()
    floats = set()
    for v in target + [x for r, _ in pairs for x in r] + [C.jdec(p['k']['v']) for p in rc['pairs'] if 'v' in p['k']]:
        if isinstance(v, str):
            strings.add(v)
        if isinstance(v, float):
            floats.add(v)
    for p in rc['pairs']:
        if p['k']['k'] in ('text',):
            strings.add(p['k']['s'])
    dates = []
    for s in sorted(strings):
        dv = strict_date(s)
        dates.append('(%s, %s)' % (C.cstr(s), 'None' if dv is None else '(Some %s)' % C.cval(dv)))
    reprs = C.clist(['(%s, %s)' % (C.cfloat(f), C.cstr(repr(f))) for f in sorted(floats)])
    coq = 'CCrit %s %s %s %s %s %s' % (
        FN[rc['fn']], C.clist([C.cval(v) for v in target]),
        C.clist(['(%s, %s)' % (C.clist([C.cval(v) for v in r]), ksyn(k)) for r, k in pairs]),
        reprs, C.clist(dates), C.cres(out))
    return {'recipe': rc, 'coq': coq, 'key': rc['formula'] + repr(sorted(rc['cells'].items())), 'nontrivial': len(pairs[0][0]) >= 2}


def corpus():
    cells = {'A1': 1, 'A2': 6, 'A3': 7, 'A4': 2, 'E1': 10, 'E2': 20, 'E3': 30, 'E4': 40, 'E5': 50, 'E6': 60, 'B1': 'apple', 'B2': 'pear', 'B3': 'Apple', 'B4': 'fig',
             'C1': 1, 'C2': 2, 'C3': 3}
    enc = {a: C.jenc(v) for a, v in cells.items()}
    P = lambda c, ln, k: {'col': c, 'len': ln, 'k': k}
    rs = [
        {'fn': 'SUMIF', 'formula': '=SUMIF(A1:A4,">2",E3:E6)', 'cells': enc, 'target': ['E', 2, 4], 'pairs': [P('A', 4, {'k': 'text', 's': '>2'})]},
        {'fn': 'SUMIF', 'formula': '=SUMIF(A1:A4,">2",E1:E4)', 'cells': enc, 'target': ['E', 0, 4], 'pairs': [P('A', 4, {'k': 'text', 's': '>2'})]},
        {'fn': 'SUMIFS', 'formula': '=SUMIFS(E1:E4,B1:B4,"apple",A1:A4,">1")', 'cells': enc, 'target': ['E', 0, 4],
         'pairs': [P('B', 4, {'k': 'text', 's': 'apple'}), P('A', 4, {'k': 'text', 's': '>1'})]},
        {'fn': 'SUMIFS', 'formula': '=SUMIFS(E1:E4,B1:B4,"apple",C1:C3,">1")', 'cells': enc, 'target': ['E', 0, 4],
         'pairs': [P('B', 4, {'k': 'text', 's': 'apple'}), P('C', 3, {'k': 'text', 's': '>1'})]},
        {'fn': 'SUMIFS', 'formula': '=SUMIFS(E1:E4,C1:C3,">1")', 'cells': enc, 'target': ['E', 0, 4], 'pairs': [P('C', 3, {'k': 'text', 's': '>1'})]},
        {'fn': 'COUNTIFS', 'formula': '=COUNTIFS(A1:A4,">1",B1:B4,"apple")', 'cells': enc, 'target': [None, 0, 0],
         'pairs': [P('A', 4, {'k': 'text', 's': '>1'}), P('B', 4, {'k': 'text', 's': 'apple'})]},
        {'fn': 'AVERAGEIFS', 'formula': '=AVERAGEIFS(E1:E4,A1:A4,"<=6")', 'cells': enc, 'target': ['E', 0, 4], 'pairs': [P('A', 4, {'k': 'text', 's': '<=6'})]},
    ]
    # texts that CONTAIN a number but are no dates (K10 / L10, lot 5 / bin 5): a criterion equal to one of them selects that text only
    cells2 = {'B1': 'K10', 'B2': 'L10', 'B3': 'R7', 'B4': 'L7', 'B5': 'lot 5', 'B6': 'bin 5', 'E1': 10, 'E2': 20, 'E3': 30, 'E4': 40, 'E5': 50, 'E6': 60}
    enc2 = {a: C.jenc(v) for a, v in cells2.items()}
    for w in ('K10', 'L7', 'lot 5', 'bin 5', '<>L10', '<>lot 5'):
        k = {'k': 'text', 's': w}
        rs += [{'fn': 'COUNTIFS', 'formula': '=COUNTIFS(B1:B6,"%s")' % w, 'cells': enc2, 'target': [None, 0, 0], 'pairs': [P('B', 6, k)]},
               {'fn': 'SUMIF', 'formula': '=SUMIF(B1:B6,"%s",E1:E6)' % w, 'cells': enc2, 'target': ['E', 0, 6], 'pairs': [P('B', 6, k)]},
               {'fn': 'AVERAGEIFS', 'formula': '=AVERAGEIFS(E1:E6,B1:B6,"%s")' % w, 'cells': enc2, 'target': ['E', 0, 6], 'pairs': [P('B', 6, k)]}]
    rs += [x['witness'] for x in C.known_findings()['findings'] if x['property'] == 'C12']
    return rs


def run(R, tier):
    R.coverage['rule'] = ('SUMIF/SUMIFS/COUNTIFS/AVERAGEIFS formulas over generated columns (length 1-7) of kinds {positive int, int, dyadic float, '
                          'negative, text in mixed case, blank, zero} x criterion forms (number, text, op+number, "="/"<>" text, "op"&cell, text&cell, '
                          'wildcards, cell reference) x 1-3 pairs x aligned / mis-sized / shifted targets; dateutil results for every text are an oracle '
                          'table; non-trivial = ranges with >= 2 cells; distinct by formula and workbook')
    C.proof_obligations(R, 'theories/Props/C12.v', 'Props.C12', TARGETS)
    if any('Coq build failed' in b for b in R.broken):
        return
    n = 500 if tier == 'quick' else 6000
    recipes = corpus() + [gen_recipe(R.rng) for _ in range(n)]
    cases = [make_case(rc) for rc in recipes]
    for c in cases[:2] + cases[-3:]:
        R.sample({'formula': c['recipe']['formula'], 'cells': c['recipe']['cells']})
    dist = {}
    for c in cases:
        for p in c['recipe']['pairs']:
            key = c['recipe']['fn'] + '/' + p['k']['k']
            dist[key] = dist.get(key, 0) + 1
    R.extra['input_distribution'] = dist
    C.correspond(R, HEADER, 'report', cases, 'c12', 'LambdaTokenTranslator, the *IF(S) translators, _regexp and _sum_if/_sumifs/_countifs/_averageifs', shard=250)
    R.assumptions += ['dateutil.parser.parse is an oracle: its result for every text of a case is supplied to the model',
                      'repr(float) oracle; ASCII texts; the spec is silent on boolean/date cells and on numeric-looking text criteria']


def replay(R, rp):
    rc = rp.get('recipe') or (rp.get('examples') or [None])[0]
    if rc is None:
        print('nothing to replay: ' + str(rp.get('broken')))
        return 1
    C.build(TARGETS)
    c = make_case(rc)
    rows = C.eval_report(HEADER, [c['coq']], 'report', 'c12_replay')
    print('formula:', rc['formula'], rc['cells'], '\ncoq case:', c['coq'], '\nrow (model=impl spec=model spec=impl class):', rows[0])
    return 0 if rows[0].split()[0] == '1' and rows[0].split()[1] != '0' else 1
