"""C11 — aggregates fold exactly the numeric cells of their arguments."""
import datetime as dt

from x2p import common as C
from x2p import impl as I

HEADER = ('Require Import X2P.Base.Prelude X2P.Base.PyCmp X2P.Model.Agg X2P.Corr.C11.\nOpen Scope Z_scope.\n')
TARGETS = ['theories/Props/C11.vo', 'theories/Corr/C11.vo']
FN = {'SUM': 'FSum', 'AVERAGE': 'FAverage', 'MIN': 'FMin', 'MAX': 'FMax', 'COUNT': 'FCount',
      'COUNTBLANK': 'FCountBlank', 'AND': 'FAnd', 'OR': 'FOr'}
COLS = 'ABCDE'


def empty():
    return I.runtime().EmptyCell()


def gen_value(rng, kinds):
    k = rng.choice(kinds)
    if k == 'int':
        return 0 if rng.random() < 0.18 else rng.randint(0, 40)         # zero is the classic falsy extremum
    if k == 'neg':
        return -rng.randint(1, 40)
    if k == 'float':
        return 0.0 if rng.random() < 0.1 else rng.choice([0.5, 1.25, -2.5, 7.125, 3.5, -0.75, 12.375]) + rng.randint(-3, 3)
    if k == 'text':
        return rng.choice(['x', 'abc', 'N/A', 'total', '#1024', '#A17', '#TODO', '# 7'])          # labels that begin with # are texts, not error values
    if k == 'numtext':
        return rng.choice(['5', '12', '3.5', '007'])
    if k == 'bool':
        return rng.random() < 0.5
    if k == 'date':
        return dt.datetime(2020, rng.randint(1, 12), rng.randint(1, 28))
    if k == 'emptytext':
        return ''
    return None    # blank


MIXES = [['int'], ['int', 'neg'], ['int', 'float'], ['int', 'text', 'blank'], ['int', 'bool', 'blank', 'text'],
         ['int', 'neg', 'float', 'text', 'numtext', 'bool', 'blank'], ['text', 'blank', 'bool'], ['blank'],
         ['int', 'date', 'blank'], ['int', 'emptytext', 'blank'], ['bool'], ['int', 'float', 'neg', 'blank']]


def gen_workbook(rng):
    """two sheets, a 5x5 block of values each (sparse)."""
    mix = rng.choice(MIXES)
    sheets = []
    for t in ('S', 'Other'):
        cells = {}
        nr = rng.randint(1, 5)
        for r in range(1, nr + 1):
            for c in COLS[:rng.randint(1, 5)]:
                v = gen_value(rng, mix)
                if v is not None:
                    cells['%s%d' % (c, r)] = v
        sheets.append((t, cells))
    return mix, sheets


def cell_of(sheets, si, col, row):
    v = sheets[si][1].get('%s%d' % (col, row))
    return {'E': 1} if v is None else C.jenc(v)


def gen_area(rng, sheets, last_row):
    """returns (text, rows(json), by_rows)"""
    si = 0 if rng.random() < 0.8 else 1
    prefix = '' if si == 0 else rng.choice(["Other!", "'Other'!"])
    kind = rng.choice(['col', 'row', 'rect', 'rect', 'wholecol', 'wholecols', 'single'])
    if kind == 'col':
        c = rng.choice(COLS); r1 = rng.randint(1, 4); r2 = rng.randint(r1 + 1, 6)
        return '%s%s%d:%s%d' % (prefix, c, r1, c, r2), [[cell_of(sheets, si, c, r)] for r in range(r1, r2 + 1)], True
    if kind == 'row':
        r = rng.randint(1, 5); c1 = rng.randint(0, 3); c2 = rng.randint(c1 + 1, 4)
        return '%s%s%d:%s%d' % (prefix, COLS[c1], r, COLS[c2], r), [[cell_of(sheets, si, COLS[c], r) for c in range(c1, c2 + 1)]], True
    if kind == 'rect':
        r1 = rng.randint(1, 3); r2 = rng.randint(r1 + 1, 5); c1 = rng.randint(0, 2); c2 = rng.randint(c1 + 1, 4)
        d = rng.choice(['', '$'])
        return ('%s%s%s%s%d:%s%s%s%d' % (prefix, d, COLS[c1], d, r1, d, COLS[c2], d, r2),
                [[cell_of(sheets, si, COLS[c], r) for c in range(c1, c2 + 1)] for r in range(r1, r2 + 1)], True)
    if kind == 'single':
        c = rng.choice(COLS); r = rng.randint(1, 5)
        return '%s%s%d:%s%d' % (prefix, c, r, c, r), [[cell_of(sheets, si, c, r)]], True
    nrows = last_row[si]
    if kind == 'wholecol':
        c = rng.choice(COLS)
        return '%s%s:%s' % (prefix, c, c), [[cell_of(sheets, si, c, r)] for r in range(1, nrows + 1)], True
    c1 = rng.randint(0, 3); c2 = rng.randint(c1 + 1, 4)
    return ('%s%s:%s' % (prefix, COLS[c1], COLS[c2]),
            [[cell_of(sheets, si, COLS[c], r) for c in range(c1, c2 + 1)] for r in range(1, nrows + 1)], False)


def gen_recipe(rng):
    mix, sheets = gen_workbook(rng)
    fn = rng.choice(['SUM', 'SUM', 'AVERAGE', 'MIN', 'MAX', 'COUNT', 'COUNT', 'COUNTBLANK', 'AND', 'OR'])
    # the formula lives at H9 of sheet S: that fixes the number of rows whole-column references cover
    last_row = [9, max([I.a1(a)[1] + 1 for a in sheets[1][1]] or [0])]
    nargs = rng.choice([1, 1, 2, 2, 3])
    texts, args = [], []
    # overrides inside the stored block of sheet S: a number cleared to "" or replaced, a blank filled - the fold sees the values in force
    ov = {}
    base_sheets = sheets
    if rng.random() < 0.35 or fn == 'COUNTBLANK':
        for _ in range(rng.randint(1, 3)):
            a = '%s%d' % (rng.choice(COLS), rng.randint(1, 5))
            ov[a] = rng.choice(['', '', 0, 7, 2.5, 'x', True, False, 1, 1.0])
        stored = [a for a, v in sheets[0][1].items() if isinstance(v, (int, float, dt.datetime)) and not isinstance(v, str)]
        for a in rng.sample(stored, min(len(stored), rng.randint(1, 3))) if fn == 'COUNTBLANK' else []:
            ov[a] = ''                                     # a stored number / boolean / date cleared by the override
        eff = dict(sheets[0][1])
        eff.update(ov)
        sheets = [(sheets[0][0], eff), sheets[1]]
    for i in range(nargs):
        r = rng.random()
        if r < 0.7 or (i == 0 and rng.random() < 0.5):      # a scalar may come first, before an area
            t, rows, by_rows = gen_area(rng, sheets, last_row)
            texts.append(t); args.append({'t': 'area', 'rows': rows, 'by_rows': by_rows})
        elif r < 0.85:
            v = rng.choice([5, 12, 2.5, 0])
            texts.append(repr(v)); args.append({'t': 'lit', 'v': C.jenc(v)})
        elif r < 0.95:
            c = rng.choice(COLS); rr = rng.randint(1, 5)
            texts.append('%s%d' % (c, rr)); args.append({'t': 'cell', 'v': cell_of(sheets, 0, c, rr)})
        else:
            texts.append('SUM(1,2)'); args.append({'t': 'expr', 'v': 3})
    sep = rng.choice([',', ';'])
    return {'kind': 'formula', 'fn': fn, 'formula': '=%s(%s)' % (fn, sep.join(texts)),
            'sheets': [[t, {a: C.jenc(v) for a, v in cells.items()}] for t, cells in base_sheets], 'args': args, 'mix': mix,
            'ov': [[a, C.jenc(v)] for a, v in ov.items()], 'pre': bool(ov) and rng.random() < 0.5}


def coq_args(args):
    out = []
    for a in args:
        if a['t'] == 'area':
            rows = C.clist([C.clist([C.cval(C.jdec(v, empty)) for v in row]) for row in a['rows']])
            out.append('KArea %s %s' % (rows, C.cbool(a['by_rows'])))
        else:
            out.append('%s %s' % ({'lit': 'KLit', 'cell': 'KCell', 'expr': 'KExpr'}[a['t']], C.cval(C.jdec(a['v'], empty))))
    return C.clist(out)



def twin(v):
    """a value that is == v but of another type (1 / True / 1.0, 0 / False / 0.0), or None when there is none"""
    if isinstance(v, bool):
        return int(v)
    if isinstance(v, int) and v in (0, 1):
        return bool(v)
    if isinstance(v, int):
        return float(v)
    if isinstance(v, float) and v == int(v) and abs(v) < 2 ** 53:
        return int(v)
    return None


def make_case(rc):
    if rc['kind'] == 'formula':
        sheets = [(t, {a: C.jdec(v) for a, v in cells.items()}) for t, cells in rc['sheets']]
        ovs = [I.Cell(0, *I.a1(a), C.jdec(v)) for a, v in rc.get('ov', [])]
        pre = None
        if rc.get('pre'):
            pre = [I.Cell(0, *I.a1(a), twin(C.jdec(v)) if twin(C.jdec(v)) is not None else 77) for a, v in rc['ov']]
        out = I.eval_formula(rc['formula'], addr='H9', sheets=sheets, overrides=ovs or None, pre_overrides=pre)
    else:   # direct helper call on a flat list
        rt = I.runtime()
        fl = C.jdec(rc['list'], empty)
        meth = {'SUM': lambda: rt._sum(rt._only_numeric_list(fl)), 'AVERAGE': lambda: rt._average(rt._only_numeric_list(fl)),
                'MIN': lambda: rt._min(fl), 'MAX': lambda: rt._max(fl), 'COUNTBLANK': lambda: rt._count_blank(fl),
                'AND': lambda: rt._and(fl), 'OR': lambda: rt._or(fl)}[rc['fn']]
        out = I.outcome(meth)
    coq = 'CAgg %s %s %s' % (FN[rc['fn']], coq_args(rc['args']), C.cres(out))
    kinds = set()
    nnum = 0
    for a in rc['args']:
        vals = [v for row in a['rows'] for v in row] if a['t'] == 'area' else [a['v']]
        for v in vals:
            kinds.add('E' if isinstance(v, dict) and 'E' in v else type(C.jdec(v)).__name__)
            nnum += isinstance(v, int) and not isinstance(v, bool) or (isinstance(v, dict) and 'f' in v)
    return {'recipe': rc, 'coq': coq, 'key': rc, 'nontrivial': len(kinds) >= 2 and nnum >= 2}


def direct_recipes(rng, n):
    out = []
    for _ in range(n):
        mix = rng.choice(MIXES)
        vals = [gen_value(rng, mix) for _ in range(rng.randint(0, 8))]
        vals = [{'E': 1} if v is None else C.jenc(v) for v in vals]
        fn = rng.choice(['SUM', 'AVERAGE', 'MIN', 'MAX', 'COUNTBLANK', 'AND', 'OR'])
        out.append({'kind': 'direct', 'fn': fn, 'list': vals, 'args': [{'t': 'area', 'rows': [vals], 'by_rows': True}]})
    return out


def corpus():
    E = {'E': 1}
    base = [['S', {'A1': 1, 'A2': True, 'A3': 'x', 'A4': 5, 'B1': 2, 'B2': {'f': '0x1.4000000000000p+1'}}], ['Other', {'A1': 7}]]
    area = lambda rows: {'t': 'area', 'rows': rows, 'by_rows': True}
    rs = [
        {'kind': 'formula', 'fn': 'SUM', 'formula': '=SUM(A1:A4,A1:A4)', 'sheets': base, 'args': [area([[1], [True], ['x'], [5]])] * 2},
        {'kind': 'formula', 'fn': 'SUM', 'formula': '=SUM(A1:B2)', 'sheets': base, 'args': [area([[1, 2], [True, {'f': '0x1.4000000000000p+1'}]])]},
        {'kind': 'formula', 'fn': 'AVERAGE', 'formula': '=AVERAGE(A1:A6)', 'sheets': base, 'args': [area([[1], [True], ['x'], [5], [E], [E]])]},
        {'kind': 'formula', 'fn': 'MIN', 'formula': '=MIN(A1:A6)', 'sheets': base, 'args': [area([[1], [True], ['x'], [5], [E], [E]])]},
        {'kind': 'formula', 'fn': 'COUNT', 'formula': '=COUNT(A1:A6)', 'sheets': base, 'args': [area([[1], [True], ['x'], [5], [E], [E]])]},
        {'kind': 'formula', 'fn': 'SUM', 'formula': '=SUM(Other!A1:A2,5)', 'sheets': base, 'args': [area([[7], [E]]), {'t': 'lit', 'v': 5}]},
    ]
    # areas whose corner columns have different letter counts (Y..AB, Z..AA): the area must still be the whole rectangle
    wide = [['S', {'Y1': 1, 'Z1': 2, 'AA1': 4, 'AB1': 8, 'Y2': 16, 'Z2': 'x', 'AA2': 32, 'AB2': True, 'A1': 3}], ['Other', {'A1': 7}]]
    rs += [
        {'kind': 'formula', 'fn': 'SUM', 'formula': '=SUM(Y1:AB2)', 'sheets': wide, 'args': [area([[1, 2, 4, 8], [16, 'x', 32, True]])]},
        {'kind': 'formula', 'fn': 'MAX', 'formula': '=MAX(Z1:AA1,A1)', 'sheets': wide, 'args': [area([[2, 4]]), {'t': 'cell', 'v': 3}]},
        {'kind': 'formula', 'fn': 'COUNT', 'formula': '=COUNT(Y1:AB2)', 'sheets': wide, 'args': [area([[1, 2, 4, 8], [16, 'x', 32, True]])]},
        {'kind': 'formula', 'fn': 'AVERAGE', 'formula': '=AVERAGE(A1,Y2:AA2)', 'sheets': wide, 'args': [{'t': 'cell', 'v': 3}, area([[16, 'x', 32]])]},
    ]
    rs += [x['witness'] for x in C.known_findings()['findings'] if x['property'] == 'C11']
    return rs


def run(R, tier):
    R.coverage['rule'] = ('formulas =FN(args) over generated two-sheet workbooks: area shapes (column, row, rectangle, single cell, whole '
                          'column, several whole columns, other sheet, $-absolute) x content mixes over {int, dyadic float, negative, text, '
                          'numeric text, TRUE/FALSE, blank, empty text, date} x 1-3 arguments incl. literals, cell refs and expressions; '
                          'plus direct helper calls; non-trivial = >= 2 value kinds and >= 2 numeric cells; distinct by recipe')
    C.proof_obligations(R, 'theories/Props/C11.v', 'Props.C11', TARGETS)
    if any('Coq build failed' in b for b in R.broken):
        return
    n = 500 if tier == 'quick' else 5000
    recipes = corpus() + [gen_recipe(R.rng) for _ in range(n)] + direct_recipes(R.rng, n // 2)
    cases = [make_case(rc) for rc in recipes]
    for c in cases[:2] + cases[-2:]:
        R.sample({'formula': c['recipe'].get('formula'), 'fn': c['recipe']['fn'], 'args': c['recipe']['args']})
    dist = {}
    for c in cases:
        dist[c['recipe']['fn']] = dist.get(c['recipe']['fn'], 0) + 1
    R.extra['input_distribution'] = dist
    C.correspond(R, HEADER, 'report', cases, 'c11', 'aggregate helpers (_sum/_average/_min/_max/_count/_count_blank/_and/_or), _flatten_list/_only_numeric_list and the eight translators')
    R.assumptions += ['float data are dyadic fractions of moderate size so that every partial sum is exact (builtin sum() is compensated in CPython 3.12)',
                      'date cells are only counted by COUNT; SUM/AVERAGE/MIN/MAX over date cells are outside the decided domain']


def replay(R, rp):
    rc = rp.get('recipe') or (rp.get('examples') or [None])[0]
    if rc is None:
        print('nothing to replay: ' + str(rp.get('broken')))
        return 1
    C.build(TARGETS)
    c = make_case(rc)
    rows = C.eval_report(HEADER, [c['coq']], 'report', 'c11_replay')
    print('recipe:', rc, '\ncoq case:', c['coq'], '\nrow (model=impl spec=model spec=impl class):', rows[0])
    return 0 if rows[0].split()[0] == '1' and rows[0].split()[1] != '0' else 1
