"""C10 — comparisons are exact and lawful."""
import datetime as dt
import itertools
import math

from x2p import common as C
from x2p import impl as I

HEADER = ('Require Import X2P.Base.Prelude X2P.Base.PyCmp X2P.Corr.C10.\nOpen Scope Z_scope.\n')
TARGETS = ['theories/Props/C10.vo', 'theories/Corr/C10.vo']
OPS = [('<', 'OLt'), ('<=', 'OLe'), ('>', 'OGt'), ('>=', 'OGe'), ('==', 'OEq'), ('!=', 'ONe')]
XL = {'<': '<', '<=': '<=', '>': '>', '>=': '>=', '==': '=', '!=': '<>'}


def empty():
    return I.runtime().EmptyCell()


def pool():
    E = {'E': 1}
    ints = [0, 1, -1, 2, 3, 7, 10, 9, -7, 2 ** 60 + 1, 2 ** 53 + 1, -(2 ** 70)]
    floats = [0.5, -0.5, 1.5, 1.7, 2.0, 2.5, -2.5, 7.125, 0.1, 1e300, float(2 ** 53), -0.0, 1e-300,
              # neighbours: doubles that differ in the last places only (a tolerance instead of exact comparison shows here)
              123456789.01, 123456789.02, 1000000.001, 1000000.002, 0.30000000000000004, 0.3, 1.0000000000000002, 1.0, 4200000000.5, 4200000000.25]
    texts = ['', 'a', 'A', 'B', 'abc', 'ABC', 'abd', '10', '9', ' 5', '1.5', '1e3', 'x1', '-3', 'b c', '0', ' ', '   ']      # the last two: blanks only, yet not empty
    dates = [dt.datetime(2020, 1, 1), dt.datetime(2020, 1, 1, 12, 30), dt.date(2020, 1, 1), dt.date(2019, 12, 31),
             dt.datetime(1999, 12, 31, 23, 59, 59), dt.date(2024, 2, 29), dt.datetime(2024, 2, 29)]
    return [C.jenc(v) for v in ints + floats + texts + dates + [True, False]] + [E]


def floats_in(*vs):
    out = []
    for v in vs:
        if isinstance(v, float):
            out.append(v)
    return out


def coq_case(op, l, r, out):
    reprs = C.clist(['(%s, %s)' % (C.cfloat(f), C.cstr(repr(f))) for f in floats_in(l, r)])
    res = '(Ok %s)' % C.cbool(out[1]) if out[0] == 'ok' and isinstance(out[1], bool) else (
        '(Exc %s)' % C.cexn(out[1]) if out[0] == 'exc' else '(Exc OtherExc)')
    return 'CCmp %s %s %s %s %s' % (dict(OPS)[op], C.cval(l), C.cval(r), reprs, res)


def make_case(rc):
    rt = I.runtime()
    l, r, op = C.jdec(rc['l'], empty), C.jdec(rc['r'], empty), rc['op']
    k = rc['kind']
    if k == 'direct':
        out = I.outcome(lambda: rt._compare(op, l, r))
    elif k == 'cells':
        cells = {}
        if type(l).__name__ != 'EmptyCell':
            cells['A1'] = l
        if type(r).__name__ != 'EmptyCell':
            cells['B1'] = r
        out = I.eval_formula('=A1%sB1' % XL[op], cells, addr='D4')
    elif k == 'override':
        # the cells as the workbook holds them (numbers, or dates when rc['base'] says so): what is compared is what the overrides supply
        base = {'A1': 1, 'B1': 2} if rc.get('base') != 'dates' else {'A1': dt.datetime(2020, 1, 1), 'B1': dt.datetime(2021, 6, 15, 12, 30)}
        ov = [I.Cell(0, 0, 0, l), I.Cell(0, 1, 0, r)] if rc.get('only') is None else [I.Cell(0, rc['only'], 0, [l, r][rc['only']])]
        if rc.get('only') is not None:
            other = base['AB'[1 - rc['only']] + '1']
            l, r = (l, other) if rc['only'] == 0 else (other, r)
        pre = None
        if rc.get('pre'):
            tw = lambda v: {True: 1, False: 0}.get(v, v) if isinstance(v, bool) else (bool(v) if isinstance(v, int) and v in (0, 1) else (float(v) if isinstance(v, int) else (int(v) if isinstance(v, float) and v == int(v) and abs(v) < 2 ** 53 else 5)))
            pre = [I.Cell(0, o.column, o.row, tw(o.value) if not isinstance(o.value, (str, dt.date)) and type(o.value).__name__ != 'EmptyCell' else 5) for o in ov]
        out = I.eval_formula('=A1%sB1' % XL[op], base, addr='D4', overrides=ov, pre_overrides=pre)
    elif k == 'literal':
        out = I.eval_formula('=%s%s%s' % (rc['ll'], XL[op], rc['rl']), {}, addr='D4')
    else:
        raise ValueError(k)
    nt = C.jenc(l) != C.jenc(r)
    return {'recipe': rc, 'coq': coq_case(op, l, r, out), 'key': rc, 'nontrivial': nt}


def literal_of(v):
    if isinstance(v, bool) or v is None or type(v).__name__ == 'EmptyCell':
        return None
    if isinstance(v, int) and 0 <= v < 10 ** 15:
        return str(v)
    if isinstance(v, float) and v >= 0 and v == v and not math.isinf(v):
        s = repr(v)
        if 'e' in s or len(s) > 8:
            return None
        # the literal is rebuilt as int(I) + float('0.F'): identical only when that sum is exact
        i, f = s.split('.')
        if int(i) + float('0.' + f) != v:
            return None
        return s if f != '0' else None
    if isinstance(v, str) and '"' not in v and '?' not in v and '*' not in v:
        return '"%s"' % v
    return None


def gen_recipes(rng, tier):
    P = pool()
    pairs = list(itertools.product(P, P))
    rng.shuffle(pairs)
    n_direct = 700 if tier == 'quick' else len(pairs)
    out = []
    for l, r in pairs[:n_direct]:
        for op, _ in (OPS if tier != 'quick' else rng.sample(OPS, 2)):
            out.append({'kind': 'direct', 'op': op, 'l': l, 'r': r})
    # realistic cell values only (what openpyxl delivers)
    cellable = [p for p in P if not (isinstance(p, dict) and 'd' in p)]
    cp = list(itertools.product(cellable, cellable))
    rng.shuffle(cp)
    for l, r in cp[:(120 if tier == 'quick' else 1200)]:
        op = rng.choice(OPS)[0]
        out.append({'kind': 'cells', 'op': op, 'l': l, 'r': r})
    for l, r in pairs[n_direct:n_direct + (80 if tier == 'quick' else 800)] or pairs[:80]:
        out.append({'kind': 'override', 'op': rng.choice(OPS)[0], 'l': l, 'r': r})
    # every pair of date / date-time values as OVERRIDES (same day with different times included): what set_cells does to such values shows here
    dvals = [p for p in P if isinstance(p, dict) and ('dt' in p or 'd' in p)]
    for l, r in itertools.product(dvals, dvals):
        out.append({'kind': 'override', 'op': rng.choice(OPS)[0], 'l': l, 'r': r})
        # ... and the same over cells that hold DATES in the workbook, both overridden or only one of them
        out.append({'kind': 'override', 'op': rng.choice(OPS)[0], 'l': l, 'r': r, 'base': 'dates'})
        out.append({'kind': 'override', 'op': rng.choice(OPS)[0], 'l': l, 'r': r, 'base': 'dates', 'only': rng.randrange(2)})
    # the falsy values (0, 0.0, False, '') as OVERRIDES against small fractions, integers, texts and each other: an override must reach the
    # comparison as the value it is, not as a blank
    # ... and the blank marker itself, taken from ANOTHER generated class (a blank read from one model and fed to the next)
    falsy = [C.jenc(0), C.jenc(0.0), C.jenc(False), C.jenc(''), {'E': 1}]
    others = [C.jenc(v) for v in (0.5, -0.5, 0.25, -0.75, 1, -1, 0, 'a', '', True, 1e-9, '#N/A', ' x', '-', ' ', '   ')]
    for a in falsy:
        for b in others:
            for l, r in ((a, b), (b, a)):
                for op, _ in (OPS if tier != 'quick' else rng.sample(OPS, 3)):
                    out.append({'kind': 'override', 'op': op, 'l': l, 'r': r, 'pre': rng.random() < 0.5})
    for t_ in [p for p in P if isinstance(C.jdec(p), str)]:
        for l, r in (({'E': 1}, t_), (t_, {'E': 1})):
            for op, _ in (OPS if tier != 'quick' else rng.sample(OPS, 3)):
                out.append({'kind': 'cells', 'op': op, 'l': l, 'r': r})
    lits = [(p, literal_of(C.jdec(p))) for p in P]
    lits = [(p, s) for p, s in lits if s is not None]
    lp = list(itertools.product(lits, lits))
    rng.shuffle(lp)
    for (l, ls), (r, rs) in lp[:(80 if tier == 'quick' else 600)]:
        out.append({'kind': 'literal', 'op': rng.choice(OPS)[0], 'l': l, 'r': r, 'll': ls, 'rl': rs})
    return out


def corpus():
    f = lambda x: {'f': float(x).hex()}
    E = {'E': 1}
    rs = []
    for op, _ in OPS:
        rs += [{'kind': 'direct', 'op': op, 'l': f(1.5), 'r': f(1.7)},          # fixed: truncation with int()
               {'kind': 'direct', 'op': op, 'l': 2, 'r': f(2.75)},
               {'kind': 'direct', 'op': op, 'l': {'d': '2020-01-01'}, 'r': {'d': '2020-01-01'}},
               {'kind': 'direct', 'op': op, 'l': {'d': '2020-01-01'}, 'r': {'dt': '2020-01-01T00:00:00'}},
               {'kind': 'direct', 'op': op, 'l': E, 'r': 0},
               {'kind': 'direct', 'op': op, 'l': E, 'r': ''},
               {'kind': 'direct', 'op': op, 'l': E, 'r': 'abc'},
               {'kind': 'direct', 'op': op, 'l': E, 'r': {'dt': '2020-01-01T00:00:00'}},
               {'kind': 'cells', 'op': op, 'l': f(1.5), 'r': f(1.7)}]
    rs += [x['witness'] for x in C.known_findings()['findings'] if x['property'] == 'C10']
    return rs


def run(R, tier):
    R.coverage['rule'] = ('all pairs from a value pool (ints incl. 2^60+1, decimals differing only in the fraction, negatives, '
                          'texts, numeric-looking texts, mixed case, dates, date-times, blanks, booleans) x operators, through direct '
                          '_compare calls, cells, overrides and literals; non-trivial = pair of different values; distinct by recipe')
    C.proof_obligations(R, 'theories/Props/C10.v', 'Props.C10', TARGETS)
    if any('Coq build failed' in b for b in R.broken):
        return
    recipes = corpus() + gen_recipes(R.rng, tier)
    cases = [make_case(rc) for rc in recipes]
    for c in cases[:2] + cases[-2:]:
        R.sample({'recipe': c['recipe']})
    dist = {}
    for c in cases:
        dist[c['recipe']['kind']] = dist.get(c['recipe']['kind'], 0) + 1
    R.extra['input_distribution'] = dist
    C.correspond(R, HEADER, 'report', cases, 'c10', '_compare/_by_operator/EmptyCell and the comparison emission of the expression translator')
    R.assumptions += ['repr(float) is an oracle (supplied per case) used only by the str() fallback of _compare',
                      'the spec is silent on pairs of different kinds other than those the property names']


def replay(R, rp):
    rc = rp.get('recipe') or (rp.get('examples') or [None])[0]
    if rc is None:
        print('nothing to replay: ' + str(rp.get('broken')))
        return 1
    C.build(TARGETS)
    c = make_case(rc)
    rows = C.eval_report(HEADER, [c['coq']], 'report', 'c10_replay')
    print('recipe:', rc, '\ncoq case:', c['coq'], '\nrow (model=impl spec=model spec=impl class):', rows[0])
    return 0 if rows[0].split()[0] == '1' and rows[0].split()[1] != '0' else 1
