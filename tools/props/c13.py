"""C13 — IF / IFS / IFERROR choose the right branch and contain errors."""
from x2p import common as C
from x2p import impl as I

HEADER = ('Require Import X2P.Base.Prelude X2P.Base.PyCmp X2P.Base.PyArith X2P.Model.Cond X2P.Corr.C13.\nOpen Scope Z_scope.\n')
TARGETS = ['theories/Props/C13.vo', 'theories/Corr/C13.vo']

CELLS = {'A1': 0, 'A2': 1, 'A3': 5, 'A4': -2, 'A5': True, 'A6': False, 'A7': 'x', 'A8': '#N/A', 'B1': 2.5, 'B2': 10}   # A9 blank
AOP = {'+': 'AAdd', '-': 'ASub', '*': 'AMul', '/': 'ADiv'}
COP = {'<': 'OLt', '<=': 'OLe', '>': 'OGt', '>=': 'OGe', '=': 'OEq', '<>': 'ONe'}


def empty():
    return I.runtime().EmptyCell()


# expression trees: ('cell', addr) ('lit', int) ('txt', s) ('bin', op, a, b) ('cmp', op, a, b) ('amp', a, b)
#                   ('if', c, t, f|None) ('iferror', a, b) ('ifs', [..]) ('sum', [..]) ('div0',)
def render(e):
    k = e[0]
    if k == 'cell':
        return e[1]
    if k == 'lit':
        return str(e[1])
    if k == 'txt':
        return '"%s"' % e[1]
    if k == 'bool':
        return 'TRUE' if e[1] else 'FALSE'
    if k == 'div0':
        return '1/0'
    if k == 'raise':
        return RAISERS[e[1]]
    if k in ('bin', 'cmp'):
        return '%s%s%s' % (atom(e[2]), e[1], atom(e[3]))
    if k == 'amp':
        return '%s&%s' % (atom(e[1]), atom(e[2]))
    if k == 'if':
        return 'IF(%s,%s%s)' % (render(e[1]), render(e[2]), '' if e[3] is None else ',' + render(e[3]))
    if k == 'iferror':
        return 'IFERROR(%s,%s)' % (render(e[1]), render(e[2]))
    if k == 'ifs':
        return 'IFS(%s)' % ','.join(render(x) for x in e[1])
    if k == 'sum':
        return 'SUM(%s)' % ','.join(render(x) for x in e[1])
    raise ValueError(e)


RAISERS = {'AttributeError': 'DAY(A7)', 'IndexError': 'VLOOKUP(1,A2:A3,3,FALSE())', 'TypeError': 'LEFT(A3,1)', 'ValueError': 'MAX(A7)'}


def atom(e):
    return render(e) if e[0] in ('cell', 'lit', 'txt', 'bool', 'if', 'iferror', 'ifs', 'sum', 'raise') else '(%s)' % render(e)


ENV = dict()      # the cell values in force for the case being built: workbook constants + overrides


def coq(e):
    k = e[0]
    if k == 'cell':
        v = ENV.get(e[1])
        return '(Leaf %s)' % (C.cval(v) if v is not None else 'VEmpty')
    if k == 'lit':
        return '(Leaf (VInt %s))' % C.cz(e[1])
    if k == 'txt':
        return '(Leaf (VStr %s))' % C.cstr(e[1])
    if k == 'bool':
        return '(Leaf (VBool %s))' % C.cbool(e[1])
    if k == 'div0':
        return '(Bin (BArith ADiv) (Leaf (VInt 1%Z)) (Leaf (VInt 0%Z)))'
    if k == 'raise':
        return '(Raise %s)' % e[1]
    if k == 'bin':
        return '(Bin (BArith %s) %s %s)' % (AOP[e[1]], coq(e[2]), coq(e[3]))
    if k == 'cmp':
        return '(Bin (BCmp %s) %s %s)' % (COP[e[1]], coq(e[2]), coq(e[3]))
    if k == 'amp':
        return '(Bin BAmp %s %s)' % (coq(e[1]), coq(e[2]))
    if k == 'if':
        return '(If %s %s %s)' % (coq(e[1]), coq(e[2]), 'None' if e[3] is None else '(Some %s)' % coq(e[3]))
    if k == 'iferror':
        return '(IfError %s %s)' % (coq(e[1]), coq(e[2]))
    if k == 'ifs':
        return '(Ifs %s)' % C.clist([coq(x) for x in e[1]])
    if k == 'sum':
        return '(Sum %s)' % C.clist([coq(x) for x in e[1]])
    raise ValueError(e)


def depth(e):
    if e[0] in ('cell', 'lit', 'txt', 'bool', 'div0', 'raise'):
        return 0
    subs = [x for x in e[1:] if isinstance(x, (tuple, list)) and x and isinstance(x[0], (str, tuple))]
    flat = []
    for s in subs:
        if isinstance(s, list):
            flat += s
        elif isinstance(s, tuple) and isinstance(s[0], str):
            flat.append(s)
    return 1 + max([depth(x) for x in flat] or [0])


def gen_leaf(rng, failing=True):
    r = rng.random()
    if r < 0.55:
        return ('cell', rng.choice(list(CELLS) + ['A9']))
    if r < 0.8:
        return ('lit', rng.randint(0, 9))
    if r < 0.86:
        # (texts that merely BEGIN with the spelling of an error value are ordinary texts)
        return ('txt', rng.choice(['x', 'yes', 'no', '#N/A - none yet', '#REF!s', '#DIV/0!!']))
    if r < 0.88:
        return ('bool', rng.random() < 0.5)
    if failing and r < 0.93:
        return ('div0',)
    if failing and r < 0.97:
        return ('raise', rng.choice(list(RAISERS)))
    return ('txt', '#N/A') if failing else ('lit', 1)


def gen_cond(rng, d):
    r = rng.random()
    if r < 0.5:
        return ('cell', rng.choice(['A1', 'A2', 'A3', 'A5', 'A6', 'A9', 'A4']))
    if r < 0.85:
        return ('cmp', rng.choice(list(COP)), ('cell', rng.choice(['A1', 'A2', 'A3', 'A4', 'B2'])), ('lit', rng.randint(0, 6)))
    return gen_expr(rng, d - 1) if d > 0 else ('lit', rng.randint(0, 1))


def gen_expr(rng, d):
    if d <= 0:
        return gen_leaf(rng)
    r = rng.random()
    if r < 0.06:
        # IF(cond, TRUE, FALSE) and its variants: the shape a "simplification" to the bare condition would touch
        t, f = rng.choice([(True, False), (False, True), (True, None), (True, True)])
        return ('if', gen_cond(rng, d - 1), ('bool', t), None if f is None else ('bool', f))
    if r < 0.3:
        return ('if', gen_cond(rng, d - 1), gen_expr(rng, d - 1), gen_expr(rng, d - 1) if rng.random() < 0.8 else None)
    if r < 0.5:
        return ('iferror', gen_expr(rng, d - 1), gen_expr(rng, d - 1) if rng.random() < 0.5 else gen_leaf(rng))
    if r < 0.62:
        n = rng.choice([1, 2, 2, 3])
        args = []
        for _ in range(n):
            args += [gen_cond(rng, 0), gen_expr(rng, d - 1) if rng.random() < 0.4 else gen_leaf(rng)]
        if rng.random() < 0.07:
            args = args[:-1]
        return ('ifs', args)
    if r < 0.67:
        # a bracketed group that BEGINS with an IF / IFS / IFERROR and ends with a reference, next to * / - : the brackets are the user's
        head = rng.choice([('if', gen_cond(rng, 0), gen_leaf(rng, False), gen_leaf(rng, False)), ('iferror', gen_leaf(rng), ('lit', rng.randint(0, 9))),
                           ('ifs', [gen_cond(rng, 0), gen_leaf(rng, False), ('bool', True), ('lit', rng.randint(0, 9))])])
        tail = rng.choice([('cell', rng.choice(['A1', 'A2', 'B2'])), ('if', gen_cond(rng, 0), ('lit', 3), ('lit', 4))])
        group = ('bin', rng.choice(['+', '-']), head, tail)
        other = ('lit', rng.randint(2, 9)) if rng.random() < 0.6 else ('cell', rng.choice(['A1', 'A2', 'B2']))
        return ('bin', rng.choice(['*', '/', '-']), group, other) if rng.random() < 0.6 else ('bin', rng.choice(['*', '-']), other, group)
    if r < 0.8:
        return ('bin', rng.choice(['+', '+', '*', '-', '/']), gen_expr(rng, d - 1), gen_expr(rng, d - 1))
    if r < 0.86:
        # operands of & stay float-free (repr(float) of computed values is not modelled)
        lf = lambda: rng.choice([('cell', rng.choice(['A1', 'A2', 'A3', 'A5', 'A7', 'A9'])), ('lit', rng.randint(0, 9)), ('txt', 'q')])
        return ('amp', ('if', gen_cond(rng, 0), lf(), lf()) if rng.random() < 0.6 else lf(), lf())
    if r < 0.93:
        return ('sum', [gen_expr(rng, d - 1) for _ in range(rng.randint(1, 3))])
    return ('cmp', rng.choice(list(COP)), gen_expr(rng, d - 1), gen_leaf(rng, False))


def size(e):
    if e[0] in ('cell', 'lit', 'txt', 'div0', 'raise'):
        return 1
    n = 1
    for x in e[1:]:
        if isinstance(x, list):
            n += sum(size(y) for y in x)
        elif isinstance(x, tuple):
            n += size(x)
    return n


def floats_of(v, acc):
    if isinstance(v, float):
        acc.append(v)


def lazy_shared_cell(R):
    """A formula cell whose evaluation FAILS for the values in force (C1 = B1/A1 with A1 = 0), mentioned twice inside the branch IF does not
    take / inside IFERROR's guarded argument: it must not be evaluated (IF), or its failure must be caught (IFERROR)."""
    cells = {'A1': 0, 'B1': 10, 'C1': '=B1/A1', 'D1': '=IF(A1=0,0,C1+C1*2)', 'D2': '=IFERROR(C1*C1,-1)', 'D3': '=IF(A1,C1,7)+IF(A1,C1,8)',
             'D4': '=IFERROR(IF(A1=0,C1,1)+IF(A1=0,C1,2),"caught")', 'D5': '=IF(A1=0,"zero",IF(C1>1,C1,-C1))'}
    want0 = [0, -1, 15, 'caught', 'zero']
    want2 = [15.0, 25.0, 10.0, 3, 5.0]
    for entry in (None, 'entry'):
        for r, w in enumerate(want0):
            R.count(('lazy_shared', entry, r), True)
            cl = I.build([('S', cells)], I.Cell(0, 3, r) if entry else None)
            e = I.executor(cl)
            got = I.outcome(lambda: e.get_cell(I.Cell(0, 3, r)).value)
            e.set_cells([I.Cell(0, 0, 0, 2)])
            got2 = I.outcome(lambda: e.get_cell(I.Cell(0, 3, r)).value)
            if got != ('ok', w) or got2 != ('ok', want2[r]):
                R.violation('with A1 = 0, C1 = B1/A1 fails; %s evaluates to %r (expected %r); after the override A1 := 2 to %r (expected %r)%s'
                            % (cells['D%d' % (r + 1)], got, w, got2, want2[r], ' [translated from the entry cell]' if entry else ''),
                            {'recipe': {'kind': 'lazy_shared'}, 'input_found': True})
                return


def make_case(rc):
    e = rc['e']
    e = tuplify(e)
    formula = '=' + render(e)
    ov = {k: C.jdec(v) for k, v in (rc.get('overrides') or {}).items()}
    ENV.clear(); ENV.update(CELLS); ENV.update(ov)
    out = I.eval_formula(formula, CELLS, addr='H9', overrides=[I.Cell(0, *I.a1(k), v) for k, v in ov.items()] or None)
    reprs = C.clist(['(%s, %s)' % (C.cfloat(f), C.cstr(repr(f))) for f in set([2.5, 5.0, 12.5] + rc.get('floats', []))])
    coq_term = 'CC %s %s %s' % (coq(e), reprs, C.cres(out))
    return {'recipe': dict(rc, formula=formula), 'coq': coq_term, 'key': formula, 'nontrivial': depth(e) >= 2 or 'div0' in repr(e) or 'raise' in repr(e) or '#N/A' in repr(e)}


def tuplify(e):
    if isinstance(e, list) and e and isinstance(e[0], str):
        return tuple(tuplify(x) for x in e)
    if isinstance(e, list):
        return [tuplify(x) for x in e]
    return e


def corpus():
    c = lambda a: ('cell', a)
    L = lambda n: ('lit', n)
    es = [('bin', '+', ('if', c('A2'), L(10), L(20)), L(1)), ('bin', '+', L(1), ('if', c('A1'), L(10), L(20))),
          ('bin', '-', ('bin', '*', c('A3'), ('if', c('A1'), L(2), L(5))), L(1)),
          ('if', c('A2'), L(1), ('div0',)), ('if', c('A1'), ('div0',), L(2)), ('if', c('A1'), L(3), None),
          ('iferror', ('div0',), L(7)), ('iferror', ('raise', 'AttributeError'), L(7)), ('iferror', ('raise', 'IndexError'), L(7)),
          ('iferror', ('raise', 'TypeError'), L(7)), ('iferror', ('raise', 'ValueError'), L(7)), ('iferror', c('A8'), L(7)), ('iferror', L(1), ('div0',)), ('iferror', ('txt', '#NULL!'), L(1)),
          ('ifs', [c('A1'), L(1), c('A2'), L(2)]), ('ifs', [c('A1'), L(1), c('A6'), L(2)]), ('ifs', [c('A2'), L(1), c('A2'), ('div0',)]),
          ('sum', [('if', c('A2'), L(4), L(5)), ('iferror', ('div0',), L(3))]),
          ('bin', '+', ('iferror', ('bin', '+', c('A7'), L(1)), L(7)), L(1)),
          ('cmp', '<', ('if', c('A2'), L(1), L(9)), L(3)), ('amp', ('if', c('A1'), ('txt', 'a'), ('txt', 'b')), ('txt', 'x'))]
    rs = [{'e': e} for e in es]
    rs += [x['witness'] for x in C.known_findings()['findings'] if x['property'] == 'C13']
    return rs


def run(R, tier):
    R.coverage['rule'] = ('random nests of IF/IFS/IFERROR up to depth 3 (parser cost) inside + - * / & comparisons and SUM, leaves = cells holding '
                          '0/1/5/-2/TRUE/FALSE/text/"#N/A"/2.5/blank, small literals, failing 1/0; all truth assignments arise from the cell pool; '
                          'non-trivial = nest depth >= 2 or a failing leaf; distinct by formula text')
    C.proof_obligations(R, 'theories/Props/C13.v', 'Props.C13', TARGETS)
    if any('Coq build failed' in b for b in R.broken):
        return
    n = 500 if tier == 'quick' else 5000
    recipes = corpus()
    while len(recipes) < n:
        e = gen_expr(R.rng, R.rng.choice([1, 2, 2, 3]))
        forced = None
        if R.rng.random() < 0.1:
            # IFERROR over a BARE reference to a plain constant cell whose value arrives as an error through set_cells
            c = R.rng.choice(['A1', 'A4', 'A9', 'B2'])
            core = ('iferror', ('cell', c), R.rng.choice([('lit', -1), ('cell', 'B2'), ('txt', 'bad')]))
            e = R.rng.choice([core, ('bin', '+', core, ('lit', 1)), ('if', ('cmp', '>', core, ('lit', 3)), ('txt', 'big'), ('txt', 'small')), ('iferror', core, ('lit', -7))])
            forced = {c: C.jenc(R.rng.choice(['#N/A', '#DIV/0!', '#VALUE!', '#REF!', 5, '#REF!erence', '#NUM!ber of items']))}
        import re as _re
        # a * or ? between two double quotes is lexed as ONE wildcard-pattern literal (a lexer defect recorded under C05/C07): keep clear of it
        if size(e) <= 14 and e[0] not in ('cell', 'lit', 'txt', 'div0', 'raise') and not _re.search(r'".*[?*].*"', render(e)):
            rc = {'e': e}
            if forced:
                rc['overrides'] = forced
            elif R.rng.random() < 0.3:
                # some referenced cells get their value through set_cells: error values, other numbers, texts (a decision taken at
                # translation time from the workbook's constant would be stale here)
                ks = R.rng.sample(['A1', 'A4', 'A5', 'A6', 'A9', 'B2'], R.rng.randint(1, 3))      # not A2, A3, A7: the raising sub-expressions read them
                rc['overrides'] = {k: C.jenc(R.rng.choice(['#N/A', '#DIV/0!', '#VALUE!', 7, 0, 'y', 3, '#VALUE!s', '#N/A?'])) for k in ks}
            recipes.append(rc)
    cases = [make_case(rc) for rc in recipes]
    for c in cases[:2] + cases[-3:]:
        R.sample({'formula': c['recipe']['formula']})
    C.correspond(R, HEADER, 'report', cases, 'c13', 'IF/IFS/IFERROR translators, _iferror/_ifs/_find_error_in_list and their embedding in expressions')
    lazy_shared_cell(R)
    R.assumptions += ['text conditions are outside the decided domain (Python truthiness is used on both sides)',
                      'an Excel error on the spec side matches any failure (exception or error text) on the other side']


def replay(R, rp):
    rc = rp.get('recipe') or (rp.get('examples') or [None])[0]
    if rc is not None and rc.get('kind') == 'lazy_shared':
        lazy_shared_cell(R)
        for w, _ in R.violations:
            print(w)
        return 1 if R.violations else 0
    if rc is None:
        print('nothing to replay: ' + str(rp.get('broken')))
        return 1
    C.build(TARGETS)
    c = make_case(rc)
    rows = C.eval_report(HEADER, [c['coq']], 'report', 'c13_replay')
    print('formula:', c['recipe']['formula'], '\ncoq case:', c['coq'], '\nrow (model=impl spec=model spec=impl class):', rows[0])
    return 0 if rows[0].split()[0] == '1' and rows[0].split()[1] != '0' else 1
