#!/venv/bin/python
import json, sys
p='/verif/known_findings.json'
k=json.load(open(p))
prop, fid, what, witness = sys.argv[1], sys.argv[2], sys.argv[3], json.loads(sys.argv[4])
k['findings']=[f for f in k['findings'] if not (f['property']==prop and f['id']==fid)]
k['findings'].append({'property':prop,'id':fid,'what':what,'witness':witness})
json.dump(k,open(p,'w'),indent=1)
