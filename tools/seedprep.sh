#!/bin/sh
# usage: seedprep.sh <prefix e.g. wt8> [Cxx...]   — scratch worktrees of /repo HEAD for seeding sub-agents, with the property text and a list of what
# already exists (earlier seeds' descriptions, known deviations); the sub-agents see nothing of /verif itself
pre=$1; shift
props=${@:-$(seq -f 'C%02g' 1 20)}
for p in $props; do
  git -C /repo worktree remove --force /tmp/${pre}_$p 2>/dev/null; rm -rf /tmp/${pre}_$p /tmp/${pre}_$p.out
  git -C /repo worktree add -q --detach /tmp/${pre}_$p HEAD || exit 1
  /venv/bin/python - "$p" "$pre" <<'PY'
import json, sys, glob
p, pre = sys.argv[1:3]
for l in open('/verif/properties.jsonl'):
    d = json.loads(l)
    if d['id'] == p:
        json.dump(d, open('/tmp/%s_%s.PROPERTY.json' % (pre, p), 'w'), indent=1, ensure_ascii=False)
out = ['EXISTING SEEDED CHANGES for %s (yours must differ from all of them in location AND mechanism):' % p]
for i, m in enumerate(sorted(glob.glob('/verif/seeded/%s-*/meta.json' % p)), 1):
    out.append('(%d) %s' % (i, ' '.join(json.load(open(m)).get('needs', '').split())[:600]))
k = json.load(open('/verif/known_findings.json'))
out.append('')
out.append('KNOWN DEVIATIONS of the unchanged code for %s (your demonstration must avoid them):' % p)
for f in k['findings']:
    if f['property'] == p:
        out.append('- %s: %s' % (f['id'], f['what'][:400]))
open('/tmp/%s_%s.KNOWN.txt' % (pre, p), 'w').write('\n'.join(out) + '\n')
PY
done
echo prepared: $props
