#!/bin/sh
# usage: tools/mk.sh [targets...]   (build Coq targets; default all)
for g in /verif/tools/gen_*.py; do PYTHONPATH=/repo PYTHONHASHSEED=0 PYTHONWARNINGS=ignore /venv/bin/python $g >/dev/null || exit 2; done
cd /verif/coq && coq_makefile -f _CoqProject -o Makefile $(find theories -name '*.v' | sort) >/dev/null && timeout 1500 make -f Makefile -j16 "$@" 2>&1 | grep -v '^COQC\|^COQDEP\|^make' | head -60
