#!/bin/sh
# usage: tools/mk.sh [targets...]   (build Coq targets; default all)
cd /verif/coq && coq_makefile -f _CoqProject -o Makefile $(find theories -name '*.v' | sort) >/dev/null && timeout 1500 make -f Makefile -j16 "$@" 2>&1 | grep -v '^COQC\|^COQDEP\|^make' | head -60
