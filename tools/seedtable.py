#!/venv/bin/python
"""Regenerates the seeded-change table of DESIGN.md (between the SEEDTABLE markers) from seeded/*/meta.json."""
import glob
import json
import os
import re

rows = ['| seed | files changed | check | outcome on the seeded tree | seconds |', '|---|---|---|---|---|']
for d in sorted(glob.glob('/verif/seeded/C*')):
    m = json.load(open(os.path.join(d, 'meta.json')))
    patch = open(os.path.join(d, 'patch.diff')).read()
    files = sorted({os.path.basename(x) for x in re.findall(r'^\+\+\+ b/(\S+)', patch, re.M)})
    q = (m.get('checks') or {}).get('quick') or {}
    if m.get('status', '').startswith('obsolete'):
        out = 'obsolete — ' + m['status'][len('obsolete: '):][:160]
    elif q.get('detected'):
        first = ' '.join(q.get('first_lines') or [])
        no_input = not q['with_input'] if 'with_input' in q else 'no-failing-input-found' in first
        out = 'VIOLATION, no-failing-input-found (broken obligation named in the replay)' if no_input else 'VIOLATION with a concrete input'
    else:
        out = 'NOT detected' if q else 'not run'
    rows.append('| %s | %s | `check.py %s quick` | %s | %s |' % (os.path.basename(d), ', '.join(files), m['property'], out, q.get('wall_s', '')))
table = '\n'.join(rows)
p = '/verif/DESIGN.md'
s = open(p).read()
if '<!-- SEEDTABLE -->' in s and '<!-- /SEEDTABLE -->' not in s:
    s = s.replace('<!-- SEEDTABLE -->', '<!-- SEEDTABLE -->\n' + table + '\n<!-- /SEEDTABLE -->')
else:
    s = re.sub(r'<!-- SEEDTABLE -->.*<!-- /SEEDTABLE -->', '<!-- SEEDTABLE -->\n' + table.replace('\\', '\\\\') + '\n<!-- /SEEDTABLE -->', s, flags=re.S)
open(p, 'w').write(s)
print(table)
