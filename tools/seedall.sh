#!/bin/sh
# re-run every seeded change against the current tree (validates, applies to /repo, runs the quick check, reverts)
for d in /verif/seeded/C*; do
  b=$(basename $d); p=${b%-*}; s=${b#*-}
  /venv/bin/python /verif/tools/seedtest.py $p $s > /verif/build/seed_$b.log 2>&1
  echo "$b rc=$? $(grep -m1 'check exit\|obsolete\|FAILED\|failed' /verif/build/seed_$b.log | cut -c1-120)"
done
