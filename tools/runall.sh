#!/bin/sh
# run every claimed check (quick by default) on the current tree; prints one summary line per property
tier=${1:-quick}
for p in $(/venv/bin/python -c "import json;print(' '.join(c['property_id'] for c in json.load(open('/verif/MANIFEST.json'))['checks']))"); do
  /venv/bin/python /verif/tools/check.py $p $tier > /verif/build/run_$p.log 2>&1; echo "$p exit=$? $(tail -1 /verif/build/run_$p.log | cut -c1-150)"
done
