"""Access to the real implementation under /repo (always the current working tree)."""
import datetime
import os
import sys
import warnings

warnings.filterwarnings('ignore')
if '/repo' not in sys.path:
    sys.path.insert(0, '/repo')

from excel2pycl.src.excel import Excel  # noqa: E402
from excel2pycl.src.context import Context  # noqa: E402
from excel2pycl.src.cell import Cell  # noqa: E402
from excel2pycl.src.translators import CellTranslator  # noqa: E402
from excel2pycl import Executor, Parser  # noqa: E402
from excel2pycl.src import exceptions as X  # noqa: E402
from openpyxl.utils.cell import coordinate_from_string, column_index_from_string, get_column_letter  # noqa: E402

import excel2pycl  # noqa: E402
assert excel2pycl.__file__.startswith('/repo/'), excel2pycl.__file__


def a1(addr):
    c, r = coordinate_from_string(addr)
    return column_index_from_string(c) - 1, r - 1


def mkexcel(sheets):
    """sheets: list of (title, {A1: value}) -> Excel object built exactly as Excel.parse would
    (rows padded from column A to the last stored cell of the row, rows 1..max row)."""
    data, titles, sizes = [], [], []
    for title, cells in sheets:
        coords = {}
        for a, v in cells.items():
            c, r = a1(a)
            coords[(r, c)] = v
        nr = max((r for r, _ in coords), default=-1) + 1
        sheet = []
        for r in range(nr):
            cols = [c for (rr, c) in coords if rr == r]
            sheet.append([coords.get((r, c)) for c in range(max(cols) + 1)] if cols else [])
        data.append(sheet)
        titles.append(title)
        sizes.append({'last_column': max((len(r) for r in sheet), default=0), 'last_row': nr})
    return Excel({'data': data, 'titles': titles, 'suspicious_cells': {}, 'sheets_size': sizes})


def translate(sheets, entry=None):
    ex = mkexcel(sheets)
    ctx = Context()
    ctx._titles = ex.get_titles()
    ctx._sheets_size = ex.get_sheets_size()
    if entry is None:
        CellTranslator.translate_file(ex, ctx)
    else:
        CellTranslator.translate(entry, ex, ctx)
    return ctx.build_class(), ctx


def load(src):
    ns = {}
    exec(compile(src, '<generated>', 'exec'), ns)
    return ns['ExcelInPython']


def build(sheets, entry=None):
    if isinstance(sheets, dict):
        sheets = [('S', sheets)]
    src, ctx = translate(sheets, entry)
    return load(src)


_RT = None


def runtime():
    """An instance of a class generated from the current template with no cell methods."""
    global _RT
    if _RT is None:
        _RT = load(Context().build_class())()
    return _RT


def abstract_runtime():
    from excel2pycl.src.utilities.abstract_excel_in_python_class import AbstractExcelInPython

    class K(AbstractExcelInPython):
        def __init__(self):
            self._arguments = {}
    return K()


def executor(cls):
    return Executor().set_executed_class(class_object=cls)


def outcome(fn):
    """Run fn; map result/exception into ('ok', value) / ('exc', ExceptionClassName)."""
    try:
        return ('ok', fn())
    except RecursionError:
        return ('exc', 'RecursionError')
    except Exception as e:  # noqa
        return ('exc', type(e).__name__)


def _perturbed(v):
    """a different constant of the same kind (for the decoy sheet)"""
    if isinstance(v, bool):
        return not v
    if isinstance(v, int):
        return v + 1000
    if isinstance(v, float):
        return v * 3 + 0.5
    if isinstance(v, datetime.datetime):
        return v + datetime.timedelta(days=40)
    if isinstance(v, str) and not v.startswith('='):
        return 'q' + v
    return v


def eval_formula(formula, cells=None, addr='Z9', overrides=None, sheets=None, decoy=True, pre_overrides=None, split=False, entry_mode=None):
    """The value of `formula` written at `addr` of the first sheet.  The workbook also gets a DECOY sheet in front of it: the same cell
    texts (formulas included) at the same addresses over different constants.  Whatever the translation remembers about a formula text, an
    area text or an address must not leak from one sheet to the other."""
    cells = dict(cells or {})
    cells[addr] = formula
    sh = sheets if sheets is not None else [('S', cells)]
    if sheets is not None:
        sh = [(t, dict(c)) for t, c in sheets]
        sh[0][1][addr] = formula
    shift = 0
    if decoy:
        import zlib as _z
        front = [('Decoy 0', {a: _perturbed(v) for a, v in sh[0][1].items()})]
        if _z.crc32(formula.encode('utf8')) % 5 == 0:
            # now and then ten sheets in front: the formula's sheet then has a two-digit number (uids _10_<column>_<row>)
            front += [('Filler %d' % i, {'A1': i}) for i in range(1, 10)]
        sh = front + list(sh)
        shift = len(front)

    import zlib
    c0, r0 = a1(addr)
    # every other formula (by a checksum of its text) is translated from the formula cell as ENTRY POINT instead of as a whole file
    # (`entry_mode` True / False forces one of the two; a case whose point is the ORDER in which a whole file is translated needs False)
    use_entry = zlib.crc32(formula.encode('utf8')) % 2 if entry_mode is None else entry_mode
    entry = Cell(shift, c0, r0) if use_entry else None

    def go():
        cl = build(sh, entry)
        remap = lambda os_: [Cell(o.title + shift if isinstance(o.title, int) else o.title, o.column, o.row, o.value) for o in os_] if shift else os_
        # a SIBLING executor of the same class object works first, under other overrides: what it is given and what it calculates must
        # not reach the executor under test
        sib = executor(cl)
        c_s, r_s = a1(addr)
        if overrides:
            sib.set_cells(remap([Cell(o.title, o.column, o.row, _perturbed(o.value)) for o in overrides]))
        else:
            sib.set_cells([Cell(shift, 0, 0, 424242)])
        outcome(lambda: sib.get_cell(Cell(shift, c_s, r_s)).value)
        e = executor(cl)
        if pre_overrides:
            # an earlier state of the same executor: other values in the same cells, read once, then replaced by `overrides`
            e.set_cells(remap(pre_overrides))
            c_, r_ = a1(addr)
            outcome(lambda: e.get_cell(Cell(shift, c_, r_)).value)
        if overrides and split:
            for o_ in remap(overrides):          # one set_cells call per cell, nothing read in between
                e.set_cells([o_])
        elif overrides:
            e.set_cells(remap(overrides))
        c, r = a1(addr)
        return e.get_cell(Cell(shift, c, r)).value
    return outcome(go)
