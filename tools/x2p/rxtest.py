"""Differential validation of Base/Regex.v against Python's `re` (trusted-base check, not a property check)."""
import re
from x2p import common as C

HEADER = '''From Coq Require Import List String Bool Arith. Import ListNotations.
Require X2P.Base.Regex. Require Import X2P.Base.Prelude.
Definition ostr_eqb (a b : option string) : bool :=
  match a, b with Some x, Some y => String.eqb x y | None, None => true | _, _ => false end.
Fixpoint gl_eqb (a b : list (option string)) : bool :=
  match a, b with [], [] => true | x :: a', y :: b' => ostr_eqb x y && gl_eqb a' b' | _, _ => false end.
Definition mo_eqb (o : Regex.mobj) (e : nat * nat * list (option string)) : bool :=
  let '(s, en, g) := e in Nat.eqb (Regex.m_start o) s && Nat.eqb (Regex.m_end o) en && gl_eqb (Regex.m_groups o) g.
Fixpoint ml_eqb (a : list Regex.mobj) (b : list (nat * nat * list (option string))) : bool :=
  match a, b with [], [] => true | x :: a', y :: b' => mo_eqb x y && ml_eqb a' b' | _, _ => false end.
Definition chk (c : bool * string * string * list (nat * nat * list (option string))) : string :=
  let '(ic, pat, subj, e) := c in
  match Regex.finditer ic pat subj with Some l => b2s (ml_eqb l e) | None => "P"%string end.
Definition report (l : list (bool * string * string * list (nat * nat * list (option string)))) : string := lines chk l.
'''


def case(ic, pat, subj):
    ms = list(re.finditer(pat, subj, re.I if ic else 0))
    e = C.clist(['(%d%%nat, %d%%nat, %s)' % (m.start(), m.end(), C.clist(['None' if g is None else '(Some %s)' % C.cstr(g) for g in m.groups()]))
                 for m in ms])
    return '(%s, %s, %s, %s)' % (C.cbool(ic), C.cstr(pat), C.cstr(subj), e)


def run(pairs, name='rxtest'):
    """pairs: list of (ic, pattern, subject). Returns list of mismatching (ic, pat, subj, status)."""
    terms = [case(*p) for p in pairs]
    rows = C.eval_report(HEADER, terms, 'report', name, shard=300)
    return [(p, r) for p, r in zip(pairs, rows) if r != '1']
