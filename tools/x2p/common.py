"""Shared plumbing for the /verif checks: Coq build, cases.v evaluation, evidence,
known findings, violation reporting.  See DESIGN.md section 3."""
import fcntl
import glob
import hashlib
import json
import os
import random
import re
import subprocess
import sys
import time

ROOT = '/verif'
COQ = os.path.join(ROOT, 'coq')
BUILD = os.path.join(ROOT, 'build')
REPO = '/repo'
PY = '/venv/bin/python'

ALLOWED_AXIOMS_PREFIX = (
    # primitive floats / ints of the kernel and their standard-library specification axioms
    'PrimFloat.', 'Uint63.', 'FloatAxioms.', 'PrimInt63.', 'Sint63.', 'FloatOps.', 'SpecFloat.',
    'Coq.Floats.', 'Coq.Numbers.Cyclic.Int63.',
)
ALLOWED_AXIOMS = {
    'functional_extensionality_dep', 'FunctionalExtensionality.functional_extensionality_dep',
    'Coq.Logic.FunctionalExtensionality.functional_extensionality_dep',
}

FORBIDDEN = re.compile(r'\b(Admitted|admit|Axiom|Axioms|Parameter|Parameters|Conjecture|Conjectures|'
                       r'Unset\s+Guard|Unset\s+Positivity|Unset\s+Universe|bypass_check|Admit\s+Obligations|'
                       r'native_compute)\b|type-in-type|impredicative-set')


def ensure_dirs():
    for d in (BUILD, os.path.join(BUILD, 'cases'), os.path.join(ROOT, 'evidence'), os.path.join(ROOT, 'replays')):
        os.makedirs(d, exist_ok=True)


class Lock:
    def __init__(self, name='coq.lock'):
        ensure_dirs()
        self.path = os.path.join(BUILD, name)

    def __enter__(self):
        self.f = open(self.path, 'w')
        fcntl.flock(self.f, fcntl.LOCK_EX)
        return self

    def __exit__(self, *a):
        fcntl.flock(self.f, fcntl.LOCK_UN)
        self.f.close()


def sh(cmd, timeout=600, cwd=None, env=None):
    t = time.time()
    try:
        p = subprocess.run(cmd, shell=isinstance(cmd, str), cwd=cwd, env=env, capture_output=True, text=True,
                           timeout=timeout)
        return p.returncode, p.stdout, p.stderr, time.time() - t
    except subprocess.TimeoutExpired as e:
        return 124, (e.stdout or b'').decode('utf8', 'replace') if isinstance(e.stdout, bytes) else (e.stdout or ''), \
            'TIMEOUT after %ss' % timeout, time.time() - t


def regenerate():
    """Re-run every translator source -> Gen/*.v.  Fail-closed: returns (ok, message)."""
    gens = sorted(glob.glob(os.path.join(ROOT, 'tools', 'gen_*.py')))
    msgs = []
    for g in gens:
        env = dict(os.environ, PYTHONPATH=REPO, PYTHONHASHSEED='0', PYTHONWARNINGS='ignore')
        rc, out, err, _ = sh([PY, g], timeout=120, env=env)
        if rc != 0:
            return False, 'translator %s failed: %s' % (os.path.basename(g), (err or out)[-2000:])
        msgs.append(out.strip())
    return True, '\n'.join(msgs)


def coq_files():
    fs = []
    for d, _, names in os.walk(os.path.join(COQ, 'theories')):
        for n in names:
            if n.endswith('.v'):
                fs.append(os.path.relpath(os.path.join(d, n), COQ))
    return sorted(fs)


def build(targets, timeout=1500, clean=False, stale_tables_ok=False):
    """make the given .vo targets (paths relative to coq/).  Returns (ok, log).
    stale_tables_ok: when a translator refuses the current source (fail-closed), keep the tables it generated last (those of the
    tree on which it still worked) and build with them — used only to keep the SEARCH for a failing input alive after the obligation
    "the source still has the shape the model is generated from" has already been recorded as broken."""
    with Lock():
        ok, msg = regenerate()
        if not ok and not stale_tables_ok:
            return False, msg
        files = coq_files()
        listing = '\n'.join(files)
        stamp = os.path.join(BUILD, 'filelist')
        old = open(stamp).read() if os.path.exists(stamp) else ''
        if old != listing or not os.path.exists(os.path.join(COQ, 'Makefile')):
            rc, out, err, _ = sh(['coq_makefile', '-f', '_CoqProject', '-o', 'Makefile'] + files, cwd=COQ)
            if rc != 0:
                return False, 'coq_makefile failed: ' + err
            open(stamp, 'w').write(listing)
        if clean:
            sh('make -f Makefile clean', cwd=COQ, timeout=120)
        rc, out, err, dt = sh(['make', '-f', 'Makefile', '-j16'] + list(targets), cwd=COQ, timeout=timeout)
        return rc == 0, (out[-6000:] + '\n' + err[-6000:])


def coqc_text(text, name, timeout=300):
    """Compile a scratch file against the built theories; returns (rc, stdout, stderr)."""
    d = os.path.join(BUILD, 'cases')
    os.makedirs(d, exist_ok=True)
    path = os.path.join(d, name + '.v')
    with open(path, 'w') as f:
        f.write(text)
    rc, out, err, dt = sh('ulimit -s unlimited 2>/dev/null; exec coqc -w -all -Q %s X2P %s' %
                          (os.path.join(COQ, 'theories'), path), cwd=d, timeout=timeout)
    for ext in ('.vo', '.vok', '.vos', '.glob'):
        try:
            os.remove(os.path.join(d, name + ext))
        except OSError:
            pass
    try:
        os.remove(os.path.join(d, '.' + name + '.aux'))
    except OSError:
        pass
    return rc, out, err


def parse_coq_string(out):
    """Extract the (single) Coq string printed by `Eval vm_compute in (... : string)`."""
    i = out.index('= "')
    j = out.rindex('"')
    body = out[i + 3:j]
    return body.replace('""', '"')


def eval_report(header, case_terms, report_fn, name, shard=400, timeout=600, case_type=None):
    """Write cases shards, evaluate `report_fn cases` in Coq, return list of row strings (one per case)
    or raise RuntimeError.  Shards run in parallel."""
    from concurrent.futures import ThreadPoolExecutor
    shards = [case_terms[i:i + shard] for i in range(0, len(case_terms), shard)]

    def run(k):
        body = ';\n  '.join(shards[k])
        ty = (' : list (%s)' % case_type) if case_type else ''
        text = (header + '\nDefinition cases%s := [\n  %s\n].\n' % (ty, body) +
                'Eval vm_compute in (%s cases).\n' % report_fn)
        rc, out, err = coqc_text(text, '%s_%d' % (name, k), timeout=timeout)
        if rc != 0:
            raise RuntimeError('coqc failed on cases shard %s_%d: %s' % (name, k, (err or out)[-3000:]))
        s = parse_coq_string(out)
        rows = [r for r in s.split('\n') if r != '']
        if len(rows) != len(shards[k]):
            raise RuntimeError('report row count mismatch in shard %d: %d rows for %d cases' % (k, len(rows), len(shards[k])))
        return rows
    with ThreadPoolExecutor(max_workers=16) as ex:
        res = list(ex.map(run, range(len(shards))))
    return [r for rs in res for r in rs]


# ---------------------------------------------------------------- Coq literal codec

def cz(n):
    n = int(n)
    return '(%d)%%Z' % n if n < 0 else '%d%%Z' % n


def cN(n):
    return '%d%%N' % int(n)


def cnat(n):
    assert 0 <= n < 5000
    return '%d%%nat' % int(n)


def cbool(b):
    return 'true' if b else 'false'


def cstr(s):
    if not isinstance(s, str):
        raise TypeError(s)
    b = s.encode('utf8')
    if any(c == 0 for c in b):
        raise ValueError('NUL in string')
    if all(32 <= c < 127 for c in b):
        return '"' + s.replace('"', '""') + '"%string'
    # general bytes: build from ascii codes
    return '(bytes_to_string [%s])' % ';'.join('%d%%N' % c for c in b)


def cfloat(x):
    import math
    if math.isnan(x):
        return 'PrimFloat.nan'
    if math.isinf(x):
        return 'PrimFloat.infinity' if x > 0 else 'PrimFloat.neg_infinity'
    h = float(x).hex()
    if h.startswith('-'):
        return '(- %s)%%float' % h[1:]
    return '(%s)%%float' % h


def clist(items):
    return '[' + '; '.join(items) + ']'


def copt(x, f):
    return 'None' if x is None else '(Some %s)' % f(x)


# ---------------------------------------------------------------- proof hygiene

def hygiene():
    """Static scan of the whole development for forbidden constructs.  Returns list of offences."""
    bad = []
    for f in coq_files():
        txt = open(os.path.join(COQ, f)).read()
        txt_nc = re.sub(r'\(\*.*?\*\)', '', txt, flags=re.S)
        for m in FORBIDDEN.finditer(txt_nc):
            bad.append('%s: %s' % (f, m.group(0)))
    proj = open(os.path.join(COQ, '_CoqProject')).read()
    if FORBIDDEN.search(proj):
        bad.append('_CoqProject: forbidden flag')
    return bad


def theorems_of(props_file):
    txt = open(os.path.join(COQ, props_file)).read()
    return re.findall(r'^\s*(?:Theorem|Corollary)\s+([A-Za-z0-9_\']+)', txt, flags=re.M)


def print_assumptions(module, thms, name):
    """Returns dict thm -> list of axioms ([] = closed), or raises."""
    text = 'Require Import X2P.%s.\n' % module + ''.join(
        'Print Assumptions %s.\n' % t for t in thms)
    rc, out, err = coqc_text(text, 'assum_' + name, timeout=300)
    if rc != 0:
        raise RuntimeError('Print Assumptions failed: ' + (err or out)[-2000:])
    # split outputs: each is either "Closed under the global context" or "Axioms:\n name : type ..."
    chunks = re.split(r'(?=Closed under the global context|Axioms:)', out)
    chunks = [c for c in chunks if c.strip()]
    res = {}
    for t, c in zip(thms, chunks):
        if c.startswith('Closed'):
            res[t] = []
        else:
            names = re.findall(r'^([A-Za-z_][A-Za-z0-9_\.\']*)\s*:', c, flags=re.M)
            res[t] = [n for n in names if n != 'Axioms']
    if len(res) != len(thms):
        raise RuntimeError('could not parse Print Assumptions output')
    return res


_STD = None


def stdlib_declared():
    """Names the standard library itself declares as Primitive/Axiom for Uint63 and Float64
    (kernel primitives and their specification axioms) plus the usual logical axioms."""
    global _STD
    if _STD is None:
        names = set()
        base = '/usr/lib/ocaml/coq/theories'
        for pat in ('Floats/*.v', 'Numbers/Cyclic/Int63/*.v'):
            for f in glob.glob(os.path.join(base, pat)):
                names.update(re.findall(r'^(?:Primitive|Axiom)\s+([A-Za-z0-9_\']+)', open(f).read(), flags=re.M))
        names.update({'functional_extensionality_dep', 'classic', 'proof_irrelevance', 'JMeq_eq', 'eq_rect_eq'})
        _STD = names
    return _STD


def axioms_ok(ax):
    std = stdlib_declared()
    return all(a.split('.')[-1] in std for a in ax)


# ---------------------------------------------------------------- known findings

def known_findings():
    p = os.path.join(ROOT, 'known_findings.json')
    if not os.path.exists(p):
        return {'findings': [], 'fixed': []}
    return json.load(open(p))


# ---------------------------------------------------------------- result collection

class Run:
    def __init__(self, prop, tier, seed):
        self.prop, self.tier, self.seed = prop, tier, seed
        self.t0 = time.time()
        self.rng = random.Random(seed)
        self.violations = []       # (what, replay dict)
        self.known_hits = {}       # finding id -> count
        self.coverage = {'evaluations': 0, 'distinct_nontrivial': 0, 'rule': '', 'samples': [],
                         'obligations': 0, 'discharged': 0, 'checker_cmd': '', 'trusted_base': []}
        self.assumptions = []
        self._seen = set()
        self.extra = {}
        self.broken = []           # broken obligations / correspondences (names)
        ensure_dirs()
        for f in glob.glob(os.path.join(ROOT, 'replays', '%s_%s_*' % (prop, tier))):
            os.remove(f)

    # counting
    def count(self, case_key, nontrivial):
        self.coverage['evaluations'] += 1
        if nontrivial:
            h = hashlib.sha1(repr(case_key).encode()).hexdigest()
            if h not in self._seen:
                self._seen.add(h)
                self.coverage['distinct_nontrivial'] += 1

    def sample(self, s, limit=8):
        if len(self.coverage['samples']) < limit:
            self.coverage['samples'].append(s)

    def violation(self, what, replay):
        self.violations.append((what, replay))

    def known(self, fid, n=1):
        self.known_hits[fid] = self.known_hits.get(fid, 0) + n

    def finish(self, level='proof'):
        ensure_dirs()
        kf = known_findings()
        exit_code = 0
        for fid, n in sorted(self.known_hits.items()):
            f = next((x for x in kf['findings'] if x['id'] == fid and x['property'] == self.prop), None)
            if f is None:
                self.violation('failing class %s is not a listed known finding' % fid, {'class': fid})
            else:
                print('KNOWN-FINDING: property=%s %s [%s; %d case(s) this run]' % (self.prop, f['what'], fid, n))
        if self.violations:
            exit_code = 1
            # group: write one replay per violation (first 5)
            for k, (what, replay) in enumerate(self.violations[:5]):
                path = os.path.join(ROOT, 'replays', '%s_%s_%d_%d.json' % (self.prop, self.tier, self.seed, k))
                replay = dict(replay)
                replay.update({'property': self.prop, 'what': what, 'seed': self.seed,
                               'replay_cmd': '%s %s/tools/check.py replay %s' % (PY, ROOT, path)})
                with open(path, 'w') as f:
                    json.dump(replay, f, indent=1, default=repr)
                tail = '' if replay.get('input_found', True) else ' no-failing-input-found'
                print('VIOLATION property=%s replay=%s%s' % (self.prop, path, tail))
                print('  ' + what[:400])
        self.coverage['known_finding_cases'] = dict(self.known_hits)
        self.coverage.update(self.extra)
        ev = {'property_id': self.prop, 'tier': self.tier, 'seed': self.seed, 'level': level,
              'coverage': self.coverage, 'assumptions': self.assumptions,
              'wall_s': round(time.time() - self.t0, 2), 'violations': len(self.violations)}
        with open(os.path.join(ROOT, 'evidence', self.prop + '.json'), 'w') as f:
            json.dump(ev, f, indent=1, default=repr)
        print('%s %s: %d evaluations, %d distinct non-trivial, %d/%d obligations, %d violation(s), %.1fs' % (
            self.prop, self.tier, self.coverage['evaluations'], self.coverage['distinct_nontrivial'],
            self.coverage['discharged'], self.coverage['obligations'], len(self.violations), time.time() - self.t0))
        return exit_code


TRUSTED_BASE = [
    'Coq 8.16.1 kernel incl. vm_compute and primitive Uint63/Float64 (no native_compute)',
    'hand-written Gallina model of the anchored code, tied to /repo by the behavioural correspondence run in this check '
    '(same inputs through the implementation and through the model inside coqc, results compared in Coq)',
    'translators tools/gen_*.py (source -> Gen/*.v tables, fail-closed)',
    'harness: generators, Python->Coq literal codec, report-string parser',
    'CPython/openpyxl/dateutil behaviour is modelled, not verified',
]


def proof_obligations(run, props_file, module, targets, extra_files=()):
    """Build the property's Coq targets, run hygiene and Print Assumptions.
    Fills obligations/discharged; on failure registers a broken obligation (caller decides on search)."""
    ok, log = build(targets)
    thms = theorems_of(props_file)
    run.coverage['obligations'] = len(thms)
    run.coverage['checker_cmd'] = 'make -C /verif/coq -j16 %s ; coqc Print Assumptions on %s' % (' '.join(targets), module)
    run.coverage['trusted_base'] = list(TRUSTED_BASE)
    if not ok:
        # the correspondence layer may still build (Model/, Spec/, Corr/ contain no proofs): try it alone, so that the
        # search for a concrete failing input can run even though a proof obligation broke
        corr = [t for t in targets if '/Corr/' in t]
        run.extra['corr_built_after_proof_failure'] = bool(corr) and build(corr, stale_tables_ok=True)[0]
        if 'translator' in log and 'failed' in log:
            run.extra['model_tables'] = 'STALE: a translator refused the current source; the search runs against the tables of the last tree it accepted'
        m = re.search(r'File "([^"]+)", line (\d+).*?\n(Error:.*?)(?:\n\n|\Z)', log, flags=re.S)
        what = ('Coq proof obligation failed: ' if run.extra.get('corr_built_after_proof_failure') else 'Coq build failed: ') + (('%s:%s %s' % (m.group(1), m.group(2), m.group(3)[:600])) if m else log[-1500:])
        run.broken.append(what)
        run.coverage['discharged'] = 0
        return False
    bad = hygiene()
    if bad:
        run.broken.append('proof hygiene: ' + '; '.join(bad[:10]))
        return False
    try:
        ax = print_assumptions(module, thms, run.prop)
    except RuntimeError as e:
        run.broken.append(str(e))
        return False
    good = 0
    axioms_seen = set()
    for t in thms:
        if axioms_ok(ax[t]):
            good += 1
            axioms_seen.update(ax[t])
        else:
            run.broken.append('theorem %s depends on unexpected axioms %s' % (t, ax[t]))
    run.coverage['discharged'] = good
    run.coverage['theorems'] = thms
    run.coverage['axioms'] = sorted(axioms_seen)
    return good == len(thms)


# ---------------------------------------------------------------- Python value -> Coq `val`

def cval(v):
    import datetime as _dt
    if v is None:
        return 'VNone'
    if type(v).__name__ == 'EmptyCell':
        return 'VEmpty'
    if isinstance(v, bool):
        return '(VBool %s)' % cbool(v)
    if isinstance(v, int):
        return '(VInt %s)' % cz(v)
    if isinstance(v, float):
        return '(VFloat %s)' % cfloat(v)
    if isinstance(v, str):
        return '(VStr %s)' % cstr(v)
    if isinstance(v, _dt.datetime):
        us = ((v.hour * 60 + v.minute) * 60 + v.second) * 1000000 + v.microsecond
        return '(VDT %s %s)' % (cz(v.toordinal()), cz(us))
    if isinstance(v, _dt.date):
        return '(VDate %s)' % cz(v.toordinal())
    if isinstance(v, (list, tuple)):
        return '(VList %s)' % clist([cval(x) for x in v])
    raise TypeError('no Coq encoding for %r' % (v,))


EXN = {'ZeroDivisionError', 'TypeError', 'ValueError', 'IndexError', 'KeyError', 'AttributeError',
       'OverflowError', 'RecursionError', 'SyntaxError', 'ExcelInPythonException'}
EXN_MAP = {'E2PyclParserException': 'E2PyclParser', 'E2PyclSafetyException': 'E2PyclSafety',
           'E2PyclCellException': 'E2PyclCell', 'E2PyclExecutorException': 'E2PyclExecutor'}


def cexn(name):
    if name in EXN:
        return name
    return EXN_MAP.get(name, 'OtherExc')


def cres(outcome, f=cval):
    kind, v = outcome
    if kind == 'ok':
        return '(Ok %s)' % f(v)
    return '(Exc %s)' % cexn(v)


def jsonable(v):
    import datetime as _dt
    if type(v).__name__ == 'EmptyCell':
        return {'EmptyCell': True}
    if isinstance(v, (_dt.datetime, _dt.date)):
        return {'date': v.isoformat()}
    if isinstance(v, float):
        return {'float': v.hex(), 'repr': repr(v)}
    if isinstance(v, (list, tuple)):
        return [jsonable(x) for x in v]
    if isinstance(v, dict):
        return {str(k): jsonable(x) for k, x in v.items()}
    return v


# ---------------------------------------------------------------- reversible JSON encoding of Python values

def jenc(v):
    import datetime as _dt
    if type(v).__name__ == 'EmptyCell':
        return {'E': 1}
    if isinstance(v, bool) or v is None or isinstance(v, (int, str)):
        return v
    if isinstance(v, float):
        return {'f': v.hex()}
    if isinstance(v, _dt.datetime):
        return {'dt': v.isoformat()}
    if isinstance(v, _dt.date):
        return {'d': v.isoformat()}
    if isinstance(v, (list, tuple)):
        return [jenc(x) for x in v]
    raise TypeError(v)


def jdec(j, empty=None):
    import datetime as _dt
    if isinstance(j, dict):
        if 'E' in j:
            return empty() if empty else None
        if 'f' in j:
            return float.fromhex(j['f'])
        if 'dt' in j:
            return _dt.datetime.fromisoformat(j['dt'])
        if 'd' in j:
            return _dt.date.fromisoformat(j['d'])
        raise ValueError(j)
    if isinstance(j, list):
        return [jdec(x, empty) for x in j]
    return j


# ---------------------------------------------------------------- generic correspondence decision

def correspond(R, header, report_fn, cases, name, point, shard=400, timeout=900, search=None):
    """cases: list of dicts {recipe, coq, key, nontrivial}.  Evaluates the Coq report
    ('m s i cls' per case) and applies the decision table of DESIGN.md 3.6.
    search: optional function(list of drifting cases) -> further cases, used to look for a concrete failing input when the
    correspondence broke on inputs that do not themselves violate the spec.
    Returns the rows."""
    if not cases:
        return []
    try:
        rows = eval_report(header, [c['coq'] for c in cases], report_fn, name, shard=shard, timeout=timeout)
    except RuntimeError as e:
        R.broken.append('correspondence %s could not be evaluated: %s' % (point, str(e)[:1500]))
        return []
    kf = {f['id'] for f in known_findings()['findings'] if f['property'] == R.prop}
    drift = []
    found = [0]

    def decide(c, row):
        parts = row.split()
        m, s, i, cls = parts[0], parts[1], parts[2], parts[3]
        R.count(c['key'], c['nontrivial'])
        if m == '1' and s == '1' and i == '0' and cls != '-' and cls in kf:
            R.known(cls)
        elif m == '1' and s == '1' and i == '0':
            # the modelled layer matches, yet the property-level oracle fails on the implementation: the part of the code the
            # model abstracts (e.g. the generated class as a function of the argument map) does not behave as assumed
            found[0] += 1
            R.violation('%s: the property-level oracle fails on the implementation for this input: %s' % (point, c.get('oracle_fail') or ''),
                        {'recipe': c['recipe'], 'row': row, 'correspondence': point, 'input_found': True, 'oracle': c.get('oracle_fail')})
        elif m == '1':
            if s == '0':
                if cls != '-' and cls in kf:
                    R.known(cls)
                else:
                    found[0] += 1
                    R.violation('%s: implementation (= model) violates the spec outside every listed defect class (class=%s)' % (point, cls),
                                {'recipe': c['recipe'], 'row': row, 'correspondence': point, 'input_found': True})
        else:
            drift.append((c, row))
            # a listed class only excuses inputs on which the unchanged code (= the model) already failed the spec
            if i == '0' and not (s == '0' and cls != '-' and cls in kf):
                found[0] += 1
                R.violation('%s: implementation differs from the model AND from the spec on this input' % point,
                            {'recipe': c['recipe'], 'row': row, 'correspondence': point, 'input_found': True})
            elif i == '0':
                R.known(cls)

    for c, row in zip(cases, rows):
        decide(c, row)
    if drift and not found[0] and search is not None:
        more = search([d[0] for d in drift])
        if more:
            try:
                rows2 = eval_report(header, [c['coq'] for c in more], report_fn, name + '_search', shard=shard, timeout=timeout)
                R.extra['search_cases'] = R.extra.get('search_cases', 0) + len(more)
                for c, row in zip(more, rows2):
                    decide(c, row)
            except RuntimeError as e:
                R.broken.append('correspondence %s (search) could not be evaluated: %s' % (point, str(e)[:1500]))
    R.extra.setdefault('model_impl_mismatches', 0)
    R.extra['model_impl_mismatches'] += len(drift)
    if drift and not found[0]:
        R.violation('%s: implementation and model disagree on %d input(s) (correspondence broken); none of them violates '
                    'the spec, so no failing input was found' % (point, len(drift)),
                    {'broken': 'correspondence ' + point, 'examples': [d[0]['recipe'] for d in drift[:5]],
                     'rows': [d[1] for d in drift[:5]], 'input_found': False})
    return rows


def report_broken(R):
    """Obligations that broke without a concrete failing input."""
    for b in R.broken:
        R.violation(b, {'broken': b, 'input_found': False})
