#!/bin/sh
# usage: seedstore.sh <batchprefix e.g. wt6> <suffix e.g. E> <batchno> <Cxx>...   — copy a sub-agent's deliverables into /verif/seeded/<Cxx>-<suffix>, remove its worktree
pre=$1; suf=$2; bno=$3; shift 3
for p in "$@"; do
  [ -f /tmp/${pre}_$p.out/patch.diff ] || { echo "$p: no deliverables"; continue; }
  d=/verif/seeded/$p-$suf; mkdir -p $d
  cp /tmp/${pre}_$p.out/patch.diff $d/patch.diff; cp /tmp/${pre}_$p.out/demo.py $d/demo.py
  sed -i "s/^\(\s*\)assert excel2pycl.__file__.startswith('\/tmp\/${pre}_[A-Z0-9]*').*/\1pass/" $d/demo.py
  /venv/bin/python - "$p" "$suf" "$bno" "$pre" <<'PY'
import json,sys
p,suf,b,pre=sys.argv[1:5]
json.dump({'property':p,'seed':suf,'batch':int(b),'needs':open('/tmp/%s_%s.out/notes.txt'%(pre,p)).read().strip()[:4000]}, open('/verif/seeded/%s-%s/meta.json'%(p,suf),'w'), indent=1)
PY
  git -C /repo worktree remove --force /tmp/${pre}_$p 2>/dev/null; rm -rf /tmp/${pre}_$p /tmp/${pre}_$p.out
  echo "$p stored"
done
