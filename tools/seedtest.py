#!/venv/bin/python
"""seedtest.py <Cxx> <A|B> [--tier quick]  — validate a seeded change from /tmp/wtout and run our check against it.
1. validation in a scratch worktree: patch applies, 44 pinned tests + unittest pass, demo fails with the patch, passes without;
2. copies patch.diff, demo.py, meta.json to /verif/seeded/<Cxx>-<X>/;
3. applies the patch to /repo, runs `check.py Cxx quick`, reverts, records the outcome in meta.json."""
import json, os, shutil, subprocess, sys, time

prop, which = sys.argv[1], sys.argv[2]
tier = 'quick'
src = '/tmp/wtout/%s' % prop
dst = '/verif/seeded/%s-%s' % (prop, which)
wt = '/tmp/seedval_%s_%s' % (prop, which)


def sh(cmd, **kw):
    p = subprocess.run(cmd, shell=True, capture_output=True, text=True, **kw)
    return p.returncode, (p.stdout + p.stderr)


meta = {}
if os.path.exists(os.path.join(dst, 'meta.json')):
    meta = json.load(open(os.path.join(dst, 'meta.json')))
if not os.path.exists(os.path.join(dst, 'patch.diff')):
    os.makedirs(dst, exist_ok=True)
    shutil.copy(os.path.join(src, which + '.diff'), os.path.join(dst, 'patch.diff'))
    shutil.copy(os.path.join(src, 'demo_%s.py' % which), os.path.join(dst, 'demo.py'))
    meta = {'property': prop, 'seed': which, 'needs': open(os.path.join(src, which + '.txt')).read().strip()}

if 'validated' not in meta:
    sh('git -C /repo worktree remove --force %s' % wt)
    rc, out = sh('git -C /repo worktree add -q --detach %s HEAD' % wt)
    assert rc == 0, out
    try:
        env = 'cd %s && PYTHONPATH=%s PYTHONWARNINGS=ignore' % (wt, wt)
        rc0, o0 = sh('%s /venv/bin/python %s/demo.py' % (env, dst), timeout=600)
        rc, o = sh('git -C %s apply %s/patch.diff' % (wt, dst))
        assert rc == 0, 'patch does not apply: ' + o
        rc1, o1 = sh('%s /venv/bin/python -m pytest -q -p no:cacheprovider 2>&1 | tail -2' % env, timeout=900)
        rc2, o2 = sh('%s /venv/bin/python -m unittest test.test 2>&1 | tail -2' % env, timeout=900)
        rc3, o3 = sh('%s /venv/bin/python %s/demo.py' % (env, dst), timeout=600)
        meta['validated'] = {'demo_unpatched_exit': rc0, 'pytest': o1.strip().splitlines()[-1] if o1.strip() else '',
                             'unittest': o2.strip().splitlines()[-1] if o2.strip() else '', 'demo_patched_exit': rc3,
                             'ok': rc0 == 0 and rc3 != 0 and '44 passed' in o1 and 'OK' in o2}
        meta['ran'] = ['demo.py on a clean worktree (exit %d)' % rc0, 'git apply patch.diff; pytest (%s); unittest test.test (%s)' %
                       (meta['validated']['pytest'], meta['validated']['unittest']), 'demo.py with the patch (exit %d)' % rc3]
    finally:
        sh('git -C /repo worktree remove --force %s' % wt)
        sh('rm -rf %s' % wt)
print('validated:', meta['validated'])

# run our check against the patched /repo
rc, o = sh('git -C /repo status --porcelain')
assert o.strip() == '', '/repo is dirty: ' + o
rc, o = sh('git -C /repo apply %s/patch.diff' % dst)
assert rc == 0, o
t = time.time()
ev = '/verif/evidence/%s.json' % prop
ev_backup = open(ev).read() if os.path.exists(ev) else None
try:
    rc, out = sh('/venv/bin/python /verif/tools/check.py %s %s' % (prop, tier), timeout=3600)
finally:
    sh('git -C /repo checkout -- . && git -C /repo clean -fdq')
    # the evidence file must describe runs on the unchanged tree only
    if ev_backup is not None:
        open(ev, 'w').write(ev_backup)
lines = [l for l in out.splitlines() if l.startswith('VIOLATION') or l.startswith('  ')]
meta.setdefault('checks', {})[tier] = {'exit': rc, 'detected': rc == 1 and 'VIOLATION' in out, 'wall_s': round(time.time() - t, 1),
                                        'first_lines': lines[:4], 'no_input': 'no-failing-input-found' in out,
                                        # several violations may be reported in one run: is there one that carries an input?
                                        'with_input': any(l.startswith('VIOLATION') and 'no-failing-input-found' not in l for l in out.splitlines())}
json.dump(meta, open(os.path.join(dst, 'meta.json'), 'w'), indent=1)
print('check exit', rc, 'detected' if meta['checks'][tier]['detected'] else 'MISSED', '(%.0fs)' % (time.time() - t))
print('\n'.join(lines[:4]))
