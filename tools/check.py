#!/venv/bin/python
"""Entry point:  check.py <Cxx> quick|thorough     |    check.py replay <file>
Rebuilds from /repo's current working tree on every call (the implementation is imported from /repo,
Gen/*.v are regenerated, Coq targets are re-made)."""
import importlib
import json
import os
import sys

if os.environ.get('X2P_REEXEC') != '1':
    env = dict(os.environ, X2P_REEXEC='1', PYTHONPATH='/repo:/verif/tools', PYTHONHASHSEED='0',
               PYTHONWARNINGS='ignore', PYTHONDONTWRITEBYTECODE='1')
    os.execve('/venv/bin/python', ['/venv/bin/python', '-W', 'ignore'] + sys.argv, env)

sys.path.insert(0, '/verif/tools')
from x2p import common  # noqa: E402


def main():
    if len(sys.argv) >= 3 and sys.argv[1] == 'replay':
        rp = json.load(open(sys.argv[2]))
        mod = importlib.import_module('props.' + rp['property'].lower())
        R = common.Run(rp['property'], 'quick', int(rp.get('seed', 0)))
        sys.exit(mod.replay(R, rp))
    prop, tier = sys.argv[1], (sys.argv[2] if len(sys.argv) > 2 else os.environ.get('VERIF_TIER', 'quick'))
    seed = int(os.environ.get('VERIF_SEED', '20261001'))
    mod = importlib.import_module('props.' + prop.lower())
    R = common.Run(prop, tier, seed)
    try:
        mod.run(R, tier)
    except Exception as e:  # machinery failure = broken obligation, never silent
        import traceback
        R.broken.append('check crashed: %s\n%s' % (e, traceback.format_exc()[-1500:]))
    if any(v[1].get('input_found') for v in R.violations):
        # a concrete failing input was found: it is the replay; the broken proof obligations are recorded inside it
        proofs = [b for b in R.broken if b.startswith('Coq proof obligation failed')]
        R.broken = [b for b in R.broken if b not in proofs]
        for v in R.violations:
            if v[1].get('input_found') and proofs:
                v[1]['broken_obligations'] = proofs
    common.report_broken(R)
    sys.exit(R.finish())


if __name__ == '__main__':
    main()
