#!/bin/sh
# Offline setup: build the whole Coq development once (checks rebuild incrementally afterwards).
set -e
cd /verif
mkdir -p build evidence replays
PYTHONPATH=/repo:/verif/tools PYTHONHASHSEED=0 /venv/bin/python -W ignore - <<'PY'
import sys
from x2p import common as C
ok, log = C.build([], timeout=3000)
print(log[-3000:])
sys.exit(0 if ok else 1)
PY
