#!/venv/bin/python
"""Regenerates /verif/MANIFEST.json from the table below (keeps it schema-valid)."""
import json

CLAIMED = {
 'C14': dict(
    text='Unbounded Coq theorems over a line-by-line Gallina model of _vlookup/_match/_xmatch/_index/_address.get_col: '
         'VLOOKUP exact = first equal key, approximate on ascending keys = last key <= value (incl. beyond the last key), '
         'MATCH exact/approximate, INDEX inside/outside, INDEX(MATCH) partner, ADDRESS letters round-trip for every column >= 1 '
         'and kernel-exhaustive agreement with an independent converter on all 16384 columns. The model is tied to /repo on every '
         'run by a behavioural correspondence (direct helper calls and formulas through the real translator, compared inside coqc).',
    note='Theorems are stated for integer keys; text/float keys only through model=implementation correspondence plus an executable '
         'Excel-side spec. XMATCH binary-search modes not modelled. Known findings: xmatch_reverse_position, '
         'vlookup_text_case_sensitive, match_int_float_gate.',
    technique='Coq proof (list induction) over hand-written model + vm_compute correspondence (cases.v)', ref='6/C14'),
}

ids = [json.loads(l)['id'] for l in open('/verif/properties.jsonl')]
checks = []
for pid in ids:
    if pid in CLAIMED:
        c = CLAIMED[pid]
        checks.append({
            'property_id': pid,
            'quick_cmd': '/venv/bin/python /verif/tools/check.py %s quick' % pid,
            'thorough_cmd': '/venv/bin/python /verif/tools/check.py %s thorough' % pid,
            'evidence_file': '/verif/evidence/%s.json' % pid,
            'replay_cmd_template': '/venv/bin/python /verif/tools/check.py replay {path}',
            'engine': 'coq-x2p',
            'level_claimed': {'category': 'proof', 'text': c['text'], 'design_ref': 'DESIGN.md section ' + c['ref']},
            'level_note': c['note'] + ' Trusted base: Coq 8.16.1 kernel + vm_compute with primitive ints/floats; hand-written model tied by '
                          'correspondence; Python harness (generators, literal codec, report parser); CPython/openpyxl/dateutil modelled not verified.',
            'technique': c['technique'],
        })
m = {
 'version': 1,
 'setup_cmd': '/bin/sh /verif/tools/setup.sh',
 'hooks': {'guard': 'EXCEL2PYCL_VERIF', 'enable': 'no hooks are needed: checks import /repo (PYTHONPATH=/repo) and regenerate Gen/*.v from it',
           'baseline_off_cmd': 'cd /repo && /venv/bin/python -m pytest -ra -q -p no:cacheprovider --timeout=900 --continue-on-collection-errors',
           'source_commits': [], 'add_only': True},
 'engines': [{'name': 'coq-x2p', 'path': '/verif/coq', 'serves_properties': sorted(CLAIMED),
              'kind_free_text': 'Coq 8.16.1 development (Base/Model/Spec/Proofs/Props/Corr) + Python harness tools/check.py'}],
 'checks': checks,
 'notes': 'Every check: regenerate Gen/*.v from /repo, make the property\'s Coq targets, hygiene scan, Print Assumptions, then run the '
          'implementation and the Gallina model on the same generated inputs (cases.v + vm_compute) and apply the decision table of DESIGN.md 3.6.',
 'not_applicable': [{'property_id': i, 'reason': 'check not built yet (planned; DESIGN.md section 6)'} for i in ids if i not in CLAIMED],
}
json.dump(m, open('/verif/MANIFEST.json', 'w'), indent=1)
print('claimed', sorted(CLAIMED))
