#!/venv/bin/python
"""Regenerates /verif/MANIFEST.json from the table below (keeps it schema-valid)."""
import json

CLAIMED = {
 'C14': dict(
    text='Unbounded Coq theorems over a line-by-line Gallina model of _vlookup/_match/_xmatch/_index/_address.get_col: '
         'VLOOKUP exact = first equal key, approximate on ascending keys = last key <= value (incl. beyond the last key), '
         'MATCH exact/approximate, INDEX inside/outside, INDEX(MATCH) partner, ADDRESS letters round-trip for every column >= 1 '
         'and kernel-exhaustive agreement with an independent converter on all 16384 columns. The model is tied to /repo on every '
         'run by a behavioural correspondence (direct helper calls and formulas through the real translator, compared inside coqc).',
    note='Theorems are stated for integer keys; text/float keys only through model=implementation correspondence plus an executable '
         'Excel-side spec. XMATCH binary-search modes not modelled. Known findings: xmatch_reverse_position, '
         'vlookup_text_case_sensitive, match_int_float_gate.',
    technique='Coq proof (list induction) over hand-written model + vm_compute correspondence (cases.v)', ref='6/C14'),
 'C10': dict(
    text='Unbounded Coq theorems over a Gallina model of _compare/_by_operator/EmptyCell (Python rich-comparison dispatch included): '
         'numbers (int/float of any size) are compared by the exact three-way comparison for all six operators; the comparison laws '
         '(trichotomy, <> = not =, <=/>= negations, a<b iff b>a); dates/date-times incl. date = its midnight; blank = 0/FALSE/"" , '
         'blank < positive ints, dates and non-numeric texts. Refutation theorems (kernel-computed witnesses) for the listed findings. '
         'Correspondence: all pairs of a value pool x 6 operators via direct calls, cells, overrides and literals.',
    note='repr(float) is an oracle used only by the str() fallback. Spec silent on cross-kind pairs the statement does not name. '
         'Known findings: blank_ne_emptytext, blank_vs_fraction, blank_vs_numeric_text, text_case_sensitive, numeric_text_as_number.',
    technique='Coq proof (case analysis on the model) + vm_compute correspondence', ref='6/C10'),
 'C11': dict(
    text='Unbounded Coq theorems over a Gallina model of the aggregate helpers and of how the eight translators call them: the folded '
         'list equals the numeric cells of the arguments (once per mention, any area shapes/nesting/content), is independent of the split '
         'into areas, SUM(X,Y)=SUM(X)+SUM(Y) and AVERAGE=SUM/COUNT exactly on integer data, MIN/MAX are the least/greatest element, '
         'COUNT/COUNTBLANK/AND/OR characterised. Correspondence through real formulas over generated two-sheet workbooks.',
    note='Float sums are modelled as the correctly rounded exact sum; generators keep float data dyadic so every partial sum is exact. '
         'Dates only for COUNT. Known findings: count_several_areas, fold_over_no_numeric_cell_raises, count_ignores_expression_args.',
    technique='Coq proof (list induction) + vm_compute correspondence', ref='6/C11'),
 'C17': dict(
    text='Unbounded Coq theorems over a Gallina model of _left/_right/_mid (Python slicing semantics): LEFT = first n, RIGHT = last n, '
         'MID = n characters from k (shorter at the end), error values for negative counts / k<1, LEFT(t,n)&MID(t,n+1,len) = t for all t and '
         '0<=n<len. SEARCH: kernel-exhaustive theorem over all find texts of length <=3 over {a,B,?,*,~,.} x 6 texts x 4 starts against an '
         'independent wildcard matcher, with exact defect classes; the model runs the source regex strings through a Gallina regex engine. '
         '&/CONCATENATE/VALUE by correspondence with an executable spec.',
    note='ASCII only. SEARCH theorem is bounded (stated in the theorem). repr(float) oracle; strptime ladder of VALUE not modelled; the regex '
         'engine is validated against Python re by a differential test. Known findings: empty_text_is_blank, search_* (4 classes), *_text_form (3).',
    technique='Coq proof (lists, lia) + kernel-exhaustive vm_compute sweep + vm_compute correspondence', ref='6/C17'),
 'C15': dict(
    text='Unbounded Coq theorems: CPython\'s ordinal<->(y,m,d) maps are mutually inverse on every day from 0001-01-01 on (400-year periodicity '
         'by lia + one full 146097-day cycle swept in the kernel; injectivity of the ordinal map); dateutil relativedelta month arithmetic = floor '
         'division for every integer offset; DATE(y,m,d) = Jan 1 + (m-1) months + (d-1) days for every integer m, d; YEAR/MONTH/DAY invert DATE; '
         'EDATE clamps, EOMONTH = last day; DATEDIF D/M/YM; NETWORKDAYS = count of Mon-Fri non-holiday dates (induction on the span), negated when reversed. '
         'Correspondence by direct helper calls and formulas, plus datetime/calendar library facts against the calendar model.',
    note='TODAY depends on the clock (oracle; checked by reading the clock before and after). dateutil/datetime/calendar are modelled, tied by '
         'correspondence. Known finding: datedif_Y_by_days.',
    technique='Coq proof (lia with euclidean division, kernel cycle sweep, induction) + vm_compute correspondence', ref='6/C15'),
 'C16': dict(
    text='Kernel-exhaustive Coq theorems (vm_compute sweeps lifted with forallb_forall; the grid is part of each statement) over a bit-exact '
         'PrimFloat model of _round/_roundup/_rounddown/_normalize_float_number: on sign x {0,1,2,7,12,99,100,1234} x <=2 fractional digits x '
         'digit counts -3..6, ROUND equals half-away-from-zero on every non-tie, ROUNDUP/ROUNDDOWN are correct on every positive decimal that needs '
         'rounding, x% is the nearest double of x/100; refutation theorems give kernel-computed witnesses for the three defect classes. '
         'Correspondence (bit-for-bit) on 4-digit grids, tie-shaped decimals and random 5-15 digit decimals via direct calls, cells, overrides, literals.',
    note='Grid theorems are bounded (not all 15-digit decimals). The model relies on the kernel\'s IEEE binary64 primitives and on q2f (exact '
         'rational -> nearest double, written in Z arithmetic). Known findings: round_tie_not_half_away, roundupdown_negative_direction, '
         'roundupdown_representable_float_product.',
    technique='Coq kernel-exhaustive sweep (vm_compute + forallb_forall) + bit-exact vm_compute correspondence', ref='6/C16'),
 'C13': dict(
    text='Unbounded Coq theorem (size induction over expression trees with nested argument lists): on the decidable fragment `good` the '
         'big-step semantics of the emitted code (conditional expression for IF, _iferror(lambda, eager fallback), _ifs over an eagerly '
         'evaluated list) equals Excel\'s lazy semantics for every nesting depth, position (inside + - * / & comparisons, SUM) and leaf '
         'value, failing leaves of any exception class included; IF never evaluates the untaken branch (for all expressions). Refutation '
         'theorems for the eager IFERROR fallback, the #NULL! spelling and eager IFS. Correspondence on random nests through real formulas.',
    note='The atomicity of the emitted IF text inside larger expressions is decided by the correspondence here (text-level model under C01). '
         'Text conditions outside the domain. Known findings: iferror_fallback_eager_or_null_spelling, ifs_evaluates_everything.',
    technique='Coq proof (structural/size induction on the expression model) + vm_compute correspondence', ref='6/C13'),
 'C12': dict(
    text='Coq theorems over a Gallina model of LambdaTokenTranslator (criterion compilation driven by the regex string regenerated from the '
         'source), the emitted three-way lambda, _regexp (run through the Gallina regex engine) and _sum_if/_sumifs/_countifs/_averageifs: '
         'unbounded — on integer data SUMIFS sums exactly the positions accepted by every (range, op n) pair, for any number of pairs and any '
         'length; size mismatches raise before any criterion is evaluated (SUMIFS/COUNTIFS/AVERAGEIFS, arbitrary contents); kernel-exhaustive — '
         'wildcard criteria of length <=3 x 11 cell texts match whole-cell wildcard semantics outside exact defect classes. '
         'Correspondence through real formulas with all criterion forms, 1-3 pairs, mis-sized and shifted ranges.',
    note='dateutil.parser.parse and repr(float) are oracles supplied per case. Spec silent on boolean/date cells and numeric-looking text criteria. '
         'Known findings: 10 classes (wildcards as regex prefix match, "="/"<>" texts literal, blank cast to 0, ordering on text cell raises, '
         'COUNTIFS drops zeros / compares None, AVERAGEIFS text/blank target, SUMIF text target, dateutil-parsed texts, dropped & literal).',
    technique='Coq proof (list induction) + kernel-exhaustive sweep + regenerated regex tables + vm_compute correspondence', ref='6/C12'),
 'C03': dict(
    text='Unbounded Coq theorems over an abstract dependency-graph model of CellTranslator (memoised DFS, register-after-precedents, '
         'in-progress set): whenever translation from an entry succeeds the slice contains the entry, is closed under dependencies and contains '
         'only reachable cells; every cell of a closed slice evaluates as in any larger class (whole workbook) under any overrides and depth; '
         'a cyclic set is never translated, is rejected with the parser exception once fuel exceeds the number of cells (never the recursion '
         'limit), the exception is raised only for genuine cycles, acyclic workbooks always translate. Correspondence: random graphs rendered '
         'as real multi-sheet formulas (all reference forms), every outcome compared with the model and with an independent reachability spec; '
         'slice-vs-whole values compared on the implementation.',
    note='Formulas are abstracted to dependency lists (den_ext). Python\'s recursion limit is fuel. No known findings.',
    technique='Coq proof (induction on fuel, pigeonhole on the in-progress path) + vm_compute correspondence', ref='6/C03'),
 'C04': dict(
    text='Unbounded Coq refinement proof: the Executor state machine (handle_cell normalisation, set_cells with per-uid overrides, lazy flush '
         'into the argument map, get_cell/get_cells/get_sheet, failing calls) refines an abstract last-write-wins map for ALL histories; and '
         'evaluating with an override map equals evaluating, without overrides, the workbook edited to those constants (any dependency structure, '
         'depth, override set incl. blank/out-of-range cells). Correspondence: histories replayed on the real Executor, state snapshots '
         '(_cells, _arguments, _sheets_size) and queried uids compared step by step in Coq; every returned value compared with a fresh '
         'translation of the edited workbook.',
    note='The generated class is abstract in the model (function of uid and argument map). Cell objects are not aliased by the harness. '
         'No known findings (F3/F4 fixed).',
    technique='Coq proof (refinement by invariant, induction over operation lists) + trace correspondence', ref='6/C04'),
 'C08': dict(
    text='Coq theorems on the same Executor state machine: queries preserve overrides, titles and sizes and the abstract map; any number of '
         'queries in any order leaves later answers unchanged; every query is answered against the same map whatever preceded it; the sheet grid '
         'has exactly last_row x last_column entries whose uids are those of single-cell queries; A1-style/title and numeric addressing coincide; '
         'set_cells only grows sizes. Correspondence as for C04, with history-independence, grid-shape and state-preservation oracles on the implementation.',
    note='Purity of the generated class itself is checked on the implementation (fresh executor per query). TODAY() excluded.',
    technique='Coq proof (state-machine invariants) + trace correspondence', ref='6/C08'),
 'C09': dict(
    text='Unbounded Coq theorems: the Parser facade state machine (cache + two stale flags, safety toggles that OR into the flag) refines the '
         'abstract translation function for ALL call sequences — every get/write returns what a fresh parser with the settings in force returns '
         '(text, parser, safety or foreign exception), repeated gets are identical; and for EVERY interleaving of two threads the lazily resolved '
         'token-set table a thread obtains is the resolved one. Correspondence: call sequences on the real Parser over three xlsx workbooks '
         '(one unsafe, two sharing formula texts) compared with the model over tables of fresh-parser results; text hashes compared across '
         'subprocesses with several hash seeds and 4 concurrent threads.',
    note='Partial by nature: the translation proper is an abstract deterministic function in the model; cross-process, hash-seed and thread '
         'determinism of the real translation is sampled, not proved; GIL atomicity of attribute assignment is assumed. One genuine defect found '
         'by this check and fixed (af4502b: stale entry cell across workbooks).',
    technique='Coq proof (state-machine invariant; schedule-indexed invariant for the two-thread system) + trace correspondence', ref='6/C09'),
 'C01': dict(
    text='Coq theorems over a model of the operator path (token-set parser over the grammar table regenerated from the live classes, a Gallina '
         'transcription of ExpressionTokenTranslator/OperandTokenTranslator/LiteralToken producing the emitted text as structured juxtaposition, '
         'Python\'s own precedence regrouping of that text, the runtime operators) against an independent Excel-side reader (precedence climbing: '
         '% > sign > * / > + - > & > comparisons, left-associative) and evaluator: kernel-exhaustive — for ALL 11 111 110 token sequences of length '
         '<= 7 over {atom + - * / & < % ( )} every sequence Excel reads as a formula is grouped as Excel groups it, or lies in one of three '
         'listed defect classes of the emitter, or is one of the two rejected percent forms; unbounded — for every tree over operands, brackets and '
         'binary + - * / of any size and depth the emitted text read as a flat token string is the formula\'s token string, and Python\'s grouping of it is exactly the tree of the standard precedence grammar on the formula\'s own tokens, which in turn is exactly the tree the Excel-side reader of the specification builds (xparse, at the fuel the specification gives it) — Python\'s reading of the emitted text IS Excel\'s reading of the formula, with no bound on size or depth (structural induction + two simulations by induction on fuel); a blank behaves as the integer 0 under '
         '+ - * / and sign against every value, the operators on doubles are the same IEEE operation as Excel\'s for all doubles, a literal with a '
         'fraction or negative exponent is the correctly rounded double of its decimal text for every digit string (after fix 5e1cf08); grids for '
         'integer arithmetic and integer literals; kernel-computed witnesses for every known finding. Correspondence: for every case the emitted '
         'code is parsed with Python\'s ast and compared node by node with the model\'s tree, the value with the model\'s value and with the '
         'Excel-side value: all sequences of length <= 3 (thorough 5), all well-formed formulas of length <= 6 (thorough 7), a bracket-nesting '
         'family, random formulas of depth <= 4 with cells (int, float, text, boolean, blank) from the workbook and from overrides.',
    note='Partial: grouping is unbounded for the core fragment (atoms, brackets, binary + - * /) only; with unary signs, %, & and comparisons it is the sweep (length 7), because the emitter deviates from Excel there (see the findings); values are proved per operator, not composed over whole trees; '
         'the Excel side is silent on number->text of fractions, numeric-text spellings other than plain digits, integers beyond 2^53 and '
         'mixed-kind comparisons (C10 decides comparisons). Ten known findings (unary sign scope, comparison/& left operand, percent forms, ...). '
         'One genuine defect fixed (5e1cf08 literal rebuild).',
    technique='regenerated grammar table + Coq kernel-exhaustive sweep lifted by a membership lemma + Coq proofs (case analysis) + vm_compute correspondence on ast trees and values', ref='6/C01'),
 'C06': dict(
    text='Coq theorems about how the module text is put together, over tables regenerated from the source on every run (the class template as a '
         'format string, the method template, the syntax trees of the four assembly functions): for EVERY methods text, titles text and sizes text '
         'the module is the fixed template text around the three arguments, each inserted once and verbatim (a Gallina model of str.format; the '
         'generated code is never interpreted as a format string); the assembly functions have the modelled shape; every member name is a Python '
         'identifier for all sheet/column/row/sub-cell numbers; repr(text) is one string literal without a line break for every byte string; '
         'the parser either builds a tree of the whole formula or rejects (any table, fuel, tokens); kernel-exhaustive: every token sequence of '
         'length <= 4 over the operator alphabet is rejected or emitted as text Python reads as one expression. Correspondence on real xlsx '
         'workbooks through Parser.get_translation: the Gallina lexer + parser prediction (reject) against the exception class, and an oracle on '
         'the result: library exception, or source that compiles, loads, reports the titles, has a member per stored cell, returns the constants, '
         'behaves the same from the written file and the class object, within a wall-clock limit.',
    note='Partial: the translators of the individual functions are not modelled for this property (C01 models the operators, C10-C17 the runtime); '
         'foreign exceptions and unloadable output are decided by the oracle over generated workbooks (families valid / unsupported / malformed and '
         'truncated / references / token soups / nesting), not by a theorem; "never hangs" cannot be expressed in the model beyond the wall-clock '
         'oracle. Known finding: parse_time_exponential_in_nesting_depth. Six genuine defects fixed (7ad1ad6 7edbc3d 614d2f8 2287500 1941174 51bf86d).',
    technique='regenerated template/assembly tables + Coq proof (str.format model, induction over digit strings and byte strings, kernel sweep) + vm_compute correspondence + load/evaluate oracle on real xlsx', ref='6/C06'),
 'C07': dict(
    text='Unbounded Coq theorems: repr(text) is, for EVERY byte string, exactly one Python string literal denoting the text, and whatever follows '
         'it in the module is read after it (confinement); text constants and sheet titles are emitted through repr; for a cell ="<text>" with ANY '
         'text, whatever the lexer (regenerated regexes, Gallina regex engine) makes of it, the emitted code is one string literal or the template '
         'call self._regexp(<one string literal>) (after fixes F13 2426c45 and F14 c8db29f; the verbatim splice F14 removed is kept as a kernel-computed '
         'regression witness). Correspondence: hostile strings (quotes, backslash, newline, # { } % ( ) ? * ~, Python call syntax with a harmless canary '
         'planted in builtins) in constant cells, plain and wildcard literals, criterion positions and sheet titles; the code emitted for the cell is '
         'compared with the model in Coq, the generated module is parsed with ast (no workbook identifier may be executable), loaded and evaluated '
         '(canary untouched, value compared with the model: payload, or _regexp of the payload).',
    note='ASCII. Criterion positions (text spliced by LambdaTokenTranslator) are covered by the oracle and by the regenerated criterion regex of C12, '
         'not by a C07 theorem. CPython\'s reading of a short string literal is modelled (Base/PyRepr.v) and validated by loading every generated '
         'module. Known finding: wildcard_literal_evaluates_to_regex. One genuine defect found by this check and fixed (c8db29f).',
    technique='Coq proof (induction over strings; case analysis of the emitter over an abstract lexer result) + vm_compute correspondence + ast/canary oracle', ref='6/C07'),
 'C20': dict(
    text='Translator-based proof: on every run both runtime copies (the template of context.py rendered through str.format, and '
         'AbstractExcelInPython) are re-parsed with ast, stripped of annotations/docstrings and regenerated as generic syntax trees '
         '(Gen/Helpers.v); Coq proves by kernel computation that the helper name sets coincide and that every helper has identical code in '
         'both copies, and lifts this (soundness of the tree comparison, proved by nested induction) to: for ANY deterministic semantics of '
         'Python every helper returns the same result for every argument. When the obligation breaks, the helpers whose code differs are '
         'executed on both classes over argument pools to exhibit a concrete differing input; the differential run is also done on every check.',
    note='Decides behavioural equality through syntactic equality: a harmless rewrite of one copy breaks the obligation (then the differential '
         'search decides whether an input is reported). __init__ is excluded. Trusted: tools/gen_helpers.py.',
    technique='regenerated model (Python ast -> Coq terms) + Coq kernel computation + lifting theorem; differential execution as search', ref='6/C20'),
 'C05': dict(
    text='Unbounded Coq theorems about CompositeBaseToken.get modelled as a generic interpreter over the token-set table REGENERATED from the live '
         'classes on every run: for any table and fuel the interpreter never drops, duplicates or reorders a token (yield ++ rest = input); an '
         'accepted formula\'s tree consumed all tokens in order (whole or reject, after the F1 fix); every accepted tree instantiates the token sets '
         'of its classes (no function call with an argument list the grammar does not define); fuel only affects the recursion limit; plus '
         'kernel-computed facts on the regenerated tables (separators share one class, truncation witnesses rejected, tables consistent). '
         'Correspondence: the Gallina lexer (source regexes through the Gallina regex engine) and parser against Lexer.parse/AstBuilder.parse on '
         'base formulas of every function with token-level mutations; whitespace/separator variants, token coverage and lexer text coverage '
         'checked on the implementation.',
    note='Printable ASCII. The lexer model depends on Base/Regex.v (validated against Python re). Exponential parse time limits nesting depth '
         '(20 s alarm). Known finding: blank_inside_boolean_call.',
    technique='regenerated tables + Coq proof (induction on fuel/alternatives) + vm_compute correspondence', ref='6/C05'),
 'C19': dict(
    text='Coq theorems over a model of the safety gate that runs the two regex strings REGENERATED from Excel._get_suspicious_constructions '
         'through the Gallina regex engine: kernel-exhaustive — for all 19 607 texts of length <=5 over {a,B,_,1,(,),blank} a cell is listed exactly '
         'when it contains call syntax and no upper-case call, outside one exact defect class; unbounded — the report key carries letters that denote '
         'the cell\'s true column for every column, the gate never raises when disabled, an innocent workbook is never rejected (facade model). '
         'Correspondence: real xlsx workbooks with planted fragments at positions with row<>column over several sheets, check on/off, the '
         'exception\'s report compared key by key and fragment by fragment; toggling histories on one parser.',
    note='Bounded sweep (bound in the theorem). Reading of the workbook is C18\'s. Known finding: upper_suffix_identifier_escapes.',
    technique='regenerated regexes + Coq kernel-exhaustive sweep + Coq proofs on the facade model + vm_compute correspondence', ref='6/C19'),
 'C18': dict(
    text='Unbounded Coq theorems over a model of Excel.parse on an abstract sparse worksheet: every coordinate (inside gaps, beyond the last row or '
         'column, on empty sheets) is read back exactly as stored (position in the row stream = coordinate); the reported sizes are the largest '
         'stored row and a last column that covers every stored cell and never exceeds the largest stored column; a text constant emitted as '
         'repr(text) is, for EVERY byte string, exactly one Python string literal denoting the original text (induction over the string with all '
         'escape cases). Correspondence on real xlsx files written with openpyxl: sparse layouts, far-away cells (XFD1, row 3000), empty sheets, '
         'every stored type; Excel.parse data/sizes/titles compared in Coq; every planted and never-written cell evaluated through the translated class.',
    note='openpyxl\'s read-only row stream is an oracle with a stated contract (validated by the correspondence). time/timedelta cells not generated. '
         'No known findings.',
    technique='Coq proof (list/seq lemmas; induction over strings for repr) + vm_compute correspondence on real files', ref='6/C18'),
 'C02': dict(
    text='Unbounded Coq theorems: column letters <-> numbers is a bijection in both directions (for every column >= 1 and every non-empty '
         'capital-letter string; induction over the string and over fuel); a rectangular reference resolves to exactly the rectangle\'s '
         'coordinates in row-major order and a whole column to the used rows, for all coordinates (get_matrix as coded); coordinates are read '
         'at their true position (reader theorem); an unknown sheet title is rejected with KeyError and a known one resolves to that sheet. '
         'Kernel-exhaustive on the REGENERATED token regexes: prefix x $ markers x boundary columns/rows x following contexts lex to the right '
         'token class and groups. Correspondence: references in every spelling and function position over 1-4 sheets, incl. the same formula text '
         'on several sheets; the coordinates the translated code refers to compared with the model and the row-major spec.',
    note='Lexing theorem is a bounded sweep. CellIdentifierRangeToken is unreachable. Known findings: whole_columns_delivered_column_by_column, '
         'apostrophe_in_sheet_title.',
    technique='Coq proof (induction, lia) + kernel sweep over regenerated regexes + vm_compute correspondence', ref='6/C02'),
}

ids = [json.loads(l)['id'] for l in open('/verif/properties.jsonl')]
checks = []
for pid in ids:
    if pid in CLAIMED:
        c = CLAIMED[pid]
        checks.append({
            'property_id': pid,
            'quick_cmd': '/venv/bin/python /verif/tools/check.py %s quick' % pid,
            'thorough_cmd': '/venv/bin/python /verif/tools/check.py %s thorough' % pid,
            'evidence_file': '/verif/evidence/%s.json' % pid,
            'replay_cmd_template': '/venv/bin/python /verif/tools/check.py replay {path}',
            'engine': 'coq-x2p',
            'level_claimed': {'category': 'proof', 'text': c['text'], 'design_ref': 'DESIGN.md section ' + c['ref']},
            'level_note': c['note'] + ' Trusted base: Coq 8.16.1 kernel + vm_compute with primitive ints/floats; hand-written model tied by '
                          'correspondence; Python harness (generators, literal codec, report parser); CPython/openpyxl/dateutil modelled not verified.',
            'technique': c['technique'],
        })
m = {
 'version': 1,
 'setup_cmd': '/bin/sh /verif/tools/setup.sh',
 'hooks': {'guard': 'EXCEL2PYCL_VERIF', 'enable': 'no hooks are needed: checks import /repo (PYTHONPATH=/repo) and regenerate Gen/*.v from it',
           'baseline_off_cmd': 'cd /repo && /venv/bin/python -m pytest -ra -q -p no:cacheprovider --timeout=900 --continue-on-collection-errors',
           'source_commits': [], 'add_only': True},
 'engines': [{'name': 'coq-x2p', 'path': '/verif/coq', 'serves_properties': sorted(CLAIMED),
              'kind_free_text': 'Coq 8.16.1 development (Base/Model/Spec/Proofs/Props/Corr) + Python harness tools/check.py'}],
 'checks': checks,
 'notes': 'Every check: regenerate Gen/*.v from /repo, make the property\'s Coq targets, hygiene scan, Print Assumptions, then run the '
          'implementation and the Gallina model on the same generated inputs (cases.v + vm_compute) and apply the decision table of DESIGN.md 3.6.',
 'not_applicable': [{'property_id': i, 'reason': 'check not built yet (planned; DESIGN.md section 6)'} for i in ids if i not in CLAIMED],
}
json.dump(m, open('/verif/MANIFEST.json', 'w'), indent=1)
print('claimed', sorted(CLAIMED))
