(* Base/Prelude.v — Python values, results, strings and report helpers shared by every model.
   No proofs here (Model/ and Base/ stay runnable when a proof breaks). *)
From Coq Require Export ZArith List String Ascii Bool.
From Coq Require Export PrimFloat Uint63 FloatOps SpecFloat.
Export ListNotations.
Open Scope Z_scope.

(* ---------- results with Python exception classes ---------- *)
Inductive exn :=
  | ZeroDivisionError | TypeError | ValueError | IndexError | KeyError | AttributeError
  | OverflowError | RecursionError | SyntaxError
  | E2PyclParser | E2PyclSafety | E2PyclCell | E2PyclExecutor | ExcelInPythonException
  | OutOfFuel | OtherExc.

Inductive res (A : Type) := Ok (a : A) | Exc (e : exn).
Arguments Ok {A} a.
Arguments Exc {A} e.

Definition bind {A B} (r : res A) (f : A -> res B) : res B :=
  match r with Ok a => f a | Exc e => Exc e end.
Notation "'do' x <- r ; k" := (bind r (fun x => k)) (at level 200, x ident, r at level 100, k at level 200).

Definition exn_eqb (a b : exn) : bool :=
  match a, b with
  | ZeroDivisionError, ZeroDivisionError | TypeError, TypeError | ValueError, ValueError
  | IndexError, IndexError | KeyError, KeyError | AttributeError, AttributeError
  | OverflowError, OverflowError | RecursionError, RecursionError | SyntaxError, SyntaxError
  | E2PyclParser, E2PyclParser | E2PyclSafety, E2PyclSafety | E2PyclCell, E2PyclCell
  | E2PyclExecutor, E2PyclExecutor | ExcelInPythonException, ExcelInPythonException
  | OutOfFuel, OutOfFuel | OtherExc, OtherExc => true
  | _, _ => false
  end.

(* ---------- Python values ---------- *)
(* VDT ord us  : datetime.datetime (proleptic Gregorian ordinal, microseconds since midnight)
   VDate ord   : datetime.date
   VEmpty      : ExcelInPython.EmptyCell()  (an int subclass equal to 0) *)
Inductive val :=
  | VNone
  | VBool (b : bool)
  | VInt (z : Z)
  | VFloat (f : float)
  | VStr (s : string)
  | VDT (ord us : Z)
  | VDate (ord : Z)
  | VEmpty
  | VList (l : list val).

(* bit-level equality of doubles: NaN = NaN, +0 <> -0 *)
Definition sf_eqb (a b : spec_float) : bool :=
  match a, b with
  | S754_zero s, S754_zero t => Bool.eqb s t
  | S754_infinity s, S754_infinity t => Bool.eqb s t
  | S754_nan, S754_nan => true
  | S754_finite s m e, S754_finite t n f => Bool.eqb s t && Pos.eqb m n && Z.eqb e f
  | _, _ => false
  end.
Definition f_eqb (a b : float) : bool := sf_eqb (Prim2SF a) (Prim2SF b).

Fixpoint val_eqb (a b : val) {struct a} : bool :=
  match a, b with
  | VNone, VNone => true
  | VBool x, VBool y => Bool.eqb x y
  | VInt x, VInt y => Z.eqb x y
  | VFloat x, VFloat y => f_eqb x y
  | VStr x, VStr y => String.eqb x y
  | VDT o u, VDT p v => Z.eqb o p && Z.eqb u v
  | VDate o, VDate p => Z.eqb o p
  | VEmpty, VEmpty => true
  | VList l, VList m =>
      (fix go (l m : list val) : bool :=
         match l, m with
         | [], [] => true
         | x :: l', y :: m' => val_eqb x y && go l' m'
         | _, _ => false
         end) l m
  | _, _ => false
  end.

Definition res_eqb {A} (eqb : A -> A -> bool) (a b : res A) : bool :=
  match a, b with
  | Ok x, Ok y => eqb x y
  | Exc e, Exc f => exn_eqb e f
  | _, _ => false
  end.

(* ---------- strings ---------- *)
Fixpoint bytes_to_string (l : list N) : string :=
  match l with [] => EmptyString | c :: t => String (ascii_of_N c) (bytes_to_string t) end.

Fixpoint list_of_string (s : string) : list ascii :=
  match s with EmptyString => [] | String c t => c :: list_of_string t end.
Fixpoint string_of_list (l : list ascii) : string :=
  match l with [] => EmptyString | c :: t => String c (string_of_list t) end.

Definition is_upper (c : ascii) : bool := let n := N_of_ascii c in (65 <=? n)%N && (n <=? 90)%N.
Definition is_lower (c : ascii) : bool := let n := N_of_ascii c in (97 <=? n)%N && (n <=? 122)%N.
Definition is_digit (c : ascii) : bool := let n := N_of_ascii c in (48 <=? n)%N && (n <=? 57)%N.
Definition lower_ascii (c : ascii) : ascii := if is_upper c then ascii_of_N (N_of_ascii c + 32) else c.
Fixpoint lower (s : string) : string :=
  match s with EmptyString => EmptyString | String c t => String (lower_ascii c) (lower t) end.

Definition slen (s : string) : Z := Z.of_nat (String.length s).

(* ---------- report helpers ---------- *)
Definition nl : string := String (ascii_of_N 10) EmptyString.
Definition b2s (b : bool) : string := if b then "1"%string else "0"%string.
Fixpoint lines {A} (f : A -> string) (l : list A) : string :=
  match l with [] => EmptyString | x :: t => (f x ++ nl ++ lines f t)%string end.
