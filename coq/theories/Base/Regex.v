(* Base/Regex.v — a backtracking regular-expression engine for the subset of Python `re` the repository uses:
   parser for the regex STRINGS found in the source, CPS matcher on fuel with Python's leftmost / ordered-alternative /
   greedy-lazy semantics and group capture, and findall / finditer / match / sub drivers.  Self-contained (no Prelude). *)
From Coq Require Import List Arith Bool String Ascii NArith.
Import ListNotations.

(* ---------- AST ---------- *)
Inductive citem :=
| CChar (c: ascii) | CRange (a b: ascii) | CDigit | CWord | CSpace | CNotDigit.

Inductive re :=
| RChar (c: ascii)
| RAny
| RSet (neg: bool) (items: list citem)
| RSeq (l: list re)
| RAlt (l: list re)
| RRep (r: re) (min: nat) (max: option nat) (greedy: bool)
| RGroup (n: nat) (r: re)
| RBackref (n: nat)
| RBol | REol
| RLookbehind (neg: bool) (items: list citem).

Definition code (c: ascii) : nat := nat_of_ascii c.
Definition is_digit c := (48 <=? code c) && (code c <=? 57).
Definition is_upper c := (65 <=? code c) && (code c <=? 90).
Definition is_lower c := (97 <=? code c) && (code c <=? 122).
Definition is_word c := is_digit c || is_upper c || is_lower c || (code c =? 95).
Definition is_space c := (code c =? 32) || ((9 <=? code c) && (code c <=? 13)).
Definition lower c := if is_upper c then ascii_of_nat (code c + 32) else c.
Definition upper c := if is_lower c then ascii_of_nat (code c - 32) else c.

Definition item_match (ic: bool) (c: ascii) (i: citem) : bool :=
  match i with
  | CChar a => if ic then (code (lower a) =? code (lower c)) else (code a =? code c)
  | CRange a b =>
      let inr x := (code a <=? code x) && (code x <=? code b) in
      if ic then inr c || inr (lower c) || inr (upper c) else inr c
  | CDigit => is_digit c | CWord => is_word c | CSpace => is_space c | CNotDigit => negb (is_digit c)
  end.

(* ---------- matcher: CPS backtracking on fuel ---------- *)
(* state: reversed prefix, remaining suffix, captures (group index -> captured text) *)
Definition caps := list (nat * list ascii).
Fixpoint cap_get (n: nat) (cs: caps) : option (list ascii) :=
  match cs with [] => None | (k,v)::t => if k =? n then Some v else cap_get n t end.
Definition cap_set (n: nat) (v: list ascii) (cs: caps) : caps := (n,v) :: cs.

Fixpoint take_prefix (ic: bool) (p s: list ascii) : option (list ascii) :=
  match p, s with
  | [], _ => Some s
  | a::p', b::s' => if (if ic then code (lower a) =? code (lower b) else code a =? code b) then take_prefix ic p' s' else None
  | _, [] => None
  end.

Section M.
Variable R : Type.
Variable ic : bool.
Definition K := list ascii -> list ascii -> caps -> option R.   (* prev_rev, rest, caps *)

Fixpoint m (fuel: nat) (r: re) (prev rest: list ascii) (cs: caps) (k: K) {struct fuel} : option R :=
  match fuel with O => None | S f =>
  match r with
  | RChar c => match rest with x::xs => if item_match ic x (CChar c) then k (x::prev) xs cs else None | [] => None end
  | RAny => match rest with x::xs => if code x =? 10 then None else k (x::prev) xs cs | [] => None end
  | RSet neg items => match rest with
        | x::xs => if xorb neg (existsb (item_match ic x) items) then k (x::prev) xs cs else None
        | [] => None end
  | RSeq l => (fix seq (l: list re) (prev rest: list ascii) (cs: caps) : option R :=
                 match l with [] => k prev rest cs
                 | r1::l' => m f r1 prev rest cs (fun p s c => seq l' p s c) end) l prev rest cs
  | RAlt l => (fix alt (l: list re) : option R :=
                 match l with [] => None
                 | r1::l' => match m f r1 prev rest cs k with Some x => Some x | None => alt l' end end) l
  | RGroup n r1 => m f r1 prev rest cs (fun p s c =>
        (* captured text = the part of prev consumed since entry *)
        let consumed := List.length p - List.length prev in
        k p s (cap_set n (rev (firstn consumed p)) c))
  | RBackref n => match cap_get n cs with
        | None => None
        | Some v => match take_prefix ic v rest with
                    | Some rest' => k (rev v ++ prev) rest' cs
                    | None => None end end
  | RBol => match prev with [] => k prev rest cs | _ => None end
  | REol => match rest with [] => k prev rest cs | [x] => if code x =? 10 then k prev rest cs else None | _ => None end
  | RLookbehind neg items =>
      let hit := match prev with [] => false | x::_ => existsb (item_match ic x) items end in
      if xorb neg hit then k prev rest cs else None
  | RRep r1 mn mx greedy =>
      let can_more := match mx with Some 0 => false | _ => true end in
      let dec := match mx with Some (S j) => Some j | other => other end in
      let more := fun (_: unit) =>
         if can_more then
           m f r1 prev rest cs (fun p s c =>
             if (List.length s =? List.length rest) && (mn =? 0) then None  (* no progress: stop *)
             else m f (RRep r1 (pred mn) dec greedy) p s c k)
         else None in
      if 0 <? mn then more tt
      else if greedy then match more tt with Some x => Some x | None => k prev rest cs end
      else match k prev rest cs with Some x => Some x | None => more tt end
  end end.
End M.
Open Scope char_scope. Open Scope nat_scope.
Import ListNotations.

Definition chr_eq (a b: ascii) : bool := Nat.eqb (code a) (code b).

Fixpoint parse_nat (s: list ascii) (acc: nat) (maxd: nat) : nat * list ascii :=
  match maxd with O => (acc, s) | S d =>
  match s with
  | c :: t => if is_digit c then parse_nat t (acc * 10 + (code c - 48)) d else (acc, s)
  | [] => (acc, s) end end.

Definition esc_item (c: ascii) : citem :=
  if chr_eq c "d" then CDigit else if chr_eq c "w" then CWord else if chr_eq c "s" then CSpace
  else if chr_eq c "D" then CNotDigit
  else if chr_eq c "n" then CChar (ascii_of_nat 10) else if chr_eq c "t" then CChar (ascii_of_nat 9)
  else CChar c.

(* class body after '[' (and optional '^'); returns items and rest after ']' *)
Fixpoint parse_class (fuel: nat) (s: list ascii) (first: bool) (acc: list citem) : option (list citem * list ascii) :=
  match fuel with O => None | S f =>
  match s with
  | [] => None
  | c :: t =>
    if chr_eq c "]" && negb first then Some (rev acc, t)
    else if chr_eq c "\" then
      match t with e :: t' => parse_class f t' false (esc_item e :: acc) | [] => None end
    else match t with
         | d :: hi :: t' => if chr_eq d "-" && negb (chr_eq hi "]")
                            then parse_class f t' false (CRange c hi :: acc)
                            else parse_class f t false (CChar c :: acc)
         | _ => parse_class f t false (CChar c :: acc)
         end
  end end.

Definition quant (r: re) (s: list ascii) : re * list ascii :=
  let lazy (s: list ascii) := match s with q :: t => if chr_eq q "?" then (false, t) else (true, s) | [] => (true, s) end in
  match s with
  | c :: t =>
    if chr_eq c "*" then let '(g, t') := lazy t in (RRep r 0 None g, t')
    else if chr_eq c "+" then let '(g, t') := lazy t in (RRep r 1 None g, t')
    else if chr_eq c "?" then let '(g, t') := lazy t in (RRep r 0 (Some 1) g, t')
    else if chr_eq c "{" then
      let '(n, t1) := parse_nat t 0 6 in
      match t1 with
      | x :: t2 => if chr_eq x "}" then let '(g, t') := lazy t2 in (RRep r n (Some n) g, t')
                   else if chr_eq x "," then
                     let '(mx, t3) := parse_nat t2 0 6 in
                     match t3 with y :: t4 => if chr_eq y "}" then
                         let '(g, t') := lazy t4 in
                         (RRep r n (match t2 with z :: _ => if chr_eq z "}" then None else Some mx | [] => None end) g, t')
                       else (r, s) | [] => (r, s) end
                   else (r, s)
      | [] => (r, s) end
    else (r, s)
  | [] => (r, s)
  end.

(* alt ::= seq ('|' seq)* ; stops at ')' or end. counter = next group number *)
Fixpoint parse_alt (fuel: nat) (s: list ascii) (n: nat) : option (re * list ascii * nat) :=
  match fuel with O => None | S f =>
  let fix seq (fuel2: nat) (s: list ascii) (n: nat) (acc: list re) : option (list re * list ascii * nat) :=
    match fuel2 with O => None | S f2 =>
    match s with
    | [] => Some (rev acc, s, n)
    | c :: t =>
      if chr_eq c ")" || chr_eq c "|" then Some (rev acc, s, n)
      else
        let atom : option (re * list ascii * nat) :=
          if chr_eq c "(" then
            match t with
            | q :: l1 :: l2 :: t' =>
              if chr_eq q "?" && chr_eq l1 "<" && (chr_eq l2 "!" || chr_eq l2 "=") then
                (* (?<![~]) or (?<=~) : one class or one char then ')' *)
                match t' with
                | b :: t'' => if chr_eq b "[" then
                      match parse_class f t'' true [] with
                      | Some (items, cl :: t3) => if chr_eq cl ")" then Some (RLookbehind (chr_eq l2 "!") items, t3, n) else None
                      | _ => None end
                    else match t'' with cl :: t3 => if chr_eq cl ")" then Some (RLookbehind (chr_eq l2 "!") [CChar b], t3, n) else None | [] => None end
                | [] => None end
              else if chr_eq q "?" && chr_eq l1 ":" then
                match parse_alt f (l2 :: t') n with
                | Some (r, cl :: t3, n') => if chr_eq cl ")" then Some (r, t3, n') else None
                | _ => None end
              else
                match parse_alt f t (S n) with
                | Some (r, cl :: t3, n') => if chr_eq cl ")" then Some (RGroup n r, t3, n') else None
                | _ => None end
            | _ =>
                match parse_alt f t (S n) with
                | Some (r, cl :: t3, n') => if chr_eq cl ")" then Some (RGroup n r, t3, n') else None
                | _ => None end
            end
          else if chr_eq c "[" then
            let '(neg, body) := match t with x :: t' => if chr_eq x "^" then (true, t') else (false, t) | [] => (false, t) end in
            match parse_class f body true [] with
            | Some (items, t') => Some (RSet neg items, t', n)
            | None => None end
          else if chr_eq c "\" then
            match t with
            | e :: t' =>
              if is_digit e then let '(k, t'') := parse_nat t 0 2 in Some (RBackref k, t'', n)
              else match esc_item e with
                   | CChar x => Some (RChar x, t', n)
                   | it => Some (RSet false [it], t', n) end
            | [] => None end
          else if chr_eq c "." then Some (RAny, t, n)
          else if chr_eq c "^" then Some (RBol, t, n)
          else if chr_eq c "$" then Some (REol, t, n)
          else Some (RChar c, t, n) in
        match atom with
        | None => None
        | Some (r, t', n') => let '(r', t'') := quant r t' in seq f2 t'' n' (r' :: acc)
        end
    end end in
  let fix alts (fuel3: nat) (s: list ascii) (n: nat) (acc: list re) : option (re * list ascii * nat) :=
    match fuel3 with O => None | S f3 =>
    match seq f s n [] with
    | None => None
    | Some (l, s', n') =>
      let acc' := RSeq l :: acc in
      match s' with
      | c :: t => if chr_eq c "|" then alts f3 t n' acc' else Some (match acc' with [x] => x | _ => RAlt (rev acc') end, s', n')
      | [] => Some (match acc' with [x] => x | _ => RAlt (rev acc') end, s', n')
      end
    end end in
  alts f s n []
  end.

Definition parse_re (s: string) : option (re * nat) :=
  let l := list_ascii_of_string s in
  match parse_alt (S (List.length l) * 2) l 1 with
  | Some (r, [], n) => Some (r, n)
  | _ => None end.

(* ---------- drivers ---------- *)
Definition fuel_for (s: list ascii) := 400 + 60 * List.length s.

(* match at a position: returns (prev after, rest after, caps); with must_advance the empty match is refused *)
Definition match_here (ic: bool) (must_advance: bool) (r: re) (prev rest: list ascii) : option (list ascii * list ascii * caps) :=
  m _ ic (fuel_for rest) r prev rest []
    (fun p s c => if must_advance && (List.length s =? List.length rest) then None else Some (p, s, c)).

Definition group_opt (i: nat) (c: caps) : option string :=
  match cap_get i c with Some v => Some (string_of_list_ascii v) | None => None end.
Definition groups_opt (ngroups: nat) (c: caps) : list (option string) :=
  map (fun i => group_opt i c) (seq 1 (ngroups - 1)).
Definition groups (ngroups: nat) (c: caps) : list string :=
  map (fun o => match o with Some v => v | None => EmptyString end) (groups_opt ngroups c).

(* one match object: start offset, end offset, whole text, groups (None = did not participate) *)
Record mobj := { m_start : nat; m_end : nat; m_text : string; m_groups : list (option string) }.

(* re.finditer: scanning, non-overlapping; after an empty match the next attempt at the same position must advance *)
Fixpoint finditer_aux (fuel: nat) (ic: bool) (r: re) (ng: nat) (pos: nat) (prev rest: list ascii) (adv: bool) : list mobj :=
  match fuel with O => [] | S f =>
  match match_here ic adv r prev rest with
  | Some (p, s, c) =>
      let consumed := List.length p - List.length prev in
      let whole := string_of_list_ascii (rev (firstn consumed p)) in
      {| m_start := pos; m_end := pos + consumed; m_text := whole; m_groups := groups_opt ng c |} ::
        (if consumed =? 0 then finditer_aux f ic r ng pos prev rest true
         else finditer_aux f ic r ng (pos + consumed) p s false)
  | None => match rest with [] => [] | x :: xs => finditer_aux f ic r ng (S pos) (x :: prev) xs false end
  end end.

Definition finditer (ic: bool) (pat subj: string) : option (list mobj) :=
  match parse_re pat with
  | Some (r, ng) => let s := list_ascii_of_string subj in Some (finditer_aux (2 * S (List.length s)) ic r ng 0 [] s false)
  | None => None end.

(* re.findall for a pattern with groups: group tuples; without groups: whole matches *)
Definition findall (ic: bool) (pat subj: string) : option (list (string * list string)) :=
  match finditer ic pat subj with
  | Some l => Some (map (fun o => (m_text o, map (fun g => match g with Some v => v | None => EmptyString end) (m_groups o))) l)
  | None => None end.

(* re.match: anchored at the start *)
Definition rmatch (ic: bool) (pat subj: string) : option (option mobj) :=
  match parse_re pat with
  | Some (r, ng) =>
      let s := list_ascii_of_string subj in
      Some (match match_here ic false r [] s with
            | Some (p, _, c) => Some {| m_start := 0; m_end := List.length p;
                                        m_text := string_of_list_ascii (rev p); m_groups := groups_opt ng c |}
            | None => None end)
  | None => None end.

(* re.sub(pat, repl, subj) where repl is a function of the whole match text *)
Fixpoint sub_aux (ms: list mobj) (subj: list ascii) (pos: nat) (f: string -> string) : list ascii :=
  match ms with
  | [] => subj
  | o :: t =>
      let before := firstn (m_start o - pos) subj in
      let after := skipn (m_end o - pos) subj in
      before ++ list_ascii_of_string (f (m_text o)) ++ sub_aux t after (m_end o) f
  end.
Definition rsub (ic: bool) (pat: string) (f: string -> string) (subj: string) : option string :=
  match finditer ic pat subj with
  | Some ms => Some (string_of_list_ascii (sub_aux ms (list_ascii_of_string subj) 0 f))
  | None => None end.
