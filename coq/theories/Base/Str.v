(* Base/Str.v — Python str operations on byte strings: find, replace, slicing, lower. *)
Require Import X2P.Base.Prelude.
Open Scope Z_scope.

Definition ascii_eqb (a b : ascii) : bool := (N_of_ascii a =? N_of_ascii b)%N.

Fixpoint prefix_l (p s : list ascii) : bool :=
  match p, s with
  | [], _ => true
  | a :: p', b :: s' => ascii_eqb a b && prefix_l p' s'
  | _, [] => false
  end.

(* index of the first occurrence of sub in s at or after position `from` (0-based), -1 if none;
   s.find(sub, from) for 0 <= from *)
Fixpoint find_from (sub s : list ascii) (pos : Z) : Z :=
  if prefix_l sub s then pos
  else match s with [] => -1 | _ :: t => find_from sub t (pos + 1) end.
Definition str_find (s sub : string) (from : Z) : Z :=
  let l := list_of_string s in
  let n := Z.of_nat (List.length l) in
  if n <? from then -1
  else find_from (list_of_string sub) (skipn (Z.to_nat from) l) from.

(* s.replace(old, new[, count]) for non-empty old; count = None means all *)
Fixpoint replace_l (fuel : nat) (old new s : list ascii) (count : option nat) : list ascii :=
  match fuel with
  | O => s
  | S f =>
      match count with
      | Some O => s
      | _ =>
          match s with
          | [] => []
          | c :: t =>
              if prefix_l old s then
                new ++ replace_l f old new (skipn (List.length old) s)
                                 (match count with Some (S k) => Some k | other => other end)
              else c :: replace_l f old new t count
          end
      end
  end.
Definition str_replace (s old new : string) : string :=
  match old with
  | EmptyString => s
  | _ => let l := list_of_string s in
         string_of_list (replace_l (S (List.length l)) (list_of_string old) (list_of_string new) l None)
  end.
Definition str_replace1 (s old new : string) : string :=
  match old with
  | EmptyString => (new ++ s)%string
  | _ => let l := list_of_string s in
         string_of_list (replace_l (S (List.length l)) (list_of_string old) (list_of_string new) l (Some 1%nat))
  end.

(* s[a:b] *)
Definition str_slice (s : string) (a b : Z) : string :=
  let l := list_of_string s in
  let n := Z.of_nat (List.length l) in
  let a := if a <? 0 then Z.max 0 (a + n) else Z.min a n in
  let b := if b <? 0 then Z.max 0 (b + n) else Z.min b n in
  if b <=? a then ""%string else string_of_list (firstn (Z.to_nat (b - a)) (skipn (Z.to_nat a) l)).
Definition str_index (s : string) (i : Z) : res string :=
  let n := slen s in
  let j := if i <? 0 then i + n else i in
  if (j <? 0) || (n <=? j) then Exc IndexError else Ok (str_slice s j (j + 1)).
Definition str_endswith (s suf : string) : bool :=
  let n := slen s in let k := slen suf in
  (k <=? n) && String.eqb (str_slice s (n - k) n) suf.
