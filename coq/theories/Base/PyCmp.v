(* Base/PyCmp.v — Python's rich comparison on the value kinds the runtime sees,
   including the EmptyCell int-subclass with its overridden __eq__/__lt__/__le__/__gt__/__ge__
   (and the __ne__ it inherits from int).  Mirrors CPython's do_richcompare dispatch:
   reflected method first when type(right) is a proper subclass of type(left). *)
Require Import X2P.Base.Prelude X2P.Base.F64.
Open Scope Z_scope.

Inductive cmpop := OLt | OLe | OGt | OGe | OEq | ONe.

Definition swap_op (o : cmpop) : cmpop :=
  match o with OLt => OGt | OLe => OGe | OGt => OLt | OGe => OLe | OEq => OEq | ONe => ONe end.

Definition op_of_cmp (o : cmpop) (c : option comparison) : bool :=
  match c with
  | None => match o with ONe => true | _ => false end
  | Some Lt => match o with OLt | OLe | ONe => true | _ => false end
  | Some Eq => match o with OLe | OGe | OEq => true | _ => false end
  | Some Gt => match o with OGt | OGe | ONe => true | _ => false end
  end.

(* numbers *)
Inductive num := NZ (z : Z) | NF (f : float).
Definition as_num (v : val) : option num :=
  match v with
  | VBool b => Some (NZ (if b then 1 else 0))
  | VInt z => Some (NZ z)
  | VFloat f => Some (NF f)
  | _ => None
  end.
Definition flip (c : option comparison) : option comparison :=
  match c with Some c => Some (CompOpp c) | None => None end.
Definition num_cmp (a b : num) : option comparison :=
  match a, b with
  | NZ x, NZ y => Some (x ?= y)
  | NZ x, NF g => cmp_Z_f x g
  | NF f, NZ y => flip (cmp_Z_f y f)
  | NF f, NF g => cmp_f_f f g
  end.

(* strings: lexicographic on bytes *)
Fixpoint str_cmp (a b : string) : comparison :=
  match a, b with
  | EmptyString, EmptyString => Eq
  | EmptyString, _ => Lt
  | _, EmptyString => Gt
  | String x a', String y b' =>
      match (N_of_ascii x ?= N_of_ascii y)%N with Eq => str_cmp a' b' | c => c end
  end.

(* --- EmptyCell's own methods, as written in the template --- *)
Definition empty_eq (other : val) : bool :=
  match other with
  | VStr s => String.eqb s ""
  | VNone => true
  | VEmpty => true
  | VBool _ | VInt _ | VFloat _ =>
      match as_num other with Some n => op_of_cmp OEq (num_cmp n (NZ 0)) | None => false end
  | _ => false
  end.
Definition empty_lt (other : val) : bool :=
  match other with
  | VDT _ _ | VDate _ => true
  | VBool _ | VInt _ | VFloat _ =>
      match as_num other with Some n => op_of_cmp OGt (num_cmp n (NZ 0)) | None => false end
  | VEmpty => false                       (* other > 0 -> EmptyCell.__gt__ -> False *)
  | VStr s => negb (String.eqb s "")
  | VList l => match l with [] => true | _ => false end
  | VNone => false
  end.
(* int.__ne__(EmptyCell, other) with fallbacks *)
Definition empty_ne (other : val) : bool :=
  match other with
  | VBool _ | VInt _ | VFloat _ =>
      match as_num other with Some n => op_of_cmp ONe (num_cmp n (NZ 0)) | None => true end
  | VEmpty => false
  | _ => true
  end.
(* EmptyCell OP other, EmptyCell on the left *)
Definition empty_left (o : cmpop) (other : val) : bool :=
  match o with
  | OEq => empty_eq other
  | OLt => empty_lt other
  | OLe => empty_eq other || empty_lt other
  | OGt => false
  | OGe => empty_eq other
  | ONe => empty_ne other
  end.

Definition is_ordering (o : cmpop) : bool :=
  match o with OEq | ONe => false | _ => true end.

(* Python's `a OP b` *)
Definition py_cmp (o : cmpop) (a b : val) : res bool :=
  match a, b with
  | VList _, _ | _, VList _ => Exc OtherExc                       (* not modelled *)
  | VEmpty, _ => Ok (empty_left o b)
  | VInt _, VEmpty => Ok (empty_left (swap_op o) a)               (* reflected first: subclass of int *)
  | VBool x, VEmpty => Ok (op_of_cmp o (Some ((if x then 1 else 0) ?= 0)))
  | VFloat f, VEmpty => Ok (op_of_cmp o (flip (cmp_Z_f 0 f)))
  | _, VEmpty => Ok (empty_left (swap_op o) a)                    (* left returns NotImplemented *)
  | VStr x, VStr y => Ok (op_of_cmp o (Some (str_cmp x y)))
  | VDT p u, VDT q v => Ok (op_of_cmp o (Some (match p ?= q with Eq => u ?= v | c => c end)))
  | VDate p, VDate q => Ok (op_of_cmp o (Some (p ?= q)))
  | VNone, VNone => if is_ordering o then Exc TypeError else Ok (match o with OEq => true | _ => false end)
  | _, _ =>
      match as_num a, as_num b with
      | Some x, Some y => Ok (op_of_cmp o (num_cmp x y))
      | _, _ => if is_ordering o then Exc TypeError
                else Ok (match o with ONe => true | _ => false end)
      end
  end.

(* truthiness *)
Definition truthy (v : val) : bool :=
  match v with
  | VNone => false
  | VBool b => b
  | VInt z => negb (z =? 0)
  | VFloat f => negb (match cmp_f_f f zero with Some Eq => true | _ => false end)
  | VStr s => negb (String.eqb s "")
  | VDT _ _ | VDate _ => true
  | VEmpty => false
  | VList l => match l with [] => false | _ => true end
  end.
