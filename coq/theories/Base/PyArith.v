(* Base/PyArith.v — Python's + - * / and unary minus on the value kinds the emitted code combines.
   bool and EmptyCell are int subclasses and behave as their integer value. *)
Require Import X2P.Base.Prelude X2P.Base.F64 X2P.Base.PyCmp X2P.Base.PyType X2P.Base.PyNum.
Open Scope Z_scope.

Inductive aop := AAdd | ASub | AMul | ADiv.

Definition as_int_like (v : val) : option Z :=
  match v with VInt z => Some z | VBool b => Some (if b then 1 else 0) | VEmpty => Some 0 | _ => None end.

Definition f_is_zero (g : float) : bool := match cmp_f_f g zero with Some Eq => true | _ => false end.

Definition arith_ff (o : aop) (f g : float) : res val :=
  match o with
  | AAdd => Ok (VFloat (PrimFloat.add f g))
  | ASub => Ok (VFloat (PrimFloat.sub f g))
  | AMul => Ok (VFloat (PrimFloat.mul f g))
  | ADiv => if f_is_zero g then Exc ZeroDivisionError else Ok (VFloat (PrimFloat.div f g))
  end.
Definition arith_zz (o : aop) (x y : Z) : res val :=
  match o with
  | AAdd => Ok (VInt (x + y))
  | ASub => Ok (VInt (x - y))
  | AMul => Ok (VInt (x * y))
  | ADiv => if y =? 0 then Exc ZeroDivisionError else
            let f := zdiv_f x y in
            if f_is_inf f then Exc OverflowError else Ok (VFloat f)
  end.

Fixpoint str_repeat (n : nat) (s : string) : string :=
  match n with O => EmptyString | S k => (s ++ str_repeat k s)%string end.
(* str * int: repetition (empty for n <= 0); sizes are small in the decided domain *)
Definition str_times (s : string) (n : Z) : res val :=
  if 10000 <? n then Exc OtherExc else Ok (VStr (str_repeat (Z.to_nat n) s)).

Definition py_arith (o : aop) (a b : val) : res val :=
  match as_int_like a, as_int_like b with
  | Some x, Some y => arith_zz o x y
  | _, _ =>
      match a, b with
      | VFloat f, VFloat g => arith_ff o f g
      | VFloat f, _ => match as_int_like b with
                       | Some y => do g <- z2f_checked y; arith_ff o f g
                       | None => Exc TypeError end
      | _, VFloat g => match as_int_like a with
                       | Some x => do f <- z2f_checked x; arith_ff o f g
                       | None => Exc TypeError end
      | VStr s, VStr t => match o with AAdd => Ok (VStr (s ++ t)) | _ => Exc TypeError end
      | VStr s, _ => match o, as_int_like b with
                     | AMul, Some n => str_times s n
                     | _, _ => Exc TypeError end
      | _, VStr t => match o, as_int_like a with
                     | AMul, Some n => str_times t n
                     | _, _ => Exc TypeError end
      | _, _ => Exc OtherExc                                   (* dates, None, lists: not modelled *)
      end
  end.

Definition py_neg (a : val) : res val :=
  match a with
  | VFloat f => Ok (VFloat (PrimFloat.opp f))
  | _ => match as_int_like a with Some x => Ok (VInt (- x)) | None => Exc TypeError end
  end.
Definition py_pos (a : val) : res val :=
  match a with
  | VFloat f => Ok a
  | _ => match as_int_like a with Some x => Ok (VInt x) | None => Exc TypeError end
  end.
