(* Base/PyRepr.v — repr(str) as CPython's unicode_repr does it (ASCII range), and the inverse reading of a
   Python string literal as the tokenizer + literal evaluator do. *)
Require Import X2P.Base.Prelude X2P.Base.Str.
Open Scope Z_scope.

Definition chr (n : N) : ascii := ascii_of_N n.
Definition QUOTE1 := chr 39.    (* apostrophe *)
Definition QUOTE2 := chr 34.    (* double quote *)
Definition BSL := chr 92.
Definition hexdigit (n : N) : ascii := if (n <? 10)%N then chr (48 + n) else chr (87 + n).

Definition repr_char (q : ascii) (c : ascii) : list ascii :=
  let n := N_of_ascii c in
  if ascii_eqb c q || ascii_eqb c BSL then [BSL; c]
  else if (n =? 10)%N then [BSL; chr 110]
  else if (n =? 13)%N then [BSL; chr 114]
  else if (n =? 9)%N then [BSL; chr 116]
  else if ((n <? 32) || (n =? 127))%N then [BSL; chr 120; hexdigit (n / 16); hexdigit (n mod 16)]
  else [c].

Definition repr_quote (l : list ascii) : ascii :=
  if existsb (ascii_eqb QUOTE1) l && negb (existsb (ascii_eqb QUOTE2) l) then QUOTE2 else QUOTE1.

Definition py_repr_l (l : list ascii) : list ascii :=
  let q := repr_quote l in q :: flat_map (repr_char q) l ++ [q].
Definition py_repr (s : string) : string := string_of_list (py_repr_l (list_of_string s)).

(* ---- reading one Python short string literal: returns the denoted text and the rest of the input ---- *)
Definition hexval (c : ascii) : option N :=
  let n := N_of_ascii c in
  if ((48 <=? n) && (n <=? 57))%N then Some (n - 48)%N
  else if ((97 <=? n) && (n <=? 102))%N then Some (n - 87)%N
  else if ((65 <=? n) && (n <=? 70))%N then Some (n - 55)%N else None.

Fixpoint lit_body (q : ascii) (l : list ascii) (acc : list ascii) : option (list ascii * list ascii) :=
  match l with
  | [] => None                                             (* unterminated *)
  | c :: t =>
      if ascii_eqb c q then Some (rev acc, t)
      else if (N_of_ascii c =? 10)%N then None             (* newline inside a short string: SyntaxError *)
      else if ascii_eqb c BSL then
        match t with
        | [] => None
        | e :: t' =>
            let n := N_of_ascii e in
            if ascii_eqb e BSL || ascii_eqb e QUOTE1 || ascii_eqb e QUOTE2 then lit_body q t' (e :: acc)
            else if (n =? 110)%N then lit_body q t' (chr 10 :: acc)
            else if (n =? 114)%N then lit_body q t' (chr 13 :: acc)
            else if (n =? 116)%N then lit_body q t' (chr 9 :: acc)
            else if (n =? 120)%N then
              match t' with
              | h1 :: h2 :: t'' => match hexval h1, hexval h2 with
                                   | Some a, Some b => lit_body q t'' (chr (a * 16 + b) :: acc)
                                   | _, _ => None end
              | _ => None
              end
            else None                                       (* other escapes: outside the modelled subset *)
        end
      else lit_body q t (c :: acc)
  end.

Definition read_string_literal (l : list ascii) : option (list ascii * list ascii) :=
  match l with
  | q :: t => if ascii_eqb q QUOTE1 || ascii_eqb q QUOTE2 then lit_body q t [] else None
  | [] => None
  end.
