(* Base/PyType.v — type(), isinstance(), list indexing with Python semantics. *)
Require Import X2P.Base.Prelude X2P.Base.F64 X2P.Base.PyCmp.
Open Scope Z_scope.

Inductive pytype := TBool | TInt | TFloat | TStr | TNone | TDT | TDate | TEmpty | TList.

Definition type_of (v : val) : pytype :=
  match v with
  | VNone => TNone | VBool _ => TBool | VInt _ => TInt | VFloat _ => TFloat | VStr _ => TStr
  | VDT _ _ => TDT | VDate _ => TDate | VEmpty => TEmpty | VList _ => TList
  end.

(* isinstance(v, T) with the subclass relations bool <: int, EmptyCell <: int, datetime <: date *)
Definition isinstance (v : val) (t : pytype) : bool :=
  match t, v with
  | TBool, VBool _ => true
  | TInt, (VInt _ | VBool _ | VEmpty) => true
  | TFloat, VFloat _ => true
  | TStr, VStr _ => true
  | TNone, VNone => true
  | TDT, VDT _ _ => true
  | TDate, (VDate _ | VDT _ _) => true
  | TEmpty, VEmpty => true
  | TList, VList _ => true
  | _, _ => false
  end.

Definition is_empty (v : val) : bool := match v with VEmpty => true | _ => false end.
(* isinstance(v, (float, int)) *)
Definition is_number (v : val) : bool := isinstance v TFloat || isinstance v TInt.
(* type(v) in [float, int] *)
Definition is_exact_number (v : val) : bool := match v with VInt _ | VFloat _ => true | _ => false end.

(* l[i] with negative indices counted from the end *)
Definition py_index {A} (l : list A) (i : Z) : res A :=
  let n := Z.of_nat (List.length l) in
  let j := if i <? 0 then i + n else i in
  if (j <? 0) || (n <=? j) then Exc IndexError
  else match nth_error l (Z.to_nat j) with Some x => Ok x | None => Exc IndexError end.

Definition as_list (v : val) : res (list val) :=
  match v with VList l => Ok l | _ => Exc TypeError end.

(* l[a:b] for 0 <= a (Python clamps) *)
Definition py_slice {A} (l : list A) (a b : Z) : list A :=
  let n := Z.of_nat (List.length l) in
  let a := if a <? 0 then Z.max 0 (a + n) else Z.min a n in
  let b := if b <? 0 then Z.max 0 (b + n) else Z.min b n in
  if b <=? a then [] else firstn (Z.to_nat (b - a)) (skipn (Z.to_nat a) l).
