(* Base/PyNum.v — int(), float(), str() and the arithmetic tower on the modelled value kinds. *)
Require Import X2P.Base.Prelude X2P.Base.F64 X2P.Base.PyCmp X2P.Base.Calendar.
Open Scope Z_scope.

(* ---------- str(int) ---------- *)
Fixpoint digits_loop (fuel : nat) (n : Z) (acc : string) : string :=
  match fuel with
  | O => acc
  | S f => let acc' := String (ascii_of_N (Z.to_N (48 + n mod 10))) acc in
           if n <? 10 then acc' else digits_loop f (n / 10) acc'
  end.
Definition str_of_Z (n : Z) : string :=
  if n <? 0 then String "-" (digits_loop (S (Z.to_nat (Z.log2 (- n)))) (- n) "")
  else digits_loop (S (Z.to_nat (Z.log2 n))) n "".

Fixpoint zpad (width : nat) (s : string) : string :=
  if Nat.leb width (String.length s) then s
  else match width with O => s | S w => String "0" (zpad w s) end.
(* %0Nd for a non-negative number *)
Definition pad0 (width : nat) (n : Z) : string :=
  let s := str_of_Z n in
  (fix go (k : nat) (acc : string) := match k with O => acc | S k' => go k' (String "0" acc) end)
    (width - String.length s)%nat s.

(* ---------- parsing numerals ---------- *)
Definition is_ws (c : ascii) : bool :=
  let n := N_of_ascii c in ((n =? 32) || ((9 <=? n) && (n <=? 13)) || ((28 <=? n) && (n <=? 31)))%N.
Fixpoint lstrip (l : list ascii) : list ascii :=
  match l with c :: t => if is_ws c then lstrip t else l | [] => [] end.
Definition strip_l (l : list ascii) : list ascii := rev (lstrip (rev (lstrip l))).
Definition strip (s : string) : string := string_of_list (strip_l (list_of_string s)).

Definition digit_val (c : ascii) : Z := Z.of_N (N_of_ascii c) - 48.
Definition is_us (c : ascii) : bool := (N_of_ascii c =? 95)%N.

(* digit (_? digit)* ; returns value, number of digits, rest *)
Fixpoint digits_us (l : list ascii) (acc n : Z) : Z * Z * list ascii :=
  match l with
  | c :: t =>
      if is_digit c then digits_us t (acc * 10 + digit_val c) (n + 1)
      else if is_us c && (0 <? n) then
        match t with
        | d :: _ => if is_digit d then digits_us t acc n else (acc, n, l)
        | [] => (acc, n, l)
        end
      else (acc, n, l)
  | [] => (acc, n, l)
  end.

Definition take_sign (l : list ascii) : bool * list ascii :=
  match l with
  | c :: t => if (N_of_ascii c =? 45)%N then (true, t) else if (N_of_ascii c =? 43)%N then (false, t) else (false, l)
  | [] => (false, [])
  end.

(* int(s) for a str *)
Definition int_of_string (s : string) : res Z :=
  let l := strip_l (list_of_string s) in
  let '(neg, l) := take_sign l in
  let '(v, n, rest) := digits_us l 0 0 in
  if (n =? 0) || (4300 <? n) (* sys.get_int_max_str_digits() *) || negb (match rest with [] => true | _ => false end) then Exc ValueError
  else Ok (if neg then - v else v).

Definition lower_l (l : list ascii) : list ascii := map lower_ascii l.
Definition l_eqb (a : list ascii) (b : string) : bool := String.eqb (string_of_list a) b.

(* float(s) for a str *)
Definition float_of_string (s : string) : res float :=
  let l := strip_l (list_of_string s) in
  let '(neg, l) := take_sign l in
  let sgn (f : float) := if neg then PrimFloat.opp f else f in
  let ll := lower_l l in
  if l_eqb ll "inf" || l_eqb ll "infinity" then Ok (sgn infinity)
  else if l_eqb ll "nan" then Ok nan
  else
    let '(iv, ni, rest) := digits_us l 0 0 in
    let '(fv, nf, rest) :=
      match rest with
      | c :: t => if (N_of_ascii c =? 46)%N then digits_us t iv 0 else (iv, 0, rest)
      | [] => (iv, 0, rest)
      end in
    if (ni + nf =? 0) then Exc ValueError else
    let '(ex, bad, rest) :=
      match rest with
      | c :: t =>
          if (N_of_ascii (lower_ascii c) =? 101)%N then
            let '(eneg, t') := take_sign t in
            let '(ev, ne, rest') := digits_us t' 0 0 in
            if ne =? 0 then (0, true, rest) else ((if eneg then - ev else ev), false, rest')
          else (0, false, rest)
      | [] => (0, false, rest)
      end in
    if bad || negb (match rest with [] => true | _ => false end) then Exc ValueError else
    let e10 := ex - nf in
    let e10 := Z.max (-400 - ni - nf) (Z.min e10 400) in      (* beyond these the result is 0 / inf anyway *)
    Ok (sgn (if e10 <? 0 then q2f fv (10 ^ (- e10)) else q2f (fv * 10 ^ e10) 1)).

(* ---------- int(x), float(x) ---------- *)
Definition py_int (v : val) : res Z :=
  match v with
  | VBool b => Ok (if b then 1 else 0)
  | VInt z => Ok z
  | VEmpty => Ok 0
  | VFloat f => if f_is_nan f then Exc ValueError else if f_is_inf f then Exc OverflowError
                else match f_trunc f with Some z => Ok z | None => Exc ValueError end
  | VStr s => int_of_string s
  | _ => Exc TypeError
  end.

Definition MAXF_Z : Z := (2 ^ 53 - 1) * 2 ^ 971.           (* DBL_MAX as an integer *)
Definition z2f_checked (z : Z) : res float :=
  let f := z2f z in if f_is_inf f then Exc OverflowError else Ok f.
Definition py_float (v : val) : res float :=
  match v with
  | VBool b => Ok (if b then one else zero)
  | VInt z => z2f_checked z
  | VEmpty => Ok zero
  | VFloat f => Ok f
  | VStr s => float_of_string s
  | _ => Exc TypeError
  end.

(* ---------- str(x), with repr(float) an oracle ---------- *)
Section Str.
  Variable frepr : float -> string.

  Definition str_of_date (ordinal : Z) : string :=
    let '(y, m, d) := ymd_of_ord ordinal in
    (pad0 4 y ++ "-" ++ pad0 2 m ++ "-" ++ pad0 2 d)%string.
  Definition str_of_time (us : Z) : string :=
    let s := us / 1000000 in let frac := us mod 1000000 in
    let hh := s / 3600 in let mm := (s / 60) mod 60 in let ss := s mod 60 in
    (pad0 2 hh ++ ":" ++ pad0 2 mm ++ ":" ++ pad0 2 ss ++
     (if (frac =? 0)%Z then "" else "." ++ pad0 6 frac))%string.

  Definition py_str (v : val) : res string :=
    match v with
    | VNone => Ok "None"%string
    | VBool b => Ok (if b then "True" else "False")%string
    | VInt z => Ok (str_of_Z z)
    | VFloat f => Ok (frepr f)
    | VStr s => Ok s
    | VDT o us => Ok (str_of_date o ++ " " ++ str_of_time us)%string
    | VDate o => Ok (str_of_date o)
    | VEmpty => Ok "0"%string
    | VList _ => Exc OtherExc
    end.
End Str.

(* float repr oracle from an association list supplied with the case *)
Fixpoint frepr_of (tbl : list (float * string)) (f : float) : string :=
  match tbl with
  | [] => "?unmodelled-float-repr?"%string
  | (g, s) :: t => if f_eqb f g then s else frepr_of t f
  end.
