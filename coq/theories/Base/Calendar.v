(* Base/Calendar.v — proleptic Gregorian calendar as CPython's datetime implements it
   (Lib/_pydatetime.py: _days_before_year, _days_before_month, _ymd2ord, _ord2ymd),
   calendar.monthrange, weekday, and dateutil's relativedelta(months=k) on a date. *)
Require Import X2P.Base.Prelude.
Open Scope Z_scope.

Definition is_leap (y : Z) : bool := ((y mod 4 =? 0) && negb (y mod 100 =? 0)) || (y mod 400 =? 0).
Definition days_before_year (y : Z) : Z := let y1 := y - 1 in y1 * 365 + y1 / 4 - y1 / 100 + y1 / 400.
Definition dim (y m : Z) : Z :=
  if m =? 2 then (if is_leap y then 29 else 28)
  else if (m =? 4) || (m =? 6) || (m =? 9) || (m =? 11) then 30 else 31.
Definition days_before_month (y m : Z) : Z :=
  (if m =? 1 then 0 else if m =? 2 then 31 else if m =? 3 then 59 else if m =? 4 then 90 else if m =? 5 then 120
   else if m =? 6 then 151 else if m =? 7 then 181 else if m =? 8 then 212 else if m =? 9 then 243
   else if m =? 10 then 273 else if m =? 11 then 304 else 334) + (if (2 <? m) && is_leap y then 1 else 0).
(* _ymd2ord *)
Definition ord_of_ymd (y m d : Z) : Z := days_before_year y + days_before_month y m + d.

Definition valid_ymd (y m d : Z) : bool :=
  (1 <=? y) && (y <=? 9999) && (1 <=? m) && (m <=? 12) && (1 <=? d) && (d <=? dim y m).

(* _ord2ymd: 400/100/4/1-year cycle decomposition *)
Definition DI400Y := 146097.
Definition DI100Y := 36524.
Definition DI4Y := 1461.
Definition ymd_of_ord (n : Z) : Z * Z * Z :=
  let n := n - 1 in
  let n400 := n / DI400Y in let n := n mod DI400Y in
  let year := n400 * 400 + 1 in
  let n100 := n / DI100Y in let n := n mod DI100Y in
  let n4 := n / DI4Y in let n := n mod DI4Y in
  let n1 := n / 365 in let n := n mod 365 in
  let year := year + n100 * 100 + n4 * 4 + n1 in
  if (n1 =? 4) || (n100 =? 4) then (year - 1, 12, 31)
  else
    let leapyear := (n1 =? 3) && (negb (n4 =? 24) || (n100 =? 3)) in
    let month := (n + 50) / 32 in        (* (n + 50) >> 5 *)
    let preceding := days_before_month 1 month + (if (2 <? month) && leapyear then 1 else 0) in
    if n <? preceding then
      let month := month - 1 in
      let preceding := preceding - (if (month =? 2) && leapyear then 29 else dim 1 month) in
      (year, month, n - preceding + 1)
    else (year, month, n - preceding + 1).

(* date.weekday(): Monday = 0 *)
Definition weekday (ordinal : Z) : Z := (ordinal + 6) mod 7.

Definition MIN_ORD := 1.
Definition MAX_ORD := 3652059.          (* date(9999,12,31).toordinal() *)
Definition ord_in_range (n : Z) : bool := (MIN_ORD <=? n) && (n <=? MAX_ORD).

(* dateutil relativedelta(months=k) added to a date (y,m,d): year/month normalised, day clamped *)
Definition add_months (y m d k : Z) : Z * Z * Z :=
  let t := (y * 12 + (m - 1)) + k in
  let y' := t / 12 in let m' := t mod 12 + 1 in
  (y', m', Z.min d (dim y' m')).
