(* Base/F64.v — exact views of binary64 values, correctly rounded rational -> double. *)
Require Import X2P.Base.Prelude.
Open Scope Z_scope.

(* exact value of a finite double as m * 2^e *)
Definition f2me (x : float) : option (Z * Z) :=
  match Prim2SF x with
  | S754_zero _ => Some (0, 0)
  | S754_finite s m e => Some ((if s then Z.neg m else Z.pos m), e)
  | _ => None
  end.

Definition f_is_nan (x : float) : bool := match Prim2SF x with S754_nan => true | _ => false end.
Definition f_is_inf (x : float) : bool := match Prim2SF x with S754_infinity _ => true | _ => false end.
Definition f_sign (x : float) : bool :=
  match Prim2SF x with S754_zero s | S754_infinity s | S754_finite s _ _ => s | S754_nan => false end.

Definition Zdigits2 (z : Z) : Z := Z.log2 (Z.abs z) + 1.

(* nearest double (ties to even) of the rational p/q, q > 0; overflow goes to infinity through ldexp *)
Definition q2f (p q : Z) : float :=
  if p =? 0 then zero else
  let s := p <? 0 in
  let p := Z.abs p in
  let e0 := Zdigits2 p - Zdigits2 q - 54 in
  let e0 := Z.max e0 (-1074 - 2) in
  let num := if e0 <? 0 then p * 2 ^ (- e0) else p in
  let den := if e0 <? 0 then q else q * 2 ^ e0 in
  let m := num / den in
  let sticky := negb (num mod den =? 0) in
  let d := Zdigits2 m in
  let shift := Z.max (d - 53) (-1074 - e0) in
  let shift := Z.max shift 0 in
  let m1 := Z.shiftr m shift in
  let rem := m - Z.shiftl m1 shift in
  let half := if shift =? 0 then 0 else Z.shiftl 1 (shift - 1) in
  let up := if shift =? 0 then false else
     (if rem >? half then true else if rem =? half then (sticky || Z.odd m1) else false) in
  let m2 := if up then m1 + 1 else m1 in
  let r := if (e0 + shift) >? 1100 then infinity
           else Z.ldexp (of_uint63 (Uint63.of_Z m2)) (e0 + shift) in
  if s then PrimFloat.opp r else r.

(* int -> float as CPython's int.__float__ (correct rounding; OverflowError is the caller's business) *)
Definition z2f (z : Z) : float := q2f z 1.

(* exact rational value of a finite double: (p, q) with q = 2^k > 0 *)
Definition f2q (x : float) : option (Z * Z) :=
  match f2me x with
  | Some (m, e) => Some (if e <? 0 then (m, 2 ^ (- e)) else (m * 2 ^ e, 1))
  | None => None
  end.

(* exact three-way comparison of an integer with a double (None when NaN) *)
Definition cmp_Z_f (z : Z) (x : float) : option comparison :=
  match Prim2SF x with
  | S754_nan => None
  | S754_infinity s => Some (if s then Gt else Lt)
  | S754_zero _ => Some (z ?= 0)
  | S754_finite s m e =>
      let mm := if s then Z.neg m else Z.pos m in
      Some (if e <? 0 then (z * 2 ^ (- e) ?= mm) else (z ?= mm * 2 ^ e))
  end.

Definition cmp_f_f (x y : float) : option comparison :=
  match PrimFloat.compare x y with
  | FEq => Some Eq | FLt => Some Lt | FGt => Some Gt | FNotComparable => None
  end.

(* truncation toward zero of a finite double *)
Definition f_trunc (x : float) : option Z :=
  match f2q x with
  | Some (p, q) => Some (Z.quot p q)
  | None => None
  end.
Definition f_floor (x : float) : option Z :=
  match f2q x with Some (p, q) => Some (p / q) | None => None end.
Definition f_ceil (x : float) : option Z :=
  match f2q x with Some (p, q) => Some (- ((- p) / q)) | None => None end.

(* int / int true division (y <> 0): correctly rounded quotient; 0 / negative is -0.0 as in CPython *)
Definition zdiv_f (x y : Z) : float :=
  if x =? 0 then (if y <? 0 then neg_zero else zero)
  else q2f (if y <? 0 then - x else x) (Z.abs y).
