(* Props/C09.v — Translation output depends only on the current workbook and settings.  Statements only.
   T is the translation proper (a deterministic function of path and entry cell), `safe` the safety verdict. *)
From Coq Require Import List Arith Bool.
Import ListNotations.
Require Import X2P.Model.Facade X2P.Proofs.FacadeProofs.

(* after ANY sequence of facade calls (set path, set/replace entry cell, enable/disable safety, get, write) every get/write
   returns exactly what a fresh parser configured with the settings in force would return — text or exception *)
Theorem C09_facade_refines_T : forall (path entry text : Type) (T : path -> option entry -> tres text) (safe : path -> bool) os,
  trace_ok path entry text T safe (pinit path entry text) os (snd (prun path entry text T safe (pinit path entry text) os)).
Proof. intros. apply facade_refines_T, pinit_inv. Qed.

(* repeated calls without a change return the identical result *)
Theorem C09_repeated_get_identical : forall (path entry text : Type) (T : path -> option entry -> tres text) (safe : path -> bool) s,
  PInv path entry text T safe s ->
  snd (pstep path entry text T safe (fst (pstep path entry text T safe s Get)) Get) = snd (pstep path entry text T safe s Get).
Proof. intros. apply get_get_same; assumption. Qed.

(* lazy initialisation of the recursive token-set tables: for EVERY interleaving of two translating threads, every table a
   thread obtains is the fully resolved one (attribute assignment is atomic under the GIL: one step each) *)
Theorem C09_lazy_init_any_schedule : forall (table : Type) (resolve : table -> table),
  (forall t, resolve (resolve t) = resolve t) -> forall tb0 sched,
  let '(sh, a, b) := srun table resolve ({| tbl := tb0; flag := false |}, t0 table, t0 table) sched in
  (forall t, ret a = Some t -> t = resolve tb0) /\ (forall t, ret b = Some t -> t = resolve tb0) /\
  (flag sh = true -> tbl sh = resolve tb0).
Proof. intros table resolve H tb0 sched. exact (lazy_init_any_schedule table resolve H tb0 sched). Qed.

Example C09_nonvacuous :
  let T := fun (p : nat) (e : option nat) => TOk (p * 10 + match e with Some c => c | None => 0 end) in
  let safe := fun p : nat => negb (Nat.eqb p 2) in
  snd (prun nat nat nat T safe (pinit nat nat nat) [SetPath 1; Get; SetEntry 3; Get; Get; Disable; SetPath 2; Get; Enable; Get]) =
  [PNone; PText (Some 10); PNone; PText (Some 13); PText (Some 13); PNone; PNone; PText (Some 23); PNone; PSafetyExc].
Proof. reflexivity. Qed.
