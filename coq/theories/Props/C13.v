(* Props/C13.v — IF / IFS / IFERROR choose the right branch and contain errors.  Statements only.
   ceval = big-step semantics of the code the translators emit (Model/Cond.v); xeval = Excel's lazy semantics (Spec/Cond.v). *)
Require Import X2P.Base.Prelude X2P.Base.PyCmp X2P.Base.PyArith X2P.Model.Cond X2P.Spec.Cond X2P.Proofs.CondProofs.
Open Scope Z_scope.

(* IF evaluates only the chosen branch: whatever sits in the other branch (a failing expression included) is irrelevant *)
Theorem C13_if_ignores_untaken_else : forall fr c t f f' cv,
  ceval fr c = Ok cv -> truthy cv = true -> ceval fr (If c t f) = ceval fr (If c t f').
Proof. exact if_true_ignores_else. Qed.
Theorem C13_if_ignores_untaken_then : forall fr c t t' f cv,
  ceval fr c = Ok cv -> truthy cv = false -> ceval fr (If c t f) = ceval fr (If c t' f).
Proof. exact if_false_ignores_then. Qed.
Theorem C13_if_value : forall fr c t f cv,
  ceval fr c = Ok cv ->
  ceval fr (If c t f) = if truthy cv then ceval fr t else match f with Some f => ceval fr f | None => Ok (VBool false) end.
Proof. exact if_value. Qed.

(* On the decidable fragment `good` (IFERROR fallbacks that do not raise, no "#NULL!" spelling issue, IFS arguments that are
   plain non-error scalars) the emitted code computes exactly Excel's lazy semantics — for every nesting depth, every position
   inside + - * / & comparisons and SUM, every leaf value. *)
Theorem C13_good_fragment_agrees : forall fr e, good fr e = true -> ceval fr e = xeval fr e.
Proof. exact good_agree. Qed.

(* refuted on the unchanged tree (known findings) *)
Theorem C13_refuted_iferror_eager_fallback : forall fr,
  ceval fr (IfError (Leaf (VInt 1)) (Bin (BArith ADiv) (Leaf (VInt 1)) (Leaf (VInt 0)))) = Exc ZeroDivisionError /\
  xeval fr (IfError (Leaf (VInt 1)) (Bin (BArith ADiv) (Leaf (VInt 1)) (Leaf (VInt 0)))) = Ok (VInt 1).
Proof. exact iferror_eager_fallback. Qed.
Theorem C13_refuted_null_spelling : forall fr,
  ceval fr (IfError (Leaf (VStr "#NULL!")) (Leaf (VInt 1))) = Ok (VStr "#NULL!") /\
  xeval fr (IfError (Leaf (VStr "#NULL!")) (Leaf (VInt 1))) = Ok (VInt 1).
Proof. exact iferror_null_spelling. Qed.
Theorem C13_refuted_ifs_not_lazy : forall fr,
  ceval fr (Ifs [Leaf (VBool true); Leaf (VInt 1); Leaf (VBool true); Bin (BArith ADiv) (Leaf (VInt 1)) (Leaf (VInt 0))]) = Exc ZeroDivisionError /\
  xeval fr (Ifs [Leaf (VBool true); Leaf (VInt 1); Leaf (VBool true); Bin (BArith ADiv) (Leaf (VInt 1)) (Leaf (VInt 0))]) = Ok (VInt 1).
Proof. exact ifs_not_lazy. Qed.

Example C13_nonvacuous :
  let fr := fun _ : float => ""%string in
  let e := Bin (BArith AAdd)
             (If (Leaf (VInt 0)) (Bin (BArith ADiv) (Leaf (VInt 1)) (Leaf (VInt 0)))
                 (Some (IfError (Bin (BArith ADiv) (Leaf (VInt 1)) (Leaf (VInt 0))) (Leaf (VInt 7)))))
             (Ifs [Leaf (VBool false); Leaf (VInt 1); Leaf (VInt 5); Leaf (VInt 2)]) in
  good fr e = true /\ ceval fr e = Ok (VInt 9).
Proof. split; reflexivity. Qed.
