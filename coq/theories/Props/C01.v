(* Props/C01.v — Formula operators keep their Excel meaning.  Statements only. *)
Require Import X2P.Base.Prelude X2P.Base.F64 X2P.Base.PyCmp X2P.Base.PyNum X2P.Base.PyArith.
Require Import X2P.Model.Peg X2P.Model.Emit X2P.Gen.Grammar X2P.Spec.Formula X2P.Spec.Shape X2P.Corr.C01.
Require Import X2P.Proofs.FormulaSweep X2P.Proofs.FormulaSweep7 X2P.Proofs.FormulaProofs X2P.Proofs.FormulaRefute X2P.Proofs.FormulaCore X2P.Proofs.FormulaGrammar X2P.Proofs.FormulaAccepts X2P.Proofs.FormulaSpecGrammar.
Open Scope string_scope.

(* the precedence / associativity table, kernel-exhaustive: for EVERY sequence of 1..7 tokens over {atom + - * / & < % ( )} that Excel
   reads as a formula (xparse: % > sign > * / > + - > & > comparisons, left-associative), the translator (token-set parser over the
   regenerated grammar table, emitter, Python's own grouping of the emitted text) groups it as Excel does — or the sequence lies in one
   of the three listed defect classes of the emitter, or is rejected because of the two percent forms.  Bound: length 7 (11 111 110
   sequences; 1062 formulas of length 6, 4643 of length 7). *)
Theorem C01_precedence_table_le7_partial : forall ids xe,
  (1 <= List.length ids <= 7)%nat -> Forall (fun a => In a ALPHA) ids ->
  xparse (toks_of ids) = Some xe ->
  match translate_tokens (toks_of ids) with
  | TOk pe => same_grouping xe pe = true \/ grouping_class (toks_of ids) <> "-"
  | TRejected => percent_form (map kind_of (toks_of ids)) = true
  | _ => False
  end.
Proof. exact precedence_table7. Qed.
Theorem C01_table_inhabited :
  List.length (filter grouped_right (seqs 6)) = 565%nat /\
  List.length (filter (fun s => match xparse (toks_of s) with Some _ => true | None => false end) (seqs 6)) = 1062%nat.
Proof. exact sweep_counts. Qed.

(* UNBOUNDED: for every expression tree built from operands (literals, same-sheet cell references), parentheses and binary + - * / — of
   any size and nesting depth — the emitted text, read as a flat token string, IS the token string of the formula (atoms translated,
   every operator and bracket where it was).  With C05_whole_or_reject (yield t = the formula's tokens) Python is given exactly the
   string Excel reads; that Python's and Excel's grammars group such a string alike is the sweep above restricted to + - * /. *)
Theorem C01_core_emit_identity : forall fuel fc t c,
  core fc t = true -> emit fuel t = EOk c -> flat c = map view_tok (yield t).
Proof. exact core_emit_identity. Qed.
(* non-vacuity: the tree of =(1+2)*3-4/(5-6) is core and is emitted *)
Theorem C01_core_inhabited :
  match tokens_of "=(1+2)*3-4/(5-6)" with
  | Some (Some ts) =>
      match ast_builder grammar_table is_cc N_ExpressionToken PARSE_FUEL ts with
      | AOk t => core 50 t && match emit 200 t with EOk _ => true | _ => false end
      | _ => false end
  | _ => false end = true.
Proof. exact core_example. Qed.

(* COMPLETENESS for the core fragment (unbounded): every well-formed expression over literal atoms, brackets and binary + - * / — any
   length, any nesting — printed as a token list, is accepted by AstBuilder over the regenerated grammar table (every token consumed,
   for all sufficiently large recursion limits), and the tree it builds is a core tree: the two theorems above and below apply to it *)
Theorem C01_core_formula_accepted : forall e, wf_expr e = true ->
  exists f0, forall f, (f0 <= f)%nat ->
    ast_builder grammar_table is_cc N_ExpressionToken f (pr_expr e) = AOk (tree_expr e) /\ core (S (size_expr e)) (tree_expr e) = true.
Proof. exact core_formula_accepted. Qed.

(* UNBOUNDED GROUPING THEOREM: for every core tree — any size, any nesting depth — Python's reading of the emitted text (regroup, on the
   structured text with nested bracket groups) builds exactly the tree that the standard precedence grammar G (unary sign > * / > + -,
   left-associative, brackets; Proofs/FormulaGrammar.v) builds on the formula's own token string.  Proof: core_emit_identity plus a
   simulation between the two readers for every fuel. *)
Theorem C01_core_grouping : forall fuel fc t c pe,
  core fc t = true -> emit fuel t = EOk c -> regroup c = Some pe ->
  exists F g, g_sum F (map view_tok (yield t)) = Some (g, []) /\ py_of_gt g = pe.
Proof. exact core_grouping. Qed.
(* that G is Excel's reading (the independent reader xparse of Spec/Formula.v) on such strings: kernel-exhaustive for all strings of
   length <= 7 over {atom + - * / ( )} — a fact about the two grammars only, independent of the translator *)
Theorem C01_grammars_agree_le7 : forall ids,
  (1 <= List.length ids <= 7)%nat -> Forall (fun a => In a CORE_ALPHA) ids -> grammars_agree ids = true.
Proof. exact grammars_agree_all. Qed.
(* ... and WITHOUT a bound: on every string of core tokens (atoms, + - * /, brackets) — any length, any nesting — G and the Excel-side
   reader x_cmp of Spec/Formula.v build the same tree (rel: same shape, every sign and operator in place, each atom read from the same
   token), for every fuel the reader may be given beyond 5 * (G's fuel) + 1.  Simulation by induction on G's fuel
   (Proofs/FormulaSpecGrammar.v). *)
Theorem C01_grammar_is_spec_reader : forall f l g, ctoks l -> g_sum f (map view_tok l) = Some (g, []) ->
  exists x, rel g x /\ forall F, (5 * f + 1 <= F)%nat -> x_cmp F l = Some (x, []).
Proof. exact grammar_is_spec_reader. Qed.
(* THE GROUPING THEOREM against the specification itself (unbounded): for every core tree the translator accepts, Python's reading of
   the emitted text (regroup) and Excel's reading of the formula (xparse, at the fuel the specification gives it) are the same tree *)
Theorem C01_core_excel_reading : forall fuel fc t c pe,
  core fc t = true -> emit fuel t = EOk c -> regroup c = Some pe ->
  exists g x, py_of_gt g = pe /\ rel g x /\ xparse (yield t) = Some x.
Proof. exact core_excel_reading. Qed.

(* a blank operand counts as 0: it behaves exactly as the integer 0 under + - * / and the unary signs, on either side, against EVERY value *)
Theorem C01_blank_is_zero : forall o y,
  py_arith o VEmpty y = py_arith o (VInt 0) y /\ py_arith o y VEmpty = py_arith o y (VInt 0) /\
  py_neg VEmpty = py_neg (VInt 0) /\ py_pos VEmpty = py_pos (VInt 0).
Proof. exact blank_is_zero. Qed.

(* on doubles the emitted operators are Excel's: the same IEEE operation on the same operands, for ALL doubles *)
Theorem C01_float_arith_same : forall o f g v, x_arith o (VFloat f) (VFloat g) = XVal v -> py_arith o (VFloat f) (VFloat g) = Ok v.
Proof. exact float_arith_same. Qed.
(* integers: the grid [-12,12] + {100, 1000, 2^26, -94906265} squared, four operators: Python's exact integers / true division agree with
   Excel's doubles (division by zero: the listed finding) *)
Theorem C01_int_arith_grid : forall o x y, In o OPS -> In x GRID -> In y GRID -> int_ok o x y = true.
Proof. exact int_arith_grid. Qed.

(* a numeric literal with a fraction or a negative exponent denotes q2f of its exact decimal value — the correctly rounded double — for
   EVERY digit strings I, F, E (after fix F15); integer literals I and IeE on the grid I < 2000, E in {0,1,2,3,5,9} *)
Theorem C01_literal_fraction_nearest : forall t,
  String.eqb (grp t 2) "" = false ->
  (String.eqb (grp t 5) "" = false \/ (String.eqb (grp t 7) "" = false /\ (signed_Z (grp t 7) < 0)%Z)) ->
  let '(p, q) := literal_rational (grp t 2) (grp t 5) (grp t 7) in
  literal_value t = Some (VFloat (q2f p q)).
Proof. exact literal_fraction_nearest. Qed.
Theorem C01_int_literal_grid :
  forallb (fun i => forallb (fun e => int_literal_ok i e) [0; 1; 2; 3; 5; 9]%Z) (map Z.of_nat (List.seq 0 2000)) = true.
Proof. exact int_literal_grid. Qed.

(* what holds, through the whole modelled path, on examples *)
Theorem C01_holds_examples :
  model_value "=1+2*3" = Ok (VInt 7) /\ excel_value "=1+2*3" = XVal (VFloat 7) /\
  model_value "=8-4-2" = Ok (VInt 2) /\ model_value "=8/4/2" = Ok (VFloat 1) /\ model_value "=-2*3" = Ok (VInt (-6)) /\
  model_value "=(1+2)*3" = Ok (VInt 9) /\ model_value "=1<2+3" = Ok (VBool true) /\ model_value "=E2+1" = Ok (VInt 1) /\
  model_value "=3e-1" = Ok (VFloat 0.3) /\ model_value "=10%" = Ok (VFloat 0.1).
Proof. exact holds_examples. Qed.

(* refuted on the unchanged tree (known findings), each with a kernel-computed witness *)
Theorem C01_refuted_unary_sign :
  model_value "=-1+2" = Ok (VInt (-3)) /\ excel_value "=-1+2" = XVal (VFloat 1) /\
  model_value "=2*-3+1" = Ok (VInt (-8)) /\ excel_value "=2*-3+1" = XVal (VFloat (-5)).
Proof. exact refuted_unary_sign. Qed.
Theorem C01_refuted_cmp_amp_left :
  model_value "=1+2<3" = Ok (VInt 2) /\ excel_value "=1+2<3" = XVal (VBool false) /\
  model_value "=1+2&3" = Exc TypeError /\ excel_value "=1+2&3" = XVal (VStr "33").
Proof. exact refuted_cmp_amp_left. Qed.
Theorem C01_refuted_percent_then_operator :
  model_value "=50%-1-2" = Ok (VFloat 1.5) /\ excel_value "=50%-1-2" = XVal (VFloat (-2.5)) /\
  model_value "=8/50%*2" = Ok (VFloat 8) /\ excel_value "=8/50%*2" = XVal (VFloat 32).
Proof. exact refuted_percent_then_operator. Qed.
Theorem C01_refuted_percent_forms :
  model_value "=1%%" = Exc E2PyclParser /\ excel_value "=1%%" = XVal (VFloat 0.0001) /\
  model_value "=(2)%" = Exc E2PyclParser /\ excel_value "=(2)%" = XVal (VFloat 0.02).
Proof. exact refuted_percent_forms. Qed.
Theorem C01_refuted_text_forms :
  model_value "=8/4&""""" = Exc TypeError /\ model_value "=(8/4)&""""" = Ok (VStr "2.0") /\ excel_value "=(8/4)&""""" = XVal (VStr "2") /\
  model_value "=TRUE&""""" = Ok (VStr "True") /\ excel_value "=TRUE&""""" = XVal (VStr "TRUE") /\
  model_value "=E2&""x""" = Ok (VStr "0x") /\ excel_value "=E2&""x""" = XVal (VStr "x").
Proof. exact refuted_text_forms. Qed.
Theorem C01_refuted_text_arith_and_errors :
  model_value "=""3""+1" = Exc TypeError /\ excel_value "=""3""+1" = XVal (VFloat 4) /\
  model_value "=C2+1" = Exc TypeError /\ excel_value "=C2+1" = XErr "#VALUE!" /\
  model_value "=1/0" = Exc ZeroDivisionError /\ excel_value "=1/0" = XErr "#DIV/0!" /\
  model_value "=+(1<2)" = Ok (VInt 1) /\ excel_value "=+(1<2)" = XVal (VBool true).
Proof. exact refuted_text_arith_and_errors. Qed.
Theorem C01_refuted_percent_normalised :
  model_value "=1.1%" = Ok (VFloat 0.011) /\ excel_value "=1.1%" = XVal (VFloat 0.011000000000000001).
Proof. exact refuted_percent_normalised. Qed.
