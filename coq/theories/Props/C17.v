(* Props/C17.v — Text functions obey the substring algebra.  Statements only. *)
Require Import X2P.Base.Prelude X2P.Base.Str X2P.Model.Text X2P.Spec.Text X2P.Proofs.TextProofs.
Open Scope Z_scope.

Theorem C17_left_firstn : forall t n, t <> ""%string -> 0 <= n ->
  left t (Some n) = Ok (VStr (string_of_list (firstn (Z.to_nat n) (chars t)))).
Proof. exact left_firstn. Qed.
Theorem C17_right_lastn : forall t n, t <> ""%string -> 0 <= n ->
  right t (Some n) = Ok (VStr (string_of_list (skipn (List.length (chars t) - Z.to_nat n) (chars t)))).
Proof. exact right_lastn. Qed.
Theorem C17_mid_slice : forall t k n, 1 <= k <= slen t -> 0 <= n ->
  mid t k n = Ok (VStr (string_of_list (firstn (Z.to_nat n) (skipn (Z.to_nat (k - 1)) (chars t))))).
Proof. exact mid_slice. Qed.
Theorem C17_errors : forall t n k,
  (n < 0 -> left t (Some n) = Ok ERROR /\ right t (Some n) = Ok ERROR) /\
  (k < 1 -> mid t k n = Ok (VStr "#NUM!")) /\
  (1 <= k -> n < 0 -> mid t k n = Ok VALUE_ERR).
Proof. exact left_right_mid_errors. Qed.
(* for 0 <= n < length, LEFT(t,n) & MID(t,n+1,length) rebuilds t *)
Theorem C17_left_mid_rebuild : forall t n, 0 <= n < slen t ->
  exists a b, left t (Some n) = Ok (VStr a) /\ mid t (n + 1) (slen t) = Ok (VStr b) /\ (a ++ b)%string = t.
Proof. exact left_mid_rebuild. Qed.

(* SEARCH, kernel-exhaustive: every find text of length <= 3 over {a,B,?,*,~,.}, six within-texts, starts 1,2,3,5:
   outside the listed defect classes the model returns the least case-insensitive wildcard occurrence >= start,
   or #VALUE! exactly when there is none / the start is out of range. *)
Theorem C17_search_small_partial : forall f w s,
  In f pats -> In w withins -> In s starts -> search_class f w s = "-"%string -> search_ok f w s = true.
Proof. exact search_small. Qed.

(* refuted on the unchanged tree *)
Theorem C17_refuted_empty_text_is_blank : left "" (Some 1) = Ok VEmpty /\ mid "abc" 5 1 = Ok VEmpty.
Proof. exact empty_text_is_blank. Qed.

Example C17_nonvacuous :
  left "Hello" (Some 2) = Ok (VStr "He") /\ right "Hello" (Some 9) = Ok (VStr "Hello") /\
  mid "Hello" 2 3 = Ok (VStr "ell") /\ search "b?" "abcabd" (Some 1) = Ok (VInt 2) /\
  In "a?"%string pats /\ search_class "a?" "abab" 1 = "-"%string.
Proof. repeat split; try reflexivity. vm_compute. tauto. Qed.
