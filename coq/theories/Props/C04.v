(* Props/C04.v — Overrides mean edit-the-cell-and-recalculate; the last write wins.  Statements only. *)
From Coq Require Import List Arith Bool.
Require Import X2P.Base.Prelude X2P.Model.Executor X2P.Model.Graph X2P.Proofs.ExecProofs X2P.Proofs.GraphProofs.

(* After ANY sequence of set-cells calls interleaved with queries (single cell, list, whole sheet; failed calls included),
   every query is answered against the map "uid -> most recently supplied constant": the Executor refines the abstract
   last-write-wins map, from the initial state, for all histories. *)
Theorem C04_last_write_wins : forall ts sizes os,
  Forall2 obs (snd (run (init ts sizes) os)) (spec_trace (init ts sizes) (fun _ => None) os).
Proof. intros ts sizes os. apply executor_refines_map, init_inv. Qed.

Theorem C04_refinement_from_any_consistent_state : forall os s m,
  Inv s m -> Forall2 obs (snd (run s os)) (spec_trace s m os).
Proof. exact executor_refines_map. Qed.

(* What the generated class does with that map: evaluating with overrides = evaluating, WITHOUT overrides, the workbook in
   which every overridden cell has been replaced by the supplied constant (its formula and its errors are gone; blank and
   out-of-range cells may be overridden; cells not overridden keep their meaning) — for every dependency structure,
   every evaluation depth, every override map. *)
Theorem C04_override_is_edit : forall (V : Type) (blank out_of_fuel : V) (deps : nat -> list nat) (den : nat -> (nat -> V) -> V),
  (forall c r1 r2, (forall d, In d (deps c) -> r1 d = r2 d) -> den c r1 = den c r2) ->
  forall S args fuel c,
  eval V blank out_of_fuel den S args fuel c = eval_edited V blank out_of_fuel den S args fuel c.
Proof. intros V b o deps den H. exact (override_is_edit V b o deps den H). Qed.

Example C04_nonvacuous :
  let ts := [("S"%string, 0%Z)] in
  let a := {| a_t := TName "S"; a_c := CLetters "B"; a_r := RDigits "3" |} in
  let n := {| a_t := TIdx 0; a_c := CIdx 1; a_r := RIdx 2 |} in
  snd (run (init ts [(3, 3)%Z]) [SetCells [(a, VInt 1)]; Get n; SetCells [(n, VInt 2); (a, VInt 5)]; Get a]) =
  [ONone; OQueries ["_0_1_2"%string] [("_0_1_2"%string, VInt 1)]; ONone; OQueries ["_0_1_2"%string] [("_0_1_2"%string, VInt 5)]].
Proof. reflexivity. Qed.
