(* Props/C08.v — Evaluation is pure and repeatable; all query APIs agree.  Statements only. *)
From Coq Require Import List Arith Bool ZArith.
Require Import X2P.Base.Prelude X2P.Base.PyNum X2P.Model.Executor X2P.Proofs.ExecProofs.
Open Scope Z_scope.

(* a query (get_cell / get_cells / get_sheet, any addressing) never changes the overrides, the titles or the reported sizes,
   and leaves the abstract override map untouched *)
Theorem C08_queries_preserve_state : forall s o, is_query o = true ->
  s_cells (fst (step s o)) = s_cells s /\ s_sizes (fst (step s o)) = s_sizes s /\ s_titles (fst (step s o)) = s_titles s /\
  forall m, spec_step s m o = m.
Proof. exact queries_preserve_state. Qed.

(* any number of queries in any order: the state relevant to later answers is the same as before them *)
Theorem C08_queries_do_not_disturb : forall qs s m, Inv s m -> all_queries qs = true ->
  let s' := fst (run s qs) in
  Inv s' m /\ s_cells s' = s_cells s /\ s_sizes s' = s_sizes s /\ s_titles s' = s_titles s.
Proof. exact queries_do_not_disturb. Qed.

(* every query — whatever came before — is answered against the same abstract map (C04's refinement), so the answer depends only
   on the class, the uid and the overrides in force *)
Theorem C08_answers_depend_only_on_overrides : forall os s m,
  Inv s m -> Forall2 obs (snd (run s os)) (spec_trace s m os).
Proof. exact executor_refines_map. Qed.

(* the whole-sheet grid: exactly last_row x last_column coordinates, and exactly the uids single-cell queries ask *)
Theorem C08_sheet_grid_size : forall t lr lc, 0 <= lr -> 0 <= lc -> Z.of_nat (List.length (sheet_uids t lr lc)) = lr * lc.
Proof. exact sheet_uids_length. Qed.
Theorem C08_sheet_grid_members : forall t lr lc u,
  In u (sheet_uids t lr lc) <-> exists r c, 0 <= r < lr /\ 0 <= c < lc /\ u = uid_of t c (Some r).
Proof. exact sheet_uids_in. Qed.
Theorem C08_single_cell_query : forall s t c r,
  snd (step s (Get {| a_t := TIdx t; a_c := CIdx c; a_r := RIdx r |})) = OQueries [uid_of t c (Some r)] (s_args (flush s)).
Proof. exact single_cell_query_uid. Qed.

(* numeric and A1-style / sheet-title addressing name the same cell (rows are 1-based in A1 style: row 0 is rejected) *)
Theorem C08_addressing_agree : forall ts n i l k d z,
  title_index ts n = Ok i -> column_index_from_string l = Ok k -> d <> ""%string -> int_of_string d = Ok z -> (1 <= z)%Z ->
  handle ts {| a_t := TName n; a_c := CLetters l; a_r := RDigits d |} =
  handle ts {| a_t := TIdx i; a_c := CIdx (k - 1); a_r := RIdx (z - 1) |}.
Proof. exact addressing_agree. Qed.

(* sizes: set_cells only grows the reported sizes (used range extended by the overrides), never changes their number *)
Theorem C08_sizes_monotone : forall ts l sizes acc sizes' r,
  set_loop ts l sizes acc = (sizes', r) ->
  List.length sizes' = List.length sizes /\ Forall2 size_le sizes sizes'.
Proof. exact set_loop_sizes. Qed.

Example C08_nonvacuous :
  sheet_uids 0 2 2 = ["_0_0_0"; "_0_1_0"; "_0_0_1"; "_0_1_1"]%string /\
  column_index_from_string "ab" = Ok 28 /\ int_of_string "10" = Ok 10.
Proof. repeat split; reflexivity. Qed.
