(* Props/C15.v — Date functions follow the Gregorian calendar exactly.  Statements only. *)
Require Import X2P.Base.Prelude X2P.Base.Calendar X2P.Model.Dates X2P.Spec.Dates.
Require Import X2P.Proofs.CalendarProofs X2P.Proofs.DatesProofs.
Open Scope Z_scope.

(* The calendar itself: CPython's ordinal <-> (year, month, day) maps are mutually inverse on EVERY day from
   0001-01-01 on (unbounded: 400-year periodicity by lia + one complete 146097-day cycle swept in the kernel). *)
Theorem C15_calendar_right_inverse : forall n, 1 <= n ->
  let '(y, m, d) := ymd_of_ord n in ord_of_ymd y m d = n /\ 1 <= y /\ 1 <= m <= 12 /\ 1 <= d <= dim y m.
Proof. exact ord_of_ymd_of_ord. Qed.
Theorem C15_calendar_left_inverse : forall y m d, valid y m d -> ymd_of_ord (ord_of_ymd y m d) = (y, m, d).
Proof. exact ymd_of_ord_of_ymd. Qed.

(* dateutil's relativedelta month arithmetic = floor division on the month count, for every integer offset *)
Theorem C15_month_arithmetic : forall y m d k, 1 <= m <= 12 ->
  rd_add_months y m d k =
  let t := y * 12 + (m - 1) + k in
  let y' := t / 12 in let m' := t mod 12 + 1 in
  if (y' <? 1) || (9999 <? y') then Exc ValueError else Ok (y', m', Z.min (dim y' m') d).
Proof. exact rd_add_months_spec. Qed.

(* DATE(y,m,d) = 1 January of y + (m-1) months + (d-1) days, for every integer month and day *)
Theorem C15_date : forall y m d, 1900 <= y <= 9999 ->
  let t := y * 12 + (m - 1) in
  1 <= t / 12 <= 9999 -> ord_in_range (xl_date_ord y m d) = true ->
  date y m d = Ok (VDT (xl_date_ord y m d) 0).
Proof. exact date_spec. Qed.
(* ... and YEAR, MONTH, DAY invert it *)
Theorem C15_year_month_day_invert_date : forall y m d,
  1900 <= y <= 9999 -> 1 <= m <= 12 -> 1 <= d <= dim y m ->
  exists o, date y m d = Ok (VDT o 0) /\
            year_of (VDT o 0) = Ok (VInt y) /\ month_of (VDT o 0) = Ok (VInt m) /\ day_of (VDT o 0) = Ok (VInt d).
Proof. exact date_ymd_invert. Qed.

Theorem C15_edate : forall o us k y m d, ymd_of_ord o = (y, m, d) -> 1 <= o ->
  let '(y', m', d') := xl_edate y m d k in
  1 <= y' <= 9999 -> edate (VDT o us) (VInt k) = Ok (VDT (ord_of_ymd y' m' d') us).
Proof. exact edate_spec. Qed.
Theorem C15_eomonth : forall o us k y m d, ymd_of_ord o = (y, m, d) -> 1 <= o ->
  let '(y', m', d') := xl_eomonth y m k in
  1 <= y' <= 9999 -> eomonth (VDT o us) (VInt k) = Ok (VDT (ord_of_ymd y' m' d') 0).
Proof. exact eomonth_spec. Qed.

Theorem C15_datedif_D_M_YM : forall o1 o2 y1 m1 d1 y2 m2 d2,
  ymd_of_ord o1 = (y1, m1, d1) -> ymd_of_ord o2 = (y2, m2, d2) -> o1 <= o2 ->
  datedif (VDT o1 0) (VDT o2 0) "D" = Ok (VInt (o2 - o1)) /\
  datedif (VDT o1 0) (VDT o2 0) "M" = Ok (VInt (xl_months y1 m1 d1 y2 m2 d2)) /\
  datedif (VDT o1 0) (VDT o2 0) "YM" = Ok (VInt (xl_months y1 m1 d1 y2 m2 d2 mod 12)).
Proof. exact datedif_units. Qed.

(* NETWORKDAYS = number of Monday..Friday dates of the inclusive interval that are not holidays, negated when reversed *)
Theorem C15_networkdays : forall o1 u1 o2 u2 h,
  network_days (VDT o1 u1) (VDT o2 u2) h =
  Ok (VInt (if o1 <=? o2 then workdays o1 o2 (holiday_ords h) else - workdays o2 o1 (holiday_ords h))).
Proof. exact network_days_spec. Qed.
Theorem C15_weekday : weekday 1 = 0 /\ (forall n, weekday (n + 1) = (weekday n + 1) mod 7).
Proof. exact (conj weekday_anchor weekday_step). Qed.

(* refuted on the unchanged tree *)
Theorem C15_refuted_datedif_Y :
  datedif (VDT (ord_of_ymd 2020 3 1) 0) (VDT (ord_of_ymd 2024 2 29) 0) "Y" = Ok (VInt 4) /\
  xl_months 2020 3 1 2024 2 29 / 12 = 3.
Proof. exact datedif_Y_wrong. Qed.

Example C15_nonvacuous :
  date 2022 5 (-2) = Ok (VDT (ord_of_ymd 2022 4 28) 0) /\ date 2021 14 31 = Ok (VDT (ord_of_ymd 2022 3 3) 0) /\
  valid 2024 2 29 /\ ymd_of_ord 738000 = (2021, 7, 29) /\
  edate (VDT (ord_of_ymd 2023 1 31) 0) (VInt 1) = Ok (VDT (ord_of_ymd 2023 2 28) 0).
Proof. unfold valid. repeat split; try reflexivity; try (vm_compute; reflexivity); vm_compute; intros; discriminate. Qed.
