(* Props/C07.v — Workbook text never becomes executable code.  Statements only. *)
Require Import X2P.Base.Prelude X2P.Base.Str X2P.Base.PyRepr X2P.Model.Taint X2P.Proofs.ReprProofs X2P.Proofs.TaintProofs.
Open Scope string_scope.

(* repr(text) is, for EVERY byte string (quotes, backslashes, newlines, control characters, Python expressions), exactly one Python
   string literal that denotes the original text; what follows it in the module is read after it *)
Theorem C07_repr_is_one_inert_literal : forall l rest, read_string_literal (py_repr_l l ++ rest) = Some (l, rest).
Proof. exact repr_roundtrip. Qed.

(* constant text cells and sheet titles are emitted through repr: inert and equal to the original, for every text *)
Theorem C07_constant_inert : forall text, denotes (emit_constant text) = Some text.
Proof. exact constant_inert. Qed.
Theorem C07_constant_confined : forall text rest,
  read_string_literal (list_of_string (emit_constant text) ++ rest) = Some (list_of_string text, rest).
Proof. exact constant_confined. Qed.

(* a cell  ="<text>"  for EVERY text: whatever the lexer (regenerated regexes) makes of it, the emitted code is one string literal or the
   template call self._regexp( one string literal ), and the literal denotes the payload the token carried *)
Theorem C07_formula_text_inert : forall text c, code_of (emit_text_formula text) = Some c -> exists w, inert_code c = Some w.
Proof. exact formula_text_inert. Qed.
Theorem C07_emitted_code_inert : forall f c, code_of f = Some c -> exists w, inert_code c = Some w /\ (f = FLit w \/ f = FPat w).
Proof. exact emitted_code_inert. Qed.

(* hostile examples through the real lexer regexes, computed by the kernel *)
Theorem C07_literal_examples :
  emit_text_formula "it's" = FLit "it's" /\
  emit_text_formula "'+zzcanary(1)+'" = FLit "'+zzcanary(1)+'" /\
  emit_text_formula "a\b" = FLit "a\b" /\
  emit_text_formula "what?" = FPat "what?" /\
  emit_text_formula "a?""&""b" = FPat "a?""&""b".
Proof. exact literal_examples. Qed.

(* regression witness for fix F14: splicing the pattern between its own double quotes is not inert, repr is *)
Theorem C07_verbatim_splice_not_inert :
  inert_code (REGEXP_OPEN ++ """" ++ PAYLOAD ++ """" ++ ")") = None /\
  emit_text_formula PAYLOAD = FPat PAYLOAD /\
  inert_code (REGEXP_OPEN ++ py_repr PAYLOAD ++ ")") = Some PAYLOAD.
Proof. exact verbatim_splice_not_inert. Qed.
