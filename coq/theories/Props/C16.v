(* Props/C16.v — Rounding and percent are decimal-exact.  Statements only.
   Float rounding is decided on a finite decimal grid swept INSIDE the kernel (the bound is part of each statement):
   sign x integer part in {0,1,2,7,12,99,100,1234} x up to 2 fractional digits, digit counts -3..6. *)
Require Import X2P.Base.Prelude X2P.Base.F64 X2P.Model.Round X2P.Spec.Round X2P.Corr.C16 X2P.Proofs.RoundProofs.
Open Scope Z_scope.

(* ROUND: for every grid decimal that is not an exact tie at the requested position, the result is the double
   nearest to the half-away-from-zero decimal result *)
Theorem C16_round_grid_partial : forall d n, In d grid -> In n digit_counts ->
  is_tie d n = false -> agrees (model FRound (num_of d) n) (spec FRound d n) = true.
Proof. intros d n Hd Hn Ht. pose proof (round_grid d n Hd Hn) as H. unfold round_ok in H. rewrite Ht in H. exact H. Qed.

(* ROUNDUP / ROUNDDOWN: for every positive grid decimal that has digits beyond the requested position *)
Theorem C16_roundup_grid_partial : forall d n, In d grid_pos -> In n digit_counts ->
  needs_rounding d n = true -> agrees (model FUp (num_of d) n) (spec FUp d n) = true.
Proof. intros d n Hd Hn Ht. pose proof (up_grid d n Hd Hn) as H. unfold up_ok in H. rewrite Ht in H. exact H. Qed.
Theorem C16_rounddown_grid_partial : forall d n, In d grid_pos -> In n digit_counts ->
  needs_rounding d n = true -> agrees (model FDown (num_of d) n) (spec FDown d n) = true.
Proof. intros d n Hd Hn Ht. pose proof (down_grid d n Hd Hn) as H. unfold down_ok in H. rewrite Ht in H. exact H. Qed.

(* x% = x/100 to 15 significant digits: every grid decimal, both signs *)
Theorem C16_percent_grid : forall d, In d grid -> agrees (model FPercent (num_of d) 0) (spec FPercent d 0) = true.
Proof. exact percent_grid. Qed.

Theorem C16_round_int_identity : forall z n, 0 <= n -> rt_round (VInt z) (VInt n) = Ok (VInt z).
Proof. exact round_int_identity. Qed.

(* refuted on the unchanged tree (known findings) *)
Theorem C16_refuted_round_ties :
  agrees (model FRound (num_of (D false 5 1)) 0) (spec FRound (D false 5 1) 0) = false /\
  agrees (model FRound (num_of (D false 2675 3)) 2) (spec FRound (D false 2675 3) 2) = false.
Proof. exact round_tie_wrong. Qed.
Theorem C16_refuted_rounddown_negative :
  agrees (model FDown (num_of (D true 115 2)) 1) (spec FDown (D true 115 2) 1) = false.
Proof. exact rounddown_negative_wrong. Qed.
Theorem C16_refuted_roundup_representable :
  agrees (model FUp (num_of (D false 7 2)) 2) (spec FUp (D false 7 2) 2) = false.
Proof. exact roundup_representable_wrong. Qed.

Example C16_nonvacuous :
  In (D false 1234 2) grid /\ In 1 digit_counts /\ is_tie (D false 1234 2) 1 = false /\ needs_rounding (D false 1234 2) 1 = true /\
  model FRound (num_of (D false 1234 2)) 1 = Ok (VFloat 12.3) /\ model FUp (num_of (D false 1234 2)) 1 = Ok (VFloat 12.4).
Proof. repeat split; vm_compute; tauto. Qed.
