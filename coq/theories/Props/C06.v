(* Props/C06.v — Translation is total: a loadable Python class or a library exception.  Statements only. *)
Require Import X2P.Base.Prelude X2P.Base.PyNum X2P.Base.Str X2P.Base.PyRepr.
Require Import X2P.Model.Peg X2P.Model.Executor X2P.Model.Emit X2P.Model.Assemble X2P.Gen.Grammar X2P.Gen.Template.
Require Import X2P.Proofs.PegProofs X2P.Proofs.FormulaSweep X2P.Proofs.AssembleProofs X2P.Proofs.ReprProofs.
Open Scope string_scope.

(* the module text is the template (regenerated from Context.__class_template on every run) with the three arguments inserted once and
   verbatim, for EVERY methods text, titles text and sizes text: str.format never interprets the generated code *)
Theorem C06_class_text_shape :
  exists l0 l1 l2 l3, forall F T S,
    format_str class_template (args_of [("functions", F); ("titles", T); ("sheets_size", S)]) = Some (l0 ++ T ++ l1 ++ S ++ l2 ++ F ++ l3)%list.
Proof. exact class_text_shape. Qed.
Theorem C06_function_text_shape : forall name code,
  format_str function_template (args_of [("name", name); ("code", code)]) =
  Some (list_of_string "    def " ++ name ++ list_of_string ("(self):" ++ String (ascii_of_N 10) "        return ") ++ code)%list.
Proof. exact function_text_shape. Qed.
(* the assembly functions of the current source have the modelled shape (one .format call each, no replace / % / concatenation / f-string) *)
Theorem C06_assembly_as_modelled : build_class_ok = true.
Proof. exact build_class_shape. Qed.

(* every member name is a Python identifier: for ALL sheet, column, row and sub-cell numbers *)
Theorem C06_uid_is_identifier : forall t c r, (0 <= t)%Z -> (0 <= c)%Z -> (0 <= r)%Z ->
  is_identifier (uid_of t c (Some r)) = true /\ is_identifier (uid_of t c None) = true.
Proof. exact uid_is_identifier. Qed.
Theorem C06_sub_uid_is_identifier : forall t c r n, (0 <= t)%Z -> (0 <= c)%Z -> (0 <= r)%Z -> (0 <= n)%Z ->
  is_identifier (uid_of t c (Some r) ++ "_" ++ str_of_Z n) = true.
Proof. exact sub_uid_is_identifier. Qed.

(* a text constant is one string literal (C07) that contains no line break: it cannot end the "return" line of its member *)
Theorem C06_repr_one_line : forall l, forallb not_nl (py_repr_l l) = true.
Proof. exact repr_no_newline. Qed.
Theorem C06_repr_loadable : forall l rest, read_string_literal (py_repr_l l ++ rest) = Some (l, rest).
Proof. exact repr_roundtrip. Qed.

(* the parser either builds a tree of the whole formula or rejects: every other outcome of the token-set interpreter (no alternative,
   unconsumed rest, control-construction error) is the parser exception, for any table, fuel and token list *)
Theorem C06_parse_outcomes : forall g is_cc entry fuel toks,
  match ast_builder g is_cc entry fuel toks with
  | AOk t => yield t = toks
  | AReject | AFuel => True
  end.
Proof.
  intros g is_cc entry fuel toks. destruct (ast_builder g is_cc entry fuel toks) eqn:E; [|exact I|exact I].
  exact (whole_or_reject g is_cc entry fuel toks t E).
Qed.

(* kernel-exhaustive: every token sequence of length <= 4 over {atom + - * / & < % ( )} is rejected or emitted as text that Python reads
   as one expression (no juxtaposed operands, no dangling operator) *)
Theorem C06_operator_text_loadable_le4_partial : forall ids,
  (1 <= List.length ids <= 4)%nat -> Forall (fun a => In a ALPHA) ids -> loadable ids = true.
Proof. exact loadable_all. Qed.
(* the tabulated control-construction test used by the sweeps is the membership test of the source *)
Theorem C06_is_cc_table : forall n, is_cc n = existsb (Nat.eqb n) cc_heads.
Proof. exact is_cc_table. Qed.
