(* Props/C14.v — Lookup and reference functions return the addressed element.
   Only statements; every proof is `exact <lemma of Proofs/LookupProofs.v>`.
   Model = Model/Lookup.v (the runtime helpers as coded); Spec = Spec/Lookup.v. *)
Require Import X2P.Base.Prelude X2P.Base.PyCmp X2P.Base.PyType.
Require Import X2P.Model.Lookup X2P.Spec.Lookup X2P.Proofs.LookupProofs.
From Coq Require Import Sorted Lia.
Open Scope Z_scope.

(* VLOOKUP, exact matching, integer keys, any number of rows, any payload:
   the entry of the FIRST row whose key equals the lookup value, else #N/A. *)
Theorem C14_vlookup_exact : forall k t col,
  cols_ok t col ->
  exists v, spec_vlookup_exact k t col = Some v /\
            vlookup (VInt k) (map mkrow t) col (VBool false) = Ok v.
Proof. exact vlookup_exact_int. Qed.

(* VLOOKUP, approximate matching on ascending keys: the entry of the LAST row whose key is
   not greater than the lookup value — including the last row when the value exceeds every key,
   #N/A when it is below the first. *)
Theorem C14_vlookup_approx_sorted : forall k t col,
  cols_ok t col -> keys_sorted t ->
  exists v, spec_vlookup_approx k t col = Some v /\
            vlookup (VInt k) (map mkrow t) col (VBool true) = Ok v.
Proof. exact vlookup_approx_int. Qed.

Theorem C14_match_exact : forall k keys,
  pmatch (VInt k) (map krow keys) 0 = Ok (spec_match_exact k keys).
Proof. exact match_exact_int. Qed.

Theorem C14_match_approx_sorted : forall k keys,
  Sorted Z.le keys ->
  pmatch (VInt k) (map krow keys) 1 = Ok (spec_match_approx k keys).
Proof. exact match_approx_int. Qed.

Theorem C14_xmatch_forward : forall lv arr mm, xmatch lv arr mm 1 = pmatch lv arr mm.
Proof. exact xmatch_forward. Qed.

Theorem C14_index_inside : forall rows r c x,
  1 <= r <= Z.of_nat (List.length rows) ->
  cell_at rows r c = Some x -> 1 <= c -> is_scalar x = true ->
  index1 (area_of rows) r (Some c) 1 = Ok x.
Proof. exact index_inside. Qed.

Theorem C14_index_row_outside : forall rows r c,
  Z.of_nat (List.length rows) < r -> 1 <= Z.of_nat (List.length rows) ->
  index1 (area_of rows) r (Some c) 1 = Ok REF.
Proof. exact index_row_outside. Qed.

Theorem C14_index_match_partner : forall k keys vals p x,
  first_pos k keys 0 = Some p ->
  nth_error vals (Z.to_nat (p - 1)) = Some x -> is_scalar x = true ->
  index_match k keys vals = Ok x.
Proof. exact index_match_partner. Qed.

(* ADDRESS: for EVERY column number c >= 1 the letters produced denote c in bijective base 26
   (so the function is injective and total on all positive columns, not only 1..16384). *)
Theorem C14_address_roundtrip : forall c,
  1 <= c -> exists s, get_col c = Some s /\ col_of_letters s = c /\ all_AZ s = true.
Proof. exact get_col_roundtrip. Qed.

(* kernel-exhaustive over Excel's 16384 columns against an independently written converter *)
Theorem C14_address_all_columns : forall c,
  1 <= c <= 16384 -> get_col c = Some (letters_of_col (Z.to_N c)).
Proof. exact address_all_columns. Qed.

(* non-vacuity: the hypotheses are met by a concrete non-trivial table *)
Example C14_nonvacuous :
  let t := [(10, [VStr "a"]); (20, [VStr "b"]); (20, [VStr "c"]); (40, [VStr "d"])] in
  cols_ok t 2 /\ keys_sorted t /\
  vlookup (VInt 25) (map mkrow t) 2 (VBool true) = Ok (VStr "c") /\
  vlookup (VInt 20) (map mkrow t) 2 (VBool false) = Ok (VStr "b") /\
  vlookup (VInt 99) (map mkrow t) 2 (VBool true) = Ok (VStr "d") /\
  get_col 702 = Some "ZZ"%string /\ get_col 16384 = Some "XFD"%string.
Proof.
  repeat split; try reflexivity.
  - repeat constructor; simpl; lia.
  - repeat constructor; simpl; lia.
Qed.

Print Assumptions C14_vlookup_exact.
Print Assumptions C14_vlookup_approx_sorted.
Print Assumptions C14_match_exact.
Print Assumptions C14_match_approx_sorted.
Print Assumptions C14_index_inside.
Print Assumptions C14_index_match_partner.
Print Assumptions C14_address_roundtrip.
Print Assumptions C14_address_all_columns.
