(* Props/C02.v — Every reference form denotes exactly the intended cells of the intended sheet.  Statements only. *)
Require Import X2P.Base.Prelude X2P.Base.PyNum X2P.Model.Executor X2P.Model.Lookup X2P.Model.Refs X2P.Spec.Refs X2P.Spec.Lookup.
Require Import X2P.Proofs.LookupProofs X2P.Proofs.RefsProofs X2P.Model.Reader X2P.Proofs.ReaderProofs.
Open Scope Z_scope.

(* column letters <-> column numbers is a bijection, for ALL columns and ALL non-empty capital-letter strings
   (column_index_from_string = col_of_letters; get_col is its inverse) *)
Theorem C02_columns_number_to_letters : forall c, 1 <= c ->
  exists s, get_col c = Some s /\ col_of_letters s = c /\ all_AZ s = true.
Proof. exact get_col_roundtrip. Qed.
Theorem C02_columns_letters_to_number : forall s, all_AZ s = true -> s <> EmptyString -> get_col (col_of_letters s) = Some s.
Proof. exact get_col_of_letters. Qed.

(* a rectangular reference c1 r1 : c2 r2 (any $ markers, any sheet) resolves to exactly the coordinates of the rectangle on that
   sheet, rows outer, columns inner — row-major — for all coordinates *)
Theorem C02_rectangle_row_major : forall nrows s c1 r1 c2 r2, 1 <= r1 -> 1 <= r2 ->
  get_matrix nrows (s, c1 - 1, Some (r1 - 1)) (s, c2 - 1, Some (r2 - 1)) =
  Ok (map (fun r => map (fun c => (s, c - 1, r - 1)) (zspan c1 c2)) (zspan r1 r2)).
Proof. exact get_matrix_rect. Qed.
(* a whole single column covers the rows of the sheet's used range, one cell per row *)
Theorem C02_whole_column : forall nrows s c,
  get_matrix nrows (s, c - 1, None) (s, c - 1, None) = Ok (map (fun r => [(s, c - 1, r - 1)]) (zspan 1 (nrows s))).
Proof. exact get_matrix_whole_column. Qed.

(* every resolved coordinate is read from the workbook at exactly that coordinate, blank when never written (C18's reader theorem) *)
Theorem C02_cells_read_at_their_coordinates : forall w c r, fill (stream w) c r = lookup_cell w (S c) (S r).
Proof. exact read_fetch. Qed.

(* a reference to a sheet title that does not exist is rejected with the library's cell exception (after fix 7ad1ad6), never resolved to
   some other sheet *)
Theorem C02_unknown_sheet_rejected : forall ts n c r, (forall i, ~ In (n, i) ts) ->
  handle ts {| a_t := TName n; a_c := c; a_r := r |} = Exc E2PyclCell.
Proof. exact unknown_sheet_rejected. Qed.
Theorem C02_known_sheet_is_that_sheet : forall ts n i, title_index ts n = Ok i -> In (n, i) ts.
Proof. exact title_index_sound. Qed.

(* lexing, kernel-exhaustive on the REGENERATED token regexes: prefix (none, unquoted, quoted with a blank) x $ markers x columns
   {A,Z,AA,AZ,ZZ,XFD} x rows {1,10,1048576} x six following contexts: the token class and the groups the translators read are right *)
Theorem C02_reference_lexing_sweeps : cell_sweep = true /\ area_sweep = true.
Proof. exact ref_lex_sweeps. Qed.

(* refuted on the unchanged tree: several whole columns are delivered column by column *)
Theorem C02_refuted_whole_columns_transposed :
  get_matrix (fun _ => 2) (0, 1, None) (0, 2, None) = Ok [[(0, 1, 0); (0, 1, 1)]; [(0, 2, 0); (0, 2, 1)]].
Proof. exact whole_columns_transposed. Qed.

Example C02_nonvacuous :
  get_col 16384 = Some "XFD"%string /\ col_of_letters "XFD" = 16384 /\
  get_matrix (fun _ => 9) (1, 1, Some 1) (1, 2, Some 2) = Ok [[(1, 1, 1); (1, 2, 1)]; [(1, 1, 2); (1, 2, 2)]].
Proof. repeat split; reflexivity. Qed.
