(* Props/C05.v — A formula is translated whole or rejected, never silently truncated.  Statements only.
   grammar_table / cc_heads / lexer_tokens are REGENERATED from the current source on every run. *)
From Coq Require Import List Arith Bool String.
Import ListNotations.
Require Import X2P.Model.Peg X2P.Model.Lexer X2P.Gen.Grammar X2P.Gen.Regexes X2P.Proofs.PegProofs.
Open Scope string_scope.

Definition is_cc (n : nat) : bool := existsb (Nat.eqb n) cc_heads.
Definition parse_tokens (fuel : nat) (toks : list tok) : ares := ast_builder grammar_table is_cc N_EntryPointToken fuel toks.

(* for ANY token-set table, any fuel: the interpreter never drops, duplicates or reorders a token *)
Theorem C05_no_token_lost : forall g cc fuel m ts t r, get g cc fuel m ts = POk t r -> (yield t ++ r)%list = ts.
Proof. exact get_yield. Qed.

(* translated whole or rejected: whenever the formula's tokens are accepted, the tree consumed ALL of them, in order *)
Theorem C05_whole_or_reject : forall fuel toks t, parse_tokens fuel toks = AOk t -> yield t = toks.
Proof. intros fuel toks t. exact (whole_or_reject grammar_table is_cc N_EntryPointToken fuel toks t). Qed.

(* an accepted tree instantiates the grammar: every node (every function call included) is one of the token sets its class
   defines — a supported function is never accepted with an argument list the grammar does not define *)
Theorem C05_accepts_only_defined_shapes : forall fuel m ts t r,
  get grammar_table is_cc fuel m ts = POk t r -> conforms grammar_table t = true.
Proof. intros fuel m ts t r H. exact (proj1 (get_conforms grammar_table is_cc fuel m ts t r H)). Qed.

(* the recursion limit is the only thing fuel changes *)
Theorem C05_fuel_monotone : forall f f' m ts r, f <= f' ->
  get grammar_table is_cc f m ts = r -> r <> PFuel -> get grammar_table is_cc f' m ts = r.
Proof. exact (get_mono grammar_table is_cc). Qed.

(* the two regenerated tables describe the same lexer order *)
Theorem C05_tables_consistent : leaf_names = map td_name lexer_tokens.
Proof. vm_compute. reflexivity. Qed.

(* the argument separators lex to one and the same token class *)
Definition class_of (s : string) : option nat :=
  match first_token lexer_tokens 0 s with Some (Some (i, _, _)) => Some i | _ => None end.
Theorem C05_separators_same_class :
  class_of "," = Some L_SeparatorToken /\ class_of ";" = Some L_SeparatorToken.
Proof. split; vm_compute; reflexivity. Qed.

(* regression witnesses of the repaired truncation defect, computed by the kernel on the regenerated tables *)
Definition outcome (s : string) : option ares :=
  match lex s with LOk t => Some (parse_tokens 40 t) | LUndefined => Some AReject | _ => None end.
Theorem C05_truncations_rejected :
  outcome "=1+2)" = Some AReject /\ outcome "=1 2" = Some AReject /\ outcome "=SUM(1,2)3" = Some AReject /\
  outcome "=(1+2" = Some AReject /\ outcome "=1+" = Some AReject /\ outcome "=IF(1,2" = Some AReject /\
  outcome "=ROUND(1,2,3)" = Some AReject /\ outcome "=1 " = Some AReject.
Proof. repeat split; vm_compute; reflexivity. Qed.

Example C05_nonvacuous : exists t, outcome "=SUM(A1:B2;3)+1" = Some (AOk t) /\ conforms grammar_table t = true.
Proof. eexists. split; vm_compute; reflexivity. Qed.
