(* Props/C12.v — Conditional aggregates select exactly the positions meeting every criterion.  Statements only. *)
Require Import X2P.Base.Prelude X2P.Base.PyCmp X2P.Model.Agg X2P.Model.Crit X2P.Spec.Text X2P.Spec.Crit X2P.Spec.Agg.
Require Import X2P.Proofs.CritProofs.
Open Scope Z_scope.

(* The emitted criterion lambda on an integer cell against  <op> n  is the exact integer comparison
   (for every dateutil oracle and every float repr: neither is consulted). *)
Theorem C12_numeric_criterion_exact : forall fr dp o n x,
  accepts fr dp (icrit o n) (VInt x) = Ok (iacc o n x).
Proof. exact accepts_int. Qed.

(* SUMIFS over integer data, any number of (range, criterion) pairs, any length: the sum of the target cells at
   exactly the positions that EVERY pair accepts (imarks = conjunction over the pairs, position by position). *)
Theorem C12_sumifs_selects_exactly : forall fr dp tgt ps,
  Forall (fun p : ipair => List.length (fst p) = List.length tgt) ps ->
  rt_sumifs fr dp (map VInt tgt) (map to_pair ps) =
  Ok (VInt (zsum (select (imarks ps (map (fun _ => true) tgt)) tgt))).
Proof. exact sumifs_ints. Qed.

(* ranges of different sizes are reported as an error, never silently mis-aligned (SUMIFS, COUNTIFS, AVERAGEIFS),
   for arbitrary contents and criteria; the check precedes every criterion evaluation *)
Theorem C12_sumifs_size_error : forall fr dp target pairs,
  sizes_ok (List.length (flatten target)) pairs = false -> rt_sumifs fr dp target pairs = Exc ExcelInPythonException.
Proof. exact sumifs_size_error. Qed.
Theorem C12_countifs_size_error : forall fr dp rng c pairs,
  sizes_ok (List.length (flatten rng)) pairs = false -> rt_countifs fr dp rng c pairs = Exc ExcelInPythonException.
Proof. exact countifs_size_error. Qed.
Theorem C12_averageifs_size_error : forall fr dp target pairs,
  flatten target <> [] -> forallb int_castable (flatten target) = true ->
  sizes_ok (List.length (flatten target)) pairs = false -> rt_averageifs fr dp target pairs = Exc ExcelInPythonException.
Proof. exact averageifs_size_error. Qed.

(* criterion compilation: the source's regex (regenerated into Gen/Regexes.v on every run) on the criterion forms of the statement *)
Theorem C12_compile_forms :
  compile (KText ">5") = Some (CGen OGt (VInt 5)) /\ compile (KText "<=2.5") = Some (CGen OLe (VFloat 2.5)) /\
  compile (KText "<>3") = Some (CGen ONe (VInt 3)) /\ compile (KText ">=10") = Some (CGen OGe (VInt 10)) /\
  compile (KText "<7") = Some (CGen OLt (VInt 7)) /\ compile (KText "apple") = Some (CGen OEq (VStr "apple")) /\
  compile (KTextAmp ">" (VInt 4)) = Some (CGen OGt (VInt 4)) /\ compile (KNum (VInt 5)) = Some (CGen OEq (VInt 5)) /\
  compile (KPat "a*") = Some (CPat "a*") /\
  compile (KText "=3") = Some (CGen OEq (VStr "=3")) /\ compile (KText "<>x") = Some (CGen OEq (VStr "<>x")).
Proof. exact compile_examples. Qed.

(* wildcard criteria, kernel-exhaustive: all patterns of length <= 3 over {a,B,?,*,~} with a wildcard x 11 cell texts:
   outside the listed defect classes the criterion accepts a text cell iff the whole cell matches the pattern *)
Theorem C12_wildcard_small_partial : forall p s,
  In p wpats -> In s wsubjects -> pat_class p s = "-"%string -> pat_ok p s = true.
Proof. exact pattern_small. Qed.

Example C12_nonvacuous :
  let ps : list ipair := [([1; 6; 7; 2], (OGt, 1)); ([5; 5; 0; 5], (OEq, 5))] in
  Forall (fun p : ipair => List.length (fst p) = 4%nat) ps /\
  imarks ps [true; true; true; true] = [false; true; false; true] /\
  rt_sumifs no_fr no_dp (map VInt [10; 20; 30; 40]) (map to_pair ps) = Ok (VInt 60) /\
  In "a*"%string wpats /\ pat_class "a*" "ab" = "-"%string /\ pat_ok "a*" "ab" = true.
Proof. repeat split; try reflexivity; try (repeat constructor); vm_compute; tauto. Qed.
