(* Props/C18.v — The workbook is read at true coordinates, with true types and sizes.  Statements only.
   The reader is modelled over an abstract sparse worksheet; openpyxl's row stream is an oracle with the contract
   stated in Model/Reader.v (validated by the correspondence on real xlsx files). *)
Require Import X2P.Base.Prelude X2P.Base.PyRepr X2P.Model.Reader X2P.Proofs.ReaderProofs X2P.Proofs.ReprProofs.
From Coq Require Import Arith.
Open Scope nat_scope.

(* EVERY coordinate of a sheet — inside gaps, beyond the last stored row or column, on an empty sheet — is seen by the translator
   with exactly the stored value (absent = blank): position in the stream = coordinate *)
Theorem C18_read_fetch : forall w c r, fill (stream w) c r = lookup_cell w (S c) (S r).
Proof. exact read_fetch. Qed.

(* sizes: last_row = largest stored row; last_column is at most the largest stored column and covers every stored cell *)
Theorem C18_sizes_true : forall w,
  snd (snd (parse_sheet w)) = max_row w /\ fst (snd (parse_sheet w)) <= max_col w /\
  (forall c r v, In (c, r, v) w -> 1 <= r -> r <= snd (snd (parse_sheet w)) /\ c <= fst (snd (parse_sheet w))).
Proof. exact sizes_true. Qed.

(* a text constant is emitted as repr(text): for EVERY byte string that is exactly one Python string literal, which denotes
   the original text (quotes, backslashes, newlines, control characters included) *)
Theorem C18_text_constant_roundtrip : forall l rest, read_string_literal (py_repr_l l ++ rest) = Some (l, rest).
Proof. exact repr_roundtrip. Qed.

Example C18_nonvacuous :
  let w : sparse := [(3, 2, VInt 7); (1, 5, VStr "x")] in
  stream w = [[]; [None; None; Some (VInt 7)]; []; []; [Some (VStr "x")]] /\ snd (parse_sheet w) = (3, 5) /\
  fill (stream w) 2 1 = Some (VInt 7) /\ fill (stream w) 9 9 = None /\
  py_repr "ab"%string = "'ab'"%string.
Proof. repeat split; reflexivity. Qed.
