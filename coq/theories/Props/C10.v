(* Props/C10.v — Comparisons are exact and lawful.  Statements only. *)
Require Import X2P.Base.Prelude X2P.Base.F64 X2P.Base.PyCmp X2P.Base.PyNum.
Require Import X2P.Model.Compare X2P.Spec.Compare X2P.Proofs.CompareProofs.
Open Scope Z_scope.

(* For numbers (Python int or float, any magnitude, any fraction, any sign) the six operators
   return the outcome of the exact three-way comparison. *)
Theorem C10_numbers_exact : forall fr o x y,
  compare fr o (val_of_num x) (val_of_num y) = Ok (op_of_cmp o (num_cmp x y)).
Proof. exact compare_numbers. Qed.

Theorem C10_ints_exact : forall fr o a b,
  compare fr o (VInt a) (VInt b) = Ok (op_of_cmp o (Some (a ?= b))).
Proof. exact compare_ints. Qed.

(* ... where the three-way comparison of two doubles is IEEE comparison of the values they denote
   (FloatAxioms.compare_spec), and of an int with a double is exact rational comparison (by definition
   of cmp_Z_f on the double's mantissa/exponent). *)
Theorem C10_float_outcome_is_IEEE : forall f g,
  num_cmp (NF f) (NF g) = match SFcompare (Prim2SF f) (Prim2SF g) with Some c => Some c | None => None end.
Proof. exact num_cmp_float_float. Qed.

(* Laws: whenever the operators are decided by one three-way outcome c (numbers that are not NaN,
   dates, blank against the kinds below), exactly one of < = > holds, <> is the negation of =,
   <= and >= are the negations of > and <. *)
Theorem C10_laws : forall c : comparison,
  let R o := op_of_cmp o (Some c) in
  ((R OLt && negb (R OEq) && negb (R OGt)) || (negb (R OLt) && R OEq && negb (R OGt))
    || (negb (R OLt) && negb (R OEq) && R OGt)) = true /\
  R ONe = negb (R OEq) /\ R OLe = negb (R OGt) /\ R OGe = negb (R OLt).
Proof. exact laws_of_outcome. Qed.

(* a < b exactly when b > a *)
Theorem C10_swap_ints : forall fr o a b,
  compare fr (swap_op o) (VInt b) (VInt a) = compare fr o (VInt a) (VInt b).
Proof. exact compare_ints_swap. Qed.
Theorem C10_swap_int_float : forall fr o a f,
  cmp_Z_f a f <> None ->
  compare fr (swap_op o) (VFloat f) (VInt a) = compare fr o (VInt a) (VFloat f).
Proof. exact compare_int_float_swap. Qed.

(* dates and date-times: ordered by (day, time); a date equals the date-time at its midnight *)
Theorem C10_datetimes : forall fr o p u q v,
  compare fr o (VDT p u) (VDT q v) = Ok (op_of_cmp o (Some (match p ?= q with Eq => u ?= v | c => c end))).
Proof. exact compare_dt_dt. Qed.
Theorem C10_date_vs_datetime : forall fr o p q v,
  compare fr o (VDate p) (VDT q v) = Ok (op_of_cmp o (Some (match p ?= q with Eq => 0 ?= v | c => c end))).
Proof. exact compare_date_dt. Qed.
Theorem C10_date_equals_its_midnight : forall fr p, compare fr OEq (VDate p) (VDT p 0) = Ok true.
Proof. exact date_equals_its_midnight. Qed.

(* blank: equals 0, FALSE and the empty text; behaves as 0 against every integer (so is smaller than
   every positive one); is smaller than every date and every non-empty text that is not a numeral *)
Theorem C10_blank_as_zero : forall fr o n, compare fr o VEmpty (VInt n) = Ok (op_of_cmp o (Some (0 ?= n))).
Proof. exact blank_vs_int. Qed.
Theorem C10_blank_lt_positive : forall fr n, 0 < n -> compare fr OLt VEmpty (VInt n) = Ok true.
Proof. exact blank_lt_positive_int. Qed.
Theorem C10_blank_equalities : forall fr,
  compare fr OEq VEmpty (VInt 0) = Ok true /\ compare fr OEq VEmpty (VBool false) = Ok true /\
  compare fr OEq VEmpty (VStr "") = Ok true.
Proof. intros fr. exact (conj (blank_eq_zero fr) (conj (blank_eq_false fr) (blank_eq_emptytext fr))). Qed.
Theorem C10_blank_lt_date : forall fr o p u, compare fr o VEmpty (VDT p u) = Ok (op_of_cmp o (Some Lt)).
Proof. exact blank_lt_date. Qed.
Theorem C10_blank_lt_text : forall fr o s,
  int_of_string s = Exc ValueError -> float_of_string s = Exc ValueError -> s <> ""%string ->
  compare fr o VEmpty (VStr s) = Ok (op_of_cmp o (Some Lt)).
Proof. exact blank_vs_text. Qed.

(* Refuted on the unchanged tree (known findings; witnesses computed by the kernel) *)
Theorem C10_refuted_blank_ne_emptytext :
  compare no_repr OEq VEmpty (VStr "") = Ok true /\ compare no_repr ONe VEmpty (VStr "") = Ok true.
Proof. exact blank_ne_emptytext_both. Qed.
Theorem C10_refuted_blank_vs_fraction :
  compare no_repr OLt VEmpty (VFloat 0.5) = Ok false /\ compare no_repr OEq VEmpty (VFloat 0.5) = Ok true.
Proof. exact blank_vs_fraction_wrong. Qed.
Theorem C10_refuted_numeric_text : compare no_repr OLt (VStr "10") (VStr "9") = Ok false.
Proof. exact numeric_text_as_numbers. Qed.
Theorem C10_refuted_text_case :
  compare no_repr OLt (VStr "a") (VStr "B") = Ok false /\ compare no_repr OEq (VStr "a") (VStr "A") = Ok false.
Proof. exact text_case_sensitive. Qed.

(* non-vacuity *)
Example C10_nonvacuous :
  compare no_repr OLt (VFloat 1.5) (VFloat 1.7) = Ok true /\
  compare no_repr OEq (VFloat 1.5) (VFloat 1.7) = Ok false /\
  compare no_repr OLt (VInt 9007199254740993) (VFloat 9007199254740992) = Ok false /\
  compare no_repr OGt (VInt 9007199254740993) (VFloat 9007199254740992) = Ok true.
Proof. repeat split; vm_compute; reflexivity. Qed.
