(* Props/C11.v — Aggregates fold exactly the numeric cells of their arguments.  Statements only. *)
Require Import X2P.Base.Prelude X2P.Base.F64 X2P.Base.PyCmp X2P.Base.PyType X2P.Base.PyNum.
Require Import X2P.Model.Agg X2P.Spec.Agg X2P.Proofs.AggProofs.
Open Scope Z_scope.

(* Which cells are folded: for every argument list (areas of any shape, scalars, any nesting the
   translator produces) and every content, the list the code folds is exactly the numeric cells
   (int or float — not text, booleans or blanks), once per mention, argument order then row-major. *)
Theorem C11_selection : forall args,
  Forall scalar_arg args ->
  only_numeric (flatten (map arg_val (map arg_of_xarg args))) = numeric_cells args.
Proof. exact selection. Qed.

(* ... and does not depend on how the same cells are split into areas *)
Theorem C11_selection_split : forall X Y, numeric_cells (X ++ Y) = numeric_cells X ++ numeric_cells Y.
Proof. exact numeric_cells_app. Qed.
Theorem C11_area_split : forall r1 r2 rest,
  numeric_cells (XArea (r1 ++ r2) :: rest) = numeric_cells (XArea r1 :: XArea r2 :: rest).
Proof. exact numeric_cells_area_split. Qed.

Theorem C11_sum_is_fold : forall args,
  Forall scalar_arg args -> agg FSum (map arg_of_xarg args) = xsum args.
Proof. exact agg_sum_spec. Qed.
Theorem C11_average_is_sum_over_count : forall args,
  Forall scalar_arg args -> agg FAverage (map arg_of_xarg args) = xaverage args.
Proof. exact agg_average_spec. Qed.

(* SUM(X,Y) = SUM(X) + SUM(Y), exactly, on integer-valued numeric cells *)
Theorem C11_sum_split : forall X Y a b,
  numeric_cells X = ints a -> numeric_cells Y = ints b ->
  xsum (X ++ Y) = Ok (VInt (zsum a + zsum b)) /\ xsum X = Ok (VInt (zsum a)) /\ xsum Y = Ok (VInt (zsum b)).
Proof. exact sum_split. Qed.
Theorem C11_average_ints : forall args a,
  numeric_cells args = ints a -> a <> [] ->
  xaverage args = py_truediv (VInt (zsum a)) (VInt (Z.of_nat (List.length a))).
Proof. exact average_ints. Qed.

Theorem C11_min : forall args l,
  Forall scalar_arg args -> find_error (all_cells args) = None ->
  numeric_cells args = ints l -> l <> [] ->
  exists m, agg FMin (map arg_of_xarg args) = Ok (VInt m) /\ is_least m l.
Proof. exact min_ints. Qed.
Theorem C11_max : forall args l,
  Forall scalar_arg args -> find_error (all_cells args) = None ->
  numeric_cells args = ints l -> l <> [] ->
  exists m, agg FMax (map arg_of_xarg args) = Ok (VInt m) /\ is_greatest m l.
Proof. exact max_ints. Qed.

Theorem C11_count_one_area : forall rows,
  Forall (Forall scalar) rows ->
  agg FCount [AArea (area_val rows)] =
  Ok (VInt (Z.of_nat (List.length (filter is_num (List.concat rows)) + List.length (only_datetime (List.concat rows))))).
Proof. exact count_one_area. Qed.

Theorem C11_countblank : forall args,
  Forall scalar_arg args -> find_error (all_cells args) = None ->
  agg FCountBlank (map arg_of_xarg args) = Ok (VInt (Z.of_nat (List.length (filter is_blank (all_cells args))))).
Proof. exact countblank_spec. Qed.

Theorem C11_and_or : forall args,
  Forall scalar_arg args ->
  agg FAnd (map arg_of_xarg args) = Ok (VBool (xand args)) /\
  agg FOr (map arg_of_xarg args) = Ok (VBool (xor args)).
Proof. exact and_or_spec. Qed.

(* refuted on the unchanged tree: COUNT over two areas *)
Theorem C11_refuted_count_two_areas :
  agg FCount [AArea (area_val [[VInt 1]]); AArea (area_val [[VInt 2]])] = Exc TypeError.
Proof. reflexivity. Qed.

Example C11_nonvacuous :
  let X := [XArea [[VInt 1; VStr "x"]; [VBool true; VInt 5]]] in
  let Y := [XArea [[VEmpty; VInt (-7)]]; XScalar (VInt 10)] in
  Forall scalar_arg (X ++ Y) /\ numeric_cells X = ints [1; 5] /\ numeric_cells Y = ints [-7; 10] /\
  agg FSum (map arg_of_xarg (X ++ Y)) = Ok (VInt 9) /\
  agg FAverage (map arg_of_xarg (X ++ Y)) = Ok (VFloat 2.25).
Proof. repeat split; try reflexivity; repeat constructor. Qed.
