(* Props/C19.v — The safety gate reports exactly the Python-like cells.  Statements only.
   The two regexes are REGENERATED from Excel._get_suspicious_constructions on every run (Gen/Regexes.v). *)
Require Import X2P.Base.Prelude X2P.Model.Safety X2P.Spec.Safety X2P.Model.Facade X2P.Model.Lookup X2P.Spec.Lookup X2P.Proofs.SafetyProofs X2P.Proofs.LookupProofs.
From Coq Require Import List Bool ZArith.
Open Scope string_scope.

(* kernel-exhaustive: every text of length <= 5 over {a, B, _, 1, (, ), blank} (19 607 texts): outside the listed defect class a
   cell is listed exactly when it contains call syntax and no upper-case call, and never when its only calls are upper-case or it has none *)
Theorem C19_gate_small_partial : forall s, In s stexts -> upper_suffix s = false ->
  match listed s, must_list s with Some a, Some b => a = b | Some _, None => True | None, _ => False end.
Proof. exact gate_small. Qed.

(* the report names the cell by its true column letters: for every column the letters denote that column *)
Theorem C19_report_key_column : forall title col row, (1 <= col)%Z ->
  exists l, report_key title col row = Some ("'" ++ title ++ "'" ++ l ++ X2P.Base.PyNum.str_of_Z row) /\ col_of_letters l = col.
Proof.
  intros title col row H. destruct (get_col_roundtrip col H) as [l [Hl [Hc _]]].
  exists l. unfold report_key. rewrite Hl. auto.
Qed.

(* with the check disabled this exception is never raised; a workbook made only of innocent cells is not rejected *)
Theorem C19_gate_off_never_raises : forall (path entry text : Type) (T : path -> option entry -> tres text) (safe : path -> bool) s,
  p_safety s = false -> snd (translate path entry text T safe s) <> PSafetyExc.
Proof. exact gate_off_never_raises. Qed.
Theorem C19_innocent_workbook_accepted : forall (path entry text : Type) (T : path -> option entry -> tres text) (safe : path -> bool) s p,
  p_path s = Some p -> safe p = true -> snd (translate path entry text T safe s) <> PSafetyExc.
Proof. exact innocent_workbook_accepted. Qed.

(* refuted on the unchanged tree *)
Theorem C19_refuted_upper_suffix : listed "aB(c)" = Some false /\ must_list "aB(c)" = Some true.
Proof. exact upper_suffix_escapes. Qed.

Example C19_nonvacuous :
  In "a(1)"%string stexts /\ upper_suffix "a(1)" = false /\ listed "a(1)" = Some true /\ listed "B(a)" = Some false /\
  suspicious "x eval(1) SUM(2) os.system(3)" = Some ["eval(1)"; "system(3)"].
Proof. split; [apply in_stexts; vm_compute; reflexivity|]. repeat split; vm_compute; reflexivity. Qed.
