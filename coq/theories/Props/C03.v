(* Props/C03.v — Entry-point translation is a closed, faithful slice; cycles are rejected.  Statements only.
   The workbook is abstract: cells are numbers, `deps` lists the cells a formula refers to (through any reference form,
   any sheet), `den` is the formula as a function of the outcomes of the referenced cells (den_ext: of nothing else). *)
From Coq Require Import List Arith Bool.
Import ListNotations.
Require Import X2P.Model.Graph X2P.Proofs.GraphProofs.

Section C03.
  Variable V : Type.
  Variable blank out_of_fuel : V.
  Variable deps : nat -> list nat.
  Variable den : nat -> (nat -> V) -> V.
  Hypothesis den_ext : forall c r1 r2, (forall d, In d (deps c) -> r1 d = r2 d) -> den c r1 = den c r2.

  (* whenever translation from an entry cell succeeds (no acyclicity or fuel hypothesis), the generated class contains the
     entry, is closed under "depends on", and contains nothing the entry does not transitively depend on *)
  Theorem C03_slice_closed_and_least : forall fuel c S,
    translate_from deps fuel c = GOk S ->
    closed deps S /\ In c S /\ (forall x, In x S -> reach deps c x).
  Proof. exact (slice_closed_least deps). Qed.

  (* every cell of a closed slice evaluates, under any overrides and for any evaluation depth, exactly as in any larger
     class — in particular as in the whole-workbook translation *)
  Theorem C03_slice_faithful : forall S All args, closed deps S -> incl' S All ->
    forall fuel c, In c S ->
    eval V blank out_of_fuel den S args fuel c = eval V blank out_of_fuel den All args fuel c.
  Proof. exact (slice_faithful V blank out_of_fuel deps den den_ext). Qed.

  Theorem C03_whole_workbook_closed : forall fuel cells ctx',
    translate_all deps fuel cells [] = GOk ctx' -> closed deps ctx' /\ (forall c, In c cells -> In c ctx').
  Proof.
    intros fuel cells ctx' E. destruct (translate_all_ok deps fuel cells [] ctx' E) as [H1 [_ H3]]; [intros x []|]. auto.
  Qed.

  (* cycles, for a finite workbook (`univ` lists every cell): never a successful translation; with fuel beyond the number
     of cells the outcome is the parser exception (not the recursion limit); the exception is raised only for a genuine
     circular reference; an acyclic workbook always translates *)
  Variable univ : list nat.
  Hypothesis univ_all : forall x, In x univ.
  Variable C : nat -> Prop.
  Hypothesis C_succ : forall x, C x -> exists d, In d (deps x) /\ C d.

  Theorem C03_cycle_never_translated : forall c, C c -> forall fuel, is_ok (translate_from deps fuel c) = false.
  Proof. exact (cycle_never_ok deps C C_succ). Qed.
  Theorem C03_cycle_rejected_with_parser_exception : forall c, C c -> forall fuel,
    length univ < fuel -> translate_from deps fuel c = GCycle.
  Proof. exact (cycle_rejected deps univ univ_all C C_succ). Qed.
  Theorem C03_exception_only_for_real_cycles : forall fuel c,
    translate_from deps fuel c = GCycle -> exists x, reachp deps x x.
  Proof. exact (cycle_exception_sound deps). Qed.
  Theorem C03_acyclic_translates : forall c fuel,
    (forall x, ~ reachp deps x x) -> length univ < fuel -> exists S, translate_from deps fuel c = GOk S.
  Proof. exact (acyclic_ok deps univ univ_all). Qed.
End C03.

(* non-vacuity: a diamond with a shared dependency and an unrelated cell; a 2-cycle with a tail *)
Definition ex_deps (c : nat) : list nat :=
  match c with 0 => [1; 2] | 1 => [3] | 2 => [3] | 5 => [6] | 6 => [7] | 7 => [6] | _ => [] end.
Example C03_nonvacuous :
  translate_from ex_deps 10 0 = GOk [0; 2; 1; 3] /\ translate_from ex_deps 10 5 = GCycle /\ translate_from ex_deps 10 4 = GOk [4].
Proof. repeat split; reflexivity. Qed.
