(* Props/C20.v — The importable runtime base class and the emitted runtime agree.  Statements only.
   helpers_abstract / helpers_template are REGENERATED from the current source on every run (Gen/Helpers.v):
   the members of AbstractExcelInPython and of the class rendered from the template, annotations and docstrings stripped. *)
From Coq Require Import List String Bool.
Require Import X2P.Model.PyAst X2P.Gen.Helpers X2P.Proofs.PyAstProofs.

(* the two expose the same set of helpers *)
Theorem C20_same_helper_set : same_names helpers_abstract helpers_template = true.
Proof. vm_compute. reflexivity. Qed.

(* every helper of the base class has, in the generated class, a helper of the same name with the same code *)
Theorem C20_every_helper_same_code : tables_agree helpers_abstract helpers_template = true.
Proof. vm_compute. reflexivity. Qed.

(* hence, for ANY deterministic semantics of Python, every helper returns the same result for every argument *)
Theorem C20_same_result_for_every_argument :
  forall (Arg Res : Type) (sem : pyast -> Arg -> Res) name a b,
  In (name, a) helpers_abstract -> lookup helpers_template name = Some b -> forall x, sem a x = sem b x.
Proof. exact (same_code_same_result helpers_abstract helpers_template C20_every_helper_same_code). Qed.

Example C20_nonvacuous : In "_vlookup"%string (names helpers_abstract) /\ In "_regexp"%string (names helpers_template) /\
  Nat.leb 40 (List.length helpers_abstract) = true.
Proof. repeat split; vm_compute; tauto. Qed.
