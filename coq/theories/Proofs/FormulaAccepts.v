(* Proofs/FormulaAccepts.v — completeness for the core fragment: every well-formed expression over literal atoms, brackets and the
   binary operators + - * / — of ANY size and nesting — is accepted by the token-set interpreter over the regenerated grammar table,
   with the expected right-recursive tree and exactly the expected rest (ported from the round-0 prototype). *)
From Coq Require Import List Arith Bool Lia.
Import ListNotations.
Require Import X2P.Model.Peg X2P.Model.Emit X2P.Gen.Grammar X2P.Proofs.PegProofs.

Definition G := get grammar_table is_cc.
Notation tk c p := (mkTok c p).
Notation LIT := 4. Notation LP := 5. Notation RP := 6. Notation SEP := 8.
Notation NE := 53. Notation NO := 6. Notation NOp := 7. Notation NP := 52. Notation NU := 2.
(* the numerals above are the regenerated constants (checked here; if the grammar is renumbered these lemmas fail and the file must follow) *)
Lemma numerals_are_the_generated_constants :
  L_LiteralToken = LIT /\ L_BracketStartToken = LP /\ L_BracketFinishToken = RP /\ L_SeparatorToken = SEP /\
  N_ExpressionToken = NE /\ N_OperandToken = NO /\ N_OperatorToken = NOp /\ N_OneLeftOperandExpressionToken = NP /\
  N_OneOperandArithmeticOperatorToken = NU /\ L_PlusOperatorToken = 15 /\ L_MinusOperatorToken = 16 /\
  L_MultiplicationOperatorToken = 17 /\ L_DivOperatorToken = 18.
Proof. repeat split; reflexivity. Qed.


Definition op_tree (c : nat) (p : list String.string) : tree :=
  if Nat.eqb c 15 then Node 7 0 [Node 3 0 [Node 2 0 [Leaf (tk 15 p)]]]
  else if Nat.eqb c 16 then Node 7 0 [Node 3 0 [Node 2 1 [Leaf (tk 16 p)]]]
  else if Nat.eqb c 17 then Node 7 0 [Node 3 1 [Leaf (tk 17 p)]]
  else Node 7 0 [Node 3 2 [Leaf (tk 18 p)]].
Definition is_binop (c: nat) := (Nat.eqb c 15 || Nat.eqb c 16 || Nat.eqb c 17 || Nat.eqb c 18)%bool.
Definition is_stop (c: nat) := (Nat.eqb c RP || Nat.eqb c SEP)%bool.

Lemma expr_alts : nth NE grammar_table [] =
  [[N 6; N 7; N 53]; [N 2; N 53]; [N 52; N 7; N 53]; [N 52]; [T 5; N 53; T 6; N 7; N 53]; [T 5; N 53; T 6]; [N 6]].
Proof. reflexivity. Qed.
Lemma expr_not_cc : is_cc NE = false. Proof. reflexivity. Qed.

Lemma operand_lit p rest : G 1 NO (tk LIT p :: rest) = POk (Node NO 1 [Leaf (tk LIT p)]) rest.
Proof. vm_compute. reflexivity. Qed.
Lemma operand_lp p rest : G 3 NO (tk LP p :: rest) = PNone.
Proof. vm_compute. reflexivity. Qed.
Lemma unary_lit p rest : G 1 NU (tk LIT p :: rest) = PNone. Proof. vm_compute. reflexivity. Qed.
Lemma unary_lp p rest : G 1 NU (tk LP p :: rest) = PNone. Proof. vm_compute. reflexivity. Qed.
Lemma p_lp p rest : G 4 NP (tk LP p :: rest) = PNone. Proof. vm_compute. reflexivity. Qed.
Lemma p_lit_end p : G 3 NP [tk LIT p] = PNone. Proof. vm_compute. reflexivity. Qed.
Lemma p_lit_next p c q rest : (is_binop c || is_stop c)%bool = true -> G 3 NP (tk LIT p :: tk c q :: rest) = PNone.
Proof.
  intros H. unfold is_binop, is_stop in H.
  repeat (apply orb_true_iff in H; destruct H as [H|H]); apply Nat.eqb_eq in H; subst c; vm_compute; reflexivity.
Qed.
Lemma op_ok c p rest : is_binop c = true -> G 3 NOp (tk c p :: rest) = POk (op_tree c p) rest.
Proof.
  intros H. unfold is_binop in H.
  repeat (apply orb_true_iff in H; destruct H as [H|H]); apply Nat.eqb_eq in H; subst c; vm_compute; reflexivity.
Qed.
Lemma op_stop c p rest : is_stop c = true -> G 3 NOp (tk c p :: rest) = PNone.
Proof.
  intros H. unfold is_stop in H.
  repeat (apply orb_true_iff in H; destruct H as [H|H]); apply Nat.eqb_eq in H; subst c; vm_compute; reflexivity.
Qed.

(* ---------- step lemmas for seq / alts ---------- *)
Section Steps.
Variable rec : nat -> list tok -> pres.
Lemma seq_N_ok cc m ss t ts acc fl tr r :
  rec m (t :: ts) = POk tr r -> seq rec cc (N m :: ss) (t :: ts) acc fl = seq rec cc ss r (tr :: acc) fl.
Proof. intros H. simpl. now rewrite H. Qed.
Lemma seq_N_none cc m ss t ts acc fl :
  rec m (t :: ts) = PNone -> seq rec cc (N m :: ss) (t :: ts) acc fl = (None, fl, None).
Proof. intros H. simpl. now rewrite H. Qed.
Lemma seq_T_ok cc c ss t ts acc fl :
  tclass t = c -> seq rec cc (T c :: ss) (t :: ts) acc fl = seq rec cc ss ts (Leaf t :: acc) cc.
Proof. intros H. simpl. subst. now rewrite Nat.eqb_refl. Qed.
Lemma seq_T_bad cc c ss t ts acc fl :
  tclass t <> c -> seq rec cc (T c :: ss) (t :: ts) acc fl = (None, fl, None).
Proof. intros H. simpl. destruct (Nat.eqb c (tclass t)) eqn:E; [apply Nat.eqb_eq in E; congruence|reflexivity]. Qed.
Lemma seq_empty cc s ss acc fl : seq rec cc (s :: ss) [] acc fl = (None, fl, None).
Proof. reflexivity. Qed.
Lemma alts_fail cc nt s a al idx toks fl fl' :
  seq rec cc (s :: a) toks [] fl = (None, fl', None) ->
  alts rec cc nt ((s :: a) :: al) idx toks fl = alts rec cc nt al (S idx) toks fl'.
Proof. intros H. cbn [alts]. now rewrite H. Qed.
Lemma alts_ok cc nt s a al idx toks fl fl' kids rest :
  seq rec cc (s :: a) toks [] fl = (Some (kids, rest), fl', None) ->
  alts rec cc nt ((s :: a) :: al) idx toks fl = POk (Node nt idx kids) rest.
Proof. intros H. cbn [alts]. now rewrite H. Qed.
End Steps.

(* ---------- core expressions ---------- *)
Inductive item := XAtom (p : list String.string) | XParen (pl pr : list String.string) (e : expr)
with expr := EOne (i : item) | ECons (i : item) (c : nat) (q : list String.string) (e : expr).   (* c = operator class, q its payload *)

Fixpoint wf_item (i: item) : bool := match i with XAtom _ => true | XParen _ _ e => wf_expr e end
with wf_expr (e: expr) : bool := match e with EOne i => wf_item i | ECons i c _ e' => wf_item i && is_binop c && wf_expr e' end.

Fixpoint pr_item (i: item) : list tok :=
  match i with XAtom p => [tk LIT p] | XParen pl pr e => tk LP pl :: pr_expr e ++ [tk RP pr] end
with pr_expr (e: expr) : list tok :=
  match e with EOne i => pr_item i | ECons i c q e' => pr_item i ++ tk c q :: pr_expr e' end.

Definition operand_tree p := Node NO 1 [Leaf (tk LIT p)].
Fixpoint tree_expr (e: expr) : tree :=
  match e with
  | EOne (XAtom p) => Node NE 6 [operand_tree p]
  | EOne (XParen pl pr e1) => Node NE 5 [Leaf (tk LP pl); tree_expr e1; Leaf (tk RP pr)]
  | ECons (XAtom p) c q e' => Node NE 0 [operand_tree p; op_tree c q; tree_expr e']
  | ECons (XParen pl pr e1) c q e' => Node NE 4 [Leaf (tk LP pl); tree_expr e1; Leaf (tk RP pr); op_tree c q; tree_expr e']
  end.

(* what may follow a complete expression: nothing, or a stopper token *)
Definition follow_ok (rest: list tok) : Prop := rest = [] \/ exists c q r, rest = tk c q :: r /\ is_stop c = true.

Lemma G_unfold f toks : G (S f) NE toks =
  alts (G f) false NE [[N 6; N 7; N 53]; [N 2; N 53]; [N 52; N 7; N 53]; [N 52]; [T 5; N 53; T 6; N 7; N 53]; [T 5; N 53; T 6]; [N 6]] 0 toks false.
Proof. unfold G. cbn [get]. rewrite expr_alts. reflexivity. Qed.

Ltac lift H := eapply (get_mono grammar_table is_cc); [| apply H | discriminate]; lia.

Definition parses (e: expr) : Prop :=
  exists f0, forall f rest, f0 <= f -> follow_ok rest -> G f NE (pr_expr e ++ rest) = POk (tree_expr e) rest.

(* atom first, then either end/stopper or operator *)
Lemma atom_single p : parses (EOne (XAtom p)).
Proof.
  exists 6. intros f rest Hf Hfo. destruct f as [|f]; [lia|]. rewrite G_unfold. simpl pr_expr. simpl app.
  assert (O1: G f NO (tk LIT p :: rest) = POk (operand_tree p) rest) by lift (operand_lit p rest).
  assert (U1: G f NU (tk LIT p :: rest) = PNone) by lift (unary_lit p rest).
  destruct Hfo as [->|[c [q [r [-> Hs]]]]].
  - assert (P1: G f NP [tk LIT p] = PNone) by lift (p_lit_end p).
    erewrite alts_fail; [|erewrite seq_N_ok by exact O1; apply seq_empty].
    erewrite alts_fail; [|erewrite seq_N_none by exact U1; reflexivity].
    erewrite alts_fail; [|erewrite seq_N_none by exact P1; reflexivity].
    erewrite alts_fail; [|erewrite seq_N_none by exact P1; reflexivity].
    erewrite alts_fail; [|apply seq_T_bad; simpl; discriminate].
    erewrite alts_fail; [|apply seq_T_bad; simpl; discriminate].
    erewrite alts_ok; [reflexivity|]. erewrite seq_N_ok by exact O1. reflexivity.
  - assert (P1: G f NP (tk LIT p :: tk c q :: r) = PNone) by (lift (p_lit_next p c q r ltac:(rewrite Hs; apply orb_true_r))).
    assert (Op1: G f NOp (tk c q :: r) = PNone) by lift (op_stop c q r Hs).
    erewrite alts_fail; [|erewrite seq_N_ok by exact O1; erewrite seq_N_none by exact Op1; reflexivity].
    erewrite alts_fail; [|erewrite seq_N_none by exact U1; reflexivity].
    erewrite alts_fail; [|erewrite seq_N_none by exact P1; reflexivity].
    erewrite alts_fail; [|erewrite seq_N_none by exact P1; reflexivity].
    erewrite alts_fail; [|apply seq_T_bad; simpl; discriminate].
    erewrite alts_fail; [|apply seq_T_bad; simpl; discriminate].
    erewrite alts_ok; [reflexivity|]. erewrite seq_N_ok by exact O1. reflexivity.
Qed.

Lemma seq_N_ok' rec cc m ss toks acc fl tr r :
  toks <> [] -> rec m toks = POk tr r -> seq rec cc (N m :: ss) toks acc fl = seq rec cc ss r (tr :: acc) fl.
Proof. destruct toks; [congruence|]. intros _. apply seq_N_ok. Qed.

Fixpoint size_item (i: item) : nat := match i with XAtom _ => 1 | XParen _ _ e => S (size_expr e) end
with size_expr (e: expr) : nat := match e with EOne i => S (size_item i) | ECons i _ _ e' => S (size_item i + size_expr e') end.

Lemma pr_expr_nonnil e rest : pr_expr e ++ rest <> [].
Proof. destruct e as [[p|pl pr e1]|[p|pl pr e1] c q e']; simpl; discriminate. Qed.

Lemma stop_RP : is_stop RP = true. Proof. reflexivity. Qed.

Theorem core_accepts : forall n e, size_expr e <= n -> wf_expr e = true -> parses e.
Proof.
  induction n as [|n IHn]; intros e Hs Hw.
  - destruct e; simpl in Hs; lia.
  - destruct e as [[p|pl pr e1]|[p|pl pr e1] c q e'].
    + apply atom_single.
    + (* ( e1 ) *)
      simpl in Hs, Hw. assert (P1: parses e1) by (apply IHn; [lia|exact Hw]).
      destruct P1 as [f1 H1]. exists (S (f1 + 6)). intros f rest Hf Hfo. destruct f as [|f]; [lia|]. rewrite G_unfold.
      simpl pr_expr. simpl app.
      assert (O1: G f NO (tk LP pl :: (pr_expr e1 ++ [tk RP pr]) ++ rest) = PNone) by lift (operand_lp pl ((pr_expr e1 ++ [tk RP pr]) ++ rest)).
      assert (U1: G f NU (tk LP pl :: (pr_expr e1 ++ [tk RP pr]) ++ rest) = PNone) by lift (unary_lp pl ((pr_expr e1 ++ [tk RP pr]) ++ rest)).
      assert (P1: G f NP (tk LP pl :: (pr_expr e1 ++ [tk RP pr]) ++ rest) = PNone) by lift (p_lp pl ((pr_expr e1 ++ [tk RP pr]) ++ rest)).
      assert (PP: forall ss acc fl, seq (G f) false (T 5 :: N 53 :: T 6 :: ss) (tk LP pl :: (pr_expr e1 ++ [tk RP pr]) ++ rest) acc fl
                 = seq (G f) false ss rest (Leaf (tk RP pr) :: tree_expr e1 :: Leaf (tk LP pl) :: acc) false).
      { intros ss acc fl. rewrite seq_T_ok by reflexivity. rewrite <- app_assoc. simpl app.
        erewrite seq_N_ok'; [| apply pr_expr_nonnil | apply H1; [lia | right; do 3 eexists; split; [reflexivity|apply stop_RP]]].
        rewrite seq_T_ok by reflexivity. reflexivity. }
      erewrite alts_fail; [|erewrite seq_N_none by exact O1; reflexivity].
      erewrite alts_fail; [|erewrite seq_N_none by exact U1; reflexivity].
      erewrite alts_fail; [|erewrite seq_N_none by exact P1; reflexivity].
      erewrite alts_fail; [|erewrite seq_N_none by exact P1; reflexivity].
      destruct Hfo as [->|[c [q [r [-> Hst]]]]].
      * erewrite alts_fail; [|rewrite PP; apply seq_empty].
        erewrite alts_ok; [reflexivity|]. rewrite PP. reflexivity.
      * assert (Op1: G f NOp (tk c q :: r) = PNone) by lift (op_stop c q r Hst).
        erewrite alts_fail; [|rewrite PP; erewrite seq_N_none by exact Op1; reflexivity].
        erewrite alts_ok; [reflexivity|]. rewrite PP. reflexivity.
    + (* atom op e' *)
      simpl in Hs, Hw. apply andb_true_iff in Hw. destruct Hw as [Hw1 Hw2]. simpl in Hw1.
      assert (P2: parses e') by (apply IHn; [lia|exact Hw2]). destruct P2 as [f2 H2].
      exists (S (f2 + 6)). intros f rest Hf Hfo. destruct f as [|f]; [lia|]. rewrite G_unfold.
      simpl pr_expr. simpl app.
      assert (O1: G f NO (tk LIT p :: tk c q :: pr_expr e' ++ rest) = POk (operand_tree p) (tk c q :: pr_expr e' ++ rest)) by lift (operand_lit p (tk c q :: pr_expr e' ++ rest)).
      assert (Op1: G f NOp (tk c q :: pr_expr e' ++ rest) = POk (op_tree c q) (pr_expr e' ++ rest)) by lift (op_ok c q (pr_expr e' ++ rest) Hw1).
      erewrite alts_ok; [reflexivity|].
      erewrite seq_N_ok by exact O1. erewrite seq_N_ok by exact Op1.
      erewrite seq_N_ok'; [| apply pr_expr_nonnil | apply H2; [lia|exact Hfo]]. reflexivity.
    + (* ( e1 ) op e' *)
      simpl in Hs, Hw. apply andb_true_iff in Hw. destruct Hw as [Hw1 Hw2]. apply andb_true_iff in Hw1. destruct Hw1 as [Hwi Hwc].
      assert (P1: parses e1) by (apply IHn; [lia|exact Hwi]). assert (P2: parses e') by (apply IHn; [lia|exact Hw2]).
      destruct P1 as [f1 H1]. destruct P2 as [f2 H2].
      exists (S (f1 + f2 + 6)). intros f rest Hf Hfo. destruct f as [|f]; [lia|]. rewrite G_unfold.
      set (more := tk c q :: pr_expr e' ++ rest).
      assert (EQ: pr_expr (ECons (XParen pl pr e1) c q e') ++ rest = tk LP pl :: (pr_expr e1 ++ [tk RP pr]) ++ more).
      { unfold more. simpl. f_equal. repeat rewrite <- app_assoc. simpl. reflexivity. }
      rewrite EQ. clear EQ.
      assert (O1: G f NO (tk LP pl :: (pr_expr e1 ++ [tk RP pr]) ++ more) = PNone) by lift (operand_lp pl ((pr_expr e1 ++ [tk RP pr]) ++ more)).
      assert (U1: G f NU (tk LP pl :: (pr_expr e1 ++ [tk RP pr]) ++ more) = PNone) by lift (unary_lp pl ((pr_expr e1 ++ [tk RP pr]) ++ more)).
      assert (P1: G f NP (tk LP pl :: (pr_expr e1 ++ [tk RP pr]) ++ more) = PNone) by lift (p_lp pl ((pr_expr e1 ++ [tk RP pr]) ++ more)).
      assert (Op1: G f NOp more = POk (op_tree c q) (pr_expr e' ++ rest)) by (unfold more; lift (op_ok c q (pr_expr e' ++ rest) Hwc)).
      assert (PP: forall ss acc fl, seq (G f) false (T 5 :: N 53 :: T 6 :: ss) (tk LP pl :: (pr_expr e1 ++ [tk RP pr]) ++ more) acc fl
                 = seq (G f) false ss more (Leaf (tk RP pr) :: tree_expr e1 :: Leaf (tk LP pl) :: acc) false).
      { intros ss acc fl. rewrite seq_T_ok by reflexivity. rewrite <- app_assoc. simpl app.
        erewrite seq_N_ok'; [| apply pr_expr_nonnil | apply H1; [lia | right; do 3 eexists; split; [reflexivity|apply stop_RP]]].
        rewrite seq_T_ok by reflexivity. reflexivity. }
      erewrite alts_fail; [|erewrite seq_N_none by exact O1; reflexivity].
      erewrite alts_fail; [|erewrite seq_N_none by exact U1; reflexivity].
      erewrite alts_fail; [|erewrite seq_N_none by exact P1; reflexivity].
      erewrite alts_fail; [|erewrite seq_N_none by exact P1; reflexivity].
      erewrite alts_ok; [reflexivity|]. rewrite PP.
      unfold more at 1. erewrite seq_N_ok by exact Op1.
      erewrite seq_N_ok'; [| apply pr_expr_nonnil | apply H2; [lia|exact Hfo]]. reflexivity.
Qed.


(* ---------- the accepted tree is a core tree (Proofs/FormulaCore.core), so the grouping theorem applies to it ---------- *)
Require Import X2P.Proofs.FormulaCore.
Lemma core_mono_le : forall f t g, core f t = true -> f <= g -> core g t = true.
Proof.
  induction f as [|f IH]; intros t g H Hle; [discriminate|].
  destruct g as [|g]; [lia|]. assert (Hfg : f <= g) by lia.
  destruct t as [k|nt alt kids]; [discriminate|].
  cbn [core] in H |- *. apply andb_prop in H. destruct H as [Hn Hk]. rewrite Hn. cbn [andb].
  destruct kids as [|k0 [|k1 [|k2 [|k3 [|k4 [|k5 rest]]]]]]; try discriminate; try exact Hk.
  - destruct (is_open k0).
    + apply andb_prop in Hk. destruct Hk as [H1 H2]. rewrite H1. cbn [andb]. exact (IH k1 g H2 Hfg).
    + apply andb_prop in Hk. destruct Hk as [H1 H2]. rewrite H1. cbn [andb]. exact (IH k2 g H2 Hfg).
  - apply andb_prop in Hk. destruct Hk as [Hk H4]. apply andb_prop in Hk. destruct Hk as [Hk H3].
    apply andb_prop in Hk. destruct Hk as [Hk H2]. apply andb_prop in Hk. destruct Hk as [H0 H1].
    rewrite H0, (IH k1 g H1 Hfg), H2, H3, (IH k4 g H4 Hfg). reflexivity.
Qed.

Lemma arith_of_op_tree c q : is_binop c = true -> exists o, arith_of (op_tree c q) = Some (tk c q, o).
Proof.
  unfold is_binop. intros H.
  repeat (apply orb_true_iff in H; destruct H as [H|H]); apply Nat.eqb_eq in H; subst c; eexists; vm_compute; reflexivity.
Qed.

Lemma core5 f nt alt k0 k1 k2 k3 k4 :
  core (S f) (Node nt alt [k0; k1; k2; k3; k4]) =
  Nat.eqb nt N_ExpressionToken && (is_open k0 && core f k1 && is_close k2 && (match arith_of k3 with Some _ => true | None => false end) && core f k4).
Proof. reflexivity. Qed.

Theorem core_tree_expr : forall n e, size_expr e <= n -> wf_expr e = true -> core (S n) (tree_expr e) = true.
Proof.
  induction n as [|n IH]; intros e Hs Hw.
  - destruct e; simpl in Hs; lia.
  - destruct e as [[p|pl pr e1]|[p|pl pr e1] c q e'].
    + reflexivity.
    + simpl in Hs, Hw. cbn [tree_expr core]. change (Nat.eqb NE N_ExpressionToken) with true. cbn [andb].
      change (is_open (Leaf (tk LP pl))) with true. cbn iota. change (is_close (Leaf (tk RP pr))) with true. cbn [andb].
      apply IH; [lia|exact Hw].
    + simpl in Hs, Hw. apply andb_true_iff in Hw. destruct Hw as [Hw1 Hw2]. simpl in Hw1.
      destruct (arith_of_op_tree c q Hw1) as [o Ho].
      cbn [tree_expr core]. change (Nat.eqb NE N_ExpressionToken) with true. cbn [andb].
      change (is_open (operand_tree p)) with false. cbn iota. change (is_operand (operand_tree p)) with true. rewrite Ho. cbn [andb].
      apply IH; [lia|exact Hw2].
    + simpl in Hs, Hw. apply andb_true_iff in Hw. destruct Hw as [Hw1 Hw2]. apply andb_true_iff in Hw1. destruct Hw1 as [Hwi Hwc].
      destruct (arith_of_op_tree c q Hwc) as [o Ho].
      cbn [tree_expr]. rewrite core5. rewrite Ho.
      change (Nat.eqb NE N_ExpressionToken) with true. change (is_open (Leaf (tk LP pl))) with true. change (is_close (Leaf (tk RP pr))) with true.
      cbn [andb]. repeat (apply andb_true_iff; split); try reflexivity; apply IH; try lia; assumption.
Qed.

(* end to end for the core fragment: AstBuilder accepts the printed formula — every token consumed — with a core tree *)
Theorem core_formula_accepted e : wf_expr e = true ->
  exists f0, forall f, f0 <= f ->
    ast_builder grammar_table is_cc NE f (pr_expr e) = AOk (tree_expr e) /\ core (S (size_expr e)) (tree_expr e) = true.
Proof.
  intros Hw. destruct (core_accepts (size_expr e) e (le_n _) Hw) as [f0 H0]. exists f0. intros f Hf. split.
  - unfold ast_builder. pose proof (H0 f [] Hf (or_introl eq_refl)) as H. rewrite app_nil_r in H. unfold G in H. rewrite H. reflexivity.
  - apply core_tree_expr; [apply le_n|exact Hw].
Qed.
