(* Proofs/RoundProofs.v — kernel-exhaustive grid theorems behind Props/C16.v *)
Require Import X2P.Base.Prelude X2P.Base.F64 X2P.Base.PyCmp X2P.Base.PyType X2P.Base.PyNum.
Require Import X2P.Model.Round X2P.Spec.Round X2P.Corr.C16.
From Coq Require Import Lia.
Open Scope Z_scope.

(* generic two-level sweep: proved once for an abstract predicate, so the kernel never unfolds the model here *)
Lemma forallb2_sound {A B} (p : A -> B -> bool) (la : list A) (lb : list B) :
  forallb (fun a => forallb (fun b => p a b) lb) la = true ->
  forall a b, In a la -> In b lb -> p a b = true.
Proof.
  intros H a b Ha Hb.
  pose proof (proj1 (forallb_forall _ la) H a Ha) as H1. cbv beta in H1.
  exact (proj1 (forallb_forall _ lb) H1 b Hb).
Qed.

(* the grid: sign x integer part x up to 2 fractional digits; digit counts -3..6 *)
Fixpoint zseq (fuel : nat) (a : Z) : list Z := match fuel with O => [] | S f => a :: zseq f (a + 1) end.
Definition iparts : list Z := [0; 1; 2; 7; 12; 99; 100; 1234].
Definition grid_pos : list dec :=
  flat_map (fun ip =>
    {| dneg := false; dmant := ip; dscale := 0 |} ::
    map (fun fr => {| dneg := false; dmant := ip * 10 + fr; dscale := 1 |}) (zseq 10 0) ++
    map (fun fr => {| dneg := false; dmant := ip * 100 + fr; dscale := 2 |}) (zseq 100 0)) iparts.
Definition grid : list dec := grid_pos ++ map (fun d => {| dneg := true; dmant := dmant d; dscale := dscale d |}) grid_pos.
Definition digit_counts : list Z := zseq 10 (-3).

Definition num_of (d : dec) : val := VFloat (dec_double d).

Definition round_ok (d : dec) (n : Z) : bool :=
  is_tie d n || agrees (model FRound (num_of d) n) (spec FRound d n).
Definition up_ok (d : dec) (n : Z) : bool :=
  negb (needs_rounding d n) || agrees (model FUp (num_of d) n) (spec FUp d n).
Definition down_ok (d : dec) (n : Z) : bool :=
  negb (needs_rounding d n) || agrees (model FDown (num_of d) n) (spec FDown d n).
Definition percent_ok (d : dec) (n : Z) : bool := agrees (model FPercent (num_of d) n) (spec FPercent d n).

Lemma round_sweep : forallb (fun d => forallb (fun n => round_ok d n) digit_counts) grid = true.
Proof. vm_compute. reflexivity. Qed.
Lemma up_sweep : forallb (fun d => forallb (fun n => up_ok d n) digit_counts) grid_pos = true.
Proof. vm_compute. reflexivity. Qed.
Lemma down_sweep : forallb (fun d => forallb (fun n => down_ok d n) digit_counts) grid_pos = true.
Proof. vm_compute. reflexivity. Qed.
Lemma percent_sweep : forallb (fun d => forallb (fun n => percent_ok d n) [0]) grid = true.
Proof. vm_compute. reflexivity. Qed.

Lemma round_grid d n : In d grid -> In n digit_counts -> round_ok d n = true.
Proof. exact (forallb2_sound round_ok grid digit_counts round_sweep d n). Qed.
Lemma up_grid d n : In d grid_pos -> In n digit_counts -> up_ok d n = true.
Proof. exact (forallb2_sound up_ok grid_pos digit_counts up_sweep d n). Qed.
Lemma down_grid d n : In d grid_pos -> In n digit_counts -> down_ok d n = true.
Proof. exact (forallb2_sound down_ok grid_pos digit_counts down_sweep d n). Qed.
Lemma percent_grid d : In d grid -> percent_ok d 0 = true.
Proof. intros H. exact (forallb2_sound percent_ok grid [0] percent_sweep d 0 H (or_introl eq_refl)). Qed.

(* integers are returned unchanged by ROUND with a non-negative digit count *)
Lemma round_int_identity z n : 0 <= n -> rt_round (VInt z) (VInt n) = Ok (VInt z).
Proof. intros H. unfold rt_round, py_round_int. simpl. destruct (0 <=? n) eqn:E; [reflexivity|lia]. Qed.

(* refutations on the unchanged tree *)
Definition D (neg : bool) (m s : Z) : dec := {| dneg := neg; dmant := m; dscale := s |}.
Lemma round_tie_wrong :
  agrees (model FRound (num_of (D false 5 1)) 0) (spec FRound (D false 5 1) 0) = false /\
  agrees (model FRound (num_of (D false 2675 3)) 2) (spec FRound (D false 2675 3) 2) = false.
Proof. split; vm_compute; reflexivity. Qed.
Lemma rounddown_negative_wrong :
  agrees (model FDown (num_of (D true 115 2)) 1) (spec FDown (D true 115 2) 1) = false.
Proof. vm_compute. reflexivity. Qed.
Lemma roundup_representable_wrong :
  agrees (model FUp (num_of (D false 7 2)) 2) (spec FUp (D false 7 2) 2) = false.
Proof. vm_compute. reflexivity. Qed.
