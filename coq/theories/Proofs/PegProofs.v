(* Proofs/PegProofs.v — generic facts about the token-set interpreter, for ANY grammar table and fuel. *)
From Coq Require Import List Arith Bool Lia.
Import ListNotations.
Require Import X2P.Model.Peg.

Definition good_rec (rec : nat -> list tok -> pres) : Prop :=
  forall m ts t r, rec m ts = POk t r -> yield t ++ r = ts.

Lemma yields_app a b : yields (a ++ b) = yields a ++ yields b.
Proof. unfold yields. now rewrite flat_map_app. Qed.

Lemma seq_yield rec cc (Hrec : good_rec rec) :
  forall ss ts acc flag kids rest fl,
    seq rec cc ss ts acc flag = (Some (kids, rest), fl, None) ->
    yields kids ++ rest = yields (rev acc) ++ ts.
Proof.
  induction ss as [|s ss IH]; intros ts acc flag kids rest fl H; simpl in H.
  - inversion H; subst. reflexivity.
  - destruct ts as [|t ts']; [discriminate|].
    destruct s as [c|m].
    + destruct (Nat.eqb c (tclass t)); [|discriminate].
      apply IH in H. rewrite H. simpl. rewrite yields_app. simpl. now rewrite <- app_assoc.
    + destruct (rec m (t :: ts')) as [tr r| | |] eqn:E; try discriminate.
      apply IH in H. rewrite H. simpl. rewrite yields_app. simpl. rewrite app_nil_r.
      rewrite <- app_assoc. f_equal. eapply Hrec; eauto.
Qed.

Lemma seq_exc_not_ok rec cc :
  forall ss ts acc flag o fl e,
    seq rec cc ss ts acc flag = (o, fl, Some e) -> forall t r, e <> POk t r.
Proof.
  induction ss as [|s ss IH]; intros ts acc flag o fl e H t r; simpl in H; [discriminate|].
  destruct ts as [|x ts']; [discriminate|].
  destruct s as [c|m].
  - destruct (Nat.eqb c (tclass x)); [eapply IH; eauto|discriminate].
  - destruct (rec m (x :: ts')) eqn:R; try discriminate.
    + eapply IH; eauto.
    + inversion H; subst. discriminate.
    + inversion H; subst. discriminate.
Qed.

Lemma alts_yield rec cc (Hrec : good_rec rec) nt :
  forall al idx toks flag t r,
    alts rec cc nt al idx toks flag = POk t r -> yield t ++ r = toks.
Proof.
  induction al as [|a al IH]; intros idx toks flag t r H; cbn [alts] in H.
  - destruct flag; discriminate.
  - destruct a as [|s0 a'].
    + eapply IH; eauto.
    + destruct (seq rec cc (s0 :: a') toks [] flag) as [[o fl] e] eqn:E.
      destruct e as [e|].
      * exfalso. assert (He : e = POk t r) by (destruct o as [[? ?]|]; exact H). eapply seq_exc_not_ok in E. apply E. exact He.
      * destruct o as [[kids rest]|].
        -- inversion H; subst. rewrite yield_node. apply seq_yield in E; auto.
        -- eapply IH; eauto.
Qed.

(* the interpreter never drops, duplicates or reorders a token: tree yield ++ rest = input *)
Theorem get_yield g is_cc : forall fuel, good_rec (get g is_cc fuel).
Proof.
  induction fuel as [|f IH]; intros m ts t r H; simpl in H; [discriminate|].
  eapply alts_yield; eauto.
Qed.

(* a formula is translated whole or rejected: an accepted token list is exactly the yield of the tree *)
Theorem whole_or_reject g is_cc entry fuel toks t :
  ast_builder g is_cc entry fuel toks = AOk t -> yield t = toks.
Proof.
  unfold ast_builder. destruct (get g is_cc fuel entry toks) as [t' r| | |] eqn:E; try discriminate.
  destruct r as [|x r]; [|discriminate]. intros H. inversion H; subst.
  pose proof (get_yield g is_cc fuel entry toks t [] E) as Y. now rewrite app_nil_r in Y.
Qed.

(* ---------- an accepted tree conforms to the grammar: every node instantiates one of its class's token sets ---------- *)
Definition root_matches (s : sym) (t : tree) : bool :=
  match s, t with
  | T c, Leaf k => Nat.eqb c (tclass k)
  | N m, Node n _ _ => Nat.eqb m n
  | _, _ => false
  end.
Fixpoint kids_match (ss : list sym) (kids : list tree) : bool :=
  match ss, kids with
  | [], [] => true
  | s :: ss', k :: ks => root_matches s k && kids_match ss' ks
  | _, _ => false
  end.
Section Conf.
  Variable g : list (list (list sym)).
  Fixpoint conforms (t : tree) : bool :=
    match t with
    | Leaf _ => true
    | Node nt idx kids =>
        kids_match (nth idx (nth nt g []) []) kids &&
        (fix all (l : list tree) : bool := match l with [] => true | x :: l' => conforms x && all l' end) kids
    end.
  Fixpoint conforms_all (l : list tree) : bool := match l with [] => true | x :: l' => conforms x && conforms_all l' end.
  Lemma conforms_node nt idx kids :
    conforms (Node nt idx kids) = kids_match (nth idx (nth nt g []) []) kids && conforms_all kids.
  Proof. reflexivity. Qed.
  Lemma conforms_all_app a b : conforms_all (a ++ b) = conforms_all a && conforms_all b.
  Proof. induction a as [|x a IH]; simpl; [reflexivity|]. now rewrite IH, andb_assoc. Qed.

  Definition conf_rec (rec : nat -> list tok -> pres) : Prop :=
    forall m ts t r, rec m ts = POk t r -> conforms t = true /\ root_matches (N m) t = true.

  Lemma kids_match_app ss1 k1 ss2 k2 :
    kids_match ss1 k1 = true -> kids_match ss2 k2 = true -> kids_match (ss1 ++ ss2) (k1 ++ k2) = true.
  Proof.
    revert k1. induction ss1 as [|s ss1 IH]; intros [|k k1] H1 H2; simpl in *; try discriminate; [exact H2|].
    apply andb_prop in H1. destruct H1 as [A B]. rewrite A. simpl. apply IH; assumption.
  Qed.

  Lemma seq_conf rec cc (Hrec : conf_rec rec) :
    forall ss ts acc flag kids rest fl done,
      seq rec cc ss ts acc flag = (Some (kids, rest), fl, None) ->
      kids_match done (rev acc) = true -> conforms_all (rev acc) = true ->
      kids_match (done ++ ss) kids = true /\ conforms_all kids = true.
  Proof.
    induction ss as [|s ss IH]; intros ts acc flag kids rest fl done H Hm Hc; simpl in H.
    - inversion H; subst. rewrite app_nil_r. auto.
    - destruct ts as [|t ts']; [discriminate|].
      destruct s as [c|m].
      + destruct (Nat.eqb c (tclass t)) eqn:Ec; [|discriminate].
        replace (done ++ T c :: ss) with ((done ++ [T c]) ++ ss) by now rewrite <- app_assoc.
        eapply IH; [exact H| |].
        * simpl. apply kids_match_app; [exact Hm|]. simpl. now rewrite Ec.
        * simpl. rewrite conforms_all_app, Hc. reflexivity.
      + destruct (rec m (t :: ts')) as [tr r| | |] eqn:E; try discriminate.
        destruct (Hrec _ _ _ _ E) as [C1 C2].
        replace (done ++ N m :: ss) with ((done ++ [N m]) ++ ss) by now rewrite <- app_assoc.
        eapply IH; [exact H| |].
        * simpl rev. apply kids_match_app; [exact Hm|]. cbn [kids_match]. now rewrite C2.
        * simpl. rewrite conforms_all_app, Hc. simpl. now rewrite C1.
  Qed.

  Lemma alts_conf rec cc (Hrec : conf_rec rec) nt :
    forall al idx toks flag t r pre,
      nth nt g [] = pre ++ al -> idx = length pre ->
      alts rec cc nt al idx toks flag = POk t r -> conforms t = true /\ root_matches (N nt) t = true.
  Proof.
    induction al as [|a al IH]; intros idx toks flag t r pre Hg Hi H; cbn [alts] in H.
    - destruct flag; discriminate.
    - assert (Hnext : nth nt g [] = (pre ++ [a]) ++ al) by now rewrite <- app_assoc.
      assert (Hlen : S idx = length (pre ++ [a])) by (rewrite app_length; simpl; lia).
      destruct a as [|s0 a'].
      + eapply IH; eauto.
      + destruct (seq rec cc (s0 :: a') toks [] flag) as [[o fl] e] eqn:E.
        destruct e as [e|].
        * exfalso. assert (He : e = POk t r) by (destruct o as [[? ?]|]; exact H). eapply seq_exc_not_ok in E. apply E. exact He.
        * destruct o as [[kids rest]|].
          -- inversion H; subst. destruct (seq_conf rec cc Hrec _ _ _ _ _ _ _ [] E eq_refl eq_refl) as [K C].
             split; [|cbn [root_matches]; apply Nat.eqb_refl]. rewrite conforms_node, Hg.
             rewrite app_nth2 by lia. replace (length pre - length pre) with 0 by lia. cbn [nth].
             change ([] ++ s0 :: a') with (s0 :: a') in K. rewrite K, C. reflexivity.
          -- eapply IH; eauto.
  Qed.

  Theorem get_conforms is_cc : forall fuel, conf_rec (get g is_cc fuel).
  Proof.
    induction fuel as [|f IH]; intros m ts t r H; simpl in H; [discriminate|].
    eapply (alts_conf _ _ IH m (nth m g []) 0 ts false t r []); [reflexivity|reflexivity|exact H].
  Qed.
End Conf.

(* ---------- fuel monotonicity: more fuel never changes an outcome other than "out of fuel" ---------- *)
Definition stable (rec rec' : nat -> list tok -> pres) : Prop :=
  forall m ts r, rec m ts = r -> r <> PFuel -> rec' m ts = r.

Lemma seq_mono rec rec' cc (H : stable rec rec') :
  forall ss ts acc fl o fl' e,
    seq rec cc ss ts acc fl = (o, fl', e) -> e <> Some PFuel -> seq rec' cc ss ts acc fl = (o, fl', e).
Proof.
  induction ss as [|s ss IH]; intros ts acc fl o fl' e E NF; simpl in *; [exact E|].
  destruct ts as [|t ts']; [exact E|].
  destruct s as [c|m].
  - destruct (Nat.eqb c (tclass t)); [eapply IH; eauto|exact E].
  - destruct (rec m (t :: ts')) as [tr r| |n|] eqn:R.
    + rewrite (H _ _ _ R) by discriminate. eapply IH; eauto.
    + rewrite (H _ _ _ R) by discriminate. exact E.
    + rewrite (H _ _ _ R) by discriminate. exact E.
    + inversion E; subst. congruence.
Qed.

Lemma alts_mono rec rec' cc nt (H : stable rec rec') :
  forall al idx toks fl r, alts rec cc nt al idx toks fl = r -> r <> PFuel -> alts rec' cc nt al idx toks fl = r.
Proof.
  induction al as [|a al IH]; intros idx toks fl r E NF; cbn [alts] in *; [exact E|].
  destruct a as [|s0 a']; [eapply IH; eauto|].
  destruct (seq rec cc (s0 :: a') toks [] fl) as [[o fl'] e] eqn:S.
  destruct e as [e|].
  - assert (e = r) by (destruct o as [[? ?]|]; exact E). subst e.
    rewrite (seq_mono _ _ _ H _ _ _ _ _ _ _ S) by congruence. destruct o as [[? ?]|]; reflexivity.
  - rewrite (seq_mono _ _ _ H _ _ _ _ _ _ _ S) by discriminate.
    destruct o as [[kids rest]|]; [exact E| eapply IH; eauto].
Qed.

Lemma get_mono1 g is_cc : forall f, stable (get g is_cc f) (get g is_cc (S f)).
Proof.
  induction f as [|f IH]; intros m ts r E NF.
  - simpl in E. congruence.
  - change (get g is_cc (S (S f)) m ts) with (alts (get g is_cc (S f)) (is_cc m) m (nth m g []) 0 ts false).
    change (get g is_cc (S f) m ts) with (alts (get g is_cc f) (is_cc m) m (nth m g []) 0 ts false) in E.
    eapply alts_mono; eauto.
Qed.

Lemma get_mono g is_cc f f' m ts r : f <= f' -> get g is_cc f m ts = r -> r <> PFuel -> get g is_cc f' m ts = r.
Proof.
  induction 1 as [|f' Hle IH]; intros E NF; [exact E|]. apply get_mono1; auto.
Qed.
