(* Proofs/CondProofs.v — lemmas behind Props/C13.v *)
Require Import X2P.Base.Prelude X2P.Base.F64 X2P.Base.PyCmp X2P.Base.PyType X2P.Base.PyNum X2P.Base.PyArith.
Require Import X2P.Model.Compare X2P.Model.Agg X2P.Model.Cond X2P.Spec.Cond.
Open Scope Z_scope.

Section P.
  Variable fr : float -> string.

  (* evaluation of an argument list, left to right, first exception wins *)
  Fixpoint ceval_all (l : list cexpr) : res (list val) :=
    match l with [] => Ok [] | x :: t => do v <- ceval fr x; do r <- ceval_all t; Ok (v :: r) end.
  Fixpoint xeval_all (l : list cexpr) : res (list val) :=
    match l with [] => Ok [] | x :: t => do v <- xeval fr x; do r <- xeval_all t; Ok (v :: r) end.
  Lemma ceval_ifs args : ceval fr (Ifs args) = (do vs <- ceval_all args; rt_ifs (flatten vs)).
  Proof. reflexivity. Qed.
  Lemma ceval_sum args : ceval fr (Sum args) = (do vs <- ceval_all args; rt_sum (only_numeric (flatten vs))).
  Proof. reflexivity. Qed.
  Lemma xeval_sum args : xeval fr (Sum args) = (do vs <- xeval_all args; rt_sum (only_numeric (flatten vs))).
  Proof. reflexivity. Qed.

  (* IF evaluates only the chosen branch: the other branch — failing or not — is irrelevant *)
  Lemma if_true_ignores_else c t f f' cv :
    ceval fr c = Ok cv -> truthy cv = true -> ceval fr (If c t f) = ceval fr (If c t f').
  Proof. intros Hc Ht. cbn [ceval]. rewrite Hc. cbn [bind]. rewrite Ht. reflexivity. Qed.
  Lemma if_false_ignores_then c t t' f cv :
    ceval fr c = Ok cv -> truthy cv = false -> ceval fr (If c t f) = ceval fr (If c t' f).
  Proof. intros Hc Ht. cbn [ceval]. rewrite Hc. cbn [bind]. rewrite Ht. reflexivity. Qed.
  Lemma if_value c t f cv :
    ceval fr c = Ok cv ->
    ceval fr (If c t f) = if truthy cv then ceval fr t else match f with Some f => ceval fr f | None => Ok (VBool false) end.
  Proof. intros Hc. cbn [ceval]. rewrite Hc. reflexivity. Qed.

  (* the decidable "good" fragment on which the emitted code has Excel's lazy semantics *)
  Definition scalar_ok (r : res val) : bool :=
    match r with Ok (VList _) => false | Ok v => negb (xl_is_error v) && negb (is_error_value v) | Exc _ => false end.

  Fixpoint good (e : cexpr) : bool :=
    match e with
    | Leaf _ => true
    | Raise _ => true
    | Bin _ a b => good a && good b
    | If c t f =>
        good c && match ceval fr c with
                  | Ok cv => if truthy cv then good t else match f with Some f => good f | None => true end
                  | Exc _ => true
                  end
    | IfError a b =>
        good a && good b &&
        match ceval fr b with Ok _ => true | Exc _ => false end &&               (* the eager fallback must not raise *)
        match ceval fr a with Ok v => Bool.eqb (is_error_value v) (xl_is_error v) | Exc _ => true end   (* the #NULL! spelling *)
    | Ifs args =>
        (fix all (l : list cexpr) : bool := match l with [] => true | x :: t => good x && scalar_ok (ceval fr x) && all t end) args
        && Nat.even (List.length args)
    | Sum args =>
        (fix all (l : list cexpr) : bool := match l with [] => true | x :: t => good x && all t end) args
    end.

  Fixpoint good_list (l : list cexpr) : bool := match l with [] => true | x :: t => good x && good_list t end.
  Fixpoint good_scalar_list (l : list cexpr) : bool :=
    match l with [] => true | x :: t => good x && scalar_ok (ceval fr x) && good_scalar_list t end.
  Lemma good_ifs args : good (Ifs args) = good_scalar_list args && Nat.even (List.length args).
  Proof. reflexivity. Qed.
  Lemma good_sum args : good (Sum args) = good_list args.
  Proof. reflexivity. Qed.

  (* scan of evaluated scalar pairs = lazy scan *)
  Lemma flatten_scalars vs : forallb (fun v => match v with VList _ => false | _ => true end) vs = true -> flatten vs = vs.
  Proof.
    induction vs as [|v t IH]; [reflexivity|]. cbn [forallb]. intros H. apply andb_prop in H. destruct H as [Hv Ht].
    unfold flatten in *. cbn [flat_map]. rewrite (IH Ht). destruct v; try reflexivity. discriminate.
  Qed.

  Lemma scalar_ok_inv x v : ceval fr x = Ok v -> scalar_ok (ceval fr x) = true ->
    xl_is_error v = false /\ is_error_value v = false /\ (match v with VList _ => false | _ => true end) = true.
  Proof.
    intros E H. rewrite E in H. unfold scalar_ok in H. destruct v; try discriminate;
      apply andb_prop in H; destruct H as [H1 H2]; repeat split; try reflexivity;
      try (destruct (xl_is_error _); [discriminate|reflexivity]); try (destruct (is_error_value _); [discriminate|reflexivity]).
  Qed.

  (* size-based induction over cexpr (nested lists) *)
  Fixpoint csize (e : cexpr) : nat :=
    match e with
    | Leaf _ => 1%nat
    | Raise _ => 1%nat
    | Bin _ a b => S (csize a + csize b)%nat
    | If c t f => S (csize c + csize t + match f with Some f => csize f | None => O end)%nat
    | IfError a b => S (csize a + csize b)%nat
    | Ifs args | Sum args => S ((fix sz (l : list cexpr) : nat := match l with [] => O | x :: t => (csize x + sz t)%nat end) args)
    end.
  Fixpoint lsize (l : list cexpr) : nat := match l with [] => O | x :: t => (csize x + lsize t)%nat end.
  Lemma csize_ifs args : csize (Ifs args) = S (lsize args).
  Proof. reflexivity. Qed.
  Lemma csize_sum args : csize (Sum args) = S (lsize args).
  Proof. reflexivity. Qed.
  Lemma in_lsize x l : In x l -> (csize x <= lsize l)%nat.
  Proof. induction l as [|y t IHl]; [intros []|]. intros [->|H]; cbn [lsize]; [Lia.lia|]. specialize (IHl H). Lia.lia. Qed.

  Section Main.
    (* induction hypothesis for sub-expressions of bounded size *)
    Variable n : nat.
    Variable IH : forall e, (csize e <= n)%nat -> good e = true -> ceval fr e = xeval fr e.

    Lemma all_agree l : (lsize l <= n)%nat -> good_list l = true -> ceval_all l = xeval_all l.
    Proof.
      induction l as [|x t IHl]; [reflexivity|]. cbn [good_list lsize]. intros Hs H. apply andb_prop in H. destruct H as [Hx Ht].
      cbn [ceval_all xeval_all]. rewrite (IH x ltac:(Lia.lia) Hx), (IHl ltac:(Lia.lia) Ht). reflexivity.
    Qed.
  End Main.

  Lemma find_error_none_cons v t : is_error_value v = false -> find_error (v :: t) = find_error t.
  Proof.
    unfold is_error_value, find_error. cbn [find].
    destruct (match v with VStr s => existsb (String.eqb s) ERRS | _ => false end); [discriminate|reflexivity].
  Qed.

  (* IFS on the good fragment *)
  Lemma ifs_agree n (IH : forall e, (csize e <= n)%nat -> good e = true -> ceval fr e = xeval fr e) :
    forall args, (lsize args <= n)%nat -> good_scalar_list args = true -> Nat.even (List.length args) = true ->
    ceval fr (Ifs args) = xeval fr (Ifs args).
  Proof.
    intros args Hsz Hg Hev. rewrite ceval_ifs.
    (* all arguments evaluate to plain scalars *)
    assert (Hvals : exists vs, ceval_all args = Ok vs /\
              forallb (fun v => match v with VList _ => false | _ => true end) vs = true /\
              find_error vs = None /\
              (forall (k : list cexpr) (kv : list val), True)).
    { clear Hev Hsz. induction args as [|x t IHa].
      - exists []. repeat split; reflexivity.
      - cbn [good_scalar_list] in Hg. apply andb_prop in Hg. destruct Hg as [Hg Ht]. apply andb_prop in Hg. destruct Hg as [Hx Hs].
        destruct (ceval fr x) as [v|e] eqn:Ex; [|discriminate Hs].
        destruct (scalar_ok_inv x v Ex ltac:(rewrite Ex; exact Hs)) as [H1 [H2 H3]].
        destruct (IHa Ht) as [vs [Hv [Hsc [Hfe _]]]].
        exists (v :: vs). cbn [ceval_all]. rewrite Ex, Hv. cbn [bind forallb]. rewrite H3, Hsc.
        repeat split; try reflexivity. rewrite find_error_none_cons by exact H2. exact Hfe. }
    destruct Hvals as [vs [Hv [Hsc [Hfe _]]]].
    rewrite Hv. cbn [bind]. rewrite (flatten_scalars vs Hsc). unfold rt_ifs. rewrite Hfe.
    (* now the scan: by induction on pairs *)
    clear Hfe Hsc. revert args vs Hv Hg Hev Hsz.
    assert (Gen : forall k (al : list cexpr), (List.length al <= k)%nat -> forall vs,
              ceval_all al = Ok vs -> good_scalar_list al = true -> Nat.even (List.length al) = true ->
              (lsize al <= n)%nat ->
              ifs_scan vs = xeval fr (Ifs al)).
    { induction k as [|k IHn]; intros al Hn vs Hv Hg Hev Hsz.
      - destruct al; [|simpl in Hn; inversion Hn]. cbn in Hv. inversion Hv; subst. reflexivity.
      - destruct al as [|c [|v rest]].
        + cbn in Hv. inversion Hv; subst. reflexivity.
        + simpl in Hev. discriminate.
        + cbn [good_scalar_list] in Hg.
          apply andb_prop in Hg. destruct Hg as [Hg Hg2]. apply andb_prop in Hg. destruct Hg as [Hgc Hsc].
          apply andb_prop in Hg2. destruct Hg2 as [Hg2 Hgr]. apply andb_prop in Hg2. destruct Hg2 as [Hgv Hsv].
          cbn [ceval_all] in Hv.
          destruct (ceval fr c) as [cv|] eqn:Ec; [|discriminate]. destruct (ceval fr v) as [vv|] eqn:Evv; [|discriminate].
          destruct (ceval_all rest) as [rv|] eqn:Er; [|discriminate]. cbn [bind] in Hv. inversion Hv; subst vs.
          cbn [lsize] in Hsz.
          cbn [ifs_scan]. cbn [xeval]. rewrite <- (IH c ltac:(Lia.lia) Hgc), Ec. cbn [bind].
          destruct (truthy cv).
          * rewrite <- (IH v ltac:(Lia.lia) Hgv), Evv. reflexivity.
          * apply (IHn rest); [simpl in Hn; Lia.lia|exact Er|exact Hgr|simpl in Hev; exact Hev|Lia.lia]. }
    intros args vs Hv Hg Hev Hsz. exact (Gen (List.length args) args (le_n _) vs Hv Hg Hev Hsz).
  Qed.

  Lemma good_list_in l x : good_list l = true -> In x l -> good x = true.
  Proof. induction l as [|y t IHl]; [intros _ []|]. cbn [good_list]. intros H [->|Hi]; apply andb_prop in H; destruct H; auto. Qed.
  Lemma good_scalar_list_good l : good_scalar_list l = true -> good_list l = true.
  Proof.
    induction l as [|y t IHl]; [reflexivity|]. cbn [good_scalar_list good_list]. intros H.
    apply andb_prop in H. destruct H as [H Ht]. apply andb_prop in H. destruct H as [Hy _]. rewrite Hy, (IHl Ht). reflexivity.
  Qed.

  Lemma good_agree_n : forall n e, (csize e <= n)%nat -> good e = true -> ceval fr e = xeval fr e.
  Proof.
    induction n as [|n IHn]; intros e Hs Hg.
    - destruct e; simpl in Hs; Lia.lia.
    - destruct e as [v|ex|o a b|c t f|a b|args|args].
      + reflexivity.
      + reflexivity.
      + cbn [good] in Hg. apply andb_prop in Hg. destruct Hg as [Ha Hb]. cbn [csize] in Hs.
        cbn [ceval xeval]. rewrite (IHn a ltac:(Lia.lia) Ha), (IHn b ltac:(Lia.lia) Hb). reflexivity.
      + cbn [good] in Hg. apply andb_prop in Hg. destruct Hg as [Hc Hr]. cbn [csize] in Hs.
        cbn [ceval xeval]. rewrite <- (IHn c ltac:(Lia.lia) Hc).
        destruct (ceval fr c) as [cv|]; [|reflexivity]. cbn [bind].
        destruct (truthy cv).
        * apply IHn; [Lia.lia|exact Hr].
        * destruct f as [f|]; [|reflexivity]. apply IHn; [Lia.lia|exact Hr].
      + cbn [good] in Hg. apply andb_prop in Hg. destruct Hg as [Hg Hnull]. apply andb_prop in Hg. destruct Hg as [Hg Hbok].
        apply andb_prop in Hg. destruct Hg as [Ha Hb]. cbn [csize] in Hs.
        cbn [ceval xeval]. rewrite <- (IHn a ltac:(Lia.lia) Ha), <- (IHn b ltac:(Lia.lia) Hb).
        destruct (ceval fr b) as [vb|]; [|discriminate]. cbn [bind].
        destruct (ceval fr a) as [va|]; cbn [failed]; [|reflexivity].
        apply Bool.eqb_prop in Hnull. rewrite <- Hnull. destruct (is_error_value va); reflexivity.
      + rewrite good_ifs in Hg. apply andb_prop in Hg. destruct Hg as [Hg Hev]. rewrite csize_ifs in Hs.
        apply (ifs_agree n); [|Lia.lia|exact Hg|exact Hev].
        intros e He Hge. apply IHn; assumption.
      + rewrite good_sum in Hg. rewrite csize_sum in Hs. rewrite ceval_sum, xeval_sum.
        rewrite (all_agree n IHn args ltac:(Lia.lia) Hg). reflexivity.
  Qed.

  (* on the good fragment the emitted code computes Excel's lazy semantics, at any nesting depth and in any position *)
  Theorem good_agree e : good e = true -> ceval fr e = xeval fr e.
  Proof. apply (good_agree_n (csize e)). apply le_n. Qed.

  (* refutations on the unchanged tree *)
  Lemma iferror_eager_fallback :
    ceval fr (IfError (Leaf (VInt 1)) (Bin (BArith ADiv) (Leaf (VInt 1)) (Leaf (VInt 0)))) = Exc ZeroDivisionError /\
    xeval fr (IfError (Leaf (VInt 1)) (Bin (BArith ADiv) (Leaf (VInt 1)) (Leaf (VInt 0)))) = Ok (VInt 1).
  Proof. split; reflexivity. Qed.
  Lemma iferror_null_spelling :
    ceval fr (IfError (Leaf (VStr "#NULL!")) (Leaf (VInt 1))) = Ok (VStr "#NULL!") /\
    xeval fr (IfError (Leaf (VStr "#NULL!")) (Leaf (VInt 1))) = Ok (VInt 1).
  Proof. split; reflexivity. Qed.
  Lemma ifs_not_lazy :
    ceval fr (Ifs [Leaf (VBool true); Leaf (VInt 1); Leaf (VBool true); Bin (BArith ADiv) (Leaf (VInt 1)) (Leaf (VInt 0))]) = Exc ZeroDivisionError /\
    xeval fr (Ifs [Leaf (VBool true); Leaf (VInt 1); Leaf (VBool true); Bin (BArith ADiv) (Leaf (VInt 1)) (Leaf (VInt 0))]) = Ok (VInt 1).
  Proof. split; reflexivity. Qed.
End P.
