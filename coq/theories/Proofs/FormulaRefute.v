(* Proofs/FormulaRefute.v — kernel-computed witnesses of the known findings of C01 on the unchanged tree (model side vs Excel side),
   through the whole modelled path: Gallina lexer over the regenerated regexes, token-set parser, emitter, Python grouping, runtime. *)
Require Import X2P.Base.Prelude X2P.Base.F64 X2P.Base.PyCmp X2P.Base.PyNum X2P.Base.PyArith.
Require Import X2P.Model.Peg X2P.Model.Emit X2P.Spec.Formula.
Open Scope string_scope.

Definition fr0 (f : float) : string := if f_eqb f 2 then "2.0" else "?".
Definition env0 (n : string) : val := if String.eqb n "A2" then VInt 5 else if String.eqb n "C2" then VStr "ab" else VEmpty.
Definition model_value (formula : string) : res val :=
  match translate_formula formula with TOk e => pyeval fr0 env0 e | TRejected => Exc E2PyclParser | _ => Exc SyntaxError end.
Definition excel_value (formula : string) : xres :=
  match tokens_of formula with
  | Some (Some ts) => match xparse ts with Some xe => xeval env0 xe | None => XSilent end
  | _ => XSilent
  end.

Lemma refuted_unary_sign : model_value "=-1+2" = Ok (VInt (-3)) /\ excel_value "=-1+2" = XVal (VFloat 1) /\
                           model_value "=2*-3+1" = Ok (VInt (-8)) /\ excel_value "=2*-3+1" = XVal (VFloat (-5)).
Proof. repeat split; vm_compute; reflexivity. Qed.
Lemma refuted_cmp_amp_left : model_value "=1+2<3" = Ok (VInt 2) /\ excel_value "=1+2<3" = XVal (VBool false) /\
                             model_value "=1+2&3" = Exc TypeError /\ excel_value "=1+2&3" = XVal (VStr "33").
Proof. repeat split; vm_compute; reflexivity. Qed.
Lemma refuted_percent_then_operator : model_value "=50%-1-2" = Ok (VFloat 1.5) /\ excel_value "=50%-1-2" = XVal (VFloat (-2.5)) /\
                                      model_value "=8/50%*2" = Ok (VFloat 8) /\ excel_value "=8/50%*2" = XVal (VFloat 32).
Proof. repeat split; vm_compute; reflexivity. Qed.
Lemma refuted_percent_forms : model_value "=1%%" = Exc E2PyclParser /\ excel_value "=1%%" = XVal (VFloat 0.0001) /\
                              model_value "=(2)%" = Exc E2PyclParser /\ excel_value "=(2)%" = XVal (VFloat 0.02).
Proof. repeat split; vm_compute; reflexivity. Qed.
Lemma refuted_text_forms : model_value "=8/4&""""" = Exc TypeError /\ model_value "=(8/4)&""""" = Ok (VStr "2.0") /\ excel_value "=(8/4)&""""" = XVal (VStr "2") /\
                           model_value "=TRUE&""""" = Ok (VStr "True") /\ excel_value "=TRUE&""""" = XVal (VStr "TRUE") /\
                           model_value "=E2&""x""" = Ok (VStr "0x") /\ excel_value "=E2&""x""" = XVal (VStr "x").
Proof. repeat split; vm_compute; reflexivity. Qed.
Lemma refuted_text_arith_and_errors : model_value "=""3""+1" = Exc TypeError /\ excel_value "=""3""+1" = XVal (VFloat 4) /\
                                      model_value "=C2+1" = Exc TypeError /\ excel_value "=C2+1" = XErr "#VALUE!" /\
                                      model_value "=1/0" = Exc ZeroDivisionError /\ excel_value "=1/0" = XErr "#DIV/0!" /\
                                      model_value "=+(1<2)" = Ok (VInt 1) /\ excel_value "=+(1<2)" = XVal (VBool true).
Proof. repeat split; vm_compute; reflexivity. Qed.
Lemma refuted_percent_normalised : model_value "=1.1%" = Ok (VFloat 0.011) /\ excel_value "=1.1%" = XVal (VFloat 0.011000000000000001).
Proof. repeat split; vm_compute; reflexivity. Qed.
(* and what holds: the core of the table on examples *)
Lemma holds_examples : model_value "=1+2*3" = Ok (VInt 7) /\ excel_value "=1+2*3" = XVal (VFloat 7) /\
                       model_value "=8-4-2" = Ok (VInt 2) /\ model_value "=8/4/2" = Ok (VFloat 1) /\ model_value "=-2*3" = Ok (VInt (-6)) /\
                       model_value "=(1+2)*3" = Ok (VInt 9) /\ model_value "=1<2+3" = Ok (VBool true) /\ model_value "=E2+1" = Ok (VInt 1) /\
                       model_value "=3e-1" = Ok (VFloat 0.3) /\ model_value "=10%" = Ok (VFloat 0.1).
Proof. repeat split; vm_compute; reflexivity. Qed.
