(* Proofs/ReprProofs.v — repr(str) round-trips through Python's string-literal reading, for EVERY byte string. *)
Require Import X2P.Base.Prelude X2P.Base.Str X2P.Base.PyRepr.
From Coq Require Import NArith Lia.
Open Scope N_scope.

Lemma ascii_eqb_eq c d : ascii_eqb c d = true -> c = d.
Proof.
  unfold ascii_eqb. intros H. apply N.eqb_eq in H.
  rewrite <- (ascii_N_embedding c), <- (ascii_N_embedding d), H. reflexivity.
Qed.
Lemma ascii_eqb_refl c : ascii_eqb c c = true.
Proof. unfold ascii_eqb. apply N.eqb_refl. Qed.
Lemma ascii_eqb_neq c d : ascii_eqb c d = false -> c <> d.
Proof. intros H E. subst. rewrite ascii_eqb_refl in H. discriminate. Qed.
Lemma chr_N c : chr (N_of_ascii c) = c.
Proof. apply ascii_N_embedding. Qed.
Lemma N_chr n : n < 256 -> N_of_ascii (chr n) = n.
Proof. intros H. unfold chr. apply N_ascii_embedding. exact H. Qed.
Lemma N_bound c : N_of_ascii c < 256.
Proof. apply N_ascii_bounded. Qed.

Lemma hexval_hexdigit d : d < 16 -> hexval (hexdigit d) = Some d.
Proof.
  intros H. unfold hexdigit, hexval. destruct (d <? 10) eqn:E.
  - apply N.ltb_lt in E. rewrite N_chr by lia.
    replace ((48 <=? 48 + d) && (48 + d <=? 57))%bool with true by (symmetry; apply andb_true_intro; split; apply N.leb_le; lia).
    f_equal. lia.
  - apply N.ltb_ge in E. rewrite N_chr by lia.
    replace ((48 <=? 87 + d) && (87 + d <=? 57))%bool with false by (symmetry; apply andb_false_intro2; apply N.leb_gt; lia).
    replace ((97 <=? 87 + d) && (87 + d <=? 102))%bool with true by (symmetry; apply andb_true_intro; split; apply N.leb_le; lia).
    f_equal. lia.
Qed.

Definition is_quote (q : ascii) : Prop := q = QUOTE1 \/ q = QUOTE2.

(* one character of repr is read back as that character *)
Lemma lit_body_char q c rest acc : is_quote q ->
  lit_body q (repr_char q c ++ rest) acc = lit_body q rest (c :: acc).
Proof.
  intros Hq. unfold repr_char.
  assert (Qn : N_of_ascii q = 39 \/ N_of_ascii q = 34) by (destruct Hq as [->| ->]; [left|right]; reflexivity).
  assert (QB : ascii_eqb BSL q = false) by (unfold ascii_eqb; apply N.eqb_neq; change (N_of_ascii BSL) with 92; lia).
  assert (BN : (N_of_ascii BSL =? 10) = false) by reflexivity.
  destruct (ascii_eqb c q || ascii_eqb c BSL)%bool eqn:E1.
  - (* escaped quote or backslash *)
    cbn [app lit_body]. rewrite QB, BN, ascii_eqb_refl.
    assert (T : (ascii_eqb c BSL || ascii_eqb c QUOTE1 || ascii_eqb c QUOTE2)%bool = true).
    { apply orb_prop in E1. destruct E1 as [E|E].
      - apply ascii_eqb_eq in E. subst c. destruct Hq as [->| ->]; rewrite ascii_eqb_refl; [rewrite orb_true_r|]; reflexivity || (rewrite !orb_true_r; reflexivity).
      - rewrite E. reflexivity. }
    rewrite T. reflexivity.
  - apply orb_false_elim in E1. destruct E1 as [Ecq EcB].
    pose proof (N_bound c) as Hb.
    assert (Cc : forall n, N_of_ascii c = n -> c = chr n) by (intros n <-; symmetry; apply chr_N).
    destruct (N_of_ascii c =? 10) eqn:E10.
    + apply N.eqb_eq in E10. rewrite (Cc _ E10). cbn [app lit_body]. rewrite ?QB. cbn. reflexivity.
    + destruct (N_of_ascii c =? 13) eqn:E13.
      * apply N.eqb_eq in E13. rewrite (Cc _ E13). cbn [app lit_body]. rewrite ?QB. cbn. reflexivity.
      * destruct (N_of_ascii c =? 9) eqn:E9.
        -- apply N.eqb_eq in E9. rewrite (Cc _ E9). cbn [app lit_body]. rewrite ?QB. cbn. reflexivity.
        -- destruct ((N_of_ascii c <? 32) || (N_of_ascii c =? 127))%bool eqn:Ectl.
           ++ cbn [app lit_body]. rewrite ?QB, ?BN, ?ascii_eqb_refl.
              change (ascii_eqb (chr 120) BSL || ascii_eqb (chr 120) QUOTE1 || ascii_eqb (chr 120) QUOTE2)%bool with false.
              change (N_of_ascii (chr 120)) with 120. cbn [N.eqb Pos.eqb].
              rewrite !hexval_hexdigit.
              ** replace (N_of_ascii c / 16 * 16 + N_of_ascii c mod 16) with (N_of_ascii c).
                 { rewrite chr_N. reflexivity. }
                 rewrite N.mul_comm. apply N.div_mod. lia.
              ** apply N.mod_lt. lia.
              ** apply N.div_lt_upper_bound; lia.
           ++ cbn [app lit_body]. rewrite Ecq, E10, EcB. reflexivity.
Qed.

Lemma lit_body_repr q l rest acc : is_quote q ->
  lit_body q (flat_map (repr_char q) l ++ q :: rest) acc = Some (rev acc ++ l, rest)%list.
Proof.
  intros Hq. revert acc. induction l as [|c l IH]; intros acc.
  - cbn [flat_map app lit_body]. rewrite ascii_eqb_refl. now rewrite app_nil_r.
  - cbn [flat_map]. rewrite <- app_assoc, (lit_body_char q c _ acc Hq), IH. cbn [rev]. now rewrite <- app_assoc.
Qed.

(* the text produced by repr(s) is exactly one string literal, and that literal denotes s *)
Theorem repr_roundtrip l rest : read_string_literal (py_repr_l l ++ rest) = Some (l, rest).
Proof.
  unfold py_repr_l, read_string_literal.
  assert (Hq : is_quote (repr_quote l)) by (unfold repr_quote, is_quote; destruct (_ && _)%bool; auto).
  set (q := repr_quote l) in *. cbn [app].
  replace (ascii_eqb q QUOTE1 || ascii_eqb q QUOTE2)%bool with true
    by (destruct Hq as [->| ->]; [rewrite ascii_eqb_refl|rewrite ascii_eqb_refl, orb_true_r]; reflexivity).
  rewrite <- app_assoc. cbn [app]. apply (lit_body_repr q l rest [] Hq).
Qed.
