(* Proofs/TextProofs.v — lemmas behind Props/C17.v *)
Require Import X2P.Base.Prelude X2P.Base.F64 X2P.Base.PyCmp X2P.Base.PyType X2P.Base.PyNum X2P.Base.Str.
Require Import X2P.Model.Text X2P.Spec.Text.
Require X2P.Base.Regex.
From Coq Require Import Lia ZifyBool.
Open Scope Z_scope.

Lemma string_of_list_of_string s : string_of_list (list_of_string s) = s.
Proof. induction s as [|c s IH]; simpl; [reflexivity|now rewrite IH]. Qed.
Lemma list_of_string_of_list l : list_of_string (string_of_list l) = l.
Proof. induction l as [|c l IH]; simpl; [reflexivity|now rewrite IH]. Qed.
Lemma length_list_of_string s : List.length (list_of_string s) = String.length s.
Proof. induction s as [|c s IH]; simpl; [reflexivity|now rewrite IH]. Qed.
Lemma slen_chars s : slen s = Z.of_nat (List.length (chars s)).
Proof. unfold slen, chars. now rewrite length_list_of_string. Qed.
Lemma string_of_list_app a b : string_of_list (a ++ b) = (string_of_list a ++ string_of_list b)%string.
Proof. induction a as [|c a IH]; simpl; [reflexivity|now rewrite IH]. Qed.

(* s[a:b] for non-negative bounds *)
Lemma str_slice_nonneg s a b :
  0 <= a -> 0 <= b ->
  let n := Z.of_nat (List.length (chars s)) in
  str_slice s a b = string_of_list (firstn (Z.to_nat (Z.min b n - Z.min a n)) (skipn (Z.to_nat (Z.min a n)) (chars s))).
Proof.
  intros Ha Hb n. unfold str_slice. fold (chars s). fold n.
  destruct (a <? 0) eqn:E1; [lia|]. destruct (b <? 0) eqn:E2; [lia|].
  destruct (Z.min b n <=? Z.min a n) eqn:E3.
  - apply Z.leb_le in E3. replace (Z.to_nat (Z.min b n - Z.min a n)) with 0%nat; [reflexivity|].
    destruct (Z.min b n - Z.min a n) eqn:D; try reflexivity. lia.
  - reflexivity.
Qed.

Lemma firstn_ge {A} (l : list A) k : (List.length l <= k)%nat -> firstn k l = l.
Proof. apply firstn_all2. Qed.

(* LEFT(t, n) = the first n characters, for every non-empty t and every n >= 0 (n = 0, n = len, n > len included) *)
Lemma left_firstn t n :
  t <> ""%string -> 0 <= n ->
  left t (Some n) = Ok (VStr (string_of_list (firstn (Z.to_nat n) (chars t)))).
Proof.
  intros Ht Hn. unfold left. destruct (n <? 0) eqn:E1; [lia|].
  assert (E2 : String.eqb t "" = false) by (apply String.eqb_neq; exact Ht). rewrite E2.
  rewrite slen_chars. destruct (Z.of_nat (List.length (chars t)) <? n) eqn:E3.
  - rewrite firstn_ge by lia. now rewrite string_of_list_of_string.
  - rewrite str_slice_nonneg by lia.
    replace (Z.min 0 (Z.of_nat (List.length (chars t)))) with 0 by lia.
    replace (Z.min n (Z.of_nat (List.length (chars t)))) with n by lia.
    rewrite Z.sub_0_r. reflexivity.
Qed.

(* RIGHT(t, n) = the last n characters *)
Lemma right_lastn t n :
  t <> ""%string -> 0 <= n ->
  right t (Some n) = Ok (VStr (string_of_list (skipn (List.length (chars t) - Z.to_nat n) (chars t)))).
Proof.
  intros Ht Hn. unfold right. destruct (n <? 0) eqn:E1; [lia|].
  assert (E2 : String.eqb t "" = false) by (apply String.eqb_neq; exact Ht). rewrite E2.
  rewrite slen_chars. set (len := List.length (chars t)).
  destruct (Z.of_nat len <? n) eqn:E3.
  - replace (len - Z.to_nat n)%nat with 0%nat by lia. simpl. now rewrite string_of_list_of_string.
  - rewrite str_slice_nonneg by lia. fold len. f_equal. f_equal.
    replace (Z.min (Z.of_nat len) (Z.of_nat len)) with (Z.of_nat len) by lia.
    replace (Z.min (Z.of_nat len - n) (Z.of_nat len)) with (Z.of_nat len - n) by lia.
    replace (Z.to_nat (Z.of_nat len - n)) with (len - Z.to_nat n)%nat by lia.
    f_equal. apply firstn_ge. rewrite skipn_length. fold len. lia.
Qed.

(* MID(t, k, n) = the n characters from 1-based position k (shorter at the end), for 1 <= k <= len *)
Lemma mid_slice t k n :
  1 <= k <= slen t -> 0 <= n ->
  mid t k n = Ok (VStr (string_of_list (firstn (Z.to_nat n) (skipn (Z.to_nat (k - 1)) (chars t))))).
Proof.
  intros Hk Hn. unfold mid. destruct (k <? 1) eqn:E1; [lia|]. destruct (n <? 0) eqn:E2; [lia|].
  destruct (slen t <? k) eqn:E3; [lia|].
  rewrite slen_chars in *. set (len := List.length (chars t)) in *.
  rewrite str_slice_nonneg by lia. fold len. f_equal. f_equal.
  replace (Z.min (k - 1) (Z.of_nat len)) with (k - 1) by lia.
  destruct (Z.le_gt_cases (k + n - 1) (Z.of_nat len)) as [H|H].
  - replace (Z.min (k + n - 1) (Z.of_nat len)) with (k + n - 1) by lia.
    replace (k + n - 1 - (k - 1)) with n by lia. reflexivity.
  - replace (Z.min (k + n - 1) (Z.of_nat len)) with (Z.of_nat len) by lia.
    rewrite !firstn_ge; try reflexivity; rewrite skipn_length; fold len; lia.
Qed.

(* negative counts and k < 1 give error values *)
Lemma left_right_mid_errors t n k :
  (n < 0 -> left t (Some n) = Ok ERROR /\ right t (Some n) = Ok ERROR) /\
  (k < 1 -> mid t k n = Ok (VStr "#NUM!")) /\
  (1 <= k -> n < 0 -> mid t k n = Ok VALUE_ERR).
Proof.
  repeat split; intros.
  - unfold left. destruct (n <? 0) eqn:E; [reflexivity|lia].
  - unfold right. destruct (n <? 0) eqn:E; [reflexivity|lia].
  - unfold mid. destruct (k <? 1) eqn:E; [reflexivity|lia].
  - unfold mid. destruct (k <? 1) eqn:E; [lia|]. destruct (n <? 0) eqn:E2; [reflexivity|lia].
Qed.

(* LEFT(t,n) & MID(t,n+1,len) rebuilds t for 0 <= n < len *)
Lemma left_mid_rebuild t n :
  0 <= n < slen t ->
  exists a b, left t (Some n) = Ok (VStr a) /\ mid t (n + 1) (slen t) = Ok (VStr b) /\ (a ++ b)%string = t.
Proof.
  intros Hn.
  assert (Ht : t <> ""%string) by (intros ->; unfold slen in Hn; simpl in Hn; lia).
  eexists. eexists. split; [apply left_firstn; [exact Ht|lia]|]. split; [apply mid_slice; lia|].
  rewrite <- string_of_list_app.
  replace (Z.to_nat (n + 1 - 1)) with (Z.to_nat n) by lia.
  rewrite (firstn_ge (skipn (Z.to_nat n) (chars t))).
  - rewrite firstn_skipn. apply string_of_list_of_string.
  - rewrite skipn_length. rewrite slen_chars. lia.
Qed.

(* refutation on the unchanged tree: LEFT("",1) and MID beyond the end return a blank, not the empty text *)
Lemma empty_text_is_blank : left "" (Some 1) = Ok VEmpty /\ mid "abc" 5 1 = Ok VEmpty.
Proof. split; reflexivity. Qed.

(* ---------- SEARCH: kernel-exhaustive small sweep ---------- *)
Open Scope string_scope.
Definition alpha : list string := ["a"; "B"; "?"; "*"; "~"; "."].
Definition pats2 := flat_map (fun a => map (fun b => a ++ b) alpha) alpha.
Definition pats3 := flat_map (fun a => map (fun b => a ++ b) pats2) alpha.
Definition pats := "" :: alpha ++ pats2 ++ pats3.
Definition withins := ["abab"; "aB.b"; "b*a?"; "a~b"; "ba"; "x"].
Definition starts : list Z := [1; 2; 3; 5].

Definition search_ok (f w : string) (s : Z) : bool :=
  match search f w (Some s), xl_search f w s with
  | Ok (VInt i), Some j => (i =? j)%Z
  | Ok (VStr _), None => true
  | _, _ => false
  end.
Definition wild_path (f : string) : bool :=
  match Regex.findall false WILD_PAT f with Some [] => false | _ => true end.
Definition has_case (s : string) : bool := negb (String.eqb s (lower s)).
Definition has_special (f : string) : bool :=
  existsb (fun c => let n := N_of_ascii c in existsb (N.eqb n) [46; 126; 40; 41; 43; 36; 94; 124; 91; 93; 123; 125; 92]%N) (list_of_string f).     (* . ~ ( ) + $ ^ | [ ] { } \ *)
Definition has_tilde_tilde (f : string) : bool := negb (str_find f "~~" 0 =? -1)%Z.
(* defect classes of _search on the unchanged tree *)
Definition search_class (f w : string) (s : Z) : string :=
  if negb (wild_path f) then
    (if has_case f || has_case w then "search_plain_case_sensitive"
     else if has_tilde_tilde f then "search_tilde_tilde" else "-")
  else if (1 <? s)%Z then "search_wildcard_with_start"
  else if has_special f then "search_wildcard_regex_special" else "-".
Definition sweep_ok (f w : string) (s : Z) : bool :=
  negb (String.eqb (search_class f w s) "-") || search_ok f w s.

Lemma search_sweep :
  forallb (fun f => forallb (fun w => forallb (fun s => sweep_ok f w s) starts) withins) pats = true.
Proof. vm_compute. reflexivity. Qed.

Lemma orb_class_elim (c : string) (b : bool) : negb (String.eqb c "-") || b = true -> c = "-" -> b = true.
Proof. intros H ->. exact H. Qed.

Lemma sweep_L1 f : In f pats -> forallb (fun w => forallb (fun s => sweep_ok f w s) starts) withins = true.
Proof. intros Hf. exact (proj1 (forallb_forall _ _) search_sweep f Hf). Qed.
Lemma sweep_L2 f w : forallb (fun w => forallb (fun s => sweep_ok f w s) starts) withins = true -> In w withins ->
  forallb (fun s => sweep_ok f w s) starts = true.
Proof. intros H Hw. exact (proj1 (forallb_forall _ _) H w Hw). Qed.
Lemma sweep_L3 f w s : forallb (fun s => sweep_ok f w s) starts = true -> In s starts -> sweep_ok f w s = true.
Proof. intros H Hs. exact (proj1 (forallb_forall _ _) H s Hs). Qed.
Lemma sweep_L4 f w s : sweep_ok f w s = true -> search_class f w s = "-" -> search_ok f w s = true.
Proof. unfold sweep_ok. intros H Hc. exact (orb_class_elim _ _ H Hc). Qed.

Lemma search_small f w s :
  In f pats -> In w withins -> In s starts -> search_class f w s = "-" -> search_ok f w s = true.
Proof.
  intros Hf Hw Hs Hc.
  apply sweep_L4; [|exact Hc]. apply sweep_L3; [|exact Hs]. apply sweep_L2; [|exact Hw]. apply sweep_L1, Hf.
Qed.
