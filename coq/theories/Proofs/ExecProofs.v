(* Proofs/ExecProofs.v — the Executor state machine refines an abstract last-write-wins map; queries are pure. *)
Require Import X2P.Base.Prelude X2P.Base.PyNum X2P.Base.PyType X2P.Base.Str X2P.Spec.Lookup X2P.Model.Executor.
From Coq Require Import Lia.
Open Scope Z_scope.

Lemma lookup_upsert m k v u : lookup (upsert m k v) u = if String.eqb k u then Some v else lookup m u.
Proof.
  induction m as [|[k' v'] t IH]; simpl; [reflexivity|].
  destruct (String.eqb k' k) eqn:E; simpl.
  - apply String.eqb_eq in E; subst. destruct (String.eqb k u); reflexivity.
  - rewrite IH. destruct (String.eqb k' u) eqn:E2; auto.
    apply String.eqb_eq in E2; subst. rewrite String.eqb_sym in E. now rewrite E.
Qed.

(* the abstract spec: one map uid -> value; a batch is applied in order, so the last write wins *)
Definition wmap := string -> option val.
Definition spec_apply (m : wmap) (l : dict) : wmap :=
  fold_left (fun acc kv => fun u => if String.eqb (fst kv) u then Some (snd kv) else acc u) l m.

Lemma spec_apply_ext l : forall (f g : wmap) u, (forall x, f x = g x) -> spec_apply f l u = spec_apply g l u.
Proof.
  unfold spec_apply. induction l as [|[a b] l IH]; intros f g u H; simpl; [apply H|].
  apply IH. intros x. simpl. now rewrite H.
Qed.

Lemma lookup_upsert_all l : forall m u, lookup (upsert_all m l) u = spec_apply (lookup m) l u.
Proof.
  unfold upsert_all. induction l as [|[k v] l IH]; intros m u; simpl; [reflexivity|].
  rewrite IH. apply spec_apply_ext. intros x. simpl. apply lookup_upsert.
Qed.

Definition keys (m : dict) := map fst m.
Lemma lookup_none_keys m u : lookup m u = None <-> ~ In u (keys m).
Proof.
  induction m as [|[k v] t IH]; simpl; [tauto|].
  destruct (String.eqb k u) eqn:E.
  - apply String.eqb_eq in E. subst. split; [discriminate|]. intros H; exfalso; apply H; now left.
  - apply String.eqb_neq in E. rewrite IH. split; intros H; [intros [X|X]; auto | intros X; apply H; now right].
Qed.
Lemma keys_upsert m k v x : In x (keys (upsert m k v)) <-> x = k \/ In x (keys m).
Proof.
  induction m as [|[k' v'] t IH]; simpl.
  - split; intros [H|H]; auto.
  - destruct (String.eqb k' k) eqn:E; simpl.
    + apply String.eqb_eq in E; subst. split; intros [H|H]; auto.
    + rewrite IH. split; intros H; decompose [or] H; auto.
Qed.
Lemma nodup_upsert m k v : NoDup (keys m) -> NoDup (keys (upsert m k v)).
Proof.
  induction m as [|[k' v'] t IH]; simpl; intros H.
  - constructor; [intros []|constructor].
  - inversion H; subst. destruct (String.eqb k' k) eqn:E; simpl.
    + apply String.eqb_eq in E; subst. now constructor.
    + apply String.eqb_neq in E. constructor; [|auto]. rewrite keys_upsert. intros [X|X]; [congruence|auto].
Qed.
Lemma nodup_upsert_all l : forall m, NoDup (keys m) -> NoDup (keys (upsert_all m l)).
Proof. unfold upsert_all. induction l as [|[k v] l IH]; intros m H; simpl; auto. apply IH. now apply nodup_upsert. Qed.

Lemma spec_apply_nodup l : forall f u, NoDup (keys l) ->
  spec_apply f l u = match lookup l u with Some v => Some v | None => f u end.
Proof.
  unfold spec_apply. induction l as [|[k v] t IH]; intros f u H; simpl; [reflexivity|].
  inversion H; subst. rewrite IH by assumption. simpl.
  destruct (String.eqb k u) eqn:E.
  - apply String.eqb_eq in E; subst. assert (L : lookup t u = None) by now apply lookup_none_keys. now rewrite L.
  - reflexivity.
Qed.

(* refinement invariant: the override list is a dict equal to the abstract map; once flushed, so is the argument map *)
Definition Inv (s : state) (m : wmap) : Prop :=
  NoDup (keys (s_cells s)) /\
  (forall u, lookup (s_cells s) u = m u) /\
  (s_dirty s = false -> forall u, lookup (s_args s) u = m u) /\
  (forall u, lookup (s_cells s) u = None -> lookup (s_args s) u = None).

Lemma flush_inv s m : Inv s m -> Inv (flush s) m /\ (forall u, lookup (s_args (flush s)) u = m u).
Proof.
  intros [H0 [H1 [H2 H3]]]. unfold flush. destruct (s_dirty s) eqn:D.
  - assert (A : forall u, lookup (upsert_all (s_args s) (s_cells s)) u = m u).
    { intros u. rewrite lookup_upsert_all, spec_apply_nodup by assumption. rewrite <- H1.
      destruct (lookup (s_cells s) u) eqn:L; [reflexivity|]. now apply H3. }
    split; [|exact A]. repeat split; simpl; auto.
    intros u L. rewrite A, <- H1. exact L.
  - split; [repeat split; auto|]. auto.
Qed.

(* what a step does to the abstract map *)
Definition spec_step (s : state) (m : wmap) (o : op) : wmap :=
  match o with
  | SetCells l => match snd (set_loop (s_titles s) l (s_sizes s) []) with Ok news => spec_apply m news | Exc _ => m end
  | _ => m
  end.
(* what a query shows: the argument map in force is the abstract map *)
Definition obs (o : out) (m : wmap) : Prop :=
  match o with OQueries (_ :: _) args => forall u, lookup args u = m u | _ => True end.

Lemma step_inv s m o : Inv s m -> Inv (fst (step s o)) (spec_step s m o).
Proof.
  intros I. destruct o as [l|a|l|t]; cbn [step spec_step].
  - destruct (set_loop (s_titles s) l (s_sizes s) []) as [sz r] eqn:E. cbn [snd].
    destruct r as [news|e]; cbn [fst].
    + destruct I as [H0 [H1 [H2 H3]]]. repeat split; cbn.
      * now apply nodup_upsert_all.
      * intros u. rewrite lookup_upsert_all. apply spec_apply_ext. exact H1.
      * discriminate.
      * clear E. intros u. rewrite lookup_upsert_all. intros L. apply H3. revert L. unfold spec_apply. generalize (lookup (s_cells s)).
        induction news as [|[k v] news IHn]; intros f L; simpl in L; [exact L|].
        apply IHn in L. simpl in L. destruct (String.eqb k u); [discriminate|exact L].
    + destruct I as [H0 [H1 [H2 H3]]]. repeat split; cbn; auto.
  - destruct (flush_inv s m I) as [I' _]. destruct (handle (s_titles s) a) as [[[tt c] r]|e]; exact I'.
  - destruct l as [|a0 l0]; [exact I|].
    destruct (flush_inv s m I) as [I' _]. destruct (handle_all (s_titles s) (a0 :: l0)); exact I'.
  - destruct (sheet_index (s_titles s) t) as [ti|e]; [|exact I].
    destruct (py_index (s_sizes s) ti) as [[lr lc]|e]; [|exact I].
    destruct (sheet_uids ti lr lc); [exact I|]. destruct (flush_inv s m I) as [I' _]. exact I'.
Qed.

Lemma step_obs s m o : Inv s m -> obs (snd (step s o)) (spec_step s m o).
Proof.
  intros I. destruct o as [l|a|l|t]; cbn [step spec_step].
  - destruct (set_loop (s_titles s) l (s_sizes s) []) as [sz r]. destruct r; exact Logic.I.
  - destruct (flush_inv s m I) as [_ A]. destruct (handle (s_titles s) a) as [[[ti c] r]|e]; cbn; [exact A|exact Logic.I].
  - destruct l as [|a0 l0]; [exact Logic.I|].
    destruct (flush_inv s m I) as [_ A]. destruct (handle_all (s_titles s) (a0 :: l0)) as [[|u us]|e]; cbn; try exact Logic.I. exact A.
  - destruct (sheet_index (s_titles s) t) as [ti|e]; [|exact Logic.I].
    destruct (py_index (s_sizes s) ti) as [[lr lc]|e]; [|exact Logic.I].
    destruct (sheet_uids ti lr lc) as [|u us]; [exact Logic.I|]. destruct (flush_inv s m I) as [_ A]. cbn. exact A.
Qed.

(* the abstract map along a run *)
Fixpoint spec_trace (s : state) (m : wmap) (os : list op) : list wmap :=
  match os with
  | [] => []
  | o :: rest => let m' := spec_step s m o in m' :: spec_trace (fst (step s o)) m' rest
  end.

(* C04: after ANY sequence of set-cells calls and queries, every query is answered against the last-write-wins map *)
Theorem executor_refines_map : forall os s m, Inv s m -> Forall2 obs (snd (run s os)) (spec_trace s m os).
Proof.
  induction os as [|o os IH]; intros s m I; cbn [run spec_trace]; [constructor|].
  pose proof (step_inv s m o I) as I1. pose proof (step_obs s m o I) as O1.
  destruct (step s o) as [s1 r] eqn:E. cbn [fst snd] in *.
  specialize (IH s1 (spec_step s m o) I1). destruct (run s1 os) as [s2 rs]. cbn [snd] in *.
  constructor; assumption.
Qed.

Lemma init_inv ts sizes : Inv (init ts sizes) (fun _ => None).
Proof. repeat split; simpl; auto. constructor. Qed.

(* C08: queries never change the overrides, the titles or the reported sizes *)
Definition is_query (o : op) : bool := match o with SetCells _ => false | _ => true end.
Lemma flush_keeps s : s_cells (flush s) = s_cells s /\ s_sizes (flush s) = s_sizes s /\ s_titles (flush s) = s_titles s.
Proof. unfold flush. destruct (s_dirty s); auto. Qed.
Theorem queries_preserve_state s o : is_query o = true ->
  s_cells (fst (step s o)) = s_cells s /\ s_sizes (fst (step s o)) = s_sizes s /\ s_titles (fst (step s o)) = s_titles s /\
  forall m, spec_step s m o = m.
Proof.
  destruct o as [l|a|l|t]; intros Q; try discriminate; cbn [step spec_step].
  - destruct (handle (s_titles s) a) as [[[ti c] r]|e]; cbn [fst]; destruct (flush_keeps s) as [A [B C]]; auto.
  - destruct l as [|a0 l0]; [cbn; auto|].
    destruct (handle_all (s_titles s) (a0 :: l0)); cbn [fst]; destruct (flush_keeps s) as [A [B C]]; auto.
  - destruct (sheet_index (s_titles s) t) as [ti|e]; [|cbn; auto].
    destruct (py_index (s_sizes s) ti) as [[lr lc]|e]; [|cbn; auto].
    destruct (sheet_uids ti lr lc); cbn [fst]; [auto|]. destruct (flush_keeps s) as [A [B C]]; auto.
Qed.

(* ... hence the answer to a query does not depend on which, how many or in what order other queries came before *)
Fixpoint all_queries (os : list op) : bool := match os with [] => true | o :: t => is_query o && all_queries t end.
Theorem queries_do_not_disturb : forall qs s m, Inv s m -> all_queries qs = true ->
  let s' := fst (run s qs) in
  Inv s' m /\ s_cells s' = s_cells s /\ s_sizes s' = s_sizes s /\ s_titles s' = s_titles s.
Proof.
  induction qs as [|q qs IH]; intros s m I Q; cbn [run all_queries] in *; [auto|].
  apply andb_prop in Q. destruct Q as [Q1 Q2].
  destruct (queries_preserve_state s q Q1) as [A [B [C D]]].
  pose proof (step_inv s m q I) as I1. rewrite D in I1.
  destruct (step s q) as [s1 r] eqn:E. cbn [fst] in *.
  specialize (IH s1 m I1 Q2). destruct (run s1 qs) as [s2 rs]. cbn [fst] in *.
  destruct IH as [I2 [A2 [B2 C2]]]. repeat split; try congruence; apply I2.
Qed.

(* get_sheet: exactly last_row x last_column coordinates, row-major, each the uid a single-cell query of that coordinate asks *)
Lemma zrange_length n a : List.length (zrange n a) = n.
Proof. revert a. induction n; intros a; simpl; auto. Qed.
Lemma in_zrange n a x : In x (zrange n a) <-> a <= x < a + Z.of_nat n.
Proof.
  revert a. induction n as [|n IH]; intros a; cbn [zrange In].
  - split; [intros []|lia].
  - rewrite IH. lia.
Qed.
Lemma sheet_uids_length t lr lc : 0 <= lr -> 0 <= lc -> Z.of_nat (List.length (sheet_uids t lr lc)) = lr * lc.
Proof.
  intros Hr Hc. unfold sheet_uids.
  assert (G : forall l, List.length (flat_map (fun r => map (fun c => uid_of t c (Some r)) (zrange (Z.to_nat lc) 0)) l)
                        = (List.length l * Z.to_nat lc)%nat).
  { induction l as [|x l IHl]; [reflexivity|]. cbn [flat_map]. rewrite app_length, map_length, zrange_length, IHl. simpl. lia. }
  rewrite G, zrange_length. lia.
Qed.
Lemma sheet_uids_in t lr lc u :
  In u (sheet_uids t lr lc) <-> exists r c, 0 <= r < lr /\ 0 <= c < lc /\ u = uid_of t c (Some r).
Proof.
  unfold sheet_uids. rewrite in_flat_map. split.
  - intros [r [Hr Hu]]. apply in_map_iff in Hu. destruct Hu as [c [Hu Hc]].
    apply in_zrange in Hr. apply in_zrange in Hc. exists r, c. repeat split; try lia. now symmetry.
  - intros [r [c [Hr [Hc Hu]]]]. exists r. split; [apply in_zrange; lia|].
    apply in_map_iff. exists c. split; [now symmetry|apply in_zrange; lia].
Qed.
Lemma single_cell_query_uid s t c r :
  snd (step s (Get {| a_t := TIdx t; a_c := CIdx c; a_r := RIdx r |})) = OQueries [uid_of t c (Some r)] (s_args (flush s)).
Proof. reflexivity. Qed.

(* numeric and A1-style / sheet-title addressing name the same cell *)
Theorem addressing_agree ts n i l k d z :
  title_index ts n = Ok i -> column_index_from_string l = Ok k -> d <> ""%string -> int_of_string d = Ok z -> 1 <= z ->
  handle ts {| a_t := TName n; a_c := CLetters l; a_r := RDigits d |} =
  handle ts {| a_t := TIdx i; a_c := CIdx (k - 1); a_r := RIdx (z - 1) |}.
Proof.
  intros H1 H2 H3 H4 Hz. unfold handle. cbn [a_t a_c a_r]. rewrite H1, H2, H4.
  assert (E : String.eqb d "" = false) by (apply String.eqb_neq; exact H3). rewrite E. cbn [bind].
  destruct (z - 1 <? 0) eqn:N; [apply Z.ltb_lt in N; lia|reflexivity].
Qed.

(* sizes: a successful set_cells only grows the sizes, keeps their number, and covers every cell it wrote *)
Definition size_le (a b : Z * Z) : Prop := fst a <= fst b /\ snd a <= snd b.
Lemma set_nth_length {A} (l : list A) n x : List.length (set_nth l n x) = List.length l.
Proof. revert n. induction l as [|h t IH]; intros [|n]; simpl; auto. Qed.
Lemma set_loop_sizes ts : forall l sizes acc sizes' r,
  set_loop ts l sizes acc = (sizes', r) ->
  List.length sizes' = List.length sizes /\ Forall2 size_le sizes sizes'.
Proof.
  assert (Refl : forall sz : list (Z * Z), Forall2 size_le sz sz).
  { induction sz; constructor; auto. unfold size_le; lia. }
  induction l as [|[a v] rest IH]; intros sizes acc sizes' r E; cbn [set_loop] in E.
  - inversion E; subst. auto.
  - destruct (handle ts a) as [[[t c] ro]|e]; [|inversion E; subst; auto].
    destruct ro as [ro|]; [|inversion E; subst; auto].
    destruct (py_index sizes t) as [[lr lc]|e] eqn:P; [|inversion E; subst; auto].
    apply IH in E. destruct E as [L F]. rewrite set_nth_length in L. split; [exact L|].
    (* sizes <= set_nth ... <= sizes' *)
    assert (S1 : Forall2 size_le sizes (set_nth sizes (Z.to_nat (if t <? 0 then t + Z.of_nat (List.length sizes) else t))
                                                  (Z.max (ro + 1) lr, Z.max (c + 1) lc))).
    { unfold py_index in P.
      set (j := if t <? 0 then t + Z.of_nat (List.length sizes) else t) in *.
      destruct ((j <? 0) || (Z.of_nat (List.length sizes) <=? j)) eqn:B; [discriminate|].
      destruct (nth_error sizes (Z.to_nat j)) as [[a1 b1]|] eqn:N; [|discriminate]. inversion P; subst a1 b1.
      clear -N Refl. revert N. generalize (Z.to_nat j). induction sizes as [|h tl IHs]; intros [|n] N; simpl in *; try discriminate.
      - inversion N; subst. constructor; [unfold size_le; simpl; lia|apply Refl].
      - constructor; [unfold size_le; lia|apply IHs, N]. }
    clear -S1 F. revert S1 F. generalize (set_nth sizes (Z.to_nat (if t <? 0 then t + Z.of_nat (List.length sizes) else t)) (Z.max (ro + 1) lr, Z.max (c + 1) lc)).
    intros mid S1 F. revert sizes' F. induction S1 as [|x y l1 l2 Hxy _ IHf]; intros sizes' F; inversion F; subst; constructor.
    + unfold size_le in *. lia.
    + apply IHf. assumption.
Qed.
