(* Proofs/FormulaGrammar.v — the standard precedence grammar G on flat token strings (unary sign > * / > + -, left-associative, brackets),
   and the proof that Python's reading of the emitted text (Model/Emit.regroup, which works on the structured text with nested bracket
   groups) builds exactly the tree G builds on the flattened string — for every text over atoms, operators and brackets, of any size. *)
Require Import X2P.Base.Prelude X2P.Base.PyArith X2P.Model.Peg X2P.Model.Emit X2P.Gen.Grammar X2P.Proofs.FormulaCore.
Open Scope string_scope.

Inductive gt := GA (e : pyexpr) | GU (neg : bool) (a : gt) | GB (o : aop) (a b : gt).
Fixpoint py_of_gt (g : gt) : pyexpr :=
  match g with GA e => e | GU n a => PUn n (py_of_gt a) | GB o a b => PBin o (py_of_gt a) (py_of_gt b) end.

Fixpoint g_factor (fuel : nat) (l : list ftok) : option (gt * list ftok) :=
  match fuel with O => None | S f =>
  match l with
  | FOp AAdd :: r => match g_factor f r with Some (e, r') => Some (GU false e, r') | None => None end
  | FOp ASub :: r => match g_factor f r with Some (e, r') => Some (GU true e, r') | None => None end
  | FAtom e :: r => Some (GA e, r)
  | FOpen :: r => match g_sum f r with Some (e, FClose :: r') => Some (e, r') | _ => None end
  | _ => None
  end end
with g_term_loop (fuel : nat) (acc : gt) (l : list ftok) : option (gt * list ftok) :=
  match fuel with O => None | S f =>
  match l with
  | FOp AMul :: r => match g_factor f r with Some (e, r') => g_term_loop f (GB AMul acc e) r' | None => None end
  | FOp ADiv :: r => match g_factor f r with Some (e, r') => g_term_loop f (GB ADiv acc e) r' | None => None end
  | _ => Some (acc, l)
  end end
with g_sum_loop (fuel : nat) (acc : gt) (l : list ftok) : option (gt * list ftok) :=
  match fuel with O => None | S f =>
  match l with
  | FOp AAdd :: r =>
      match g_factor f r with
      | Some (e, r') => match g_term_loop f e r' with Some (t, r'') => g_sum_loop f (GB AAdd acc t) r'' | None => None end
      | None => None end
  | FOp ASub :: r =>
      match g_factor f r with
      | Some (e, r') => match g_term_loop f e r' with Some (t, r'') => g_sum_loop f (GB ASub acc t) r'' | None => None end
      | None => None end
  | _ => Some (acc, l)
  end end
with g_sum (fuel : nat) (l : list ftok) : option (gt * list ftok) :=
  match fuel with O => None | S f =>
  match g_factor f l with
  | Some (e, r) =>
      match g_term_loop f e r with
      | Some (t, r') => g_sum_loop f t r'
      | None => None end
  | None => None
  end end.

(* texts made of atoms, operator characters and bracket groups only *)
Fixpoint core_item (i : pitem) : bool :=
  match i with
  | IAtom _ | IOp _ => true
  | IParen c => (fix all (l : list pitem) : bool := match l with [] => true | x :: r => core_item x && all r end) c
  | _ => false
  end.
Definition core_items (c : list pitem) : bool := forallb core_item c.
Lemma core_item_paren c : core_item (IParen c) = core_items c.
Proof. reflexivity. Qed.

(* what may follow the text being read: nothing, or a closing bracket *)
Definition ok_tail (t : list ftok) : Prop := t = [] \/ exists t', t = FClose :: t'.

Definition Pfac (f : nat) : Prop := forall items e r tail, core_items items = true -> ok_tail tail -> p_factor f items = Some (e, r) ->
  exists g, g_factor f (flat items ++ tail) = Some (g, flat r ++ tail)%list /\ py_of_gt g = e /\ core_items r = true.
Definition Pterm (f : nat) : Prop := forall items acc gacc e r tail, core_items items = true -> ok_tail tail -> py_of_gt gacc = acc ->
  p_term_loop f acc items = Some (e, r) ->
  exists g, g_term_loop f gacc (flat items ++ tail) = Some (g, flat r ++ tail)%list /\ py_of_gt g = e /\ core_items r = true.
Definition Psuml (f : nat) : Prop := forall items acc gacc e r tail, core_items items = true -> ok_tail tail -> py_of_gt gacc = acc ->
  p_sum_loop f acc items = Some (e, r) ->
  exists g, g_sum_loop f gacc (flat items ++ tail) = Some (g, flat r ++ tail)%list /\ py_of_gt g = e /\ core_items r = true.
Definition Psum (f : nat) : Prop := forall items e tail, core_items items = true -> ok_tail tail -> p_sum f items = Some e ->
  exists g, g_sum f (flat items ++ tail) = Some (g, tail) /\ py_of_gt g = e.

Lemma flat_cons' x r tail : (flat (x :: r) ++ tail = flat_item x ++ flat r ++ tail)%list.
Proof. rewrite flat_cons. now rewrite <- app_assoc. Qed.

(* the head of what the loops look at next, when the structured text does not continue with the operator they want *)
Lemma head_not_muldiv items tail : core_items items = true -> ok_tail tail ->
  match items with IOp AMul :: _ | IOp ADiv :: _ => False | _ => True end ->
  match (flat items ++ tail)%list with FOp AMul :: _ | FOp ADiv :: _ => False | _ => True end.
Proof.
  intros Hc Ht Hi. destruct items as [|x r].
  - cbn. destruct Ht as [->|[t' ->]]; exact I.
  - cbn [core_items forallb] in Hc. apply andb_prop in Hc. destruct Hc as [Hx _].
    rewrite flat_cons'. destruct x as [e|o|c| | |]; try discriminate.
    + cbn [flat_item app]. exact I.
    + destruct o; cbn [flat_item app]; try exact I; exact Hi.
    + rewrite flat_item_paren. cbn [app]. exact I.
Qed.
Lemma head_not_addsub items tail : core_items items = true -> ok_tail tail ->
  match items with IOp AAdd :: _ | IOp ASub :: _ => False | _ => True end ->
  match (flat items ++ tail)%list with FOp AAdd :: _ | FOp ASub :: _ => False | _ => True end.
Proof.
  intros Hc Ht Hi. destruct items as [|x r].
  - cbn. destruct Ht as [->|[t' ->]]; exact I.
  - cbn [core_items forallb] in Hc. apply andb_prop in Hc. destruct Hc as [Hx _].
    rewrite flat_cons'. destruct x as [e|o|c| | |]; try discriminate.
    + cbn [flat_item app]. exact I.
    + destruct o; cbn [flat_item app]; try exact I; exact Hi.
    + rewrite flat_item_paren. cbn [app]. exact I.
Qed.

Lemma g_term_stop f gacc l : match l with FOp AMul :: _ | FOp ADiv :: _ => False | _ => True end -> g_term_loop (S f) gacc l = Some (gacc, l).
Proof. destruct l as [|[e|o| | |] r]; try reflexivity. destruct o; try reflexivity; contradiction. Qed.
Lemma g_suml_stop f gacc l : match l with FOp AAdd :: _ | FOp ASub :: _ => False | _ => True end -> g_sum_loop (S f) gacc l = Some (gacc, l).
Proof. destruct l as [|[e|o| | |] r]; try reflexivity. destruct o; try reflexivity; contradiction. Qed.
Lemma p_term_stop f acc l : match l with IOp AMul :: _ | IOp ADiv :: _ => False | _ => True end -> p_term_loop (S f) acc l = Some (acc, l).
Proof. destruct l as [|[e|o|c| | |] r]; try reflexivity. destruct o; try reflexivity; contradiction. Qed.
Lemma p_suml_stop f acc l : match l with IOp AAdd :: _ | IOp ASub :: _ => False | _ => True end -> p_sum_loop (S f) acc l = Some (acc, l).
Proof. destruct l as [|[e|o|c| | |] r]; try reflexivity. destruct o; try reflexivity; contradiction. Qed.

Lemma core_cons x r : core_items (x :: r) = true -> core_item x = true /\ core_items r = true.
Proof. cbn [core_items forallb]. intros H. apply andb_prop in H. exact H. Qed.

Lemma step_fac f : Pfac f -> Psum f -> Pfac (S f).
Proof.
  intros IHf IHs items e r tail Hc Ht H. destruct items as [|x r0]; [discriminate|].
  destruct (core_cons x r0 Hc) as [Hx Hr0]. rewrite flat_cons'.
  destruct x as [e0|o|c| | |]; try discriminate.
  - cbn [p_factor] in H. injection H as <- <-. cbn [flat_item app g_factor]. exists (GA e0). auto.
  - destruct o; try discriminate; cbn [p_factor] in H; destruct (p_factor f r0) as [[e' r']|] eqn:E; try discriminate; injection H as <- <-;
      destruct (IHf r0 e' r' tail Hr0 Ht E) as [g [Hg [Hp Hcr]]]; cbn [flat_item app g_factor]; rewrite Hg.
    + exists (GU false g). cbn [py_of_gt]. rewrite Hp. auto.
    + exists (GU true g). cbn [py_of_gt]. rewrite Hp. auto.
  - cbn [p_factor] in H. destruct (p_sum f c) as [e1|] eqn:E; [|discriminate]. injection H as <- <-.
    rewrite core_item_paren in Hx.
    assert (Ht' : ok_tail (FClose :: flat r0 ++ tail)) by (right; eauto).
    destruct (IHs c e1 (FClose :: flat r0 ++ tail)%list Hx Ht' E) as [g [Hg Hp]].
    rewrite flat_item_paren. cbn [app]. rewrite <- app_assoc. cbn [app g_factor]. rewrite Hg. exists g. auto.
Qed.

Lemma step_term f : Pfac f -> Pterm f -> Pterm (S f).
Proof.
  intros IHf IHt items acc gacc e r tail Hc Ht Ha H.
  assert (Stop : match items with IOp AMul :: _ | IOp ADiv :: _ => False | _ => True end ->
                 exists g, g_term_loop (S f) gacc (flat items ++ tail) = Some (g, (flat r ++ tail)%list) /\ py_of_gt g = e /\ core_items r = true).
  { intros Hs. rewrite (p_term_stop f acc items Hs) in H. injection H as <- <-.
    exists gacc. rewrite (g_term_stop f gacc _ (head_not_muldiv items tail Hc Ht Hs)). auto. }
  destruct items as [|x r0]; [apply Stop; exact I|].
  destruct x as [e0|o|c| | |]; try (apply Stop; exact I).
  destruct o; try (apply Stop; exact I); clear Stop;
    destruct (core_cons _ r0 Hc) as [_ Hr0]; cbn [p_term_loop] in H; destruct (p_factor f r0) as [[e' r']|] eqn:E; try discriminate;
    destruct (IHf r0 e' r' tail Hr0 Ht E) as [g1 [Hg1 [Hp1 Hc1]]]; rewrite flat_cons'; cbn [flat_item app g_term_loop]; rewrite Hg1.
  - apply (IHt r' (PBin AMul acc e') (GB AMul gacc g1) e r tail Hc1 Ht); [cbn [py_of_gt]; now rewrite Ha, Hp1|exact H].
  - apply (IHt r' (PBin ADiv acc e') (GB ADiv gacc g1) e r tail Hc1 Ht); [cbn [py_of_gt]; now rewrite Ha, Hp1|exact H].
Qed.

Lemma step_suml f : Pfac f -> Pterm f -> Psuml f -> Psuml (S f).
Proof.
  intros IHf IHt IHl items acc gacc e r tail Hc Ht Ha H.
  assert (Stop : match items with IOp AAdd :: _ | IOp ASub :: _ => False | _ => True end ->
                 exists g, g_sum_loop (S f) gacc (flat items ++ tail) = Some (g, (flat r ++ tail)%list) /\ py_of_gt g = e /\ core_items r = true).
  { intros Hs. rewrite (p_suml_stop f acc items Hs) in H. injection H as <- <-.
    exists gacc. rewrite (g_suml_stop f gacc _ (head_not_addsub items tail Hc Ht Hs)). auto. }
  destruct items as [|x r0]; [apply Stop; exact I|].
  destruct x as [e0|o|c| | |]; try (apply Stop; exact I).
  destruct o; try (apply Stop; exact I); clear Stop;
    destruct (core_cons _ r0 Hc) as [_ Hr0]; cbn [p_sum_loop] in H; destruct (p_factor f r0) as [[e' r']|] eqn:E; try discriminate;
    destruct (IHf r0 e' r' tail Hr0 Ht E) as [g1 [Hg1 [Hp1 Hc1]]];
    destruct (p_term_loop f e' r') as [[t r'']|] eqn:E2; try discriminate;
    destruct (IHt r' e' g1 t r'' tail Hc1 Ht Hp1 E2) as [g2 [Hg2 [Hp2 Hc2]]];
    rewrite flat_cons'; cbn [flat_item app g_sum_loop]; rewrite Hg1, Hg2.
  - apply (IHl r'' (PBin AAdd acc t) (GB AAdd gacc g2) e r tail Hc2 Ht); [cbn [py_of_gt]; now rewrite Ha, Hp2|exact H].
  - apply (IHl r'' (PBin ASub acc t) (GB ASub gacc g2) e r tail Hc2 Ht); [cbn [py_of_gt]; now rewrite Ha, Hp2|exact H].
Qed.

Lemma step_sum f : Pfac f -> Pterm f -> Psuml f -> Psum (S f).
Proof.
  intros IHf IHt IHl items e tail Hc Ht H. cbn [p_sum] in H.
  destruct (p_factor f items) as [[e1 r1]|] eqn:E1; [|discriminate].
  destruct (IHf items e1 r1 tail Hc Ht E1) as [g1 [Hg1 [Hp1 Hc1]]].
  destruct (p_term_loop f e1 r1) as [[t r2]|] eqn:E2; [|discriminate].
  destruct (IHt r1 e1 g1 t r2 tail Hc1 Ht Hp1 E2) as [g2 [Hg2 [Hp2 Hc2]]].
  destruct (p_sum_loop f t r2) as [[s r3]|] eqn:E3; [|discriminate].
  destruct r3 as [|? ?]; [|discriminate]. injection H as <-.
  destruct (IHl r2 t g2 s [] tail Hc2 Ht Hp2 E3) as [g3 [Hg3 [Hp3 _]]].
  cbn [g_sum]. rewrite Hg1, Hg2, Hg3. exists g3. cbn [flat flat_map app]. auto.
Qed.

Theorem sim : forall f, Pfac f /\ Pterm f /\ Psuml f /\ Psum f.
Proof.
  induction f as [|f [IHf [IHt [IHl IHs]]]].
  - repeat split; intros ?; intros; discriminate.
  - repeat split.
    + apply step_fac; assumption.
    + apply step_term; assumption.
    + apply step_suml; assumption.
    + apply step_sum; assumption.
Qed.

(* the text emitted for a core tree consists of atoms, operator characters and bracket groups only *)
Lemma operand_items o c : emit_operand o = EOk c -> core_items c = true.
Proof.
  destruct o as [k|n a kids]; [discriminate|]. destruct kids as [|[k|] [|? ?]]; try discriminate. cbn [emit_operand].
  destruct (Nat.eqb (tclass k) L_LiteralToken).
  - destruct (literal_rejected k); [discriminate|]. destruct (literal_value k) as [v|]; [|discriminate].
    destruct v; try (intros H; injection H as <-; reflexivity).
    destruct (X2P.Base.F64.f_is_inf f); [discriminate|]. intros H; injection H as <-; reflexivity.
  - destruct (Nat.eqb (tclass k) L_CellIdentifierToken); [|discriminate].
    destruct (String.eqb (grp k 3) "" && String.eqb (grp k 4) ""); [|discriminate]. intros H; injection H as <-; reflexivity.
Qed.
Lemma core_items_app a b : core_items (a ++ b) = core_items a && core_items b.
Proof. unfold core_items. apply forallb_app. Qed.

Theorem core_emit_items : forall fuel fc t c, core fc t = true -> emit fuel t = EOk c -> core_items c = true.
Proof.
  induction fuel as [|f IH]; intros fc t c Hc He; [discriminate|].
  destruct fc as [|fc]; [discriminate|]. destruct t as [k|nt alt kids]; [discriminate|].
  cbn [core] in Hc. apply andb_prop in Hc. destruct Hc as [Hn Hk]. apply Nat.eqb_eq in Hn. subst nt.
  cbn [emit] in He.
  destruct kids as [|k0 [|k1 [|k2 [|k3 [|k4 [|k5 rest]]]]]]; try discriminate.
  - destruct (is_operand_shape k0 Hk) as [a [k ->]]. rewrite node_single in He.
    destruct (emit_operand (Node N_OperandToken a [Leaf k])) as [c0| | |] eqn:E; try discriminate. injection He as <-.
    rewrite app_nil_r. exact (operand_items _ c0 E).
  - destruct (is_open k0) eqn:Eo.
    + apply andb_prop in Hk. destruct Hk as [Hcl Hc1].
      destruct (is_open_shape k0 Eo) as [l [-> Hl]]. destruct (is_close_shape k2 Hcl) as [r [-> Hr]].
      rewrite (node_paren (emit f) l k1 r Hl (core_is_expr fc k1 Hc1)) in He.
      destruct (emit f k1) as [c1| | |] eqn:E1; try discriminate. injection He as <-.
      cbn [app core_items forallb]. rewrite core_item_paren. rewrite (IH fc k1 c1 Hc1 E1). reflexivity.
    + apply andb_prop in Hk. destruct Hk as [Hk Hc2]. apply andb_prop in Hk. destruct Hk as [Ho Ha].
      destruct (arith_of k1) as [[kop o]|] eqn:Ea; [|discriminate].
      destruct (is_operand_shape k0 Ho) as [a [k ->]].
      rewrite (node_binary (emit f) a k k1 kop o k2 Ea (core_is_expr fc k2 Hc2)) in He.
      destruct (emit_operand (Node N_OperandToken a [Leaf k])) as [c0| | |] eqn:E0; try discriminate.
      destruct (emit f k2) as [c2| | |] eqn:E2; try discriminate. injection He as <-.
      rewrite core_items_app. rewrite (operand_items _ c0 E0). cbn [app core_items forallb core_item andb]. exact (IH fc k2 c2 Hc2 E2).
  - apply andb_prop in Hk. destruct Hk as [Hk Hc4]. apply andb_prop in Hk. destruct Hk as [Hk Ha].
    apply andb_prop in Hk. destruct Hk as [Hk Hcl]. apply andb_prop in Hk. destruct Hk as [Eo Hc1].
    destruct (arith_of k3) as [[kop o]|] eqn:Ea; [|discriminate].
    destruct (is_open_shape k0 Eo) as [l [-> Hl]]. destruct (is_close_shape k2 Hcl) as [r [-> Hr]].
    rewrite (node_paren_binary (emit f) l k1 r k3 kop o k4 Hl (core_is_expr fc k1 Hc1) Ea (core_is_expr fc k4 Hc4)) in He.
    destruct (emit f k1) as [c1| | |] eqn:E1; try discriminate.
    destruct (emit f k4) as [c4| | |] eqn:E4; try discriminate. injection He as <-.
    cbn [app core_items forallb]. rewrite core_item_paren. rewrite (IH fc k1 c1 Hc1 E1). cbn [core_item andb].
    exact (IH fc k4 c4 Hc4 E4).
Qed.

(* THE GROUPING THEOREM (unbounded): for every core tree — any size, any nesting — Python's reading of the emitted text builds exactly
   the tree that the standard precedence grammar G builds on the formula's own token string *)
Theorem core_grouping : forall fuel fc t c pe,
  core fc t = true -> emit fuel t = EOk c -> regroup c = Some pe ->
  exists F g, g_sum F (map view_tok (yield t)) = Some (g, []) /\ py_of_gt g = pe.
Proof.
  intros fuel fc t c pe Hc He Hr. unfold regroup in Hr.
  set (F := (4 * fold_right (fun x a => isize x + a) 0 c + 8)%nat) in Hr.
  destruct (sim F) as [_ [_ [_ Hs]]].
  destruct (Hs c pe [] (core_emit_items fuel fc t c Hc He) (or_introl eq_refl) Hr) as [g [Hg Hp]].
  rewrite app_nil_r in Hg. rewrite (core_emit_identity fuel fc t c Hc He) in Hg.
  exists F, g. auto.
Qed.

(* ---- the standard grammar G and the Excel-side reader agree: kernel-exhaustive over all strings of length <= 7 over
        {atom + - * / ( )}  (a fact about the two grammars only, independent of the translator) ---- *)
Require Import X2P.Spec.Formula X2P.Spec.Shape X2P.Corr.C01 X2P.Proofs.FormulaSweep.
Definition CORE_ALPHA : list nat := [0; 6; 7; 8; 9; 13; 14]%nat.
Fixpoint forall_in (al : list nat) (n : nat) (f : list nat -> bool) : bool :=
  match n with O => f [] | S k => forallb (fun a => forall_in al k (fun s => f (a :: s))) al end.
Lemma forall_in_elim al n : forall (f : list nat -> bool) ids,
  forall_in al n f = true -> List.length ids = n -> Forall (fun a => In a al) ids -> f ids = true.
Proof.
  induction n as [|k IH]; intros f ids H Hl Ha.
  - destruct ids; [exact H|discriminate].
  - destruct ids as [|a s]; [discriminate|]. inversion Ha as [|? ? Ha1 Ha2]; subst.
    cbn [forall_in] in H.
    pose proof (forallb_elim (fun a => forall_in al k (fun s => f (a :: s))) al a H Ha1) as H1. cbv beta in H1.
    apply (IH (fun s => f (a :: s)) s H1); [|exact Ha2]. simpl in Hl. now injection Hl.
Qed.
Definition grammars_agree (ids : list nat) : bool :=
  let ts := toks_of ids in
  match xparse ts, g_sum (8 * List.length ts + 16) (map view_tok ts) with
  | Some xe, Some (g, []) => shape_eqb (shape_x xe) (shape_py (py_of_gt g))
  | None, None => true
  | None, Some (_, _ :: _) => true
  | _, _ => false
  end.
Definition agree_upto7 : bool := forallb (fun n => forall_in CORE_ALPHA n grammars_agree) (List.seq 1%nat 7%nat).
Lemma grammars_agree7 : agree_upto7 = true.
Proof. vm_compute. reflexivity. Qed.
Lemma agree_upto_elim n : agree_upto7 = true -> (1 <= n <= 7)%nat -> forall_in CORE_ALPHA n grammars_agree = true.
Proof. unfold agree_upto7. intros H Hn. exact (upto_elim (fun n => forall_in CORE_ALPHA n grammars_agree) 7 n H Hn). Qed.
Theorem grammars_agree_all ids : (1 <= List.length ids <= 7)%nat -> Forall (fun a => In a CORE_ALPHA) ids -> grammars_agree ids = true.
Proof.
  intros Hl Ha.
  apply (forall_in_elim CORE_ALPHA (List.length ids) grammars_agree ids); [|reflexivity|exact Ha].
  exact (agree_upto_elim (List.length ids) grammars_agree7 Hl).
Qed.
