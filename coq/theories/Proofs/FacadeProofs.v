(* Proofs/FacadeProofs.v — lemmas behind Props/C09.v *)
From Coq Require Import List Arith Bool Lia.
Import ListNotations.
Require Import X2P.Model.Facade.

Section F.
  Variable path entry text : Type.
  Variable T : path -> option entry -> tres text.
  Variable safe : path -> bool.
  Notation pstate := (pstate path entry text).
  Notation translate := (translate path entry text T safe).
  Notation pstep := (pstep path entry text T safe).
  Notation prun := (prun path entry text T safe).
  Notation fresh_result := (fresh_result path entry text T safe).

  (* when nothing is marked stale, the cache is what a fresh parser with the current settings would return *)
  Definition PInv (s : pstate) : Prop :=
    p_dirty_path s = false -> p_dirty_entry s = false ->
    fresh_result (p_safety s) (p_path s) (p_entry s) = PText (p_cache s) /\ p_cache s <> None.

  Lemma translate_spec s : PInv s ->
    snd (translate s) = fresh_result (p_safety s) (p_path s) (p_entry s) /\ PInv (fst (translate s)) /\
    p_safety (fst (translate s)) = p_safety s /\ p_path (fst (translate s)) = p_path s /\ p_entry (fst (translate s)) = p_entry s.
  Proof.
    intros I. unfold Facade.translate.
    destruct (negb (p_dirty_path s) && negb (p_dirty_entry s)) eqn:D.
    - apply andb_prop in D. destruct D as [D1 D2]. apply negb_true_iff in D1, D2.
      destruct (I D1 D2) as [H _]. cbn [fst snd]. rewrite H. auto.
    - unfold Facade.fresh_result. destruct (p_path s) as [p|] eqn:P; cbn [fst snd]; [|rewrite P; auto].
      destruct (p_safety s && negb (safe p)) eqn:S; cbn [fst snd]; [rewrite P; auto|].
      destruct (T p (p_entry s)) as [t| |] eqn:R; cbn [fst snd]; try (rewrite P; auto).
      split; [reflexivity|]. split; [|cbn; auto].
      intros _ _. cbn. rewrite S, R. split; [reflexivity|discriminate].
  Qed.

  Lemma pstep_inv s o : PInv s -> PInv (fst (pstep s o)).
  Proof.
    intros I. destruct o; cbn [Facade.pstep fst]; try (apply translate_spec, I).
    - (* Enable *) intros D1 D2. cbn in *. apply orb_false_iff in D2. destruct D2 as [D2 D3]. apply negb_false_iff in D3.
      destruct (I D1 D2) as [H N]. rewrite D3 in H. split; assumption.
    - (* Disable *) intros D1 D2. cbn in *. apply orb_false_iff in D2. destruct D2 as [D2 D3].
      destruct (I D1 D2) as [H N]. rewrite D3 in H. split; assumption.
    - intros D1; discriminate.
    - intros _ D2; discriminate.
  Qed.

  (* the settings in force after an operation *)
  Definition settings (s : pstate) := (p_safety s, p_path s, p_entry s).

  (* every Get / Write returns what a fresh parser with the settings in force returns *)
  Lemma pstep_get s o : PInv s -> (o = Get \/ o = Write) ->
    snd (pstep s o) = fresh_result (p_safety s) (p_path s) (p_entry s) /\ settings (fst (pstep s o)) = settings s.
  Proof.
    intros I [->| ->]; cbn [Facade.pstep]; destruct (translate_spec s I) as [H [_ [A [B C]]]]; unfold settings; rewrite A, B, C; auto.
  Qed.

  Definition out_ok (s : pstate) (o : pop path entry) (r : pout text) : Prop :=
    match o with
    | Get | Write => r = fresh_result (p_safety s) (p_path s) (p_entry s)
    | _ => r = PNone
    end.
  Fixpoint trace_ok (s : pstate) (os : list (pop path entry)) (rs : list (pout text)) : Prop :=
    match os, rs with
    | [], [] => True
    | o :: os', r :: rs' => out_ok s o r /\ trace_ok (fst (pstep s o)) os' rs'
    | _, _ => False
    end.

  Theorem facade_refines_T : forall os s, PInv s -> trace_ok s os (snd (prun s os)).
  Proof.
    induction os as [|o os IH]; intros s I; cbn [Facade.prun]; [exact Logic.I|].
    pose proof (pstep_inv s o I) as I1.
    assert (O : out_ok s o (snd (pstep s o))).
    { destruct o; cbn [out_ok Facade.pstep snd]; try reflexivity; apply translate_spec, I. }
    destruct (pstep s o) as [s1 r] eqn:E. cbn [fst snd] in *.
    specialize (IH s1 I1). destruct (prun s1 os) as [s2 rs]. cbn [snd trace_ok fst] in *. rewrite E. cbn [fst]. split; assumption.
  Qed.

  Lemma pinit_inv : PInv (pinit path entry text).
  Proof. intros D; discriminate. Qed.

  (* repeated calls without a change return the identical result *)
  Theorem get_get_same s : PInv s -> snd (pstep (fst (pstep s Get)) Get) = snd (pstep s Get).
  Proof.
    intros I. destruct (pstep_get s Get I (or_introl eq_refl)) as [H1 H2].
    pose proof (pstep_inv s Get I) as I1.
    destruct (pstep_get _ Get I1 (or_introl eq_refl)) as [H3 _].
    rewrite H3, H1. unfold settings in H2. inversion H2. reflexivity.
  Qed.
End F.

(* ---------- lazy table initialisation: any schedule of two threads ---------- *)
Section Lazy.
  Variable table : Type.
  Variable resolve : table -> table.
  Hypothesis resolve_idem : forall t, resolve (resolve t) = resolve t.
  Variable tb0 : table.
  Notation R := (resolve tb0).

  Definition sh_ok (sh : shared table) : Prop := (tbl sh = tb0 \/ tbl sh = R) /\ (flag sh = true -> tbl sh = R).
  Definition th_ok (sh : shared table) (th : thread table) : Prop :=
    (pc th = 2 \/ pc th = 3 -> loc th = Some R) /\
    (3 <= pc th -> tbl sh = R) /\
    (forall t, ret th = Some t -> t = R).

  Lemma resolve_cases t : t = tb0 \/ t = R -> resolve t = R.
  Proof. intros [->| ->]; [reflexivity|apply resolve_idem]. Qed.

  (* one thread moves: it stays consistent, the shared state stays consistent, and any other consistent thread stays so *)
  Lemma tstep_ok sh th other :
    sh_ok sh -> th_ok sh th -> th_ok sh other ->
    let '(sh', th') := tstep table resolve sh th in sh_ok sh' /\ th_ok sh' th' /\ th_ok sh' other.
  Proof.
    intros [S1 S2] [A1 [A2 A3]] [B1 [B2 B3]]. unfold tstep.
    destruct th as [p l r]. cbn [pc loc ret] in *.
    Ltac fin := repeat split; cbn [pc loc ret tbl flag]; auto; try (intros; lia); try discriminate;
                try (intros [?|?]; lia); try (intros ? HH; inversion HH; subst; assumption); try congruence.
    destruct p as [|[|[|[|[|p]]]]].
    - destruct (flag sh) eqn:F; fin.
    - fin. intros _. f_equal. apply resolve_cases, S1.
    - assert (L : l = Some R) by (apply A1; auto). subst l. fin.
    - assert (E : tbl sh = R) by (apply A2; lia). fin.
    - assert (E : tbl sh = R) by (apply A2; lia). fin.
    - fin.
  Qed.

  Definition SInv (s : sys table) : Prop := let '(sh, a, b) := s in sh_ok sh /\ th_ok sh a /\ th_ok sh b.

  Lemma sstep_inv s who : SInv s -> SInv (sstep table resolve s who).
  Proof.
    destruct s as [[sh a] b]. unfold SInv, sstep. intros [Hs [Ha Hb]]. destruct who.
    - pose proof (tstep_ok sh a b Hs Ha Hb) as H. destruct (tstep table resolve sh a) as [sh' a']. tauto.
    - pose proof (tstep_ok sh b a Hs Hb Ha) as H. destruct (tstep table resolve sh b) as [sh' b']. tauto.
  Qed.

  Lemma srun_inv sched : forall s, SInv s -> SInv (srun table resolve s sched).
  Proof. unfold srun. induction sched as [|w sched IH]; intros s I; simpl; [exact I|]. apply IH, sstep_inv, I. Qed.

  (* for EVERY schedule of two threads starting from the unresolved table, every table a thread returns is the resolved one *)
  Theorem lazy_init_any_schedule sched :
    let '(sh, a, b) := srun table resolve ({| tbl := tb0; flag := false |}, t0 table, t0 table) sched in
    (forall t, ret a = Some t -> t = R) /\ (forall t, ret b = Some t -> t = R) /\ (flag sh = true -> tbl sh = R).
  Proof.
    pose proof (srun_inv sched ({| tbl := tb0; flag := false |}, t0 table, t0 table)) as H.
    destruct (srun table resolve ({| tbl := tb0; flag := false |}, t0 table, t0 table) sched) as [[sh a] b].
    assert (I0 : SInv ({| tbl := tb0; flag := false |}, t0 table, t0 table)).
    { unfold SInv, sh_ok, th_ok, t0. cbn. repeat split; auto; try discriminate; try (intros; lia); try (intros [H0|H0]; discriminate). }
    destruct (H I0) as [[_ S2] [[_ [_ A3]] [_ [_ B3]]]]. auto.
  Qed.
End Lazy.
