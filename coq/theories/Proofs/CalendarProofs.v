(* Proofs/CalendarProofs.v — the ordinal <-> (year, month, day) maps of Base/Calendar.v are mutually inverse
   on EVERY day from ordinal 1 on: 400-year periodicity (by lia) + one complete 146097-day cycle swept in the kernel. *)
Require Import X2P.Base.Prelude X2P.Base.Calendar.
From Coq Require Import Lia ZifyBool.
Open Scope Z_scope.
Ltac Zify.zify_post_hook ::= Z.to_euclidean_division_equations.

Definition shift400 (t : Z * Z * Z) : Z * Z * Z := let '(y, m, d) := t in (y + 400, m, d).

(* the part of _ord2ymd after the 400-year split *)
Definition ymd_core (n400 n : Z) : Z * Z * Z :=
  let year := n400 * 400 + 1 in
  let n100 := n / DI100Y in let n := n mod DI100Y in
  let n4 := n / DI4Y in let n := n mod DI4Y in
  let n1 := n / 365 in let n := n mod 365 in
  let year := year + n100 * 100 + n4 * 4 + n1 in
  if (n1 =? 4) || (n100 =? 4) then (year - 1, 12, 31)
  else
    let leapyear := (n1 =? 3) && (negb (n4 =? 24) || (n100 =? 3)) in
    let month := (n + 50) / 32 in
    let preceding := days_before_month 1 month + (if (2 <? month) && leapyear then 1 else 0) in
    if n <? preceding then
      let month := month - 1 in
      let preceding := preceding - (if (month =? 2) && leapyear then 29 else dim 1 month) in
      (year, month, n - preceding + 1)
    else (year, month, n - preceding + 1).

Lemma ymd_of_ord_core n : ymd_of_ord n = ymd_core ((n - 1) / DI400Y) ((n - 1) mod DI400Y).
Proof. reflexivity. Qed.

Lemma ymd_core_shift k r : ymd_core (k + 1) r = shift400 (ymd_core k r).
Proof.
  unfold ymd_core. cbv zeta.
  destruct ((r mod DI100Y mod DI4Y / 365 =? 4) || (r / DI100Y =? 4)).
  - unfold shift400. f_equal. f_equal. ring.
  - match goal with |- context [if ?c then _ else _] => destruct c end;
      unfold shift400; f_equal; f_equal; ring.
Qed.

Lemma ymd_of_ord_shift n : ymd_of_ord (n + DI400Y) = shift400 (ymd_of_ord n).
Proof.
  rewrite !ymd_of_ord_core.
  replace (n + DI400Y - 1) with (n - 1 + 1 * DI400Y) by ring.
  rewrite Z.div_add, Z.mod_add by (unfold DI400Y; lia). apply ymd_core_shift.
Qed.

Lemma is_leap_shift y : is_leap (y + 400) = is_leap y.
Proof.
  unfold is_leap.
  replace ((y + 400) mod 4) with (y mod 4) by lia.
  replace ((y + 400) mod 100) with (y mod 100) by lia.
  replace ((y + 400) mod 400) with (y mod 400) by lia. reflexivity.
Qed.

Lemma ord_of_ymd_shift y m d : ord_of_ymd (y + 400) m d = ord_of_ymd y m d + DI400Y.
Proof.
  unfold ord_of_ymd, days_before_month. rewrite is_leap_shift.
  unfold days_before_year, DI400Y. lia.
Qed.

Lemma dim_shift y m : dim (y + 400) m = dim y m.
Proof. unfold dim. now rewrite is_leap_shift. Qed.

(* what we want of one ordinal *)
Definition good (n : Z) : bool :=
  let '(y, m, d) := ymd_of_ord n in
  (ord_of_ymd y m d =? n) && (1 <=? m) && (m <=? 12) && (1 <=? d) && (d <=? dim y m) && (1 <=? y).

Lemma good_shift n : good n = true -> good (n + DI400Y) = true.
Proof.
  unfold good. rewrite ymd_of_ord_shift. destruct (ymd_of_ord n) as [[y m] d]. unfold shift400.
  rewrite ord_of_ymd_shift, dim_shift. intros H. lia.
Qed.

(* binary sweep of [a, a + 2^k) *)
Fixpoint sweep (k : nat) (a : Z) (p : Z -> bool) : bool :=
  match k with
  | O => p a
  | S k' => sweep k' a p && sweep k' (a + 2 ^ Z.of_nat k') p
  end.
Lemma sweep_sound k : forall a p, sweep k a p = true -> forall n, a <= n < a + 2 ^ Z.of_nat k -> p n = true.
Proof.
  induction k as [|k IH]; intros a p H n Hn.
  - simpl in Hn. assert (n = a) by lia. subst. exact H.
  - cbn [sweep] in H. apply andb_prop in H. destruct H as [H1 H2].
    rewrite Nat2Z.inj_succ, Z.pow_succ_r in Hn by lia.
    destruct (Z.lt_ge_cases n (a + 2 ^ Z.of_nat k)) as [L|L].
    + apply (IH a p H1). lia.
    + apply (IH _ p H2). lia.
Qed.

(* one full 400-year cycle, in the kernel: ordinals 1 .. 146097 (padded to 2^18 with a guard) *)
Definition good_in_cycle (n : Z) : bool := (DI400Y <? n) || good n.
Lemma cycle_sweep : sweep 18 1 good_in_cycle = true.
Proof. vm_compute. reflexivity. Qed.

Lemma good_cycle n : 1 <= n <= DI400Y -> good n = true.
Proof.
  intros Hn. pose proof (sweep_sound 18 1 good_in_cycle cycle_sweep n) as H.
  assert (Hr : 1 <= n < 1 + 2 ^ Z.of_nat 18) by (unfold DI400Y in Hn; simpl; lia).
  specialize (H Hr). unfold good_in_cycle in H. apply orb_prop in H. destruct H as [H|H]; [lia|exact H].
Qed.

Lemma good_all_nat (q : nat) : forall n, 1 <= n <= DI400Y -> good (n + Z.of_nat q * DI400Y) = true.
Proof.
  induction q as [|q IH]; intros n Hn.
  - simpl. rewrite Z.add_0_r. apply good_cycle, Hn.
  - replace (n + Z.of_nat (S q) * DI400Y) with (n + Z.of_nat q * DI400Y + DI400Y) by lia.
    apply good_shift, IH, Hn.
Qed.

(* every ordinal >= 1 *)
Lemma good_all n : 1 <= n -> good n = true.
Proof.
  intros Hn.
  set (q := (n - 1) / DI400Y). set (r := (n - 1) mod DI400Y + 1).
  assert (Hq : 0 <= q) by (unfold q, DI400Y; lia).
  assert (Hr : 1 <= r <= DI400Y) by (unfold r, DI400Y; lia).
  assert (E : n = r + Z.of_nat (Z.to_nat q) * DI400Y).
  { rewrite Z2Nat.id by exact Hq. unfold r, q, DI400Y. lia. }
  rewrite E. apply good_all_nat, Hr.
Qed.

Lemma ord_of_ymd_of_ord n :
  1 <= n -> let '(y, m, d) := ymd_of_ord n in
            ord_of_ymd y m d = n /\ 1 <= y /\ 1 <= m <= 12 /\ 1 <= d <= dim y m.
Proof.
  intros Hn. pose proof (good_all n Hn) as H. unfold good in H.
  destruct (ymd_of_ord n) as [[y m] d]. lia.
Qed.

(* ---------- injectivity of ord_of_ymd on valid dates, hence the left inverse ---------- *)
Definition valid (y m d : Z) : Prop := 1 <= y /\ 1 <= m <= 12 /\ 1 <= d <= dim y m.

Lemma month_cases m : 1 <= m <= 12 ->
  m = 1 \/ m = 2 \/ m = 3 \/ m = 4 \/ m = 5 \/ m = 6 \/ m = 7 \/ m = 8 \/ m = 9 \/ m = 10 \/ m = 11 \/ m = 12.
Proof. lia. Qed.

Lemma year_step y : days_before_year (y + 1) = days_before_year y + (if is_leap y then 366 else 365).
Proof.
  unfold days_before_year, is_leap.
  destruct ((y mod 4 =? 0) && negb (y mod 100 =? 0) || (y mod 400 =? 0)) eqn:E; lia.
Qed.
Lemma dby_mono y y' : y <= y' -> days_before_year y <= days_before_year y'.
Proof. unfold days_before_year. lia. Qed.

(* days before month m plus its length = days before the next month (or the year length) *)
Lemma dbm_next y m : 1 <= m <= 12 ->
  days_before_month y m + dim y m =
  if m =? 12 then (if is_leap y then 366 else 365) else days_before_month y (m + 1).
Proof.
  intros H. destruct (month_cases m H) as [->|[->|[->|[->|[->|[->|[->|[->|[->|[->|[->| ->]]]]]]]]]]];
    unfold days_before_month, dim; destruct (is_leap y); reflexivity.
Qed.
Lemma dbm_mono y m m' : 1 <= m -> m <= m' -> m' <= 12 -> days_before_month y m <= days_before_month y m'.
Proof.
  intros H1 H2 H3.
  destruct (month_cases m ltac:(lia)) as [->|[->|[->|[->|[->|[->|[->|[->|[->|[->|[->| ->]]]]]]]]]]];
  destruct (month_cases m' ltac:(lia)) as [->|[->|[->|[->|[->|[->|[->|[->|[->|[->|[->| ->]]]]]]]]]]];
    try lia; unfold days_before_month; destruct (is_leap y); simpl; lia.
Qed.
Lemma dim_pos y m : 28 <= dim y m <= 31.
Proof. unfold dim. destruct (m =? 2); [destruct (is_leap y); lia|]. destruct ((m =? 4) || (m =? 6) || (m =? 9) || (m =? 11)); lia. Qed.

Lemma ord_bounds y m d : valid y m d ->
  days_before_year y + 1 <= ord_of_ymd y m d <= days_before_year (y + 1).
Proof.
  intros [Hy [Hm Hd]]. unfold ord_of_ymd. rewrite year_step.
  assert (B : days_before_month y m + dim y m <= (if is_leap y then 366 else 365)).
  { rewrite dbm_next by exact Hm. destruct (m =? 12) eqn:E; [lia|].
    pose proof (dbm_next y 12 ltac:(lia)) as H12. simpl in H12.
    pose proof (dbm_mono y (m + 1) 12 ltac:(lia) ltac:(lia) ltac:(lia)). pose proof (dim_pos y 12). lia. }
  assert (0 <= days_before_month y m) by (pose proof (dbm_mono y 1 m ltac:(lia) ltac:(lia) ltac:(lia)); unfold days_before_month in *; simpl in *; lia).
  lia.
Qed.

Lemma ord_inj y m d y' m' d' :
  valid y m d -> valid y' m' d' -> ord_of_ymd y m d = ord_of_ymd y' m' d' -> (y, m, d) = (y', m', d').
Proof.
  intros V V' E.
  pose proof (ord_bounds _ _ _ V) as B. pose proof (ord_bounds _ _ _ V') as B'.
  assert (y = y').
  { destruct (Z.lt_trichotomy y y') as [L|[L|L]]; [|exact L|].
    - pose proof (dby_mono (y + 1) y' ltac:(lia)). lia.
    - pose proof (dby_mono (y' + 1) y ltac:(lia)). lia. }
  subst y'. destruct V as [Hy [Hm Hd]], V' as [_ [Hm' Hd']].
  unfold ord_of_ymd in E.
  assert (m = m').
  { destruct (Z.lt_trichotomy m m') as [L|[L|L]]; [|exact L|].
    - pose proof (dbm_next y m Hm) as N. destruct (m =? 12) eqn:E12; [lia|].
      pose proof (dbm_mono y (m + 1) m' ltac:(lia) ltac:(lia) ltac:(lia)). lia.
    - pose proof (dbm_next y m' Hm') as N. destruct (m' =? 12) eqn:E12; [lia|].
      pose proof (dbm_mono y (m' + 1) m ltac:(lia) ltac:(lia) ltac:(lia)). lia. }
  subst m'. f_equal. lia.
Qed.

Lemma valid_ord_pos y m d : valid y m d -> 1 <= ord_of_ymd y m d.
Proof.
  intros V. pose proof (ord_bounds _ _ _ V). destruct V as [Hy _].
  pose proof (dby_mono 1 y Hy). unfold days_before_year in *. simpl in *. lia.
Qed.

(* YEAR / MONTH / DAY invert the ordinal of every valid date *)
Lemma ymd_of_ord_of_ymd y m d : valid y m d -> ymd_of_ord (ord_of_ymd y m d) = (y, m, d).
Proof.
  intros V. pose proof (ord_of_ymd_of_ord (ord_of_ymd y m d) (valid_ord_pos _ _ _ V)) as H.
  destruct (ymd_of_ord (ord_of_ymd y m d)) as [[y' m'] d'].
  destruct H as [E [Hy [Hm Hd]]].
  apply (ord_inj y' m' d' y m d); [split; [exact Hy|split; assumption]|exact V|exact E].
Qed.

(* weekday: ordinal 1 (0001-01-01) is a Monday, and it advances by one per day, wrapping after Sunday *)
Lemma weekday_anchor : weekday 1 = 0.
Proof. reflexivity. Qed.
Lemma weekday_step n : weekday (n + 1) = (weekday n + 1) mod 7.
Proof. unfold weekday. lia. Qed.
Lemma weekday_range n : 0 <= weekday n < 7.
Proof. unfold weekday. lia. Qed.
