(* Proofs/FormulaSpecGrammar.v — the standard precedence grammar G (Proofs/FormulaGrammar.v) and the Excel-side reader of the
   specification (Spec/Formula.x_cmp, hence xparse) build THE SAME TREE on every token string made of atoms, + - * / and brackets —
   any length, any nesting.  Together with core_grouping this closes, for the core fragment, the chain
        Python's reading of the emitted text  =  G on the formula's tokens  =  Excel's reading of the formula
   without any bound.  Proof: a simulation by induction on G's fuel; the reader is given any fuel >= 5 * (G's fuel) + 1. *)
Require Import X2P.Base.Prelude X2P.Base.PyCmp X2P.Base.PyArith X2P.Model.Peg X2P.Model.Emit X2P.Gen.Grammar.
Require Import X2P.Proofs.FormulaCore X2P.Proofs.FormulaGrammar X2P.Spec.Formula.
Require Import Lia.
Open Scope string_scope.

(* the same tree: atoms come from the same token, signs and binary operators coincide *)
Inductive rel : gt -> xexpr -> Prop :=
  | RA t e a : view_tok t = FAtom e -> atom_of t = Some a -> rel (GA e) a
  | RNeg g x : rel g x -> rel (GU true g) (XNeg x)
  | RPos g x : rel g x -> rel (GU false g) (XPos x)
  | RB o g1 g2 x1 x2 : rel g1 x1 -> rel g2 x2 -> rel (GB o g1 g2) (XBin o x1 x2).

(* core tokens: the eight kinds, by class *)
Inductive ckind := KAtom | KAdd | KSub | KMul | KDiv | KOpen | KClose.
Definition kind_of_tok (t : tok) : option ckind :=
  let c := tclass t in
  if Nat.eqb c L_LiteralToken then match literal_value t with Some _ => Some KAtom | None => None end
  else if Nat.eqb c L_CellIdentifierToken then match atom_of t with Some _ => Some KAtom | None => None end
  else if Nat.eqb c L_BracketStartToken then Some KOpen else if Nat.eqb c L_BracketFinishToken then Some KClose
  else if Nat.eqb c L_PlusOperatorToken then Some KAdd else if Nat.eqb c L_MinusOperatorToken then Some KSub
  else if Nat.eqb c L_MultiplicationOperatorToken then Some KMul else if Nat.eqb c L_DivOperatorToken then Some KDiv
  else None.
Definition ctoks (l : list tok) : Prop := Forall (fun t => kind_of_tok t <> None) l.

(* what each kind means to the two readers *)
Definition xtests (t : tok) :=
  (is_c L_MinusOperatorToken t, is_c L_PlusOperatorToken t, is_c L_BracketStartToken t, is_c L_BracketFinishToken t,
   is_c L_MultiplicationOperatorToken t, is_c L_DivOperatorToken t, is_c L_AmpersandToken t, is_c L_PercentToken t, cmp_of t).

Lemma literal_atom t : tclass t = L_LiteralToken -> exists a, atom_of t = Some a.
Proof.
  intros H. unfold atom_of. rewrite H. rewrite Nat.eqb_refl.
  destruct (negb (String.eqb (sgrp t 2) "")); [destruct (literal_rational _ _ _); eauto|].
  destruct (negb (String.eqb (sgrp t 8) "")); [eauto|]. destruct (negb (String.eqb (sgrp t 10) "")); eauto.
Qed.

Lemma kind_spec t k : kind_of_tok t = Some k ->
  match k with
  | KAtom => (exists e a, view_tok t = FAtom e /\ atom_of t = Some a) /\
             xtests t = (false, false, false, false, false, false, false, false, None)
  | KAdd => view_tok t = FOp AAdd /\ xtests t = (false, true, false, false, false, false, false, false, None)
  | KSub => view_tok t = FOp ASub /\ xtests t = (true, false, false, false, false, false, false, false, None)
  | KMul => view_tok t = FOp AMul /\ xtests t = (false, false, false, false, true, false, false, false, None)
  | KDiv => view_tok t = FOp ADiv /\ xtests t = (false, false, false, false, false, true, false, false, None)
  | KOpen => view_tok t = FOpen /\ xtests t = (false, false, true, false, false, false, false, false, None)
  | KClose => view_tok t = FClose /\ xtests t = (false, false, false, true, false, false, false, false, None)
  end.
Proof.
  unfold kind_of_tok, xtests, view_tok, cmp_of, is_c. cbv zeta.
  destruct (Nat.eqb (tclass t) L_LiteralToken) eqn:E1.
  { apply Nat.eqb_eq in E1. destruct (literal_value t) as [v|] eqn:Ev; [|discriminate]. intros H; injection H as <-.
    destruct (literal_atom t E1) as [a Ha]. rewrite E1. split; [exists (PConst v), a; split; [reflexivity|exact Ha]|reflexivity]. }
  destruct (Nat.eqb (tclass t) L_CellIdentifierToken) eqn:E2.
  { apply Nat.eqb_eq in E2. destruct (atom_of t) as [a|] eqn:Ea; [|discriminate]. intros H; injection H as <-.
    rewrite E2. split; [eexists _, a; split; reflexivity|reflexivity]. }
  destruct (Nat.eqb (tclass t) L_BracketStartToken) eqn:E3.
  { apply Nat.eqb_eq in E3. intros H; injection H as <-. rewrite E3. split; reflexivity. }
  destruct (Nat.eqb (tclass t) L_BracketFinishToken) eqn:E4.
  { apply Nat.eqb_eq in E4. intros H; injection H as <-. rewrite E4. split; reflexivity. }
  destruct (Nat.eqb (tclass t) L_PlusOperatorToken) eqn:E5.
  { apply Nat.eqb_eq in E5. intros H; injection H as <-. rewrite E5. split; reflexivity. }
  destruct (Nat.eqb (tclass t) L_MinusOperatorToken) eqn:E6.
  { apply Nat.eqb_eq in E6. intros H; injection H as <-. rewrite E6. split; reflexivity. }
  destruct (Nat.eqb (tclass t) L_MultiplicationOperatorToken) eqn:E7.
  { apply Nat.eqb_eq in E7. intros H; injection H as <-. rewrite E7. split; reflexivity. }
  destruct (Nat.eqb (tclass t) L_DivOperatorToken) eqn:E8.
  { apply Nat.eqb_eq in E8. intros H; injection H as <-. rewrite E8. split; reflexivity. }
  discriminate.
Qed.

Definition T_ATOM := (false, false, false, false, false, false, false, false, @None cmpop).
Ltac tests H := unfold xtests in H; injection H as Hmi Hpl Hop Hcl Hmu Hdi Ham Hpc Hcm.

(* one step of each function of the reader, by the kind of the head token *)
Lemma xu_atom f t r a : xtests t = T_ATOM -> atom_of t = Some a -> x_unary (S f) (t :: r) = Some (x_pct a r).
Proof. intros H Ha. tests H. cbn [x_unary]. rewrite Hmi, Hpl, Hop, Ha. reflexivity. Qed.
Lemma xu_neg f t r : is_c L_MinusOperatorToken t = true ->
  x_unary (S f) (t :: r) = match x_unary f r with Some (e, r') => Some (XNeg e, r') | None => None end.
Proof. intros H. cbn [x_unary]. rewrite H. reflexivity. Qed.
Lemma xu_pos f t r : is_c L_MinusOperatorToken t = false -> is_c L_PlusOperatorToken t = true ->
  x_unary (S f) (t :: r) = match x_unary f r with Some (e, r') => Some (XPos e, r') | None => None end.
Proof. intros H H'. cbn [x_unary]. rewrite H, H'. reflexivity. Qed.
Lemma xu_open f t r : is_c L_MinusOperatorToken t = false -> is_c L_PlusOperatorToken t = false -> is_c L_BracketStartToken t = true ->
  x_unary (S f) (t :: r) = match x_cmp f r with
                           | Some (e, c :: r') => if is_c L_BracketFinishToken c then Some (x_pct e r') else None
                           | _ => None end.
Proof. intros H H' H''. cbn [x_unary]. rewrite H, H', H''. reflexivity. Qed.

Lemma xml_mul f acc t r : is_c L_MultiplicationOperatorToken t = true ->
  x_mul_loop (S f) acc (t :: r) = match x_unary f r with Some (e, r') => x_mul_loop f (XBin AMul acc e) r' | None => None end.
Proof. intros H. cbn [x_mul_loop]. rewrite H. reflexivity. Qed.
Lemma xml_div f acc t r : is_c L_MultiplicationOperatorToken t = false -> is_c L_DivOperatorToken t = true ->
  x_mul_loop (S f) acc (t :: r) = match x_unary f r with Some (e, r') => x_mul_loop f (XBin ADiv acc e) r' | None => None end.
Proof. intros H H'. cbn [x_mul_loop]. rewrite H, H'. reflexivity. Qed.
Lemma xml_stop f acc l : match l with [] => True | t :: _ => is_c L_MultiplicationOperatorToken t = false /\ is_c L_DivOperatorToken t = false end ->
  x_mul_loop (S f) acc l = Some (acc, l).
Proof. destruct l as [|t r]; [reflexivity|]. intros [H H']. cbn [x_mul_loop]. rewrite H, H'. reflexivity. Qed.

Lemma xal_add f acc t r : is_c L_PlusOperatorToken t = true ->
  x_add_loop (S f) acc (t :: r) = match x_mul f r with Some (e, r') => x_add_loop f (XBin AAdd acc e) r' | None => None end.
Proof. intros H. cbn [x_add_loop]. rewrite H. reflexivity. Qed.
Lemma xal_sub f acc t r : is_c L_PlusOperatorToken t = false -> is_c L_MinusOperatorToken t = true ->
  x_add_loop (S f) acc (t :: r) = match x_mul f r with Some (e, r') => x_add_loop f (XBin ASub acc e) r' | None => None end.
Proof. intros H H'. cbn [x_add_loop]. rewrite H, H'. reflexivity. Qed.
Lemma xal_stop f acc l : match l with [] => True | t :: _ => is_c L_PlusOperatorToken t = false /\ is_c L_MinusOperatorToken t = false end ->
  x_add_loop (S f) acc l = Some (acc, l).
Proof. destruct l as [|t r]; [reflexivity|]. intros [H H']. cbn [x_add_loop]. rewrite H, H'. reflexivity. Qed.

Lemma xmul_step f l : x_mul (S f) l = match x_unary f l with Some (e, r) => x_mul_loop f e r | None => None end.
Proof. reflexivity. Qed.
Lemma xadd_step f l : x_add (S f) l = match x_mul f l with Some (e, r) => x_add_loop f e r | None => None end.
Proof. reflexivity. Qed.
Lemma xcat_step f l : x_cat (S f) l = match x_add f l with Some (e, r) => x_cat_loop f e r | None => None end.
Proof. reflexivity. Qed.
Lemma xcmp_step f l : x_cmp (S f) l = match x_cat f l with Some (e, r) => x_cmp_loop f e r | None => None end.
Proof. reflexivity. Qed.

(* every core token stops the & loop, the comparison loop and the percent loop *)
Lemma core_tests t : kind_of_tok t <> None -> is_c L_AmpersandToken t = false /\ is_c L_PercentToken t = false /\ cmp_of t = None.
Proof.
  intros H. destruct (kind_of_tok t) as [k|] eqn:E; [|contradiction]. pose proof (kind_spec t k E) as S.
  destruct k; destruct S as [_ S]; tests S; auto.
Qed.
Lemma x_pct_core a r : ctoks r -> x_pct a r = (a, r).
Proof. destruct r as [|t r]; [reflexivity|]. intros H. inversion H as [|? ? Ht _]; subst. destruct (core_tests t Ht) as [_ [Hp _]]. cbn [x_pct]. rewrite Hp. reflexivity. Qed.
Lemma xcatl_core f acc r : ctoks r -> x_cat_loop (S f) acc r = Some (acc, r).
Proof. destruct r as [|t r]; [reflexivity|]. intros H. inversion H as [|? ? Ht _]; subst. destruct (core_tests t Ht) as [Ha _]. cbn [x_cat_loop]. rewrite Ha. reflexivity. Qed.
Lemma xcmpl_core f acc r : ctoks r -> x_cmp_loop (S f) acc r = Some (acc, r).
Proof. destruct r as [|t r]; [reflexivity|]. intros H. inversion H as [|? ? Ht _]; subst. destruct (core_tests t Ht) as [_ [_ Hc]]. cbn [x_cmp_loop]. rewrite Hc. reflexivity. Qed.

(* ---- the simulation ---- *)
Definition Qfac (f : nat) : Prop := forall l g rest, ctoks l -> g_factor f (map view_tok l) = Some (g, rest) ->
  exists r x, rest = map view_tok r /\ ctoks r /\ rel g x /\ forall F, (5 * f + 1 <= F)%nat -> x_unary F l = Some (x, r).
Definition Qterm (f : nat) : Prop := forall l gacc xacc g rest, ctoks l -> rel gacc xacc -> g_term_loop f gacc (map view_tok l) = Some (g, rest) ->
  exists r x, rest = map view_tok r /\ ctoks r /\ rel g x /\ forall F, (5 * f + 1 <= F)%nat -> x_mul_loop F xacc l = Some (x, r).
Definition Qsuml (f : nat) : Prop := forall l gacc xacc g rest, ctoks l -> rel gacc xacc -> g_sum_loop f gacc (map view_tok l) = Some (g, rest) ->
  exists r x, rest = map view_tok r /\ ctoks r /\ rel g x /\ forall F, (5 * f + 1 <= F)%nat -> x_add_loop F xacc l = Some (x, r).
Definition Qsum (f : nat) : Prop := forall l g rest, ctoks l -> g_sum f (map view_tok l) = Some (g, rest) ->
  exists r x, rest = map view_tok r /\ ctoks r /\ rel g x /\ forall F, (5 * f + 1 <= F)%nat -> x_cmp F l = Some (x, r).

Lemma ctoks_cons t r : ctoks (t :: r) -> kind_of_tok t <> None /\ ctoks r.
Proof. intros H. inversion H; subst. auto. Qed.

Ltac head_kind t Hk k SP :=
  let E := fresh "Ek" in
  destruct (kind_of_tok t) as [k|] eqn:E; [|exfalso; apply Hk; reflexivity]; pose proof (kind_spec t k E) as SP.

Lemma Sn F n : (S n <= F)%nat -> exists F', F = S F' /\ (n <= F')%nat.
Proof. intros H. destruct F as [|F']; [lia|]. exists F'. split; [reflexivity|lia]. Qed.

Lemma qstep_fac f : Qfac f -> Qsum f -> Qfac (S f).
Proof.
  intros IHf IHs l g rest Hc H. destruct l as [|t r0]; [discriminate|].
  destruct (ctoks_cons t r0 Hc) as [Hk Hr0]. head_kind t Hk k SP. cbn [map] in H.
  destruct k.
  - (* atom *) destruct SP as [[e [a [Hv Ha]]] Ht]. rewrite Hv in H. cbn [g_factor] in H. injection H as <- <-.
    exists r0, a. repeat split; auto.
    + exact (RA t e a Hv Ha).
    + intros F HF. destruct (Sn F _ HF) as [F' [-> _]]. rewrite (xu_atom F' t r0 a Ht Ha). now rewrite (x_pct_core a r0 Hr0).
  - (* + *) destruct SP as [Hv Ht]. rewrite Hv in H. cbn [g_factor] in H.
    destruct (g_factor f (map view_tok r0)) as [[g0 rest0]|] eqn:E; [|discriminate]. injection H as <- <-.
    destruct (IHf r0 g0 rest0 Hr0 E) as [r [x [-> [Hcr [Hrel Hx]]]]].
    exists r, (XPos x). repeat split; auto. { now constructor. }
    intros F HF. destruct (Sn F _ HF) as [F' [-> HF']]. tests Ht. rewrite (xu_pos F' t r0 Hmi Hpl). rewrite (Hx F'); [reflexivity|lia].
  - (* - *) destruct SP as [Hv Ht]. rewrite Hv in H. cbn [g_factor] in H.
    destruct (g_factor f (map view_tok r0)) as [[g0 rest0]|] eqn:E; [|discriminate]. injection H as <- <-.
    destruct (IHf r0 g0 rest0 Hr0 E) as [r [x [-> [Hcr [Hrel Hx]]]]].
    exists r, (XNeg x). repeat split; auto. { now constructor. }
    intros F HF. destruct (Sn F _ HF) as [F' [-> HF']]. tests Ht. rewrite (xu_neg F' t r0 Hmi). rewrite (Hx F'); [reflexivity|lia].
  - destruct SP as [Hv _]. rewrite Hv in H. discriminate.
  - destruct SP as [Hv _]. rewrite Hv in H. discriminate.
  - (* ( *) destruct SP as [Hv Ht]. rewrite Hv in H. cbn [g_factor] in H.
    destruct (g_sum f (map view_tok r0)) as [[g0 rest0]|] eqn:E; [|discriminate].
    destruct (IHs r0 g0 rest0 Hr0 E) as [r [x [-> [Hcr [Hrel Hx]]]]].
    destruct r as [|c r']; [discriminate|]. cbn [map] in H.
    destruct (ctoks_cons c r' Hcr) as [Hkc Hr']. head_kind c Hkc kc Sc.
    destruct kc; try (destruct Sc as [Hvc _]; rewrite Hvc in H; discriminate).
    { destruct Sc as [[e [a [Hvc _]]] _]. rewrite Hvc in H. discriminate. }
    destruct Sc as [Hvc Htc]. rewrite Hvc in H. injection H as <- <-.
    exists r', x. repeat split; auto.
    intros F HF. destruct (Sn F _ HF) as [F' [-> HF']]. tests Ht. rewrite (xu_open F' t r0 Hmi Hpl Hop).
    rewrite (Hx F'); [|lia]. unfold xtests in Htc. injection Htc as _ _ _ Hclc _ _ _ _ _. rewrite Hclc. now rewrite (x_pct_core x r' Hr').
  - destruct SP as [Hv _]. rewrite Hv in H. discriminate.
Qed.

Lemma qstep_term f : Qfac f -> Qterm f -> Qterm (S f).
Proof.
  intros IHf IHt l gacc xacc g rest Hc Hacc H.
  assert (Stop : g_term_loop (S f) gacc (map view_tok l) = Some (gacc, map view_tok l) ->
                 match l with [] => True | t :: _ => is_c L_MultiplicationOperatorToken t = false /\ is_c L_DivOperatorToken t = false end ->
                 exists r x, rest = map view_tok r /\ ctoks r /\ rel g x /\ forall F, (5 * S f + 1 <= F)%nat -> x_mul_loop F xacc l = Some (x, r)).
  { intros Hg Hs. rewrite Hg in H. injection H as <- <-. exists l, xacc. repeat split; auto.
    intros F HF. destruct (Sn F _ HF) as [F' [-> _]]. exact (xml_stop F' xacc l Hs). }
  destruct l as [|t r0]; [apply Stop; [reflexivity|exact I]|].
  destruct (ctoks_cons t r0 Hc) as [Hk Hr0]. head_kind t Hk k SP. cbn [map] in H, Stop.
  destruct k.
  - destruct SP as [[e [a [Hv _]]] Ht]. tests Ht. apply Stop; [rewrite Hv; reflexivity|auto].
  - destruct SP as [Hv Ht]. tests Ht. apply Stop; [rewrite Hv; reflexivity|auto].
  - destruct SP as [Hv Ht]. tests Ht. apply Stop; [rewrite Hv; reflexivity|auto].
  - clear Stop. destruct SP as [Hv Ht]. rewrite Hv in H. cbn [g_term_loop] in H.
    destruct (g_factor f (map view_tok r0)) as [[g1 rest1]|] eqn:E; [|discriminate].
    destruct (IHf r0 g1 rest1 Hr0 E) as [r1 [x1 [-> [Hc1 [Hrel1 Hx1]]]]].
    destruct (IHt r1 (GB AMul gacc g1) (XBin AMul xacc x1) g rest Hc1 (RB AMul _ _ _ _ Hacc Hrel1) H) as [r [x [-> [Hcr [Hrel Hx]]]]].
    exists r, x. repeat split; auto.
    intros F HF. destruct (Sn F _ HF) as [F' [-> HF']]. tests Ht. rewrite (xml_mul F' xacc t r0 Hmu).
    rewrite (Hx1 F'); [|lia]. apply Hx. lia.
  - clear Stop. destruct SP as [Hv Ht]. rewrite Hv in H. cbn [g_term_loop] in H.
    destruct (g_factor f (map view_tok r0)) as [[g1 rest1]|] eqn:E; [|discriminate].
    destruct (IHf r0 g1 rest1 Hr0 E) as [r1 [x1 [-> [Hc1 [Hrel1 Hx1]]]]].
    destruct (IHt r1 (GB ADiv gacc g1) (XBin ADiv xacc x1) g rest Hc1 (RB ADiv _ _ _ _ Hacc Hrel1) H) as [r [x [-> [Hcr [Hrel Hx]]]]].
    exists r, x. repeat split; auto.
    intros F HF. destruct (Sn F _ HF) as [F' [-> HF']]. tests Ht. rewrite (xml_div F' xacc t r0 Hmu Hdi).
    rewrite (Hx1 F'); [|lia]. apply Hx. lia.
  - destruct SP as [Hv Ht]. tests Ht. apply Stop; [rewrite Hv; reflexivity|auto].
  - destruct SP as [Hv Ht]. tests Ht. apply Stop; [rewrite Hv; reflexivity|auto].
Qed.

Lemma xmul_of f r0 g1 rest1 : Qfac f -> Qterm f -> ctoks r0 ->
  g_factor f (map view_tok r0) = Some (g1, rest1) ->
  forall t2 rest2, g_term_loop f g1 rest1 = Some (t2, rest2) ->
  exists r2 x2, rest2 = map view_tok r2 /\ ctoks r2 /\ rel t2 x2 /\ forall F, (5 * f + 2 <= F)%nat -> x_mul F r0 = Some (x2, r2).
Proof.
  intros IHf IHt Hr0 E t2 rest2 E2.
  destruct (IHf r0 g1 rest1 Hr0 E) as [r1 [x1 [-> [Hc1 [Hrel1 Hx1]]]]].
  destruct (IHt r1 g1 x1 t2 rest2 Hc1 Hrel1 E2) as [r2 [x2 [-> [Hc2 [Hrel2 Hx2]]]]].
  exists r2, x2. repeat split; auto.
  intros F HF. destruct (Sn F (5 * f + 1)%nat ltac:(lia)) as [F' [-> HF']]. rewrite xmul_step. rewrite (Hx1 F'); [|lia]. apply Hx2. lia.
Qed.

Lemma qstep_suml f : Qfac f -> Qterm f -> Qsuml f -> Qsuml (S f).
Proof.
  intros IHf IHt IHl l gacc xacc g rest Hc Hacc H.
  assert (Stop : g_sum_loop (S f) gacc (map view_tok l) = Some (gacc, map view_tok l) ->
                 match l with [] => True | t :: _ => is_c L_PlusOperatorToken t = false /\ is_c L_MinusOperatorToken t = false end ->
                 exists r x, rest = map view_tok r /\ ctoks r /\ rel g x /\ forall F, (5 * S f + 1 <= F)%nat -> x_add_loop F xacc l = Some (x, r)).
  { intros Hg Hs. rewrite Hg in H. injection H as <- <-. exists l, xacc. repeat split; auto.
    intros F HF. destruct (Sn F _ HF) as [F' [-> _]]. exact (xal_stop F' xacc l Hs). }
  destruct l as [|t r0]; [apply Stop; [reflexivity|exact I]|].
  destruct (ctoks_cons t r0 Hc) as [Hk Hr0]. head_kind t Hk k SP. cbn [map] in H, Stop.
  destruct k.
  - destruct SP as [[e [a [Hv _]]] Ht]. tests Ht. apply Stop; [rewrite Hv; reflexivity|auto].
  - clear Stop. destruct SP as [Hv Ht]. rewrite Hv in H. cbn [g_sum_loop] in H.
    destruct (g_factor f (map view_tok r0)) as [[g1 rest1]|] eqn:E; [|discriminate].
    destruct (g_term_loop f g1 rest1) as [[t2 rest2]|] eqn:E2; [|discriminate].
    destruct (xmul_of f r0 g1 rest1 IHf IHt Hr0 E t2 rest2 E2) as [r2 [x2 [-> [Hc2 [Hrel2 Hx2]]]]].
    destruct (IHl r2 (GB AAdd gacc t2) (XBin AAdd xacc x2) g rest Hc2 (RB AAdd _ _ _ _ Hacc Hrel2) H) as [r [x [-> [Hcr [Hrel Hx]]]]].
    exists r, x. repeat split; auto.
    intros F HF. destruct (Sn F _ HF) as [F' [-> HF']]. tests Ht. rewrite (xal_add F' xacc t r0 Hpl).
    rewrite (Hx2 F'); [|lia]. apply Hx. lia.
  - clear Stop. destruct SP as [Hv Ht]. rewrite Hv in H. cbn [g_sum_loop] in H.
    destruct (g_factor f (map view_tok r0)) as [[g1 rest1]|] eqn:E; [|discriminate].
    destruct (g_term_loop f g1 rest1) as [[t2 rest2]|] eqn:E2; [|discriminate].
    destruct (xmul_of f r0 g1 rest1 IHf IHt Hr0 E t2 rest2 E2) as [r2 [x2 [-> [Hc2 [Hrel2 Hx2]]]]].
    destruct (IHl r2 (GB ASub gacc t2) (XBin ASub xacc x2) g rest Hc2 (RB ASub _ _ _ _ Hacc Hrel2) H) as [r [x [-> [Hcr [Hrel Hx]]]]].
    exists r, x. repeat split; auto.
    intros F HF. destruct (Sn F _ HF) as [F' [-> HF']]. tests Ht. rewrite (xal_sub F' xacc t r0 Hpl Hmi).
    rewrite (Hx2 F'); [|lia]. apply Hx. lia.
  - destruct SP as [Hv Ht]. tests Ht. apply Stop; [rewrite Hv; reflexivity|auto].
  - destruct SP as [Hv Ht]. tests Ht. apply Stop; [rewrite Hv; reflexivity|auto].
  - destruct SP as [Hv Ht]. tests Ht. apply Stop; [rewrite Hv; reflexivity|auto].
  - destruct SP as [Hv Ht]. tests Ht. apply Stop; [rewrite Hv; reflexivity|auto].
Qed.

Lemma qstep_sum f : Qfac f -> Qterm f -> Qsuml f -> Qsum (S f).
Proof.
  intros IHf IHt IHl l g rest Hc H. cbn [g_sum] in H.
  destruct (g_factor f (map view_tok l)) as [[g1 rest1]|] eqn:E; [|discriminate].
  destruct (g_term_loop f g1 rest1) as [[t2 rest2]|] eqn:E2; [|discriminate].
  destruct (xmul_of f l g1 rest1 IHf IHt Hc E t2 rest2 E2) as [r2 [x2 [-> [Hc2 [Hrel2 Hx2]]]]].
  destruct (IHl r2 t2 x2 g rest Hc2 Hrel2 H) as [r [x [-> [Hcr [Hrel Hx]]]]].
  exists r, x. repeat split; auto.
  intros F HF.
  destruct (Sn F _ HF) as [F1 [-> HF1]]. destruct (Sn F1 (5 * f + 4)%nat ltac:(lia)) as [F2 [-> HF2]].
  destruct (Sn F2 (5 * f + 3)%nat ltac:(lia)) as [F3 [-> HF3]].
  rewrite xcmp_step, xcat_step, xadd_step. rewrite (Hx2 F3); [|lia]. rewrite (Hx F3); [|lia].
  rewrite (xcatl_core F3 x r Hcr). exact (xcmpl_core (S F3) x r Hcr).
Qed.

Theorem qsim : forall f, Qfac f /\ Qterm f /\ Qsuml f /\ Qsum f.
Proof.
  induction f as [|f [IHf [IHt [IHl IHs]]]].
  - repeat split; intros ?; intros; discriminate.
  - repeat split.
    + apply qstep_fac; assumption.
    + apply qstep_term; assumption.
    + apply qstep_suml; assumption.
    + apply qstep_sum; assumption.
Qed.

(* G and the specification's reader build the same tree on every core token string, at every sufficient fuel *)
Theorem grammar_is_spec_reader : forall f l g, ctoks l -> g_sum f (map view_tok l) = Some (g, []) ->
  exists x, rel g x /\ forall F, (5 * f + 1 <= F)%nat -> x_cmp F l = Some (x, []).
Proof.
  intros f l g Hc H. destruct (qsim f) as [_ [_ [_ Hs]]].
  destruct (Hs l g [] Hc H) as [r [x [Hr [_ [Hrel Hx]]]]].
  destruct r; [|discriminate]. eauto.
Qed.

(* ---- the tokens of a translated core tree are core tokens ---- *)
Lemma kind_open k : tclass k = L_BracketStartToken -> kind_of_tok k <> None.
Proof. intros H. unfold kind_of_tok. rewrite H. discriminate. Qed.
Lemma kind_close k : tclass k = L_BracketFinishToken -> kind_of_tok k <> None.
Proof. intros H. unfold kind_of_tok. rewrite H. discriminate. Qed.
Lemma kind_arith k o : op_of_class (tclass k) = Some (OArith o) -> kind_of_tok k <> None.
Proof.
  unfold op_of_class.
  destruct (Nat.eqb (tclass k) L_PlusOperatorToken) eqn:E1; [apply Nat.eqb_eq in E1; intros _; unfold kind_of_tok; rewrite E1; discriminate|].
  destruct (Nat.eqb (tclass k) L_MinusOperatorToken) eqn:E2; [apply Nat.eqb_eq in E2; intros _; unfold kind_of_tok; rewrite E2; discriminate|].
  destruct (Nat.eqb (tclass k) L_MultiplicationOperatorToken) eqn:E3; [apply Nat.eqb_eq in E3; intros _; unfold kind_of_tok; rewrite E3; discriminate|].
  destruct (Nat.eqb (tclass k) L_DivOperatorToken) eqn:E4; [apply Nat.eqb_eq in E4; intros _; unfold kind_of_tok; rewrite E4; discriminate|].
  repeat (match goal with |- context [if ?b then _ else _] => destruct b end; try discriminate).
Qed.
Lemma arith_of_kind op k o : arith_of op = Some (k, o) -> yield op = [k] /\ kind_of_tok k <> None.
Proof.
  intros Ha. destruct (arith_of_facts op k o Ha) as [_ [_ [Hy _]]]. split; [exact Hy|].
  unfold arith_of in Ha. destruct (is_nt N_OperatorToken op); [|discriminate].
  destruct (single_leaf 6 op) as [k'|]; [|discriminate].
  destruct (op_of_class (tclass k')) as [[o'| | |]|] eqn:C; try discriminate. injection Ha as -> ->. exact (kind_arith k o C).
Qed.
Lemma operand_ctoks o c : is_operand o = true -> emit_operand o = EOk c -> ctoks (yield o).
Proof.
  intros Ho He. destruct o as [k|n a kids]; [discriminate|].
  destruct kids as [|[k|] [|? ?]]; try discriminate.
  rewrite yield_node. unfold yields. cbn [flat_map yield app].
  constructor; [|constructor]. cbn [emit_operand] in He. unfold kind_of_tok. cbv zeta.
  destruct (Nat.eqb (tclass k) L_LiteralToken) eqn:EL.
  - destruct (literal_rejected k); [discriminate|]. destruct (literal_value k) as [v|]; [discriminate|discriminate].
  - destruct (Nat.eqb (tclass k) L_CellIdentifierToken) eqn:EC; [|discriminate].
    destruct (String.eqb (grp k 3) "" && String.eqb (grp k 4) "") eqn:EG; [|discriminate].
    unfold atom_of. rewrite EL, EC. unfold sgrp. unfold grp in EG. rewrite EG. discriminate.
Qed.
Lemma ctoks_app a b : ctoks a -> ctoks b -> ctoks (a ++ b).
Proof. unfold ctoks. intros. apply Forall_app. auto. Qed.

Theorem core_ctoks : forall fuel fc t c, core fc t = true -> emit fuel t = EOk c -> ctoks (yield t).
Proof.
  induction fuel as [|f IH]; intros fc t c Hc He; [discriminate|].
  destruct fc as [|fc]; [discriminate|]. destruct t as [k|nt alt kids]; [discriminate|].
  cbn [core] in Hc. apply andb_prop in Hc. destruct Hc as [Hn Hk]. apply Nat.eqb_eq in Hn. subst nt.
  cbn [emit] in He. rewrite yield_kids.
  destruct kids as [|k0 [|k1 [|k2 [|k3 [|k4 [|k5 rest]]]]]]; try discriminate.
  - destruct (is_operand_shape k0 Hk) as [a [k ->]]. rewrite node_single in He.
    destruct (emit_operand (Node N_OperandToken a [Leaf k])) as [c0| | |] eqn:E; try discriminate.
    cbn [flat_map]. rewrite app_nil_r. exact (operand_ctoks _ c0 Hk E).
  - destruct (is_open k0) eqn:Eo.
    + apply andb_prop in Hk. destruct Hk as [Hcl Hc1].
      destruct (is_open_shape k0 Eo) as [l [-> Hl]]. destruct (is_close_shape k2 Hcl) as [r [-> Hr]].
      rewrite (node_paren (emit f) l k1 r Hl (core_is_expr fc k1 Hc1)) in He.
      destruct (emit f k1) as [c1| | |] eqn:E1; try discriminate.
      cbn [flat_map yield app]. constructor; [exact (kind_open l Hl)|].
      apply ctoks_app; [exact (IH fc k1 c1 Hc1 E1)|]. constructor; [exact (kind_close r Hr)|constructor].
    + apply andb_prop in Hk. destruct Hk as [Hk Hc2]. apply andb_prop in Hk. destruct Hk as [Ho Ha].
      destruct (arith_of k1) as [[kop o]|] eqn:Ea; [|discriminate].
      destruct (is_operand_shape k0 Ho) as [a [k ->]].
      rewrite (node_binary (emit f) a k k1 kop o k2 Ea (core_is_expr fc k2 Hc2)) in He.
      destruct (emit_operand (Node N_OperandToken a [Leaf k])) as [c0| | |] eqn:E0; try discriminate.
      destruct (emit f k2) as [c2| | |] eqn:E2; try discriminate.
      destruct (arith_of_kind k1 kop o Ea) as [Hy Hko].
      cbn [flat_map]. rewrite Hy. apply ctoks_app; [exact (operand_ctoks _ c0 Ho E0)|].
      cbn [app]. constructor; [exact Hko|]. rewrite app_nil_r. exact (IH fc k2 c2 Hc2 E2).
  - apply andb_prop in Hk. destruct Hk as [Hk Hc4]. apply andb_prop in Hk. destruct Hk as [Hk Ha].
    apply andb_prop in Hk. destruct Hk as [Hk Hcl]. apply andb_prop in Hk. destruct Hk as [Eo Hc1].
    destruct (arith_of k3) as [[kop o]|] eqn:Ea; [|discriminate].
    destruct (is_open_shape k0 Eo) as [l [-> Hl]]. destruct (is_close_shape k2 Hcl) as [r [-> Hr]].
    rewrite (node_paren_binary (emit f) l k1 r k3 kop o k4 Hl (core_is_expr fc k1 Hc1) Ea (core_is_expr fc k4 Hc4)) in He.
    destruct (emit f k1) as [c1| | |] eqn:E1; try discriminate.
    destruct (emit f k4) as [c4| | |] eqn:E4; try discriminate.
    destruct (arith_of_kind k3 kop o Ea) as [Hy Hko].
    cbn [flat_map yield app]. rewrite Hy. constructor; [exact (kind_open l Hl)|].
    apply ctoks_app; [exact (IH fc k1 c1 Hc1 E1)|]. constructor; [exact (kind_close r Hr)|].
    cbn [app]. constructor; [exact Hko|]. rewrite app_nil_r. exact (IH fc k4 c4 Hc4 E4).
Qed.

(* the fuel regroup gives itself is bounded by the length of the token string *)
Lemma flat_len_item : forall i, core_item i = true -> (isize i <= List.length (flat_item i))%nat.
Proof.
  fix IH 1. intros [e|o|c| | |]; try discriminate; cbn [isize flat_item List.length]; try lia.
  intros Hc. rewrite core_item_paren in Hc.
  cbn [List.length]. rewrite app_length. cbn [List.length].
  assert (H : (fold_right (fun x a => isize x + a) 0 c <=
               List.length ((fix fl (l : list pitem) : list ftok := match l with [] => [] | x :: r => (flat_item x ++ fl r)%list end) c))%nat).
  { induction c as [|x r IHc]; [cbn; lia|]. cbn [core_items forallb] in Hc. apply andb_prop in Hc. destruct Hc as [Hx Hr].
    cbn [fold_right]. rewrite app_length. specialize (IH x Hx). specialize (IHc Hr). lia. }
  lia.
Qed.
Lemma flat_len c : core_items c = true -> (fold_right (fun x a => isize x + a) 0 c <= List.length (flat c))%nat.
Proof.
  induction c as [|x r IH]; [cbn; lia|]. intros Hc. cbn [core_items forallb] in Hc. apply andb_prop in Hc. destruct Hc as [Hx Hr].
  rewrite flat_cons, app_length. cbn [fold_right]. pose proof (flat_len_item x Hx). specialize (IH Hr). lia.
Qed.

(* THE THEOREM (unbounded): for every core tree — any size, any nesting — Python's reading of the emitted text and Excel's reading of
   the formula (the specification's own reader xparse, at the fuel the specification gives it) are the same tree: same shape, every
   sign and operator in the same place, every atom coming from the same token *)
Theorem core_excel_reading : forall fuel fc t c pe,
  core fc t = true -> emit fuel t = EOk c -> regroup c = Some pe ->
  exists g x, py_of_gt g = pe /\ rel g x /\ xparse (yield t) = Some x.
Proof.
  intros fuel fc t c pe Hc He Hr. unfold regroup in Hr.
  set (n := fold_right (fun x a => (isize x + a)%nat) 0%nat c) in Hr.
  destruct (sim (4 * n + 8)) as [_ [_ [_ Hs]]].
  pose proof (core_emit_items fuel fc t c Hc He) as Hci.
  destruct (Hs c pe [] Hci (or_introl eq_refl) Hr) as [g [Hg Hp]].
  rewrite app_nil_r in Hg. pose proof (core_emit_identity fuel fc t c Hc He) as Hid. rewrite Hid in Hg.
  destruct (grammar_is_spec_reader (4 * n + 8) (yield t) g (core_ctoks fuel fc t c Hc He) Hg) as [x [Hrel Hx]].
  exists g, x. repeat split; auto.
  unfold xparse. rewrite Hx; [reflexivity|].
  pose proof (flat_len c Hci) as Hl. fold n in Hl. rewrite Hid, map_length in Hl. lia.
Qed.
