(* Proofs/TaintProofs.v — lemmas behind Props/C07.v *)
Require Import X2P.Base.Prelude X2P.Base.Str X2P.Base.PyRepr X2P.Model.Taint X2P.Proofs.ReprProofs.
From Coq Require Import NArith Lia.
Open Scope string_scope.

Lemma list_of_string_of_list' l : list_of_string (string_of_list l) = l.
Proof. induction l as [|c l IH]; simpl; [reflexivity|now rewrite IH]. Qed.
Lemma string_of_list_of_string'' s : string_of_list (list_of_string s) = s.
Proof. induction s as [|c s IH]; simpl; [reflexivity|now rewrite IH]. Qed.
Lemma list_of_string_app a b : list_of_string (a ++ b) = (list_of_string a ++ list_of_string b)%list.
Proof. induction a as [|c a IH]; simpl; [reflexivity|now rewrite IH]. Qed.

(* a text constant (cell or sheet title) is emitted as exactly one string literal denoting the original text — every byte string *)
Theorem constant_inert text : denotes (emit_constant text) = Some text.
Proof.
  unfold denotes, emit_constant, py_repr. rewrite list_of_string_of_list'.
  pose proof (repr_roundtrip (list_of_string text) []) as H. rewrite app_nil_r in H. rewrite H.
  now rewrite string_of_list_of_string''.
Qed.

(* and nothing of it leaks: whatever follows in the module is read after the literal *)
Theorem constant_confined text rest :
  read_string_literal (list_of_string (emit_constant text) ++ rest) = Some (list_of_string text, rest).
Proof. unfold emit_constant, py_repr. rewrite list_of_string_of_list'. apply repr_roundtrip. Qed.

(* repr never starts like the template call *)
Lemma strip_prefix_repr w : strip_prefix REGEXP_OPEN (py_repr w) = None.
Proof.
  unfold py_repr, py_repr_l. cbn [string_of_list]. unfold REGEXP_OPEN. cbn [strip_prefix].
  unfold repr_quote. destruct (_ && _); reflexivity.
Qed.
Lemma strip_prefix_app p s : strip_prefix p (p ++ s) = Some s.
Proof. induction p as [|c p IH]; simpl; [reflexivity|]. now rewrite ascii_eqb_refl. Qed.

(* every code the formula-text path can emit — whatever the lexer made of the text — is inert: one literal, or the template call around
   one literal, denoting the emitted payload *)
Lemma lit_inert w : inert_code (py_repr w) = Some w.
Proof. unfold inert_code. rewrite strip_prefix_repr. apply constant_inert. Qed.
Lemma pat_inert w : inert_code (REGEXP_OPEN ++ py_repr w ++ ")") = Some w.
Proof.
  unfold inert_code. rewrite strip_prefix_app. rewrite list_of_string_app.
  pose proof (constant_confined w (list_of_string ")")) as H. unfold emit_constant in H. rewrite H.
  cbn. now rewrite string_of_list_of_string''.
Qed.
Theorem emitted_code_inert f c : code_of f = Some c ->
  exists w, inert_code c = Some w /\ (f = FLit w \/ f = FPat w).
Proof.
  destruct f as [w|w| |]; cbn [code_of]; intros H; try discriminate; exists w; split; auto.
  - assert (E : c = py_repr w) by congruence. rewrite E. apply lit_inert.
  - assert (E : c = REGEXP_OPEN ++ py_repr w ++ ")") by congruence. rewrite E. apply pat_inert.
Qed.
Corollary formula_text_inert text c : code_of (emit_text_formula text) = Some c -> exists w, inert_code c = Some w.
Proof. intros H. destruct (emitted_code_inert _ _ H) as [w [Hw _]]. now exists w. Qed.

(* double-quoted text without quote, backslash or newline is one literal (what the unrepaired splice relied on) *)
Definition safe_char (c : ascii) : bool :=
  negb (ascii_eqb c QUOTE2) && negb (ascii_eqb c BSL) && negb (N_of_ascii c =? 10)%N.
Lemma lit_body_safe l rest acc : forallb safe_char l = true ->
  lit_body QUOTE2 (l ++ QUOTE2 :: rest) acc = Some (rev acc ++ l, rest)%list.
Proof.
  revert acc. induction l as [|c l IH]; intros acc H.
  - cbn [app lit_body]. rewrite ascii_eqb_refl. now rewrite app_nil_r.
  - cbn [forallb] in H. apply andb_prop in H. destruct H as [Hc Hl]. unfold safe_char in Hc.
    apply andb_prop in Hc. destruct Hc as [Hc H3]. apply andb_prop in Hc. destruct Hc as [H1 H2].
    apply negb_true_iff in H1, H2, H3.
    cbn [app lit_body]. rewrite H1, H3, H2. rewrite IH by exact Hl. cbn [rev]. now rewrite <- app_assoc.
Qed.
Theorem verbatim_safe_alphabet l rest : forallb safe_char l = true ->
  read_string_literal (QUOTE2 :: l ++ QUOTE2 :: rest) = Some (l, rest).
Proof.
  intros H. unfold read_string_literal. rewrite ascii_eqb_refl, orb_true_r. apply (lit_body_safe l rest [] H).
Qed.

(* the splice of the unrepaired PatternTokenTranslator is NOT inert: the reason for fix F14 (kept as a regression witness) *)
Definition PAYLOAD : string := "*""+zzcanary(1)+""*".
Theorem verbatim_splice_not_inert :
  inert_code (REGEXP_OPEN ++ """" ++ PAYLOAD ++ """" ++ ")") = None /\
  emit_text_formula PAYLOAD = FPat PAYLOAD /\
  inert_code (REGEXP_OPEN ++ py_repr PAYLOAD ++ ")") = Some PAYLOAD.
Proof. repeat split; vm_compute; reflexivity. Qed.

(* the plain-literal and pattern paths on hostile texts (kernel-computed through the real lexer regexes) *)
Theorem literal_examples :
  emit_text_formula "it's" = FLit "it's" /\
  emit_text_formula "'+zzcanary(1)+'" = FLit "'+zzcanary(1)+'" /\
  emit_text_formula "a\b" = FLit "a\b" /\
  emit_text_formula "what?" = FPat "what?" /\
  emit_text_formula "a?""&""b" = FPat "a?""&""b".
Proof. repeat split; vm_compute; reflexivity. Qed.
