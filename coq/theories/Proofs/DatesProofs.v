(* Proofs/DatesProofs.v — lemmas behind Props/C15.v *)
Require Import X2P.Base.Prelude X2P.Base.F64 X2P.Base.PyCmp X2P.Base.PyType X2P.Base.PyNum X2P.Base.Calendar.
Require Import X2P.Model.Dates X2P.Spec.Dates.
From Coq Require Import Lia ZifyBool.
Open Scope Z_scope.
Ltac Zify.zify_post_hook ::= Z.to_euclidean_division_equations.

(* ---------- dateutil's month arithmetic = floor division on the month count ---------- *)
Lemma rd_add_months_spec y m d k :
  1 <= m <= 12 ->
  rd_add_months y m d k =
  let t := y * 12 + (m - 1) + k in
  let y' := t / 12 in let m' := t mod 12 + 1 in
  if (y' <? 1) || (9999 <? y') then Exc ValueError else Ok (y', m', Z.min (dim y' m') d).
Proof.
  intros Hm. unfold rd_add_months. cbv zeta.
  destruct (11 <? Z.abs k) eqn:Ek.
  - destruct (k <? 0) eqn:Es.
    + set (dv := k * -1 / 12). set (md := (k * -1) mod 12).
      assert (Hk : k = - (12 * dv + md) /\ 0 <= md < 12) by (unfold dv, md; lia).
      destruct Hk as [Hk Hmd].
      destruct (md * -1 =? 0) eqn:E0.
      * assert (md = 0) by lia.
        replace ((y * 12 + (m - 1) + k) / 12) with (y + dv * -1) by lia.
        replace ((y * 12 + (m - 1) + k) mod 12 + 1) with m by lia. reflexivity.
      * destruct (12 <? m + md * -1) eqn:E1; [lia|].
        destruct (m + md * -1 <? 1) eqn:E2.
        -- replace ((y * 12 + (m - 1) + k) / 12) with (y + dv * -1 - 1) by lia.
           replace ((y * 12 + (m - 1) + k) mod 12 + 1) with (m + md * -1 + 12) by lia. reflexivity.
        -- replace ((y * 12 + (m - 1) + k) / 12) with (y + dv * -1) by lia.
           replace ((y * 12 + (m - 1) + k) mod 12 + 1) with (m + md * -1) by lia. reflexivity.
    + set (dv := k * 1 / 12). set (md := (k * 1) mod 12).
      assert (Hk : k = 12 * dv + md /\ 0 <= md < 12) by (unfold dv, md; lia).
      destruct Hk as [Hk Hmd].
      destruct (md * 1 =? 0) eqn:E0.
      * assert (md = 0) by lia.
        replace ((y * 12 + (m - 1) + k) / 12) with (y + dv * 1) by lia.
        replace ((y * 12 + (m - 1) + k) mod 12 + 1) with m by lia. reflexivity.
      * destruct (12 <? m + md * 1) eqn:E1.
        -- replace ((y * 12 + (m - 1) + k) / 12) with (y + dv * 1 + 1) by lia.
           replace ((y * 12 + (m - 1) + k) mod 12 + 1) with (m + md * 1 - 12) by lia. reflexivity.
        -- destruct (m + md * 1 <? 1) eqn:E2; [lia|].
           replace ((y * 12 + (m - 1) + k) / 12) with (y + dv * 1) by lia.
           replace ((y * 12 + (m - 1) + k) mod 12 + 1) with (m + md * 1) by lia. reflexivity.
  - destruct (k =? 0) eqn:E0.
    + replace ((y * 12 + (m - 1) + k) / 12) with (y + 0) by lia.
      replace ((y * 12 + (m - 1) + k) mod 12 + 1) with m by lia. reflexivity.
    + destruct (12 <? m + k) eqn:E1.
      * replace ((y * 12 + (m - 1) + k) / 12) with (y + 0 + 1) by lia.
        replace ((y * 12 + (m - 1) + k) mod 12 + 1) with (m + k - 12) by lia. reflexivity.
      * destruct (m + k <? 1) eqn:E2.
        -- replace ((y * 12 + (m - 1) + k) / 12) with (y + 0 - 1) by lia.
           replace ((y * 12 + (m - 1) + k) mod 12 + 1) with (m + k + 12) by lia. reflexivity.
        -- replace ((y * 12 + (m - 1) + k) / 12) with (y + 0) by lia.
           replace ((y * 12 + (m - 1) + k) mod 12 + 1) with (m + k) by lia. reflexivity.
Qed.

Require Import X2P.Proofs.CalendarProofs.

(* ---------- DATE ---------- *)
(* for every year 1900..9999, EVERY integer month and day (zero, negative, overflowing): the result is
   1 January of y plus (m-1) months plus (d-1) days, whenever that date exists in years 1..9999 *)
Lemma date_spec y m d :
  1900 <= y <= 9999 ->
  let t := y * 12 + (m - 1) in
  1 <= t / 12 <= 9999 -> ord_in_range (xl_date_ord y m d) = true ->
  date y m d = Ok (VDT (xl_date_ord y m d) 0).
Proof.
  intros Hy t Ht Hr. unfold date.
  destruct ((0 <=? y) && (y <=? 1899)) eqn:E0; [lia|].
  destruct ((y <? 0) || (9999 <? y)) eqn:E1; [lia|].
  rewrite rd_add_months_spec by lia. cbv zeta.
  replace (y * 12 + (1 - 1) + (m - 1)) with t by (unfold t; lia).
  destruct ((t / 12 <? 1) || (9999 <? t / 12)) eqn:E2; [lia|].
  cbn [bind].
  assert (Hd : Z.min (dim (t / 12) (t mod 12 + 1)) 1 = 1) by (pose proof (dim_pos (t / 12) (t mod 12 + 1)); lia).
  rewrite Hd. unfold xl_date_ord in Hr |- *. fold t in Hr |- *. rewrite Hr. reflexivity.
Qed.

(* YEAR, MONTH, DAY invert DATE on valid triples *)
Lemma date_ymd_invert y m d :
  1900 <= y <= 9999 -> 1 <= m <= 12 -> 1 <= d <= dim y m ->
  exists o, date y m d = Ok (VDT o 0) /\
            year_of (VDT o 0) = Ok (VInt y) /\ month_of (VDT o 0) = Ok (VInt m) /\ day_of (VDT o 0) = Ok (VInt d).
Proof.
  intros Hy Hm Hd.
  assert (Ht : (y * 12 + (m - 1)) / 12 = y /\ (y * 12 + (m - 1)) mod 12 + 1 = m) by lia.
  destruct Ht as [Ht1 Ht2].
  assert (Ex : xl_date_ord y m d = ord_of_ymd y m d).
  { unfold xl_date_ord. rewrite Ht1, Ht2. unfold ord_of_ymd. lia. }
  assert (V : valid y m d) by (unfold valid; lia).
  assert (R : ord_in_range (xl_date_ord y m d) = true).
  { rewrite Ex. pose proof (ord_bounds y m d V) as B. pose proof (valid_ord_pos y m d V).
    pose proof (dby_mono (y + 1) 10000 ltac:(lia)) as M. unfold ord_in_range, MIN_ORD, MAX_ORD.
    assert (days_before_year 10000 = 3652059) by reflexivity. lia. }
  exists (ord_of_ymd y m d). split.
  - rewrite <- Ex. apply date_spec; [exact Hy|rewrite Ht1; lia|exact R].
  - unfold year_of, month_of, day_of. rewrite (ymd_of_ord_of_ymd y m d V). auto.
Qed.

(* ---------- EDATE / EOMONTH ---------- *)
Lemma edate_spec o us k y m d :
  ymd_of_ord o = (y, m, d) -> 1 <= o ->
  let '(y', m', d') := xl_edate y m d k in
  1 <= y' <= 9999 -> edate (VDT o us) (VInt k) = Ok (VDT (ord_of_ymd y' m' d') us).
Proof.
  intros E Ho. pose proof (ord_of_ymd_of_ord o Ho) as V. rewrite E in V. destruct V as [_ [_ [Hm _]]].
  unfold xl_edate, add_months, edate. cbv zeta. intros Hy'.
  cbn [is_number isinstance orb negb trunc_num bind]. rewrite E.
  rewrite rd_add_months_spec by exact Hm. cbv zeta.
  destruct (((y * 12 + (m - 1) + k) / 12 <? 1) || (9999 <? (y * 12 + (m - 1) + k) / 12)) eqn:E2; [lia|].
  cbn [bind]. rewrite Z.min_comm. reflexivity.
Qed.

Lemma eomonth_spec o us k y m d :
  ymd_of_ord o = (y, m, d) -> 1 <= o ->
  let '(y', m', d') := xl_eomonth y m k in
  1 <= y' <= 9999 -> eomonth (VDT o us) (VInt k) = Ok (VDT (ord_of_ymd y' m' d') 0).
Proof.
  intros E Ho. pose proof (ord_of_ymd_of_ord o Ho) as V. rewrite E in V. destruct V as [_ [_ [Hm _]]].
  unfold xl_eomonth, add_months, eomonth. cbv zeta. intros Hy'.
  cbn [trunc_num bind]. rewrite E.
  rewrite rd_add_months_spec by exact Hm. cbv zeta.
  destruct (((y * 12 + (m - 1) + k) / 12 <? 1) || (9999 <? (y * 12 + (m - 1) + k) / 12)) eqn:E2; [lia|].
  cbn [bind]. reflexivity.
Qed.

(* ---------- DATEDIF ---------- *)
Lemma datedif_units o1 o2 y1 m1 d1 y2 m2 d2 :
  ymd_of_ord o1 = (y1, m1, d1) -> ymd_of_ord o2 = (y2, m2, d2) -> o1 <= o2 ->
  datedif (VDT o1 0) (VDT o2 0) "D" = Ok (VInt (o2 - o1)) /\
  datedif (VDT o1 0) (VDT o2 0) "M" = Ok (VInt (xl_months y1 m1 d1 y2 m2 d2)) /\
  datedif (VDT o1 0) (VDT o2 0) "YM" = Ok (VInt (xl_months y1 m1 d1 y2 m2 d2 mod 12)).
Proof.
  intros E1 E2 Ho. unfold datedif. rewrite E1, E2.
  destruct ((o2 <? o1) || ((o2 =? o1) && (0 <? 0))) eqn:E; [lia|].
  unfold days_between, USDAY, xl_months. split; [|split]; cbn [String.eqb Ascii.eqb Bool.eqb andb].
  - f_equal. f_equal. lia.
  - reflexivity.
  - f_equal. f_equal. f_equal. destruct (d2 <? d1); lia.
Qed.

(* refuted on the unchanged tree: Y counts days // 365 *)
Lemma datedif_Y_wrong :
  datedif (VDT (ord_of_ymd 2020 3 1) 0) (VDT (ord_of_ymd 2024 2 29) 0) "Y" = Ok (VInt 4) /\
  xl_months 2020 3 1 2024 2 29 / 12 = 3.
Proof. split; vm_compute; reflexivity. Qed.

(* ---------- NETWORKDAYS ---------- *)
Lemma weekday_not_weekend t : negb ((weekday t =? 5) || (weekday t =? 6)) = (weekday t <? 5).
Proof. pose proof (weekday_range t). lia. Qed.

Lemma nd_loop_spec fuel : forall a b hol acc,
  Z.of_nat fuel = b - a + 1 ->
  nd_loop fuel a b hol acc = acc + workdays a b hol.
Proof.
  induction fuel as [|f IH]; intros a b hol acc Hf.
  - unfold workdays. replace (Z.to_nat (b - a + 1)) with 0%nat by lia. simpl. lia.
  - cbn [nd_loop]. destruct (b <? a) eqn:E; [lia|].
    rewrite IH by lia. unfold workdays.
    replace (Z.to_nat (b - a + 1)) with (S (Z.to_nat (b - (a + 1) + 1))) by lia.
    cbn [zrange filter]. rewrite weekday_not_weekend.
    destruct ((weekday a <? 5) && negb (existsb (Z.eqb a) hol)); cbn [List.length]; lia.
Qed.

Lemma network_days_spec o1 u1 o2 u2 h :
  network_days (VDT o1 u1) (VDT o2 u2) h =
  Ok (VInt (if o1 <=? o2 then workdays o1 o2 (holiday_ords h) else - workdays o2 o1 (holiday_ords h))).
Proof.
  unfold network_days. destruct (o1 <=? o2) eqn:E.
  - rewrite nd_loop_spec by lia. f_equal. f_equal. lia.
  - rewrite nd_loop_spec by lia. f_equal. f_equal. lia.
Qed.
