(* Proofs/SafetyProofs.v — kernel-exhaustive sweep behind Props/C19.v, and the gate of the facade. *)
Require Import X2P.Base.Prelude X2P.Model.Safety X2P.Spec.Safety X2P.Model.Facade.
From Coq Require Import List Bool.
Open Scope string_scope.

Definition salpha : list string := ["a"; "B"; "_"; "1"; "("; ")"; " "].
Fixpoint words (n : nat) : list string :=
  match n with O => [""] | S k => flat_map (fun w => map (fun a => a ++ w) salpha) (words k) end.
Definition stexts : list string := (words 1 ++ words 2 ++ words 3 ++ words 4 ++ words 5)%list.

Definition listed (s : string) : option bool :=
  match suspicious s with Some [] => Some false | Some _ => Some true | None => None end.
Definition agree (x y : option bool) : bool :=
  match x, y with Some a, Some b => Bool.eqb a b | Some _, None => true | None, _ => false end.
Definition gate_ok (s : string) : bool := upper_suffix s || agree (listed s) (must_list s).

Lemma gate_sweep : forallb gate_ok stexts = true.
Proof. vm_compute. reflexivity. Qed.

Lemma orb_elim (c b : bool) : c || b = true -> c = false -> b = true.
Proof. intros H ->. exact H. Qed.
Lemma agree_elim (x y : option bool) : agree x y = true ->
  match x, y with Some a, Some b => a = b | Some _, None => True | None, _ => False end.
Proof. destruct x as [a|], y as [b|]; simpl; intros H; try exact I; try discriminate. apply Bool.eqb_prop, H. Qed.
Lemma gate_step s : In s stexts -> gate_ok s = true.
Proof. intros Hin. exact (proj1 (forallb_forall gate_ok stexts) gate_sweep s Hin). Qed.

Lemma gate_small s : In s stexts -> upper_suffix s = false ->
  match listed s, must_list s with Some a, Some b => a = b | Some _, None => True | None, _ => False end.
Proof.
  intros Hin Hc. apply agree_elim. apply (orb_elim (upper_suffix s)); [|exact Hc].
  exact (gate_step s Hin).
Qed.

(* with the check disabled the safety exception is never raised; a workbook without suspicious cells is never rejected by the gate *)
Section Gate.
  Variable path entry text : Type.
  Variable T : path -> option entry -> tres text.
  Variable safe : path -> bool.
  Lemma gate_off_never_raises s : p_safety s = false -> snd (translate path entry text T safe s) <> PSafetyExc.
  Proof.
    intros H. unfold translate. destruct (negb (p_dirty_path s) && negb (p_dirty_entry s)); [discriminate|].
    destruct (p_path s) as [p|]; [|discriminate]. rewrite H. cbn [andb].
    destruct (T p (p_entry s)); discriminate.
  Qed.
  Lemma innocent_workbook_accepted s p : p_path s = Some p -> safe p = true ->
    snd (translate path entry text T safe s) <> PSafetyExc.
  Proof.
    intros Hp Hs. unfold translate. destruct (negb (p_dirty_path s) && negb (p_dirty_entry s)); [discriminate|].
    rewrite Hp, Hs. rewrite andb_false_r. destruct (T p (p_entry s)); discriminate.
  Qed.
End Gate.

Lemma in_stexts s : existsb (String.eqb s) stexts = true -> In s stexts.
Proof. intros H. apply existsb_exists in H. destruct H as [x [Hx E]]. apply String.eqb_eq in E. now subst. Qed.

Lemma upper_suffix_escapes : listed "aB(c)" = Some false /\ must_list "aB(c)" = Some true.
Proof. split; vm_compute; reflexivity. Qed.
