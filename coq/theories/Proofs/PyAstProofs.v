(* Proofs/PyAstProofs.v — soundness of the syntactic comparison, and the lift to behaviour. *)
From Coq Require Import List String Bool.
Import ListNotations.
Require Import X2P.Model.PyAst.

Lemma strs_eqb_sound a : forall b, strs_eqb a b = true -> a = b.
Proof.
  induction a as [|x a IH]; intros [|y b] H; simpl in H; try discriminate; [reflexivity|].
  apply andb_prop in H. destruct H as [H1 H2]. apply String.eqb_eq in H1. subst. f_equal. apply IH, H2.
Qed.

(* induction principle with the nested list *)
Fixpoint pyast_ind' (P : pyast -> Prop)
  (H : forall k at_ ks, Forall P ks -> P (Node k at_ ks)) (a : pyast) : P a :=
  match a with
  | Node k at_ ks =>
      H k at_ ks ((fix go (l : list pyast) : Forall P l :=
                     match l with [] => Forall_nil P | x :: t => Forall_cons x (pyast_ind' P H x) (go t) end) ks)
  end.

Lemma pyast_eqb_sound a : forall b, pyast_eqb a b = true -> a = b.
Proof.
  induction a as [k1 at1 ks1 IH] using pyast_ind'. intros [k2 at2 ks2] H. cbn [pyast_eqb] in H.
  apply andb_prop in H. destruct H as [H H3]. apply andb_prop in H. destruct H as [H1 H2].
  apply String.eqb_eq in H1. apply strs_eqb_sound in H2. subst. f_equal.
  revert ks2 H3. induction IH as [|x l Hx Hl IHl]; intros [|y m] H3; try discriminate; [reflexivity|].
  apply andb_prop in H3. destruct H3 as [Hxy Hr]. f_equal; [apply Hx, Hxy|apply IHl, Hr].
Qed.

(* two tables agree on every common name *)
Definition tables_agree (ta tb : list (string * pyast)) : bool :=
  forallb (fun p => match lookup tb (fst p) with Some b => pyast_eqb (snd p) b | None => false end) ta.

Lemma tables_agree_sound ta tb : tables_agree ta tb = true ->
  forall name a, In (name, a) ta -> lookup tb name = Some a.
Proof.
  unfold tables_agree. intros H name a Hin.
  pose proof (proj1 (forallb_forall _ _) H (name, a) Hin) as H1. cbn [fst snd] in H1.
  destruct (lookup tb name) as [b|]; [|discriminate]. apply pyast_eqb_sound in H1. now subst.
Qed.

(* same code, same result: for ANY deterministic semantics of Python (a function of the syntax tree and the arguments) *)
Theorem same_code_same_result ta tb : tables_agree ta tb = true ->
  forall (Arg Res : Type) (sem : pyast -> Arg -> Res) name a b,
  In (name, a) ta -> lookup tb name = Some b -> forall x, sem a x = sem b x.
Proof.
  intros H Arg Res sem name a b Hin Hb x. rewrite (tables_agree_sound ta tb H name a Hin) in Hb. inversion Hb. reflexivity.
Qed.

(* name sets *)
Fixpoint subset (a b : list string) : bool :=
  match a with [] => true | x :: t => existsb (String.eqb x) b && subset t b end.
Definition same_names (ta tb : list (string * pyast)) : bool := subset (names ta) (names tb) && subset (names tb) (names ta).
