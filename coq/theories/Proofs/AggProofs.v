(* Proofs/AggProofs.v — lemmas behind Props/C11.v *)
Require Import X2P.Base.Prelude X2P.Base.F64 X2P.Base.PyCmp X2P.Base.PyType X2P.Base.PyNum.
Require Import X2P.Model.Agg X2P.Spec.Agg.
From Coq Require Import Lia.
Open Scope Z_scope.

Definition scalar (v : val) : Prop := match v with VList _ => False | _ => True end.
Definition scalar_arg (a : xarg) : Prop :=
  match a with XArea rows => Forall (Forall scalar) rows | XScalar v => scalar v end.

Lemma flatten1_scalar v : scalar v -> flatten1 v = [v].
Proof. destruct v; simpl; intros H; try reflexivity. contradiction. Qed.

Lemma flatten1_row (row : list val) : Forall scalar row -> flatten1 (VList row) = row.
Proof.
  induction 1 as [|x t Hx Ht IH]; [reflexivity|].
  simpl in *. rewrite (flatten1_scalar x Hx). simpl. f_equal. exact IH.
Qed.

Lemma flatten1_area rows : Forall (Forall scalar) rows -> flatten1 (area_val rows) = List.concat rows.
Proof.
  unfold area_val. induction 1 as [|r t Hr Ht IH]; [reflexivity|].
  simpl map. change (flatten1 (VList (VList r :: map VList t)))
    with (flatten1 (VList r) ++ flatten1 (VList (map VList t))).
  rewrite (flatten1_row r Hr), IH. reflexivity.
Qed.

Lemma flatten_args args :
  Forall scalar_arg args ->
  flatten (map arg_val (map arg_of_xarg args)) = all_cells args.
Proof.
  unfold flatten, all_cells. induction 1 as [|a t Ha Ht IH]; [reflexivity|].
  simpl. rewrite IH. f_equal. destruct a as [rows|v]; simpl in *.
  - apply flatten1_area, Ha.
  - apply flatten1_scalar, Ha.
Qed.

Lemma is_num_exact v : is_exact_number v = is_num v.
Proof. destruct v; reflexivity. Qed.
Lemma only_numeric_filter l : only_numeric l = filter is_num l.
Proof. unfold only_numeric. apply filter_ext. intros; apply is_num_exact. Qed.

(* which cells are folded: exactly the numeric cells of the arguments, once per mention, in order *)
Lemma selection args :
  Forall scalar_arg args ->
  only_numeric (flatten (map arg_val (map arg_of_xarg args))) = numeric_cells args.
Proof. intros H. rewrite (flatten_args args H), only_numeric_filter. reflexivity. Qed.

Lemma numeric_cells_app X Y : numeric_cells (X ++ Y) = numeric_cells X ++ numeric_cells Y.
Proof. unfold numeric_cells. rewrite flat_map_app, filter_app. reflexivity. Qed.

Lemma numeric_cells_area_split r1 r2 rest :
  numeric_cells (XArea (r1 ++ r2) :: rest) = numeric_cells (XArea r1 :: XArea r2 :: rest).
Proof. unfold numeric_cells. simpl. rewrite concat_app, !filter_app, app_assoc. reflexivity. Qed.

Lemma filter_idem {A} (f : A -> bool) l : filter f (filter f l) = filter f l.
Proof.
  induction l as [|x t IH]; [reflexivity|]. simpl. destruct (f x) eqn:E; simpl; [rewrite E, IH|]; auto.
Qed.

Lemma only_numeric_idem l : only_numeric (only_numeric l) = only_numeric l.
Proof. apply filter_idem. Qed.

Lemma agg_sum_spec args : Forall scalar_arg args -> agg FSum (map arg_of_xarg args) = xsum args.
Proof.
  intros H. unfold agg, rt_sum, xsum. rewrite only_numeric_idem, (selection args H). reflexivity.
Qed.

Lemma agg_average_spec args : Forall scalar_arg args -> agg FAverage (map arg_of_xarg args) = xaverage args.
Proof.
  intros H. unfold agg, rt_average, rt_sum, xaverage, xsum, xcount.
  rewrite !only_numeric_idem, (selection args H). reflexivity.
Qed.

(* ---------- integer data ---------- *)
Definition ints (l : list Z) : list val := map VInt l.

Lemma all_int_ints l : all_int (ints l) = true.
Proof. induction l; simpl; auto. Qed.

Lemma fold_ints l a :
  fold_left (fun a v => match v with VInt z => a + z | _ => a end) (ints l) a = a + zsum l.
Proof. revert a. induction l as [|x t IH]; intros a; simpl; [lia|]. rewrite IH. lia. Qed.

Lemma py_sum_ints l : py_sum (ints l) = Ok (VInt (zsum l)).
Proof. unfold py_sum. rewrite all_int_ints, fold_ints. reflexivity. Qed.

Lemma zsum_app a b : zsum (a ++ b) = zsum a + zsum b.
Proof. induction a as [|x t IH]; simpl; [reflexivity|]. rewrite IH. lia. Qed.

(* SUM(X, Y) = SUM(X) + SUM(Y) on integer-valued numeric cells *)
Lemma sum_split X Y a b :
  numeric_cells X = ints a -> numeric_cells Y = ints b ->
  xsum (X ++ Y) = Ok (VInt (zsum a + zsum b)) /\ xsum X = Ok (VInt (zsum a)) /\ xsum Y = Ok (VInt (zsum b)).
Proof.
  intros HX HY. unfold xsum. rewrite numeric_cells_app, HX, HY.
  unfold ints. rewrite <- map_app. fold (ints (a ++ b)).
  rewrite !py_sum_ints, zsum_app. auto.
Qed.

(* AVERAGE = SUM / COUNT (correctly rounded quotient of the exact integer sum) *)
Lemma average_ints args a :
  numeric_cells args = ints a -> a <> [] ->
  xaverage args = py_truediv (VInt (zsum a)) (VInt (Z.of_nat (List.length a))).
Proof.
  intros H Hne. unfold xaverage, xsum, xcount. rewrite H, py_sum_ints. unfold ints. rewrite map_length. reflexivity.
Qed.

(* MIN / MAX *)
Lemma extreme_lt_ints best l :
  exists m, py_extreme OLt (VInt best) (ints l) = Ok (VInt m) /\
            In m (best :: l) /\ (forall x, In x (best :: l) -> m <= x).
Proof.
  revert best. induction l as [|x t IH]; intros best.
  - exists best. simpl. split; [reflexivity|]. split; [auto|]. intros y [<-|[]]. lia.
  - cbn [ints map py_extreme]. assert (E : py_cmp OLt (VInt x) (VInt best) = Ok (x <? best)).
    { unfold py_cmp; cbn [as_num num_cmp]. unfold Z.ltb. destruct (x ?= best); reflexivity. }
    rewrite E. cbn [bind]. destruct (x <? best) eqn:L.
    + destruct (IH x) as [m [Hm [Hin Hle]]]. exists m. split; [exact Hm|]. split.
      * destruct Hin as [<-|Hin]; [right; left; reflexivity|right; right; exact Hin].
      * intros y [<-|[<-|Hy]].
        -- assert (m <= x) by (apply Hle; left; reflexivity). apply Z.ltb_lt in L. lia.
        -- apply Hle. left. reflexivity.
        -- apply Hle. right. exact Hy.
    + destruct (IH best) as [m [Hm [Hin Hle]]]. exists m. split; [exact Hm|]. split.
      * destruct Hin as [<-|Hin]; [left; reflexivity|right; right; exact Hin].
      * intros y [<-|[<-|Hy]].
        -- apply Hle. left. reflexivity.
        -- assert (m <= best) by (apply Hle; left; reflexivity). apply Z.ltb_ge in L. lia.
        -- apply Hle. right. exact Hy.
Qed.

Lemma extreme_gt_ints best l :
  exists m, py_extreme OGt (VInt best) (ints l) = Ok (VInt m) /\
            In m (best :: l) /\ (forall x, In x (best :: l) -> x <= m).
Proof.
  revert best. induction l as [|x t IH]; intros best.
  - exists best. simpl. split; [reflexivity|]. split; [auto|]. intros y [<-|[]]. lia.
  - cbn [ints map py_extreme]. assert (E : py_cmp OGt (VInt x) (VInt best) = Ok (best <? x)).
    { unfold py_cmp; cbn [as_num num_cmp]. unfold Z.ltb. rewrite (Z.compare_antisym x best).
      destruct (x ?= best); reflexivity. }
    rewrite E. cbn [bind]. destruct (best <? x) eqn:L.
    + destruct (IH x) as [m [Hm [Hin Hle]]]. exists m. split; [exact Hm|]. split.
      * destruct Hin as [<-|Hin]; [right; left; reflexivity|right; right; exact Hin].
      * intros y [<-|[<-|Hy]].
        -- assert (x <= m) by (apply Hle; left; reflexivity). apply Z.ltb_lt in L. lia.
        -- apply Hle. left. reflexivity.
        -- apply Hle. right. exact Hy.
    + destruct (IH best) as [m [Hm [Hin Hle]]]. exists m. split; [exact Hm|]. split.
      * destruct Hin as [<-|Hin]; [left; reflexivity|right; right; exact Hin].
      * intros y [<-|[<-|Hy]].
        -- apply Hle. left. reflexivity.
        -- assert (best <= m) by (apply Hle; left; reflexivity). apply Z.ltb_ge in L. lia.
        -- apply Hle. right. exact Hy.
Qed.

Lemma min_ints args l :
  Forall scalar_arg args -> find_error (all_cells args) = None ->
  numeric_cells args = ints l -> l <> [] ->
  exists m, agg FMin (map arg_of_xarg args) = Ok (VInt m) /\ is_least m l.
Proof.
  intros Hs He Hn Hne. unfold agg, rt_min, rt_minmax. rewrite (flatten_args args Hs), He.
  rewrite only_numeric_filter. unfold numeric_cells in Hn. unfold all_cells. rewrite Hn.
  destruct l as [|b t]; [contradiction|]. cbn [ints map].
  destruct (extreme_lt_ints b t) as [m [Hm [Hin Hle]]]. exists m. split; [exact Hm|]. split; assumption.
Qed.

Lemma max_ints args l :
  Forall scalar_arg args -> find_error (all_cells args) = None ->
  numeric_cells args = ints l -> l <> [] ->
  exists m, agg FMax (map arg_of_xarg args) = Ok (VInt m) /\ is_greatest m l.
Proof.
  intros Hs He Hn Hne. unfold agg, rt_max, rt_minmax. rewrite (flatten_args args Hs), He.
  rewrite only_numeric_filter. unfold numeric_cells in Hn. unfold all_cells. rewrite Hn.
  destruct l as [|b t]; [contradiction|]. cbn [ints map].
  destruct (extreme_gt_ints b t) as [m [Hm [Hin Hle]]]. exists m. split; [exact Hm|]. split; assumption.
Qed.

(* COUNT of one area = number of its numeric cells (plus date-time cells) *)
Lemma count_one_area rows :
  Forall (Forall scalar) rows ->
  agg FCount [AArea (area_val rows)] =
  Ok (VInt (Z.of_nat (List.length (filter is_num (List.concat rows)) + List.length (only_datetime (List.concat rows))))).
Proof.
  intros H. unfold agg. cbn [flat_map app]. unfold area_val at 1. cbn [as_list bind].
  unfold rt_count. cbn [flatten flat_map only_bool only_numeric_sd filter app List.length].
  assert (F : flatten (map VList rows) = List.concat rows).
  { unfold flatten. induction H as [|r t Hr Ht IH]; [reflexivity|]. cbn [map flat_map List.concat]. rewrite IH, (flatten1_row r Hr). reflexivity. }
  rewrite F, !app_nil_r, only_numeric_filter, app_length. reflexivity.
Qed.

Lemma countblank_spec args :
  Forall scalar_arg args -> find_error (all_cells args) = None ->
  agg FCountBlank (map arg_of_xarg args) = Ok (VInt (Z.of_nat (List.length (filter is_blank (all_cells args))))).
Proof. intros Hs He. unfold agg, rt_count_blank. rewrite (flatten_args args Hs), He. reflexivity. Qed.

Lemma and_or_spec args :
  Forall scalar_arg args ->
  agg FAnd (map arg_of_xarg args) = Ok (VBool (xand args)) /\
  agg FOr (map arg_of_xarg args) = Ok (VBool (xor args)).
Proof. intros Hs. unfold agg, rt_and, rt_or, xand, xor. rewrite (flatten_args args Hs). auto. Qed.
