(* Proofs/GraphProofs.v — lemmas behind Props/C03.v (and the override theorem of C04). *)
From Coq Require Import List Arith Bool Lia.
Import ListNotations.
Require Import X2P.Model.Graph.

Section G.
  Variable V : Type.
  Variable blank : V.
  Variable out_of_fuel : V.
  Variable deps : nat -> list nat.
  Variable den : nat -> (nat -> V) -> V.
  Hypothesis den_ext : forall c r1 r2, (forall d, In d (deps c) -> r1 d = r2 d) -> den c r1 = den c r2.

  Notation dfs := (dfs deps).
  Notation visit_all := (@visit_all).
  Notation eval := (eval V blank out_of_fuel den).

  Lemma mem_In c l : mem c l = true <-> In c l.
  Proof.
    unfold mem. rewrite existsb_exists. split.
    - intros [x [H E]]. apply Nat.eqb_eq in E. now subst.
    - intros H. exists c. split; auto. apply Nat.eqb_refl.
  Qed.

  (* reachability through the dependency relation *)
  Inductive reach : nat -> nat -> Prop :=
    | reach_refl x : reach x x
    | reach_step x d y : In d (deps x) -> reach d y -> reach x y.
  Inductive reachp : nat -> nat -> Prop :=              (* at least one step *)
    | reachp_one x d : In d (deps x) -> reachp x d
    | reachp_step x d y : In d (deps x) -> reachp d y -> reachp x y.

  Definition closed (S : list nat) : Prop := forall x, In x S -> forall d, In d (deps x) -> In d S.
  Definition incl' (a b : list nat) := forall x, In x a -> In x b.

  (* ---------- slice_closed / slice_least ---------- *)
  Definition rec_ok (root : nat -> Prop) (rec : nat -> list nat -> gres) : Prop :=
    forall c ctx ctx', rec c ctx = GOk ctx' -> closed ctx ->
      closed ctx' /\ incl' ctx ctx' /\ In c ctx' /\
      (forall x, In x ctx' -> In x ctx \/ reach c x).

  Lemma visit_all_ok rec (H : forall root, rec_ok root rec) :
    forall ds ctx ctx', visit_all rec ds ctx = GOk ctx' -> closed ctx ->
      closed ctx' /\ incl' ctx ctx' /\ (forall d, In d ds -> In d ctx') /\
      (forall x, In x ctx' -> In x ctx \/ exists d, In d ds /\ reach d x).
  Proof.
    induction ds as [|d ds IH]; intros ctx ctx' E Hc; simpl in E.
    - inversion E; subst. repeat split; auto. intros x Hx; exact Hx. intros d [].
    - destruct (rec d ctx) as [c1| |] eqn:R; try discriminate.
      destruct (H (fun _ => True) _ _ _ R Hc) as [Hc1 [Hi1 [Hd Hr1]]].
      destruct (IH _ _ E Hc1) as [Hc2 [Hi2 [Hds Hr2]]].
      repeat split; auto.
      + intros x Hx. apply Hi2, Hi1, Hx.
      + intros x [->|Hx]; [apply Hi2, Hd | apply Hds, Hx].
      + intros x Hx. destruct (Hr2 x Hx) as [Hx1|[d' [Hd' Hrx]]].
        * destruct (Hr1 x Hx1) as [Hx0|Hrx]; [left; exact Hx0|right; exists d; split; [now left|exact Hrx]].
        * right. exists d'. split; [now right|exact Hrx].
  Qed.

  Lemma dfs_ok : forall fuel prog root, rec_ok root (dfs fuel prog).
  Proof.
    induction fuel as [|f IH]; intros prog root c ctx ctx' E Hc; simpl in E; [discriminate|].
    destruct (mem c ctx) eqn:M.
    - inversion E; subst. repeat split; auto. intros x Hx; exact Hx. now apply mem_In.
    - destruct (mem c prog); [discriminate|].
      destruct (visit_all (dfs f (c :: prog)) (deps c) ctx) as [c1| |] eqn:VA; try discriminate.
      inversion E; subst. destruct (visit_all_ok _ (IH (c :: prog)) _ _ _ VA Hc) as [Hc1 [Hi1 [Hds Hr]]].
      repeat split.
      + intros x [<-|Hx] d Hd; right; [apply Hds, Hd | eapply Hc1; eauto].
      + intros x Hx. right. apply Hi1, Hx.
      + now left.
      + intros x [<-|Hx]; [right; constructor|].
        destruct (Hr x Hx) as [H0|[d [Hd Hrx]]]; [left; exact H0|right; econstructor; eauto].
  Qed.

  Lemma slice_closed_least fuel c S :
    translate_from deps fuel c = GOk S -> closed S /\ In c S /\ (forall x, In x S -> reach c x).
  Proof.
    intros E. destruct (dfs_ok fuel [] (fun _ => True) c [] S E) as [H1 [_ [H3 H4]]]; [intros x []|].
    repeat split; auto. intros x Hx. destruct (H4 x Hx) as [[]|H]; exact H.
  Qed.

  (* the whole-workbook translation contains (at least) every listed cell and is closed *)
  Lemma translate_all_ok fuel : forall cells ctx ctx', translate_all deps fuel cells ctx = GOk ctx' -> closed ctx ->
    closed ctx' /\ incl' ctx ctx' /\ (forall c, In c cells -> In c ctx').
  Proof.
    induction cells as [|c rest IH]; intros ctx ctx' E Hc; simpl in E.
    - inversion E; subst. repeat split; auto. intros x Hx; exact Hx. intros c [].
    - destruct (dfs fuel [] c ctx) as [c1| |] eqn:D; try discriminate.
      destruct (dfs_ok fuel [] (fun _ => True) c ctx c1 D Hc) as [Hc1 [Hi1 [Hin _]]].
      destruct (IH _ _ E Hc1) as [Hc2 [Hi2 Hall]].
      repeat split; auto.
      + intros x Hx. apply Hi2, Hi1, Hx.
      + intros x [<-|Hx]; [apply Hi2, Hin|apply Hall, Hx].
  Qed.

  (* ---------- slice_faithful: a closed slice evaluates every one of its cells as the larger class does ---------- *)
  Theorem slice_faithful S All args : closed S -> incl' S All ->
    forall fuel c, In c S -> eval S args fuel c = eval All args fuel c.
  Proof.
    intros Hc Hi. induction fuel as [|f IH]; intros c Hin; simpl; [reflexivity|].
    destruct (args c); [reflexivity|].
    assert (M1 : mem c S = true) by now apply mem_In.
    assert (M2 : mem c All = true) by (apply mem_In, Hi, Hin).
    rewrite M1, M2. apply den_ext. intros d Hd. apply IH. eapply Hc; eauto.
  Qed.

  (* ---------- C04: an override means "edit the cell to that constant and recalculate" ---------- *)
  (* the edited workbook: an overridden cell is a constant cell (its formula, errors included, is gone);
     it exists even when the original workbook had no such cell *)
  Definition den_edited (args : nat -> option V) (c : nat) (r : nat -> V) : V :=
    match args c with Some v => v | None => den c r end.
  Definition in_edited (S : list nat) (args : nat -> option V) (c : nat) : bool :=
    mem c S || match args c with Some _ => true | None => false end.
  (* evaluation of the edited workbook by a class WITHOUT any argument map *)
  Fixpoint eval_edited (S : list nat) (args : nat -> option V) (fuel : nat) (c : nat) : V :=
    match fuel with
    | O => out_of_fuel
    | Datatypes.S f => if in_edited S args c then den_edited args c (eval_edited S args f) else blank
    end.
  Theorem override_is_edit S args : forall fuel c, eval S args fuel c = eval_edited S args fuel c.
  Proof.
    induction fuel as [|f IH]; intros c; simpl; [reflexivity|].
    unfold in_edited, den_edited. destruct (args c) as [v|] eqn:A.
    - rewrite orb_true_r. reflexivity.
    - rewrite orb_false_r. destruct (mem c S); [|reflexivity]. apply den_ext. intros d _. apply IH.
  Qed.

  (* ---------- cycles ---------- *)
  (* with fuel beyond the number of cells the recursion limit is never the outcome *)
  Variable univ : list nat.
  Hypothesis univ_all : forall x, In x univ.          (* every cell index that occurs is listed (finite workbook) *)

  Lemma dfs_no_fuel : forall fuel prog c ctx,
    NoDup prog -> length univ < fuel + length prog -> dfs fuel prog c ctx <> GFuel.
  Proof.
    induction fuel as [|f IH]; intros prog c ctx Hnd Hlen.
    - exfalso. assert (L : length prog <= length univ) by (apply NoDup_incl_length; [exact Hnd|intros x _; apply univ_all]).
      simpl in Hlen. lia.
    - simpl. destruct (mem c ctx); [discriminate|]. destruct (mem c prog) eqn:M; [discriminate|].
      assert (Hnd' : NoDup (c :: prog)).
      { constructor; [|exact Hnd]. intros Hin. apply mem_In in Hin. congruence. }
      assert (VA : forall ds ctx0, visit_all (dfs f (c :: prog)) ds ctx0 <> GFuel).
      { induction ds as [|d ds IHd]; intros ctx0; simpl; [discriminate|].
        pose proof (IH (c :: prog) d ctx0 Hnd' ltac:(simpl; lia)) as Hd.
        destruct (dfs f (c :: prog) d ctx0); [apply IHd|discriminate|contradiction]. }
      specialize (VA (deps c) ctx). destruct (visit_all (dfs f (c :: prog)) (deps c) ctx); [discriminate|discriminate|contradiction].
  Qed.

  (* prog is a dependency path ending in the cell being translated *)
  Fixpoint chain (c : nat) (prog : list nat) : Prop :=
    match prog with [] => True | p :: rest => In c (deps p) /\ chain p rest end.
  Lemma chain_reach c prog x : chain c prog -> In x prog -> reachp x c.
  Proof.
    revert c. induction prog as [|p rest IH]; intros c Hc Hx; [destruct Hx|].
    destruct Hc as [Hd Hr]. destruct Hx as [<-|Hx]; [now constructor|].
    specialize (IH p Hr Hx). clear -IH Hd.
    induction IH as [a b Hab|a b y Hab _ IHr]; [eapply reachp_step; [exact Hab|now constructor]|eapply reachp_step; eauto].
  Qed.

  (* a reported cycle is a real one *)
  Lemma dfs_cycle_real : forall fuel prog c ctx, chain c prog -> dfs fuel prog c ctx = GCycle -> exists x, reachp x x.
  Proof.
    induction fuel as [|f IH]; intros prog c ctx Hch E; simpl in E; [discriminate|].
    destruct (mem c ctx); [discriminate|]. destruct (mem c prog) eqn:M.
    - apply mem_In in M. exists c. eapply chain_reach; eauto.
    - assert (VA : forall ds ctx0, (forall d, In d ds -> In d (deps c)) ->
                     visit_all (dfs f (c :: prog)) ds ctx0 = GCycle -> exists x, reachp x x).
      { induction ds as [|d ds IHd]; intros ctx0 Hsub Ev; simpl in Ev; [discriminate|].
        destruct (dfs f (c :: prog) d ctx0) as [c1| |] eqn:D.
        - apply (IHd c1); [intros x Hx; apply Hsub; now right|exact Ev].
        - apply (IH (c :: prog) d ctx0); [split; [apply Hsub; now left|exact Hch]|exact D].
        - discriminate. }
      destruct (visit_all (dfs f (c :: prog)) (deps c) ctx) eqn:Ev; try discriminate.
      apply (VA (deps c) ctx); [auto|exact Ev].
  Qed.

  (* a cyclic set: every member has a precedent inside the set *)
  Variable C : nat -> Prop.
  Hypothesis C_succ : forall x, C x -> exists d, In d (deps x) /\ C d.
  Definition disj (ctx : list nat) := forall x, In x ctx -> ~ C x.
  Definition is_ok (r : gres) : bool := match r with GOk _ => true | _ => false end.

  Definition rec_cyc (rec : nat -> list nat -> gres) : Prop :=
    forall c ctx, disj ctx -> (C c -> is_ok (rec c ctx) = false) /\ (forall ctx', rec c ctx = GOk ctx' -> disj ctx').

  Lemma visit_all_cyc rec (H : rec_cyc rec) :
    forall ds ctx, disj ctx ->
      ((exists d, In d ds /\ C d) -> is_ok (visit_all rec ds ctx) = false) /\ (forall ctx', visit_all rec ds ctx = GOk ctx' -> disj ctx').
  Proof.
    induction ds as [|d ds IH]; intros ctx Hd; simpl.
    - split. intros [x [[] _]]. intros ctx' E; inversion E; subst; auto.
    - destruct (H d ctx Hd) as [Hn Hs]. destruct (rec d ctx) as [c1| |] eqn:R.
      + specialize (Hs _ eq_refl). destruct (IH c1 Hs) as [IH1 IH2]. split; auto.
        intros [x [[<-|Hx] Cx]]. * specialize (Hn Cx). discriminate. * apply IH1. eauto.
      + split; [reflexivity | intros ctx' E; discriminate].
      + split; [reflexivity | intros ctx' E; discriminate].
  Qed.

  Lemma dfs_cyc : forall fuel prog, rec_cyc (dfs fuel prog).
  Proof.
    induction fuel as [|f IH]; intros prog c ctx Hd; simpl.
    - split; [reflexivity | intros ctx' E; discriminate].
    - destruct (mem c ctx) eqn:M.
      + split. * intros Cc. apply mem_In in M. exfalso. eapply Hd; eauto.
        * intros ctx' E; inversion E; subst; auto.
      + destruct (mem c prog); [split; [reflexivity|intros ctx' E; discriminate]|].
        destruct (visit_all_cyc _ (IH (c :: prog)) (deps c) ctx Hd) as [V1 V2].
        destruct (visit_all (dfs f (c :: prog)) (deps c) ctx) as [c1| |] eqn:VA.
        * split.
          -- intros Cc. destruct (C_succ _ Cc) as [d [Hin Cd]]. assert (X : is_ok (GOk c1) = false) by (apply V1; eauto). discriminate.
          -- intros ctx' E. inversion E; subst. intros x [<-|Hx].
             ++ intros Cc. destruct (C_succ _ Cc) as [d [Hin Cd]]. assert (X : is_ok (GOk c1) = false) by (apply V1; eauto). discriminate.
             ++ eapply V2; eauto.
        * split; [reflexivity | intros ctx' E; discriminate].
        * split; [reflexivity | intros ctx' E; discriminate].
  Qed.

  (* an entry cell inside (or leading into) a cyclic set is never translated successfully ... *)
  Theorem cycle_never_ok c : C c -> forall fuel, is_ok (translate_from deps fuel c) = false.
  Proof. intros Cc fuel. apply (dfs_cyc fuel [] c []); auto. intros x []. Qed.
  (* ... and with enough fuel (more than the number of cells) the outcome is the parser exception, not the recursion limit *)
  Theorem cycle_rejected c : C c -> forall fuel, length univ < fuel -> translate_from deps fuel c = GCycle.
  Proof.
    intros Cc fuel Hf. pose proof (cycle_never_ok c Cc fuel) as H1.
    pose proof (dfs_no_fuel fuel [] c [] ltac:(constructor) ltac:(simpl; lia)) as H2.
    unfold translate_from in *. destruct (dfs fuel [] c []); [discriminate|reflexivity|contradiction].
  Qed.
  (* conversely the exception is only raised for a genuine circular reference *)
  Theorem cycle_exception_sound fuel c : translate_from deps fuel c = GCycle -> exists x, reachp x x.
  Proof. intros E. apply (dfs_cycle_real fuel [] c []); [exact Logic.I|exact E]. Qed.
  (* so for an acyclic workbook, with enough fuel, translation from any entry cell succeeds *)
  Theorem acyclic_ok c fuel : (forall x, ~ reachp x x) -> length univ < fuel -> exists S, translate_from deps fuel c = GOk S.
  Proof.
    intros Hac Hf. pose proof (dfs_no_fuel fuel [] c [] ltac:(constructor) ltac:(simpl; lia)) as H2.
    unfold translate_from in *. destruct (dfs fuel [] c []) as [S| |] eqn:E; [eauto| |contradiction].
    exfalso. destruct (dfs_cycle_real fuel [] c [] Logic.I E) as [x Hx]. exact (Hac x Hx).
  Qed.
End G.
