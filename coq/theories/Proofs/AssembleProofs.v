(* Proofs/AssembleProofs.v — lemmas behind Props/C06.v *)
Require Import X2P.Base.Prelude X2P.Base.PyNum X2P.Base.Str X2P.Base.PyRepr.
Require Import X2P.Model.Peg X2P.Model.Executor X2P.Model.Emit X2P.Model.Assemble X2P.Gen.Grammar X2P.Gen.Template X2P.Model.PyAst.
Require Import X2P.Proofs.FormulaSweep.
From Coq Require Import Lia.
Open Scope string_scope.

(* ---------- the tabulated control-construction test is the membership test, for every class index ---------- *)
Lemma is_cc_small : forallb (fun n => Bool.eqb (is_cc n) (is_cc_slow n)) (List.seq 0 (List.length grammar_table)) = true.
Proof. vm_compute. reflexivity. Qed.
Lemma heads_small : forallb (fun h => Nat.ltb h (List.length grammar_table)) cc_heads = true.
Proof. vm_compute. reflexivity. Qed.
Lemma flags_length : List.length cc_flags = List.length grammar_table.
Proof. vm_compute. reflexivity. Qed.
Theorem is_cc_table n : is_cc n = is_cc_slow n.
Proof.
  destruct (Nat.ltb n (List.length grammar_table)) eqn:E.
  - apply Nat.ltb_lt in E.
    pose proof (proj1 (forallb_forall _ _) is_cc_small n) as H. cbv beta in H.
    apply eqb_prop. apply H. apply in_seq. lia.
  - apply Nat.ltb_ge in E. unfold is_cc. rewrite nth_overflow by (rewrite flags_length; exact E).
    unfold is_cc_slow. symmetry. apply not_true_is_false. intros H. apply existsb_exists in H. destruct H as [h [Hh He]].
    apply Nat.eqb_eq in He. subst h.
    pose proof (proj1 (forallb_forall _ _) heads_small n Hh) as Hs. apply Nat.ltb_lt in Hs. lia.
Qed.

(* ---------- str.format on the two templates ---------- *)
Definition shape_b (o : option (list piece)) : bool :=
  match o with
  | Some [Lit _; Field a; Lit _; Field b; Lit _; Field c; Lit _] =>
      String.eqb (string_of_list a) "titles" && String.eqb (string_of_list b) "sheets_size" && String.eqb (string_of_list c) "functions"
  | _ => false
  end.
Lemma class_shape : shape_b (pieces_of class_template) = true.
Proof. vm_compute. reflexivity. Qed.

(* generic in the parse result: nothing about the 32 KB template is unfolded here *)
Lemma shape_generic (o : option (list piece)) : shape_b o = true ->
  exists l0 a l1 b l2 c l3, o = Some [Lit l0; Field a; Lit l1; Field b; Lit l2; Field c; Lit l3] /\
    string_of_list a = "titles" /\ string_of_list b = "sheets_size" /\ string_of_list c = "functions".
Proof.
  intros H. destruct o as [ps|]; [|discriminate].
  destruct ps as [|[l0|] ps]; try discriminate. destruct ps as [|[|a] ps]; try discriminate. destruct ps as [|[l1|] ps]; try discriminate.
  destruct ps as [|[|b] ps]; try discriminate. destruct ps as [|[l2|] ps]; try discriminate. destruct ps as [|[|c] ps]; try discriminate.
  destruct ps as [|[l3|] ps]; try discriminate. destruct ps; try discriminate.
  cbn [shape_b] in H. apply andb_prop in H. destruct H as [H Hc]. apply andb_prop in H. destruct H as [Ha Hb].
  apply String.eqb_eq in Ha, Hb, Hc. exists l0, a, l1, b, l2, c, l3. auto.
Qed.
Lemma render_shape l0 a l1 b l2 c l3 F T S :
  string_of_list a = "titles" -> string_of_list b = "sheets_size" -> string_of_list c = "functions" ->
  render [Lit l0; Field a; Lit l1; Field b; Lit l2; Field c; Lit l3] (args_of [("functions", F); ("titles", T); ("sheets_size", S)])
  = Some (l0 ++ T ++ l1 ++ S ++ l2 ++ F ++ l3)%list.
Proof.
  intros Ha Hb Hc. cbn [render]. unfold args_of. rewrite Ha, Hb, Hc. cbn. rewrite app_nil_r. reflexivity.
Qed.

(* the module text: fixed template text around the three arguments, each inserted once and verbatim — for EVERY methods text F, titles
   text T and sizes text S.  In particular nothing in F (the code generated from the workbook) is interpreted by str.format. *)
Theorem class_text_shape :
  exists l0 l1 l2 l3, forall F T S,
    format_str class_template (args_of [("functions", F); ("titles", T); ("sheets_size", S)]) = Some (l0 ++ T ++ l1 ++ S ++ l2 ++ F ++ l3)%list.
Proof.
  destruct (shape_generic (pieces_of class_template) class_shape) as [l0 [a [l1 [b [l2 [c [l3 [E [Ha [Hb Hc]]]]]]]]]].
  exists l0, l1, l2, l3. intros F T S. unfold format_str. rewrite E. apply render_shape; assumption.
Qed.

Theorem function_text_shape name code :
  format_str function_template (args_of [("name", name); ("code", code)]) =
  Some (list_of_string "    def " ++ name ++ list_of_string ("(self):" ++ String (ascii_of_N 10) "        return ") ++ code)%list.
Proof.
  assert (P : pieces_of function_template =
              Some [Lit (list_of_string "    def "); Field (list_of_string "name");
                    Lit (list_of_string ("(self):" ++ String (ascii_of_N 10) "        return ")); Field (list_of_string "code")])
    by (vm_compute; reflexivity).
  unfold format_str. rewrite P. cbn [render]. unfold args_of. cbn. rewrite app_nil_r. reflexivity.
Qed.

(* the four assembly functions are, syntactically, the ones modelled above (regenerated trees against the expected shapes) *)
Definition find_asm (n : string) : option pyast :=
  match find (fun p => String.eqb (fst p) n) assembly with Some p => Some (snd p) | None => None end.
Fixpoint mentions (k : string) (t : pyast) {struct t} : bool :=
  match t with
  | Node kind attrs kids =>
      String.eqb kind k || existsb (String.eqb k) attrs ||
      (fix any (l : list pyast) : bool := match l with [] => false | x :: r => mentions k x || any r end) kids
  end.
Fixpoint count_kind (k : string) (t : pyast) {struct t} : nat :=
  match t with
  | Node kind _ kids =>
      ((if String.eqb kind k then 1 else 0) +
       (fix sum (l : list pyast) : nat := match l with [] => 0 | x :: r => count_kind k x + sum r end) kids)%nat
  end.
(* __build_class: exactly one call of .format, no .replace / % / f-string / concatenation around it *)
Definition build_class_ok : bool :=
  match find_asm "__build_class", find_asm "__build_function", find_asm "__build_functions" with
  | Some bc, Some bf, Some bfs =>
      mentions "attr='format'" bc && negb (mentions "attr='replace'" bc) && negb (mentions "BinOp" bc) && negb (mentions "JoinedStr" bc) &&
      Nat.eqb (count_kind "Call" bc) 2 && Nat.eqb (count_kind "Return" bc) 1 &&
      mentions "arg='functions'" bc && mentions "arg='titles'" bc && mentions "arg='sheets_size'" bc &&
      mentions "attr='format'" bf && negb (mentions "BinOp" bf) && negb (mentions "JoinedStr" bf) && Nat.eqb (count_kind "Call" bf) 1 &&
      mentions "attr='join'" bfs && negb (mentions "attr='format'" bfs) && negb (mentions "BinOp" bfs)
  | _, _, _ => false
  end.
Lemma build_class_shape : build_class_ok = true.
Proof. vm_compute. reflexivity. Qed.

(* ---------- member names are Python identifiers ---------- *)
Lemma digit_char_ok k : (0 <= k < 10)%Z -> is_name_char (ascii_of_N (Z.to_N (48 + k))) = true.
Proof.
  intros H. assert (k = 0 \/ k = 1 \/ k = 2 \/ k = 3 \/ k = 4 \/ k = 5 \/ k = 6 \/ k = 7 \/ k = 8 \/ k = 9)%Z as C by lia.
  repeat (destruct C as [->|C]; [reflexivity|]). subst k. reflexivity.
Qed.
Definition all_name (s : string) : bool := forallb is_name_char (list_of_string s).
Lemma digits_loop_name fuel : forall n acc, (0 <= n)%Z -> all_name acc = true -> all_name (digits_loop fuel n acc) = true.
Proof.
  induction fuel as [|f IH]; intros n acc Hn Ha; [exact Ha|].
  cbn [digits_loop].
  assert (Hc : all_name (String (ascii_of_N (Z.to_N (48 + n mod 10))) acc) = true).
  { unfold all_name. cbn [list_of_string forallb]. rewrite digit_char_ok by (apply Z.mod_pos_bound; lia). exact Ha. }
  destruct (n <? 10)%Z; [exact Hc|]. apply IH; [apply Z.div_pos; lia|exact Hc].
Qed.
Lemma str_of_Z_name n : (0 <= n)%Z -> all_name (str_of_Z n) = true.
Proof.
  intros Hn. unfold str_of_Z. destruct (n <? 0)%Z eqn:E; [apply Z.ltb_lt in E; lia|].
  apply digits_loop_name; [exact Hn|reflexivity].
Qed.
Lemma all_name_app a b : all_name (a ++ b) = all_name a && all_name b.
Proof. unfold all_name. induction a as [|c a IH]; simpl; [reflexivity|]. rewrite IH. now rewrite andb_assoc. Qed.

Lemma ident_underscore s : all_name s = true -> is_identifier (String "_" s) = true.
Proof. intros H. unfold is_identifier. cbn [list_of_string]. replace (is_ident_start "_") with true by reflexivity. exact H. Qed.
Lemma all_name_us : all_name "_" = true. Proof. reflexivity. Qed.
Lemma all_name_any : all_name "any" = true. Proof. reflexivity. Qed.

Theorem uid_is_identifier t c r : (0 <= t)%Z -> (0 <= c)%Z -> (0 <= r)%Z ->
  is_identifier (uid_of t c (Some r)) = true /\ is_identifier (uid_of t c None) = true.
Proof.
  intros Ht Hc Hr. split.
  - change (uid_of t c (Some r)) with (String "_" (str_of_Z t ++ "_" ++ str_of_Z c ++ "_" ++ str_of_Z r)).
    apply ident_underscore. rewrite !all_name_app, !str_of_Z_name, all_name_us by assumption. reflexivity.
  - change (uid_of t c None) with (String "_" (str_of_Z t ++ "_" ++ str_of_Z c ++ "_" ++ "any")).
    apply ident_underscore. rewrite !all_name_app, !str_of_Z_name, all_name_us, all_name_any by assumption. reflexivity.
Qed.
(* sub-cell members: <uid>_<n> *)
Theorem sub_uid_is_identifier t c r n : (0 <= t)%Z -> (0 <= c)%Z -> (0 <= r)%Z -> (0 <= n)%Z ->
  is_identifier (uid_of t c (Some r) ++ "_" ++ str_of_Z n) = true.
Proof.
  intros Ht Hc Hr Hn.
  change (uid_of t c (Some r) ++ "_" ++ str_of_Z n) with (String "_" ((str_of_Z t ++ "_" ++ str_of_Z c ++ "_" ++ str_of_Z r) ++ "_" ++ str_of_Z n)).
  apply ident_underscore. rewrite !all_name_app, !str_of_Z_name, all_name_us by assumption. reflexivity.
Qed.

(* ---------- repr(text) never contains a line break: a constant cannot end the "return" line of its member ---------- *)
Definition not_nl (c : ascii) : bool := negb (N_of_ascii c =? 10)%N.
Lemma repr_char_no_nl q c : q = QUOTE1 \/ q = QUOTE2 -> forallb not_nl (repr_char q c) = true.
Proof. intros [-> | ->]; destruct c as [[] [] [] [] [] [] [] []]; reflexivity. Qed.
Lemma flat_map_no_nl q l : q = QUOTE1 \/ q = QUOTE2 -> forallb not_nl (flat_map (repr_char q) l) = true.
Proof. intros Hq. induction l as [|c l IH]; [reflexivity|]. cbn [flat_map]. rewrite forallb_app, repr_char_no_nl, IH by exact Hq. reflexivity. Qed.
Theorem repr_no_newline l : forallb not_nl (py_repr_l l) = true.
Proof.
  unfold py_repr_l. assert (Hq : repr_quote l = QUOTE1 \/ repr_quote l = QUOTE2) by (unfold repr_quote; destruct (_ && _); auto).
  cbn [forallb]. rewrite forallb_app, flat_map_no_nl by exact Hq. cbn [forallb].
  destruct Hq as [-> | ->]; reflexivity.
Qed.

(* ---------- every accepted token sequence over the operator alphabet yields text Python can read (bound 4) ---------- *)
Definition loadable (ids : list nat) : bool :=
  match translate_tokens (toks_of ids) with TOk _ | TRejected => true | TSyntaxError | TUnmodelled => false end.
Definition loadable_upto (n : nat) : bool := forallb (fun k => forallb loadable (seqs k)) (List.seq 1%nat n).
Lemma loadable4 : loadable_upto 4 = true.
Proof. vm_compute. reflexivity. Qed.
Lemma loadable_upto_elim n k : loadable_upto n = true -> (1 <= k <= n)%nat -> forallb loadable (seqs k) = true.
Proof. unfold loadable_upto. intros H Hk. exact (upto_elim (fun k => forallb loadable (seqs k)) n k H Hk). Qed.
Theorem loadable_all ids : (1 <= List.length ids <= 4)%nat -> Forall (fun a => In a ALPHA) ids -> loadable ids = true.
Proof.
  intros Hl Ha.
  apply (forallb_elim loadable (seqs (List.length ids)) ids); [|apply seqs_complete, Ha].
  apply (loadable_upto_elim 4 (List.length ids) loadable4 Hl).
Qed.
