(* Proofs/LookupProofs.v — lemmas behind Props/C14.v *)
Require Import X2P.Base.Prelude X2P.Base.F64 X2P.Base.PyCmp X2P.Base.PyType.
Require Import X2P.Model.Lookup X2P.Spec.Lookup.
From Coq Require Import Lia Sorted.
Open Scope Z_scope.

Definition mkrow (r : row) : val := VList (row_cells r).

Lemma py_cmp_le_int a b : py_cmp OLe (VInt a) (VInt b) = Ok (a <=? b).
Proof. reflexivity. Qed.
Lemma py_cmp_ge_int a b : py_cmp OGe (VInt a) (VInt b) = Ok (b <=? a).
Proof.
  unfold py_cmp; cbn [as_num num_cmp]. f_equal. destruct (a ?= b) eqn:C; cbn [op_of_cmp]; symmetry.
  - apply Z.compare_eq in C. rewrite Z.leb_le. lia.
  - rewrite Z.leb_gt. exact C.
  - apply Z.compare_gt_iff in C. rewrite Z.leb_le. lia.
Qed.
Lemma py_cmp_eq_int a b : py_cmp OEq (VInt a) (VInt b) = Ok (a =? b).
Proof.
  unfold py_cmp; cbn [as_num num_cmp]. f_equal.
  destruct (a ?= b) eqn:C; cbn [op_of_cmp]; symmetry.
  - apply Z.compare_eq in C. apply Z.eqb_eq. exact C.
  - apply Z.eqb_neq. intros ->. rewrite Z.compare_refl in C. discriminate.
  - apply Z.eqb_neq. intros ->. rewrite Z.compare_refl in C. discriminate.
Qed.

Lemma vlookup_step k col rl r rest last :
  vlookup_loop (VInt k) TInt col rl (mkrow r :: rest) last =
  if rl then
    (if fst r <=? k then (do x <- py_index (row_cells r) (col - 1); vlookup_loop (VInt k) TInt col rl rest x)
     else Ok last)
  else (if fst r =? k then py_index (row_cells r) (col - 1) else vlookup_loop (VInt k) TInt col rl rest last).
Proof.
  cbn [vlookup_loop mkrow as_list bind row_cells py_index List.length].
  assert (H0 : py_index (row_cells r) 0 = Ok (VInt (fst r))) by reflexivity. rewrite H0.
  cbn [bind is_empty isinstance negb orb andb is_number].
  rewrite py_cmp_le_int, py_cmp_eq_int. cbn [bind]. reflexivity.
Qed.

Lemma py_index_nth {A} (l : list A) (i : Z) :
  0 <= i < Z.of_nat (List.length l) ->
  exists x, nth_error l (Z.to_nat i) = Some x /\ py_index l i = Ok x.
Proof.
  intros H. unfold py_index.
  destruct (i <? 0) eqn:E1; [lia|].
  destruct (i <? 0) eqn:E2; [lia|]. simpl.
  destruct (Z.of_nat (List.length l) <=? i) eqn:E3; [lia|].
  destruct (nth_error l (Z.to_nat i)) eqn:E4.
  - eauto.
  - apply nth_error_None in E4. lia.
Qed.

Lemma py_index_entry (r : row) (col : Z) :
  1 <= col <= Z.of_nat (List.length (row_cells r)) ->
  exists x, entry r col = Some x /\ py_index (row_cells r) (col - 1) = Ok x.
Proof. intros H. unfold entry. apply py_index_nth. lia. Qed.

Definition cols_ok (t : list row) (col : Z) : Prop :=
  Forall (fun r => 1 <= col <= Z.of_nat (List.length (row_cells r))) t.

(* ---------------- VLOOKUP, exact ---------------- *)
Lemma vlookup_exact_loop k t col last :
  cols_ok t col ->
  exists v, (match first_eq k t with Some r => entry r col | None => Some last end) = Some v /\
  vlookup_loop (VInt k) TInt col false (map mkrow t) last = Ok v.
Proof.
  induction t as [|r t IH]; intros Hc.
  - simpl. eauto.
  - inversion Hc as [|? ? Hr Ht]; subst.
    cbn [map]. rewrite vlookup_step. unfold first_eq in *. cbn [find].
    destruct (fst r =? k) eqn:E.
    + destruct (py_index_entry r col Hr) as [x [Hx Hi]]. exists x. split; assumption.
    + apply IH, Ht.
Qed.

Lemma vlookup_exact_int k t col :
  cols_ok t col ->
  exists v, spec_vlookup_exact k t col = Some v /\
            vlookup (VInt k) (map mkrow t) col (VBool false) = Ok v.
Proof. intros H. unfold vlookup, spec_vlookup_exact. simpl. apply vlookup_exact_loop, H. Qed.

(* ---------------- VLOOKUP, approximate ---------------- *)
Definition keys_sorted (t : list row) : Prop := Sorted (fun a b => fst a <= fst b) t.

Lemma filter_none_gt k (t : list row) :
  Forall (fun x => k < fst x) t -> filter (fun r => fst r <=? k) t = [].
Proof.
  induction 1 as [|x t Hx Ht IH]; simpl; [reflexivity|].
  destruct (fst x <=? k) eqn:E; [lia|exact IH].
Qed.

Lemma sorted_tail_gt k (r : row) t :
  keys_sorted (r :: t) -> k < fst r -> filter (fun r => fst r <=? k) (r :: t) = [].
Proof.
  intros Hs Hk. apply Sorted_StronglySorted in Hs; [|intros a b c; lia].
  inversion Hs as [|? ? Hs' Hall]; subst.
  apply filter_none_gt. constructor; [exact Hk|].
  eapply Forall_impl; [|exact Hall]. simpl. intros a Ha. lia.
Qed.

Lemma last_map_some_cons {A} (x : A) l d :
  last (map Some (x :: l)) d = last (map Some l) (Some x).
Proof.
  revert x d. induction l as [|y l IH]; intros x d; simpl; [reflexivity|].
  change (last (map Some (y :: l)) d = last (map Some (y :: l)) (Some x)).
  rewrite (IH y d), (IH y (Some x)). reflexivity.
Qed.

Lemma last_map_some_is_some {A} (l : list A) (x : A) :
  exists y, last (map Some l) (Some x) = Some y.
Proof.
  revert x. induction l as [|a l IH]; intros x; simpl; [eauto|].
  destruct l as [|b l']; [simpl; eauto|]. simpl map. simpl map in IH. apply (IH x).
Qed.

Lemma vlookup_approx_loop' k t col (lastr : option row) lastv :
  cols_ok t col -> keys_sorted t ->
  (match lastr with Some r => entry r col = Some lastv | None => True end) ->
  exists v,
    (match last (map Some (filter (fun r => fst r <=? k) t)) lastr with
     | Some r => entry r col | None => Some lastv end) = Some v /\
    vlookup_loop (VInt k) TInt col true (map mkrow t) lastv = Ok v.
Proof.
  revert lastr lastv. induction t as [|r t IH]; intros lastr lastv Hc Hs Hl.
  - simpl. destruct lastr; eauto.
  - inversion Hc as [|? ? Hr Ht]; subst.
    assert (Hs' : keys_sorted t) by (inversion Hs; assumption).
    destruct (fst r <=? k) eqn:E.
    + destruct (py_index_entry r col Hr) as [x [Hx Hi]].
      destruct (IH (Some r) x Ht Hs' Hx) as [v [Hv Hloop]].
      exists v. split.
      * simpl filter. rewrite E. rewrite last_map_some_cons.
        match type of Hv with match ?L with _ => _ end = _ =>
          change (match L with Some r => entry r col | None => Some lastv end = Some v);
          destruct (last_map_some_is_some (filter (fun r0 : row => fst r0 <=? k) t) r) as [y Hy];
          change (L = Some y) in Hy; rewrite Hy in Hv |- * end.
        exact Hv.
      * cbn [map]. rewrite vlookup_step, E, Hi. cbn [bind]. exact Hloop.
    + rewrite (sorted_tail_gt k r t Hs) by lia. simpl last.
      exists lastv. split.
      * destruct lastr; [exact Hl|reflexivity].
      * cbn [map]. rewrite vlookup_step, E. reflexivity.
Qed.

Lemma vlookup_approx_int k t col :
  cols_ok t col -> keys_sorted t ->
  exists v, spec_vlookup_approx k t col = Some v /\
            vlookup (VInt k) (map mkrow t) col (VBool true) = Ok v.
Proof.
  intros Hc Hs. unfold vlookup, spec_vlookup_approx, last_le. simpl.
  destruct (vlookup_approx_loop' k t col None NA Hc Hs I) as [v [Hv Hl]].
  exists v. split; assumption.
Qed.

(* ---------------- MATCH ---------------- *)
Definition krow (k : Z) : val := VList [VInt k].

Lemma match_exact_step k x rest i :
  match_exact_loop (VInt k) TInt (krow x :: rest) i =
  if x =? k then Ok (VInt (i + 1)) else match_exact_loop (VInt k) TInt rest (i + 1).
Proof.
  cbn [match_exact_loop krow as_list bind].
  assert (H0 : py_index [VInt x] 0 = Ok (VInt x)) by reflexivity. rewrite H0.
  cbn [bind match_skip is_empty isinstance negb orb match_cmp].
  rewrite py_cmp_eq_int. cbn [bind]. reflexivity.
Qed.

Lemma match_exact_loop_int k keys i :
  match_exact_loop (VInt k) TInt (map krow keys) i =
  Ok (match first_pos k keys i with Some p => VInt p | None => NA end).
Proof.
  revert i. induction keys as [|x keys IH]; intros i; [reflexivity|].
  cbn [map first_pos]. rewrite match_exact_step. destruct (x =? k); [reflexivity|apply IH].
Qed.

Lemma match_exact_int k keys :
  pmatch (VInt k) (map krow keys) 0 = Ok (spec_match_exact k keys).
Proof. unfold pmatch, spec_match_exact. simpl. apply match_exact_loop_int. Qed.

Lemma match_scan_step k x rest i last :
  match_scan_loop OLe (VInt k) TInt (krow x :: rest) i last =
  if x <=? k then match_scan_loop OLe (VInt k) TInt rest (i + 1) (VInt (i + 1)) else Ok last.
Proof.
  cbn [match_scan_loop krow as_list bind].
  assert (H0 : py_index [VInt x] 0 = Ok (VInt x)) by reflexivity. rewrite H0.
  cbn [bind match_skip is_empty isinstance negb orb match_cmp].
  rewrite py_cmp_le_int. cbn [bind]. reflexivity.
Qed.

Lemma filter_le_none_gt k (t : list Z) :
  Forall (fun x => k < x) t -> filter (fun x => x <=? k) t = [].
Proof.
  induction 1 as [|x t Hx Ht IH]; simpl; [reflexivity|].
  destruct (x <=? k) eqn:E; [lia|exact IH].
Qed.

Lemma match_scan_loop_int k keys i last :
  Sorted Z.le keys ->
  match_scan_loop OLe (VInt k) TInt (map krow keys) i last =
  Ok (if count_le k keys =? 0 then last else VInt (i + count_le k keys)).
Proof.
  revert i last. induction keys as [|x keys IH]; intros i last Hs; [reflexivity|].
  cbn [map]. rewrite match_scan_step.
  assert (Hs' : Sorted Z.le keys) by (inversion Hs; assumption).
  unfold count_le in *. cbn [filter].
  destruct (x <=? k) eqn:E.
  - rewrite IH by exact Hs'. cbn [List.length].
    remember (List.length (filter (fun x0 => x0 <=? k) keys)) as n.
    rewrite Nat2Z.inj_succ.
    destruct (Z.eqb_spec (Z.of_nat n) 0) as [Z0|Z0];
      destruct (Z.eqb_spec (Z.succ (Z.of_nat n)) 0) as [Z1|Z1]; try lia;
      f_equal; f_equal; lia.
  - apply Sorted_StronglySorted in Hs; [|intros a b c; lia].
    inversion Hs as [|? ? _ Hall]; subst.
    rewrite filter_le_none_gt; [reflexivity|].
    eapply Forall_impl; [|exact Hall]. simpl. intros a Ha. lia.
Qed.

Lemma match_approx_int k keys :
  Sorted Z.le keys ->
  pmatch (VInt k) (map krow keys) 1 = Ok (spec_match_approx k keys).
Proof.
  intros Hs. unfold pmatch, spec_match_approx. simpl.
  rewrite match_scan_loop_int by exact Hs. reflexivity.
Qed.

Lemma xmatch_forward lv arr mm : xmatch lv arr mm 1 = pmatch lv arr mm.
Proof. reflexivity. Qed.

(* ---------------- INDEX ---------------- *)
Definition is_scalar (v : val) : bool := match v with VList _ => false | _ => true end.
Definition area_of (rows : list (list val)) : list val := map VList rows.
Definition cell_at (rows : list (list val)) (r c : Z) : option val :=
  match nth_error rows (Z.to_nat (r - 1)) with
  | Some row => nth_error row (Z.to_nat (c - 1))
  | None => None
  end.

Lemma nth_error_map_some {A B} (f : A -> B) l n x :
  nth_error l n = Some x -> nth_error (map f l) n = Some (f x).
Proof. intros H. rewrite nth_error_map, H. reflexivity. Qed.

Lemma index_inside rows r c x :
  1 <= r <= Z.of_nat (List.length rows) ->
  cell_at rows r c = Some x -> 1 <= c -> is_scalar x = true ->
  index1 (area_of rows) r (Some c) 1 = Ok x.
Proof.
  intros Hr Hx Hc Hsc. unfold cell_at in Hx.
  destruct (nth_error rows (Z.to_nat (r - 1))) as [row|] eqn:Erow; [|discriminate].
  unfold index1, area_of. rewrite map_length.
  destruct (Z.of_nat (List.length rows) <? 1) eqn:E1; [lia|].
  replace ((Z.of_nat (List.length rows) =? 1) && false) with false by (rewrite andb_false_r; reflexivity).
  destruct (r =? 0) eqn:E2; [lia|].
  assert (Hi : py_index (map VList rows) (r - 1) = Ok (VList row)).
  { destruct (py_index_nth (map VList rows) (r - 1)) as [y [Hy1 Hy2]]; [rewrite map_length; lia|].
    rewrite (nth_error_map_some VList _ _ _ Erow) in Hy1. inversion Hy1; subst. exact Hy2. }
  rewrite Hi. destruct (c =? 0) eqn:E3; [lia|].
  cbn [as_list bind].
  assert (Hj : py_index row (c - 1) = Ok x).
  { assert (Hlen : (Z.to_nat (c - 1) < List.length row)%nat) by (apply nth_error_Some; congruence).
    destruct (py_index_nth row (c - 1)) as [y [Hy1 Hy2]]; [lia|]. congruence. }
  rewrite Hj. cbn [bind]. destruct x; try reflexivity. discriminate.
Qed.

Lemma index_row_outside rows r c :
  Z.of_nat (List.length rows) < r -> 1 <= Z.of_nat (List.length rows) ->
  index1 (area_of rows) r (Some c) 1 = Ok REF.
Proof.
  intros Hr Hn. unfold index1, area_of. rewrite map_length.
  destruct (Z.of_nat (List.length rows) <? 1) eqn:E1; [lia|].
  replace ((Z.of_nat (List.length rows) =? 1) && false) with false by (rewrite andb_false_r; reflexivity).
  destruct (r =? 0) eqn:E2; [lia|].
  unfold py_index. rewrite map_length.
  destruct (r - 1 <? 0) eqn:E3; [lia|]. rewrite E3. cbn [orb].
  destruct (Z.of_nat (List.length rows) <=? r - 1) eqn:E4; [reflexivity|lia].
Qed.

(* INDEX(values, MATCH(k, keys, 0)) on two column vectors *)
Definition vcol (vals : list val) : list val := map (fun v => VList [v]) vals.

Definition index_match (k : Z) (keys : list Z) (vals : list val) : res val :=
  do m <- pmatch (VInt k) (map krow keys) 0;
  match m with VInt p => index1 (vcol vals) p None 1 | _ => Ok m end.

Lemma first_pos_bounds k keys i p :
  first_pos k keys i = Some p -> i + 1 <= p <= i + Z.of_nat (List.length keys).
Proof.
  revert i. induction keys as [|x keys IH]; intros i H; simpl in H; [discriminate|].
  destruct (x =? k).
  - inversion H; subst. simpl List.length. lia.
  - apply IH in H. simpl List.length. lia.
Qed.

Lemma index_column vals p x :
  nth_error vals (Z.to_nat (p - 1)) = Some x -> 1 <= p -> is_scalar x = true ->
  index1 (vcol vals) p None 1 = Ok x.
Proof.
  intros Hx Hp Hsc.
  assert (Hlen : (Z.to_nat (p - 1) < List.length vals)%nat) by (apply nth_error_Some; congruence).
  unfold index1, vcol. rewrite map_length.
  destruct (Z.of_nat (List.length vals) <? 1) eqn:E1; [lia|].
  destruct (Z.of_nat (List.length vals) =? 1) eqn:E2; cbn [andb].
  - (* single row: the row number is taken as the column number *)
    apply Z.eqb_eq in E2.
    destruct vals as [|v [|w vals']]; cbn [List.length] in E2, Hlen; try lia.
    assert (p = 1) by lia. subst p.
    simpl in Hx. inversion Hx; subst. simpl.
    destruct x; try reflexivity; discriminate.
  - destruct (p =? 0) eqn:E3; [lia|].
    assert (Hi : py_index (map (fun v => VList [v]) vals) (p - 1) = Ok (VList [x])).
    { destruct (py_index_nth (map (fun v => VList [v]) vals) (p - 1)) as [y [Hy1 Hy2]]; [rewrite map_length; lia|].
      rewrite (nth_error_map_some (fun v => VList [v]) _ _ _ Hx) in Hy1. inversion Hy1; subst. exact Hy2. }
    rewrite Hi. reflexivity.
Qed.

Lemma index_match_partner k keys vals p x :
  first_pos k keys 0 = Some p ->
  nth_error vals (Z.to_nat (p - 1)) = Some x -> is_scalar x = true ->
  index_match k keys vals = Ok x.
Proof.
  intros Hp Hx Hsc. unfold index_match. rewrite match_exact_int. unfold spec_match_exact. rewrite Hp.
  cbn [bind]. apply index_column; try assumption. apply first_pos_bounds in Hp. lia.
Qed.

(* ---------------- ADDRESS ---------------- *)
Lemma letter_val_letter i : 0 <= i < 26 -> letter_val (letter i) = i + 1.
Proof.
  intros H. unfold letter_val, letter. rewrite N_ascii_embedding; lia.
Qed.
Lemma letter_upper i : 0 <= i < 26 -> is_upper (letter i) = true.
Proof.
  intros H. unfold is_upper, letter. rewrite N_ascii_embedding by lia.
  apply andb_true_intro; split; apply N.leb_le; lia.
Qed.

Lemma col_of_letters_from_app s t acc :
  col_of_letters_from (s ++ t) acc = col_of_letters_from t (col_of_letters_from s acc).
Proof. revert acc. induction s as [|c s IH]; intros acc; simpl; [reflexivity|apply IH]. Qed.

Lemma log2_div26 c : 1 <= c -> (c - 1) / 26 <= 0 \/ Z.log2 ((c - 1) / 26) < Z.log2 c.
Proof.
  intros Hc. destruct (Z.le_gt_cases ((c - 1) / 26) 0) as [H|H]; [left; exact H|right].
  assert (H2 : 2 * ((c - 1) / 26) <= c).
  { pose proof (Z.mul_div_le (c - 1) 26 ltac:(lia)). lia. }
  assert (Hl : Z.log2 (2 * ((c - 1) / 26)) <= Z.log2 c) by (apply Z.log2_le_mono; exact H2).
  rewrite Z.log2_double in Hl by lia. lia.
Qed.

Lemma get_col_loop_spec fuel c acc :
  0 <= c -> (c <= 0 \/ Z.log2 c < Z.of_nat fuel) ->
  exists s, get_col_loop fuel c acc = Some s /\
            col_of_letters_from s 0 = col_of_letters_from acc c /\
            (all_AZ acc = true -> all_AZ s = true).
Proof.
  revert c acc. induction fuel as [|f IH]; intros c acc Hc Hf.
  - destruct Hf as [Hf|Hf].
    + assert (c = 0) by lia. subst. simpl. exists acc. auto.
    + pose proof (Z.log2_nonneg c). simpl in Hf. lia.
  - cbn [get_col_loop]. destruct (c <=? 0) eqn:E.
    + assert (c = 0) by lia. subst. exists acc. auto.
    + assert (Hc1 : 1 <= c) by lia.
      pose proof (Z.mod_pos_bound (c - 1) 26 ltac:(lia)) as Hm.
      pose proof (Z.div_pos (c - 1) 26 ltac:(lia) ltac:(lia)) as Hd.
      destruct (IH ((c - 1) / 26) (String (letter ((c - 1) mod 26)) acc) Hd) as [s [Hs [Hv Haz]]].
      { destruct (log2_div26 c Hc1) as [H|H]; [left; exact H|right].
        destruct Hf as [Hf|Hf]; [lia|]. rewrite Nat2Z.inj_succ in Hf. lia. }
      exists s. split; [exact Hs|]. split.
      * rewrite Hv. cbn [col_of_letters_from]. rewrite letter_val_letter by lia.
        f_equal. pose proof (Z.div_mod (c - 1) 26 ltac:(lia)). lia.
      * intros Hacc. apply Haz. cbn [all_AZ]. rewrite letter_upper by lia. exact Hacc.
Qed.

Lemma get_col_roundtrip c :
  1 <= c -> exists s, get_col c = Some s /\ col_of_letters s = c /\ all_AZ s = true.
Proof.
  intros Hc. unfold get_col, get_col_fuel.
  destruct (get_col_loop_spec (S (Z.to_nat (Z.log2 c))) c "" ltac:(lia)) as [s [Hs [Hv Haz]]].
  { right. rewrite Nat2Z.inj_succ, Z2Nat.id by apply Z.log2_nonneg. lia. }
  exists s. split; [exact Hs|]. split; [exact Hv|]. apply Haz. reflexivity.
Qed.

(* the model agrees with the independently written letters_of_col on every Excel column *)
Definition excel_columns : list Z := map Z.of_nat (seq 1 (Z.to_nat 16384)).
Definition col_agrees (c : Z) : bool :=
  match get_col c with Some s => String.eqb s (letters_of_col (Z.to_N c)) | None => false end.
Lemma address_all_columns_sweep : forallb col_agrees excel_columns = true.
Proof. vm_compute. reflexivity. Qed.

Lemma address_all_columns c :
  1 <= c <= 16384 -> get_col c = Some (letters_of_col (Z.to_N c)).
Proof.
  intros Hc. assert (Hin : In c excel_columns).
  { unfold excel_columns. apply in_map_iff. exists (Z.to_nat c). split; [apply Z2Nat.id; lia|]. apply in_seq. lia. }
  pose proof (proj1 (forallb_forall col_agrees excel_columns) address_all_columns_sweep c Hin) as K.
  unfold col_agrees in K. destruct (get_col c) as [s|]; [|discriminate].
  apply String.eqb_eq in K. subst. reflexivity.
Qed.
