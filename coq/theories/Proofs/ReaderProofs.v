(* Proofs/ReaderProofs.v — lemmas behind Props/C18.v *)
Require Import X2P.Base.Prelude X2P.Model.Reader.
From Coq Require Import Arith Lia.
Open Scope nat_scope.

Lemma lookup_row_bound w c r x : lookup_cell w c r = Some x -> r <= max_row w /\ c <= row_len w r.
Proof.
  unfold lookup_cell. induction w as [|[[c0 r0] v0] w IH]; simpl; [discriminate|].
  destruct (Nat.eqb c0 c && Nat.eqb r0 r) eqn:E.
  - apply andb_prop in E. destruct E as [E1 E2]. apply Nat.eqb_eq in E1, E2. subst. intros _.
    rewrite Nat.eqb_refl. split; lia.
  - intros H. destruct (IH H) as [A B]. split; [lia|]. destruct (Nat.eqb r0 r); lia.
Qed.

Lemma nth_error_map_seq {A} (f : nat -> A) n k : k < n -> nth_error (map f (seq 1 n)) k = Some (f (S k)).
Proof.
  intros H. rewrite nth_error_map. rewrite (nth_error_nth' (seq 1 n) 0) by (rewrite seq_length; exact H).
  rewrite seq_nth by exact H. reflexivity.
Qed.
Lemma nth_error_map_seq_none {A} (f : nat -> A) n k : n <= k -> nth_error (map f (seq 1 n)) k = None.
Proof. intros H. apply nth_error_None. rewrite map_length, seq_length. exact H. Qed.

(* every coordinate — inside gaps, beyond the last row or column, on an empty sheet — is read back as stored (absent = blank) *)
Theorem read_fetch w c r : fill (stream w) c r = lookup_cell w (S c) (S r).
Proof.
  unfold fill, stream.
  destruct (Nat.lt_ge_cases r (max_row w)) as [Hr|Hr].
  - rewrite nth_error_map_seq by exact Hr.
    destruct (Nat.lt_ge_cases c (row_len w (S r))) as [Hc|Hc].
    + rewrite nth_error_map_seq by exact Hc. reflexivity.
    + rewrite nth_error_map_seq_none by exact Hc.
      destruct (lookup_cell w (S c) (S r)) eqn:L; [|reflexivity]. apply lookup_row_bound in L. lia.
  - rewrite nth_error_map_seq_none by exact Hr.
    destruct (lookup_cell w (S c) (S r)) eqn:L; [|reflexivity]. apply lookup_row_bound in L. lia.
Qed.

(* reported sizes: number of rows = largest stored row; last column = largest stored column (0 / 0 for an empty sheet) *)
Definition max_col (w : sparse) : nat := fold_right (fun x m => Nat.max (fst (fst x)) m) 0 w.

Lemma row_len_le_max_col w r : row_len w r <= max_col w.
Proof. induction w as [|[[c0 r0] v0] w IH]; simpl; [lia|]. destruct (Nat.eqb r0 r); lia. Qed.
Lemma fold_max_le {A} (f : A -> nat) l b : (forall x, In x l -> f x <= b) -> fold_right (fun x m => Nat.max (f x) m) 0 l <= b.
Proof. induction l as [|x l IH]; simpl; intros H; [lia|]. apply Nat.max_lub; [apply H; now left|apply IH; intros y Hy; apply H; now right]. Qed.
Lemma fold_max_ge {A} (f : A -> nat) l x : In x l -> f x <= fold_right (fun x m => Nat.max (f x) m) 0 l.
Proof. induction l as [|y l IH]; simpl; intros H; [destruct H|]. destruct H as [->|H]; [lia|]. specialize (IH H). lia. Qed.

Theorem sizes_true w :
  snd (snd (parse_sheet w)) = max_row w /\ fst (snd (parse_sheet w)) <= max_col w /\
  (forall c r v, In (c, r, v) w -> 1 <= r -> r <= snd (snd (parse_sheet w)) /\ c <= fst (snd (parse_sheet w))).
Proof.
  unfold parse_sheet. cbn [fst snd]. unfold stream. rewrite map_length, seq_length. split; [reflexivity|]. split.
  - apply fold_max_le. intros row Hin. apply in_map_iff in Hin. destruct Hin as [r [<- _]].
    rewrite map_length, seq_length. apply row_len_le_max_col.
  - intros c r v Hin Hr.
    assert (Hrow : r <= max_row w).
    { unfold max_row. apply (fold_max_ge (fun x : nat * nat * val => snd (fst x)) w (c, r, v) Hin). }
    split; [exact Hrow|].
    assert (Hlen : c <= row_len w r).
    { clear Hrow. induction w as [|[[c0 r0] v0] w IHw]; [destruct Hin|]. simpl. destruct Hin as [E|Hin].
      - inversion E; subst. rewrite Nat.eqb_refl. lia.
      - specialize (IHw Hin). destruct (Nat.eqb r0 r); lia. }
    eapply Nat.le_trans; [exact Hlen|].
    set (f := fun r0 => map (fun c0 => lookup_cell w c0 r0) (seq 1 (row_len w r0))).
    assert (Hin2 : In (f r) (map f (seq 1 (max_row w)))).
    { apply in_map. apply in_seq. lia. }
    pose proof (fold_max_ge (fun row : list (option val) => List.length row) _ _ Hin2) as G.
    unfold f in G at 1. rewrite map_length, seq_length in G. exact G.
Qed.
