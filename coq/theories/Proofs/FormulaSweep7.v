(* Proofs/FormulaSweep7.v — the precedence table for sequences of exactly 7 tokens (10^7 sequences), without building the list *)
Require Import X2P.Base.Prelude X2P.Model.Peg X2P.Model.Emit X2P.Spec.Formula X2P.Spec.Shape X2P.Corr.C01 X2P.Proofs.FormulaSweep.
Open Scope string_scope.

Lemma forall_seqs_elim n : forall (f : list nat -> bool) ids,
  forall_seqs n f = true -> List.length ids = n -> Forall (fun a => In a ALPHA) ids -> f ids = true.
Proof.
  induction n as [|k IH]; intros f ids H Hl Ha.
  - destruct ids; [exact H|discriminate].
  - destruct ids as [|a s]; [discriminate|]. inversion Ha as [|? ? Ha1 Ha2]; subst.
    cbn [forall_seqs] in H.
    pose proof (forallb_elim (fun a => forall_seqs k (fun s => f (a :: s))) ALPHA a H Ha1) as H1. cbv beta in H1.
    apply (IH (fun s => f (a :: s)) s H1); [|exact Ha2]. simpl in Hl. now injection Hl.
Qed.

Lemma sweep7 : forall_seqs 7 sweep_ok = true.
Proof. vm_compute. reflexivity. Qed.

Theorem sweep_all7 ids : List.length ids = 7%nat -> Forall (fun a => In a ALPHA) ids -> sweep_ok ids = true.
Proof. intros Hl Ha. exact (forall_seqs_elim 7 sweep_ok ids sweep7 Hl Ha). Qed.

Theorem precedence_table7 ids xe :
  (1 <= List.length ids <= 7)%nat -> Forall (fun a => In a ALPHA) ids ->
  xparse (toks_of ids) = Some xe ->
  match translate_tokens (toks_of ids) with
  | TOk pe => same_grouping xe pe = true \/ grouping_class (toks_of ids) <> "-"
  | TRejected => percent_form (map kind_of (toks_of ids)) = true
  | _ => False
  end.
Proof.
  intros Hl Ha Hx.
  assert (H : sweep_ok ids = true).
  { destruct (Nat.eq_dec (List.length ids) 7) as [E|E]; [exact (sweep_all7 ids E Ha)|].
    apply sweep_all; [|exact Ha]. destruct Hl as [H1 H2]. split; [exact H1|]. apply Nat.lt_succ_r. apply Nat.le_neq. split; [exact H2|exact E]. }
  unfold sweep_ok in H. rewrite Hx in H.
  destruct (translate_tokens (toks_of ids)) as [pe| | |]; try discriminate; [|exact H].
  apply orb_true_iff in H. destruct H as [H|H]; [left; exact H|right].
  intros E. rewrite E in H. discriminate.
Qed.
