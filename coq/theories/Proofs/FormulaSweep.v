(* Proofs/FormulaSweep.v — kernel-exhaustive precedence/associativity table: every token sequence up to a length bound over the
   10-symbol operator alphabet {atom + - * / & < % ( )} is, when Excel reads it as a formula, translated to code whose Python grouping
   is Excel's grouping — or it lies in one of the listed defect classes of the emitter. *)
Require Import X2P.Base.Prelude X2P.Model.Peg X2P.Model.Emit X2P.Spec.Formula X2P.Spec.Shape X2P.Corr.C01.
Open Scope string_scope.

(* alphabet as indices into Corr.C01.SYMBOLS; 0 stands for "the next atom" *)
Definition ALPHA : list nat := [0; 6; 7; 8; 9; 10; 11; 12; 13; 14]%nat.
Fixpoint seqs (n : nat) : list (list nat) :=
  match n with O => [[]] | S k => flat_map (fun s => map (fun a => a :: s) ALPHA) (seqs k) end.
(* the k-th atom of a sequence is the literal k+2 (2,3,...,7, then again) *)
Fixpoint number_atoms (l : list nat) (k : nat) : list nat :=
  match l with
  | [] => []
  | O :: r => Nat.modulo k 6 :: number_atoms r (S k)
  | a :: r => a :: number_atoms r k
  end.
Definition toks_of (ids : list nat) : list tok := map (fun i => nth i SYM_TOKS dtok) (number_atoms ids 0).

Definition sweep_ok (ids : list nat) : bool :=
  let ts := toks_of ids in
  match xparse ts with
  | None => true                                        (* Excel does not read it as a formula: C05/C06 decide what happens *)
  | Some xe =>
      match translate_tokens ts with
      | TOk pe => same_grouping xe pe || negb (String.eqb (grouping_class ts) "-")
      | TRejected => percent_form (map kind_of ts)
      | TSyntaxError | TUnmodelled => false
      end
  end.
(* the formulas among them that are translated with Excel's grouping, and those in a defect class: both sets are inhabited *)
Definition grouped_right (ids : list nat) : bool :=
  let ts := toks_of ids in
  match xparse ts, translate_tokens ts with Some xe, TOk pe => same_grouping xe pe | _, _ => false end.

Definition sweep_upto (n : nat) : bool :=
  forallb (fun k => forallb sweep_ok (seqs k)) (List.seq 1%nat n).

(* the same quantification without building the list of sequences (used for the larger bound) *)
Fixpoint forall_seqs (n : nat) (f : list nat -> bool) : bool :=
  match n with O => f [] | S k => forallb (fun a => forall_seqs k (fun s => f (a :: s))) ALPHA end.

Lemma sweep6 : sweep_upto 6 = true.
Proof. vm_compute. reflexivity. Qed.

Lemma seqs_complete ids : Forall (fun a => In a ALPHA) ids -> In ids (seqs (List.length ids)).
Proof.
  induction ids as [|a ids IH]; intros H.
  - simpl. left. reflexivity.
  - inversion H as [|? ? Ha Hr]; subst. cbn [List.length seqs]. apply in_flat_map. exists ids. split; [apply IH, Hr|].
    apply in_map_iff. exists a. split; [reflexivity|exact Ha].
Qed.

Lemma forallb_elim {A} (f : A -> bool) l x : forallb f l = true -> In x l -> f x = true.
Proof. intros H Hx. exact (proj1 (forallb_forall f l) H x Hx). Qed.

Lemma upto_elim (f : nat -> bool) n k : forallb f (List.seq 1%nat n) = true -> (1 <= k <= n)%nat -> f k = true.
Proof.
  intros H Hk. apply (forallb_elim f (List.seq 1%nat n) k H). apply in_seq. split; [apply Hk|].
  destruct Hk as [_ Hk]. apply Nat.lt_succ_r in Hk. exact Hk.
Qed.
Lemma sweep_upto_elim n k : sweep_upto n = true -> (1 <= k <= n)%nat -> forallb sweep_ok (seqs k) = true.
Proof. unfold sweep_upto. intros H Hk. exact (upto_elim (fun k => forallb sweep_ok (seqs k)) n k H Hk). Qed.
Lemma sweep_k_elim k ids : forallb sweep_ok (seqs k) = true -> In ids (seqs k) -> sweep_ok ids = true.
Proof. intros H Hi. exact (forallb_elim sweep_ok (seqs k) ids H Hi). Qed.

Theorem sweep_all ids :
  (1 <= List.length ids <= 6)%nat -> Forall (fun a => In a ALPHA) ids -> sweep_ok ids = true.
Proof.
  intros Hl Ha.
  apply (sweep_k_elim (List.length ids) ids); [|apply seqs_complete, Ha].
  apply (sweep_upto_elim 6 (List.length ids) sweep6 Hl).
Qed.

(* readable form *)
Theorem precedence_table ids xe :
  (1 <= List.length ids <= 6)%nat -> Forall (fun a => In a ALPHA) ids ->
  xparse (toks_of ids) = Some xe ->
  match translate_tokens (toks_of ids) with
  | TOk pe => same_grouping xe pe = true \/ grouping_class (toks_of ids) <> "-"
  | TRejected => percent_form (map kind_of (toks_of ids)) = true
  | _ => False
  end.
Proof.
  intros Hl Ha Hx. pose proof (sweep_all ids Hl Ha) as H. unfold sweep_ok in H. rewrite Hx in H.
  destruct (translate_tokens (toks_of ids)) as [pe| | |]; try discriminate; [|exact H].
  apply orb_true_iff in H. destruct H as [H|H]; [left; exact H|right].
  intros E. rewrite E in H. discriminate.
Qed.

(* non-vacuity: how many of the 10^6 sequences of length 6 are formulas, and how many of those are grouped as Excel groups them *)
Lemma sweep_counts :
  List.length (filter grouped_right (seqs 6)) = 565%nat /\
  List.length (filter (fun s => match xparse (toks_of s) with Some _ => true | None => false end) (seqs 6)) = 1062%nat.
Proof. split; vm_compute; reflexivity. Qed.
