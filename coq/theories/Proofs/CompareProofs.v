(* Proofs/CompareProofs.v — lemmas behind Props/C10.v *)
Require Import X2P.Base.Prelude X2P.Base.F64 X2P.Base.PyCmp X2P.Base.PyType X2P.Base.PyNum X2P.Base.Calendar.
Require Import X2P.Model.Compare X2P.Spec.Compare.
From Coq Require Import Lia FloatAxioms.
Open Scope Z_scope.

Definition val_of_num (n : num) : val := match n with NZ z => VInt z | NF f => VFloat f end.

Lemma as_num_val_of_num n : as_num (val_of_num n) = Some n.
Proof. destruct n; reflexivity. Qed.

Lemma py_cmp_numbers o x y : py_cmp o (val_of_num x) (val_of_num y) = Ok (op_of_cmp o (num_cmp x y)).
Proof. destruct x, y; reflexivity. Qed.

(* numbers: the six operators are decided by the exact three-way comparison *)
Lemma compare_numbers fr o x y :
  compare fr o (val_of_num x) (val_of_num y) = Ok (op_of_cmp o (num_cmp x y)).
Proof.
  unfold compare.
  assert (H : is_exact_number (val_of_num x) && is_exact_number (val_of_num y) = true) by (destruct x, y; reflexivity).
  rewrite H. apply py_cmp_numbers.
Qed.

Lemma compare_ints fr o a b : compare fr o (VInt a) (VInt b) = Ok (op_of_cmp o (Some (a ?= b))).
Proof. exact (compare_numbers fr o (NZ a) (NZ b)). Qed.

(* what the exact three-way comparison is *)
Lemma num_cmp_int_int a b : num_cmp (NZ a) (NZ b) = Some (a ?= b).
Proof. reflexivity. Qed.
Lemma num_cmp_float_float f g :
  num_cmp (NF f) (NF g) =
  match SFcompare (Prim2SF f) (Prim2SF g) with Some c => Some c | None => None end.
Proof.
  unfold num_cmp, cmp_f_f. rewrite FloatAxioms.compare_spec.
  destruct (SFcompare (Prim2SF f) (Prim2SF g)) as [[| |]|]; reflexivity.
Qed.

(* the laws, for any pair on which the operators are decided by one three-way outcome *)
Lemma laws_of_outcome (c : comparison) :
  let R o := op_of_cmp o (Some c) in
  (* exactly one of <, =, > *)
  ((R OLt && negb (R OEq) && negb (R OGt)) || (negb (R OLt) && R OEq && negb (R OGt))
    || (negb (R OLt) && negb (R OEq) && R OGt)) = true /\
  R ONe = negb (R OEq) /\ R OLe = negb (R OGt) /\ R OGe = negb (R OLt).
Proof. destruct c; repeat split; reflexivity. Qed.

Lemma flip_swap o c : op_of_cmp (swap_op o) (Some (CompOpp c)) = op_of_cmp o (Some c).
Proof. destruct o, c; reflexivity. Qed.

(* a < b exactly when b > a (and likewise for the other operators) on integers and on int/float pairs *)
Lemma compare_ints_swap fr o a b : compare fr (swap_op o) (VInt b) (VInt a) = compare fr o (VInt a) (VInt b).
Proof.
  rewrite !compare_ints.
  replace (b ?= a) with (CompOpp (a ?= b)) by (symmetry; apply Z.compare_antisym).
  rewrite flip_swap. reflexivity.
Qed.

Lemma compare_int_float_swap fr o a f :
  cmp_Z_f a f <> None ->
  compare fr (swap_op o) (VFloat f) (VInt a) = compare fr o (VInt a) (VFloat f).
Proof.
  intros H. rewrite (compare_numbers fr _ (NF f) (NZ a)), (compare_numbers fr _ (NZ a) (NF f)).
  cbn [num_cmp]. destruct (cmp_Z_f a f) as [c|]; [|contradiction]. cbn [flip]. rewrite flip_swap. reflexivity.
Qed.

(* ---------------- dates ---------------- *)
Lemma compare_dt_dt fr o p u q v :
  compare fr o (VDT p u) (VDT q v) = Ok (op_of_cmp o (Some (match p ?= q with Eq => u ?= v | c => c end))).
Proof. reflexivity. Qed.
Lemma compare_date_dt fr o p q v :
  compare fr o (VDate p) (VDT q v) = Ok (op_of_cmp o (Some (match p ?= q with Eq => 0 ?= v | c => c end))).
Proof. reflexivity. Qed.
Lemma compare_dt_date fr o p u q :
  compare fr o (VDT p u) (VDate q) = Ok (op_of_cmp o (Some (match p ?= q with Eq => u ?= 0 | c => c end))).
Proof. reflexivity. Qed.
Lemma compare_date_date fr o p q :
  compare fr o (VDate p) (VDate q) = Ok (op_of_cmp o (Some (match p ?= q with Eq => 0 ?= 0 | c => c end))).
Proof. reflexivity. Qed.

Lemma date_equals_its_midnight fr p : compare fr OEq (VDate p) (VDT p 0) = Ok true.
Proof. rewrite compare_date_dt, Z.compare_refl. reflexivity. Qed.

(* ---------------- blank ---------------- *)
Lemma blank_vs_int fr o n : compare fr o VEmpty (VInt n) = Ok (op_of_cmp o (Some (0 ?= n))).
Proof. reflexivity. Qed.
Lemma int_vs_blank fr o n : compare fr o (VInt n) VEmpty = Ok (op_of_cmp o (Some (n ?= 0))).
Proof. reflexivity. Qed.
Lemma blank_eq_zero fr : compare fr OEq VEmpty (VInt 0) = Ok true.
Proof. reflexivity. Qed.
Lemma blank_eq_false fr : compare fr OEq VEmpty (VBool false) = Ok true.
Proof. reflexivity. Qed.
Lemma blank_eq_emptytext fr : compare fr OEq VEmpty (VStr "") = Ok true.
Proof. reflexivity. Qed.
Lemma blank_lt_positive_int fr n : 0 < n -> compare fr OLt VEmpty (VInt n) = Ok true.
Proof.
  intros H. rewrite blank_vs_int. destruct (0 ?= n) eqn:C; try reflexivity.
  - apply Z.compare_eq in C. lia.
  - apply Z.compare_gt_iff in C. lia.
Qed.
Lemma blank_lt_date fr o p u :
  compare fr o VEmpty (VDT p u) = Ok (op_of_cmp o (Some Lt)).
Proof. destruct o; reflexivity. Qed.
Lemma blank_lt_plain_date fr o p :
  compare fr o VEmpty (VDate p) = Ok (op_of_cmp o (Some Lt)).
Proof. destruct o; reflexivity. Qed.

(* blank against a non-empty text that is not a numeral: blank is smaller, for all six operators *)
Lemma blank_vs_text fr o s :
  int_of_string s = Exc ValueError -> float_of_string s = Exc ValueError -> s <> ""%string ->
  compare fr o VEmpty (VStr s) = Ok (op_of_cmp o (Some Lt)).
Proof.
  intros Hi Hf Hs. unfold compare. cbn [is_exact_number andb py_int py_float bind].
  rewrite Hi, Hf. cbn [bind try_vt catchable date_to_dt].
  assert (E : String.eqb s "" = false) by (apply String.eqb_neq; exact Hs).
  unfold py_cmp, empty_left, empty_eq, empty_lt, empty_ne. rewrite E. destruct o; reflexivity.
Qed.

(* ---------------- refutations on the unchanged tree (known findings) ---------------- *)
Definition no_repr (f : float) : string := ""%string.
Lemma blank_ne_emptytext_both : compare no_repr OEq VEmpty (VStr "") = Ok true /\
                                compare no_repr ONe VEmpty (VStr "") = Ok true.
Proof. split; reflexivity. Qed.
Lemma blank_vs_fraction_wrong : compare no_repr OLt VEmpty (VFloat 0.5) = Ok false /\
                                compare no_repr OEq VEmpty (VFloat 0.5) = Ok true.
Proof. split; vm_compute; reflexivity. Qed.
Lemma numeric_text_as_numbers : compare no_repr OLt (VStr "10") (VStr "9") = Ok false.
Proof. vm_compute. reflexivity. Qed.
Lemma text_case_sensitive : compare no_repr OLt (VStr "a") (VStr "B") = Ok false /\
                            compare no_repr OEq (VStr "a") (VStr "A") = Ok false.
Proof. split; vm_compute; reflexivity. Qed.
