(* Proofs/FormulaCore.v — the emitter writes every leaf of a core expression tree, in order, with the brackets where they were:
   for trees built only from operands (literals, same-sheet cell references), parentheses and the binary operators + - * / — of ANY
   size and nesting — the emitted text, read as a flat token string, IS the formula's token string with the atoms translated.
   Python is therefore given the same string Excel reads; on + - * / the two precedence tables coincide (Props/C01 sweep). *)
Require Import X2P.Base.Prelude X2P.Base.PyArith X2P.Model.Peg X2P.Model.Emit X2P.Gen.Grammar.
Open Scope string_scope.

Inductive ftok := FAtom (e : pyexpr) | FOp (o : aop) | FOpen | FClose | FOther.

(* the emitted text as a flat token string *)
Fixpoint flat_item (i : pitem) : list ftok :=
  match i with
  | IAtom e => [FAtom e]
  | IOp o => [FOp o]
  | IParen c => (FOpen :: (fix fl (l : list pitem) : list ftok := match l with [] => [] | x :: r => (flat_item x ++ fl r)%list end) c ++ [FClose])%list
  | _ => [FOther]
  end.
Definition flat (c : list pitem) : list ftok := flat_map flat_item c.
Lemma flat_item_paren c : flat_item (IParen c) = (FOpen :: flat c ++ [FClose])%list.
Proof. reflexivity. Qed.
Lemma flat_app a b : flat (a ++ b) = (flat a ++ flat b)%list.
Proof. unfold flat. apply flat_map_app. Qed.

(* the formula's token string, atoms translated as OperandTokenTranslator translates them *)
Definition view_tok (t : tok) : ftok :=
  let c := tclass t in
  if Nat.eqb c L_LiteralToken then match literal_value t with Some v => FAtom (PConst v) | None => FOther end
  else if Nat.eqb c L_CellIdentifierToken then FAtom (PCell (grp t 5 ++ grp t 6))
  else if Nat.eqb c L_BracketStartToken then FOpen else if Nat.eqb c L_BracketFinishToken then FClose
  else match op_of_class c with Some (OArith o) => FOp o | _ => FOther end.

(* ---- core trees ---- *)
Fixpoint single_leaf (fuel : nat) (t : tree) : option tok :=
  match fuel with O => None | S f =>
    match t with Leaf k => Some k | Node _ _ [x] => single_leaf f x | Node _ _ _ => None end end.
Definition is_operand (o : tree) : bool :=
  match o with
  | Node n _ [Leaf k] => Nat.eqb n N_OperandToken && (Nat.eqb (tclass k) L_LiteralToken || Nat.eqb (tclass k) L_CellIdentifierToken)
  | _ => false
  end.
Definition arith_of (op : tree) : option (tok * aop) :=
  if is_nt N_OperatorToken op then
    match single_leaf 6 op with
    | Some k => match op_of_class (tclass k) with Some (OArith o) => Some (k, o) | _ => None end
    | None => None end
  else None.
Definition is_open (t : tree) : bool := is_leaf L_BracketStartToken t.
Definition is_close (t : tree) : bool := is_leaf L_BracketFinishToken t.

Fixpoint core (fuel : nat) (t : tree) : bool :=
  match fuel with O => false | S f =>
  match t with
  | Leaf _ => false
  | Node nt _ kids =>
      Nat.eqb nt N_ExpressionToken &&
      match kids with
      | [k0] => is_operand k0
      | [k0; k1; k2] =>
          if is_open k0 then is_close k2 && core f k1
          else is_operand k0 && (match arith_of k1 with Some _ => true | None => false end) && core f k2
      | [k0; k1; k2; k3; k4] =>
          is_open k0 && core f k1 && is_close k2 && (match arith_of k3 with Some _ => true | None => false end) && core f k4
      | _ => false
      end
  end end.

(* ---- pieces ---- *)
Lemma single_leaf_yield fuel : forall t k, single_leaf fuel t = Some k -> yield t = [k] /\ first_leaf fuel t = Some k.
Proof.
  induction fuel as [|f IH]; intros t k H; [discriminate|].
  destruct t as [k'|n a kids]; cbn [single_leaf] in H.
  - injection H as ->. split; reflexivity.
  - destruct kids as [|x [|y r]]; try discriminate. destruct (IH x k H) as [Hy Hf]. split.
    + rewrite yield_node. unfold yields. cbn [flat_map]. rewrite Hy. reflexivity.
    + cbn [first_leaf]. exact Hf.
Qed.

Lemma operand_emit o : is_operand o = true ->
  forall c, emit_operand o = EOk c -> flat c = map view_tok (yield o).
Proof.
  intros Ho c He. destruct o as [k|n a kids]; [discriminate|].
  destruct kids as [|[k|] [|? ?]]; try discriminate.
  cbn [is_operand] in Ho. apply andb_prop in Ho. destruct Ho as [_ Hk].
  rewrite yield_node. unfold yields. cbn [flat_map yield app map].
  cbn [emit_operand] in He. unfold view_tok.
  destruct (Nat.eqb (tclass k) L_LiteralToken) eqn:EL.
  - destruct (literal_rejected k); [discriminate|]. destruct (literal_value k) as [v|]; [|discriminate].
    destruct v; try (injection He as <-; reflexivity).
    destruct (X2P.Base.F64.f_is_inf f); [discriminate|]. injection He as <-. reflexivity.
  - destruct (Nat.eqb (tclass k) L_CellIdentifierToken) eqn:EC; [|discriminate].
    destruct (String.eqb (grp k 3) "" && String.eqb (grp k 4) ""); [|discriminate]. injection He as <-. reflexivity.
Qed.

Lemma is_operand_shape o : is_operand o = true -> exists a k, o = Node N_OperandToken a [Leaf k].
Proof.
  destruct o as [k|n a kids]; [discriminate|]. destruct kids as [|[k|] [|? ?]]; try discriminate.
  cbn [is_operand]. intros H. apply andb_prop in H. destruct H as [H _]. apply Nat.eqb_eq in H. subst n. eauto.
Qed.
Lemma is_open_shape t : is_open t = true -> exists k, t = Leaf k /\ tclass k = L_BracketStartToken.
Proof. destruct t as [k|]; [|discriminate]. cbn. intros H. apply Nat.eqb_eq in H. eauto. Qed.
Lemma is_close_shape t : is_close t = true -> exists k, t = Leaf k /\ tclass k = L_BracketFinishToken.
Proof. destruct t as [k|]; [|discriminate]. cbn. intros H. apply Nat.eqb_eq in H. eauto. Qed.

(* emit_node on the four core shapes, for any translation rec of the sub-expressions *)
Lemma node_single rec a k :
  emit_node rec N_ExpressionToken [Node N_OperandToken a [Leaf k]] =
  match emit_operand (Node N_OperandToken a [Leaf k]) with EOk c => EOk (c ++ [])%list | other => other end.
Proof. unfold emit_node. cbn -[emit_operand]. destruct (emit_operand _); reflexivity. Qed.

Lemma arith_of_facts op k o : arith_of op = Some (k, o) ->
  is_nt N_OperatorToken op = true /\ operator_of op = Some (OArith o) /\ yield op = [k] /\ view_tok k = FOp o.
Proof.
  unfold arith_of. destruct (is_nt N_OperatorToken op) eqn:E; [|discriminate].
  destruct (single_leaf 6 op) as [k'|] eqn:S; [|discriminate].
  destruct (op_of_class (tclass k')) as [[o'| | |]|] eqn:C; try discriminate. intros H. injection H as -> ->.
  destruct (single_leaf_yield 6 op k S) as [Hy Hf]. repeat split; auto.
  - unfold operator_of. rewrite Hf, C. reflexivity.
  - unfold view_tok. rewrite C.
    destruct (Nat.eqb (tclass k) L_LiteralToken) eqn:E1; [apply Nat.eqb_eq in E1; rewrite E1 in C; vm_compute in C; discriminate|].
    destruct (Nat.eqb (tclass k) L_CellIdentifierToken) eqn:E2; [apply Nat.eqb_eq in E2; rewrite E2 in C; vm_compute in C; discriminate|].
    destruct (Nat.eqb (tclass k) L_BracketStartToken) eqn:E3; [apply Nat.eqb_eq in E3; rewrite E3 in C; vm_compute in C; discriminate|].
    destruct (Nat.eqb (tclass k) L_BracketFinishToken) eqn:E4; [apply Nat.eqb_eq in E4; rewrite E4 in C; vm_compute in C; discriminate|].
    reflexivity.
Qed.

Lemma expr_not_others e : is_nt N_ExpressionToken e = true ->
  is_nt N_OperandToken e = false /\ is_nt N_OneLeftOperandExpressionToken e = false /\ is_nt N_OneOperandArithmeticOperatorToken e = false /\
  is_leaf L_BracketStartToken e = false /\ is_nt N_OperatorToken e = false.
Proof. destruct e as [k|n a kids]; [discriminate|]. cbn [is_nt]. intros H. apply Nat.eqb_eq in H. subst n. repeat split; reflexivity. Qed.

Lemma node_binary rec a k op kop o e :
  arith_of op = Some (kop, o) -> is_nt N_ExpressionToken e = true ->
  emit_node rec N_ExpressionToken [Node N_OperandToken a [Leaf k]; op; e] =
  match emit_operand (Node N_OperandToken a [Leaf k]), rec e with
  | EOk l, EOk r => EOk (l ++ [IOp o] ++ r)%list
  | EOk _, other => other
  | other, _ => other
  end.
Proof.
  intros Ha He. destruct (arith_of_facts op kop o Ha) as [H1 [H2 _]].
  unfold emit_node. cbn [List.length nth Nat.eqb N_ExpressionToken N_OneLeftOperandExpressionToken negb].
  cbn [is_nt is_leaf N_OperandToken N_OneOperandArithmeticOperatorToken N_OneLeftOperandExpressionToken Nat.eqb orb andb].
  destruct (expr_not_others e He) as [N1 _].
  rewrite H1, H2, He, N1. cbn [andb orb].
  destruct (emit_operand _); destruct (rec e); reflexivity.
Qed.

Lemma node_paren rec l e r :
  tclass l = L_BracketStartToken -> is_nt N_ExpressionToken e = true ->
  emit_node rec N_ExpressionToken [Leaf l; e; Leaf r] =
  match rec e with EOk c => EOk ([] ++ [IParen c])%list | other => other end.
Proof.
  intros Hl He. destruct (expr_not_others e He) as [N1 [N2 [N3 [N4 N5]]]].
  unfold emit_node. cbn [List.length nth Nat.eqb N_ExpressionToken N_OneLeftOperandExpressionToken negb].
  cbn [is_nt is_leaf orb andb]. rewrite Hl, N5, He, N1. cbn [Nat.eqb L_BracketStartToken andb orb].
  destruct (rec e); reflexivity.
Qed.

Lemma node_paren_binary rec l e1 r op kop o e2 :
  tclass l = L_BracketStartToken -> is_nt N_ExpressionToken e1 = true -> arith_of op = Some (kop, o) -> is_nt N_ExpressionToken e2 = true ->
  emit_node rec N_ExpressionToken [Leaf l; e1; Leaf r; op; e2] =
  match rec e1, rec e2 with
  | EOk c1, EOk c2 => EOk ([IParen c1] ++ [IOp o] ++ c2)%list
  | EOk _, other => other
  | other, _ => other
  end.
Proof.
  intros Hl He1 Ha He2. destruct (expr_not_others e1 He1) as [N1 [N2 _]]. destruct (expr_not_others e2 He2) as [M1 _].
  destruct (arith_of_facts op kop o Ha) as [H1 [H2 _]].
  unfold emit_node. cbn [List.length nth Nat.eqb N_ExpressionToken N_OneLeftOperandExpressionToken negb].
  cbn [is_nt is_leaf orb andb]. rewrite Hl, H1, H2, He1, He2, N1, M1, N2. cbn [Nat.eqb L_BracketStartToken andb orb].
  destruct (rec e1); destruct (rec e2); reflexivity.
Qed.

Lemma core_is_expr f t : core f t = true -> is_nt N_ExpressionToken t = true.
Proof.
  destruct f as [|f]; [discriminate|]. destruct t as [k|n a kids]; [discriminate|]. cbn [core is_nt].
  intros H. apply andb_prop in H. apply H.
Qed.
Lemma view_open k : tclass k = L_BracketStartToken -> view_tok k = FOpen.
Proof. intros H. unfold view_tok. rewrite H. reflexivity. Qed.
Lemma view_close k : tclass k = L_BracketFinishToken -> view_tok k = FClose.
Proof. intros H. unfold view_tok. rewrite H. reflexivity. Qed.
Lemma yield_kids n a kids : yield (Node n a kids) = flat_map yield kids.
Proof. rewrite yield_node. reflexivity. Qed.

Lemma flat_cons x r : flat (x :: r) = (flat_item x ++ flat r)%list.
Proof. reflexivity. Qed.

(* THE THEOREM: for core trees of any size and nesting the emitted text, as a flat token string, is the formula's token string *)
Theorem core_emit_identity : forall fuel fc t c,
  core fc t = true -> emit fuel t = EOk c -> flat c = map view_tok (yield t).
Proof.
  induction fuel as [|f IH]; intros fc t c Hc He; [discriminate|].
  destruct fc as [|fc]; [discriminate|]. destruct t as [k|nt alt kids]; [discriminate|].
  cbn [core] in Hc. apply andb_prop in Hc. destruct Hc as [Hn Hk]. apply Nat.eqb_eq in Hn. subst nt.
  cbn [emit] in He. rewrite yield_kids.
  destruct kids as [|k0 [|k1 [|k2 [|k3 [|k4 [|k5 rest]]]]]]; try discriminate.
  - (* [operand] *)
    destruct (is_operand_shape k0 Hk) as [a [k ->]]. rewrite node_single in He.
    destruct (emit_operand (Node N_OperandToken a [Leaf k])) as [c0| | |] eqn:E; try discriminate. injection He as <-.
    rewrite app_nil_r. cbn [flat_map]. rewrite app_nil_r. exact (operand_emit _ Hk c0 E).
  - (* three children *)
    destruct (is_open k0) eqn:Eo.
    + (* ( E ) *)
      apply andb_prop in Hk. destruct Hk as [Hcl Hc1].
      destruct (is_open_shape k0 Eo) as [l [-> Hl]]. destruct (is_close_shape k2 Hcl) as [r [-> Hr]].
      rewrite (node_paren (emit f) l k1 r Hl (core_is_expr fc k1 Hc1)) in He.
      destruct (emit f k1) as [c1| | |] eqn:E1; try discriminate. injection He as <-.
      cbn [app flat_map yield]. unfold flat. cbn [flat_map]. rewrite flat_item_paren. fold (flat c1).
      rewrite (IH fc k1 c1 Hc1 E1). rewrite app_nil_r.
      cbn [map]. rewrite map_app. cbn [map]. rewrite (view_open l Hl), (view_close r Hr). reflexivity.
    + (* operand op E *)
      apply andb_prop in Hk. destruct Hk as [Hk Hc2]. apply andb_prop in Hk. destruct Hk as [Ho Ha].
      destruct (arith_of k1) as [[kop o]|] eqn:Ea; [|discriminate].
      destruct (is_operand_shape k0 Ho) as [a [k ->]].
      rewrite (node_binary (emit f) a k k1 kop o k2 Ea (core_is_expr fc k2 Hc2)) in He.
      destruct (emit_operand (Node N_OperandToken a [Leaf k])) as [c0| | |] eqn:E0; try discriminate.
      destruct (emit f k2) as [c2| | |] eqn:E2; try discriminate. injection He as <-.
      destruct (arith_of_facts k1 kop o Ea) as [_ [_ [Hy Hv]]].
      rewrite flat_app, flat_cons. rewrite (operand_emit _ Ho c0 E0), (IH fc k2 c2 Hc2 E2).
      cbn [flat_map flat_item]. rewrite Hy. rewrite app_nil_r. rewrite !map_app. cbn [map app]. rewrite Hv. reflexivity.
  - (* ( E ) op E *)
    apply andb_prop in Hk. destruct Hk as [Hk Hc4]. apply andb_prop in Hk. destruct Hk as [Hk Ha].
    apply andb_prop in Hk. destruct Hk as [Hk Hcl]. apply andb_prop in Hk. destruct Hk as [Eo Hc1].
    destruct (arith_of k3) as [[kop o]|] eqn:Ea; [|discriminate].
    destruct (is_open_shape k0 Eo) as [l [-> Hl]]. destruct (is_close_shape k2 Hcl) as [r [-> Hr]].
    rewrite (node_paren_binary (emit f) l k1 r k3 kop o k4 Hl (core_is_expr fc k1 Hc1) Ea (core_is_expr fc k4 Hc4)) in He.
    destruct (emit f k1) as [c1| | |] eqn:E1; try discriminate.
    destruct (emit f k4) as [c4| | |] eqn:E4; try discriminate. injection He as <-.
    destruct (arith_of_facts k3 kop o Ea) as [_ [_ [Hy Hv]]].
    cbn [app]. rewrite !flat_cons, flat_item_paren.
    rewrite (IH fc k1 c1 Hc1 E1), (IH fc k4 c4 Hc4 E4).
    cbn [flat_map yield flat_item]. rewrite Hy. rewrite app_nil_r. cbn [map app]. rewrite !map_app. cbn [map app].
    rewrite (view_open l Hl), (view_close r Hr), Hv. rewrite <- !app_assoc. reflexivity.
Qed.

Lemma core_example :
  match tokens_of "=(1+2)*3-4/(5-6)" with
  | Some (Some ts) =>
      match ast_builder grammar_table is_cc N_ExpressionToken PARSE_FUEL ts with
      | AOk t => core 50 t && match emit 200 t with EOk _ => true | _ => false end
      | _ => false end
  | _ => false end = true.
Proof. vm_compute. reflexivity. Qed.
