(* Proofs/RefsProofs.v — lemmas behind Props/C02.v *)
Require Import X2P.Base.Prelude X2P.Base.PyNum X2P.Base.PyType X2P.Model.Peg X2P.Model.Lexer X2P.Model.Executor X2P.Model.Lookup.
Require Import X2P.Model.Refs X2P.Spec.Refs X2P.Spec.Lookup X2P.Proofs.LookupProofs X2P.Gen.Grammar X2P.Gen.Regexes.
From Coq Require Import Lia.
Open Scope Z_scope.
Lemma div26 a v : 0 <= a -> 1 <= v <= 26 -> (a * 26 + v - 1) / 26 = a /\ (a * 26 + v - 1) mod 26 = v - 1.
Proof.
  intros Ha Hv. split.
  - symmetry. apply (Z.div_unique (a * 26 + v - 1) 26 a (v - 1)); lia.
  - symmetry. apply (Z.mod_unique (a * 26 + v - 1) 26 a (v - 1)); lia.
Qed.

(* ---------- column letters: the other direction of the bijection ---------- *)
Lemma col_of_letters_snoc s c : col_of_letters (s ++ String c EmptyString) = col_of_letters s * 26 + letter_val c.
Proof. unfold col_of_letters. rewrite col_of_letters_from_app. reflexivity. Qed.

Lemma all_AZ_app s t : all_AZ (s ++ t) = all_AZ s && all_AZ t.
Proof. induction s as [|c s IH]; simpl; [reflexivity|]. rewrite IH, andb_assoc. reflexivity. Qed.

Lemma letter_of_val c : is_upper c = true -> letter (letter_val c - 1) = c /\ 1 <= letter_val c <= 26.
Proof.
  unfold is_upper, letter, letter_val. intros H. apply andb_prop in H. destruct H as [H1 H2].
  apply N.leb_le in H1, H2. split; [|lia].
  replace (Z.to_N (65 + (Z.of_N (N_of_ascii c) - 64 - 1))) with (N_of_ascii c) by lia. apply ascii_N_embedding.
Qed.

Lemma col_of_letters_nonneg s : all_AZ s = true -> 0 <= col_of_letters s.
Proof.
  unfold col_of_letters. assert (G : forall s acc, all_AZ s = true -> 0 <= acc -> 0 <= col_of_letters_from s acc).
  { induction s0 as [|c s0 IH]; intros acc H Ha; simpl; [exact Ha|]. simpl in H. apply andb_prop in H. destruct H as [Hc Hs].
    apply IH; [exact Hs|]. destruct (letter_of_val c Hc) as [_ B]. lia. }
  intros H. apply G; [exact H|lia].
Qed.

Lemma string_of_list_snoc l c : string_of_list (l ++ [c]) = (string_of_list l ++ String c EmptyString)%string.
Proof. induction l as [|x l IHl]; simpl; [reflexivity|now rewrite IHl]. Qed.
Lemma string_app_assoc_snoc s c acc : ((s ++ String c EmptyString) ++ acc)%string = (s ++ String c acc)%string.
Proof. induction s as [|x s IHs]; simpl; [reflexivity|now rewrite IHs]. Qed.
Lemma string_app_nil_r s : (s ++ "")%string = s.
Proof. induction s as [|x s IHs]; simpl; [reflexivity|now rewrite IHs]. Qed.

(* get_col_loop run on a column number c = col_of_letters s yields s in front of the accumulator *)
Lemma get_col_loop_letters : forall (l : list ascii) fuel acc,
  all_AZ (string_of_list l) = true ->
  (Z.of_nat (List.length l) <= Z.of_nat fuel) ->
  get_col_loop fuel (col_of_letters (string_of_list l)) acc = Some (string_of_list l ++ acc)%string.
Proof.
  intros l. induction l as [|c l IH] using rev_ind; intros fuel acc Haz Hf.
  - simpl. destruct fuel; reflexivity.
  - pose proof (string_of_list_snoc l c) as E. rewrite E in *. rewrite all_AZ_app in Haz. apply andb_prop in Haz. destruct Haz as [Hl Hc]. simpl in Hc. rewrite andb_true_r in Hc.
    destruct (letter_of_val c Hc) as [Lc Bc]. pose proof (col_of_letters_nonneg _ Hl) as Hn.
    rewrite col_of_letters_snoc.
    rewrite app_length in Hf. simpl in Hf.
    destruct fuel as [|fuel]; [lia|].
    cbn [get_col_loop].
    destruct (col_of_letters (string_of_list l) * 26 + letter_val c <=? 0) eqn:Z0; [lia|].
    destruct (div26 (col_of_letters (string_of_list l)) (letter_val c) Hn Bc) as [D1 D2]. rewrite D1, D2.
    rewrite Lc. rewrite IH by (try exact Hl; lia). now rewrite string_app_assoc_snoc.
Qed.

Lemma string_of_list_of_string' s : string_of_list (list_of_string s) = s.
Proof. induction s as [|c s IH]; simpl; [reflexivity|now rewrite IH]. Qed.

Lemma log2_lt_length_bound c : 0 < c -> Z.log2 c < c.
Proof. intros H. apply Z.log2_lt_lin. exact H. Qed.

(* for every non-empty string of capital letters, the column number it denotes is converted back to exactly that string *)
Lemma letters_roundtrip s : all_AZ s = true -> s <> EmptyString ->
  exists fuel, get_col_loop fuel (col_of_letters s) "" = Some s.
Proof.
  intros Haz Hne. exists (String.length s).
  rewrite <- (string_of_list_of_string' s) in *.
  rewrite get_col_loop_letters.
  - now rewrite string_app_nil_r.
  - exact Haz.
  - clear. rewrite string_of_list_of_string'. induction s as [|c s IH]; simpl; lia.
Qed.

(* ---------- areas: rows outer, columns inner, every coordinate once, in row-major order ---------- *)
Lemma zrange_shift n a : zrange_n n (a - 1) = map (fun x => x - 1) (zseq n a).
Proof. revert a. induction n as [|n IH]; intros a; simpl; [reflexivity|]. f_equal. replace (a - 1 + 1) with (a + 1 - 1) by lia. apply IH. Qed.
Lemma py_range_span a b : py_range (a - 1) b = map (fun x => x - 1) (zspan a b).
Proof. unfold py_range, zspan. replace (Z.to_nat (b - (a - 1))) with (Z.to_nat (b - a + 1)) by lia. apply zrange_shift. Qed.

Lemma get_matrix_rect nrows s c1 r1 c2 r2 :
  1 <= r1 -> 1 <= r2 ->
  get_matrix nrows (s, c1 - 1, Some (r1 - 1)) (s, c2 - 1, Some (r2 - 1)) =
  Ok (map (fun r => map (fun c => (s, c - 1, r - 1)) (zspan c1 c2)) (zspan r1 r2)).
Proof.
  intros H1 H2. unfold get_matrix.
  destruct ((0 <=? r1 - 1) && (0 <=? r2 - 1)) eqn:E; [|lia]. rewrite Z.eqb_refl. cbn [negb].
  f_equal. replace (r2 - 1 + 1) with r2 by lia. replace (c2 - 1 + 1) with c2 by lia.
  rewrite !py_range_span, map_map. apply map_ext. intros r. rewrite map_map. reflexivity.
Qed.

Lemma get_matrix_whole_column nrows s c :
  get_matrix nrows (s, c - 1, None) (s, c - 1, None) =
  Ok (map (fun r => [(s, c - 1, r - 1)]) (zspan 1 (nrows s))).
Proof.
  unfold get_matrix. rewrite Z.eqb_refl. f_equal.
  replace (py_range 0 (nrows s)) with (py_range (1 - 1) (nrows s)) by reflexivity.
  rewrite py_range_span, map_map. reflexivity.
Qed.

(* refuted on the unchanged tree: several whole columns come column by column, not row by row *)
Lemma whole_columns_transposed :
  get_matrix (fun _ => 2) (0, 1, None) (0, 2, None) = Ok [[(0, 1, 0); (0, 1, 1)]; [(0, 2, 0); (0, 2, 1)]].
Proof. reflexivity. Qed.

(* an unknown sheet title is rejected, never resolved to another sheet *)
Lemma title_index_unknown ts n : (forall i, ~ In (n, i) ts) -> title_index ts n = Exc E2PyclCell.
Proof.
  induction ts as [|[k j] ts IH]; intros H; simpl; [reflexivity|]. destruct (String.eqb k n) eqn:E.
  - apply String.eqb_eq in E. subst k. exfalso. apply (H j). left. reflexivity.
  - apply IH. intros i Hi. apply (H i). right. exact Hi.
Qed.
Lemma unknown_sheet_rejected ts n c r : (forall i, ~ In (n, i) ts) ->
  handle ts {| a_t := TName n; a_c := c; a_r := r |} = Exc E2PyclCell.
Proof. intros H. unfold handle. cbn [a_t]. rewrite (title_index_unknown ts n H). reflexivity. Qed.
Lemma title_index_sound ts n i : title_index ts n = Ok i -> In (n, i) ts.
Proof.
  induction ts as [|[k j] ts IH]; simpl; [discriminate|]. destruct (String.eqb k n) eqn:E.
  - apply String.eqb_eq in E. intros H. inversion H; subst. now left.
  - intros H. right. apply IH, H.
Qed.

(* more fuel never changes a result *)
Lemma get_col_loop_mono : forall f c acc r, get_col_loop f c acc = Some r -> forall k, get_col_loop (f + k) c acc = Some r.
Proof.
  induction f as [|f IH]; intros c acc r H k.
  - simpl in H. destruct (c <=? 0) eqn:E; [|discriminate]. destruct k; simpl; rewrite E; exact H.
  - cbn [get_col_loop] in H. cbn [Nat.add get_col_loop]. destruct (c <=? 0); [exact H|]. apply IH, H.
Qed.

(* bijection, second half: the letters of the column a capital-letter string denotes are that string again *)
Theorem get_col_of_letters s : all_AZ s = true -> s <> EmptyString -> get_col (col_of_letters s) = Some s.
Proof.
  intros Haz Hne. destruct (letters_roundtrip s Haz Hne) as [f Hf].
  assert (Hpos : 1 <= col_of_letters s).
  { destruct s as [|c s]; [contradiction|]. unfold col_of_letters. simpl. simpl in Haz. apply andb_prop in Haz. destruct Haz as [Hc Hs].
    destruct (letter_of_val c Hc) as [_ B].
    assert (G : forall s acc, all_AZ s = true -> 1 <= acc -> 1 <= col_of_letters_from s acc).
    { induction s0 as [|x s0 IH]; intros acc H Ha; simpl; [exact Ha|]. simpl in H. apply andb_prop in H. destruct H as [Hx Hs0].
      apply IH; [exact Hs0|]. destruct (letter_of_val x Hx) as [_ Bx]. lia. }
    apply G; [exact Hs|lia]. }
  destruct (get_col_roundtrip (col_of_letters s) Hpos) as [s' [Hs' _]].
  unfold get_col in *.
  pose proof (get_col_loop_mono _ _ _ _ Hf (get_col_fuel (col_of_letters s))) as M1.
  pose proof (get_col_loop_mono _ _ _ _ Hs' f) as M2.
  rewrite Nat.add_comm in M2. rewrite M1 in M2. inversion M2; subst. exact Hs'.
Qed.

(* ---------- lexing of reference spellings: kernel-exhaustive sweep over shapes x boundary coordinates x following contexts ---------- *)
Open Scope string_scope.
Definition pfx_list : list (string * string) := [("", ""); ("Data!", "Data"); ("'My Sheet'!", "My Sheet")].   (* text, expected title *)
Definition dollar_list : list string := [""; "$"].
Definition col_list : list string := ["A"; "Z"; "AA"; "AZ"; "ZZ"; "XFD"].
Definition row_list : list string := ["1"; "10"; "1048576"].
Definition ctx_list : list string := [""; ")"; ",2)"; "+1"; "*B2"; " "].

Definition title_matches (t : tok) (expected : string) : bool := String.eqb (or_str (grp t 3) (grp t 4)) expected.

Definition cell_lex_ok (p : string * string) (d1 col d2 row ctx : string) : bool :=
  match first_token lexer_tokens 0 (fst p ++ d1 ++ col ++ d2 ++ row ++ ctx) with
  | Some (Some (cls, pay, rest)) =>
      let t := {| tclass := cls; tpay := pay |} in
      Nat.eqb cls L_CellIdentifierToken && title_matches t (snd p) && String.eqb (grp t 5) col && String.eqb (grp t 6) row
      && String.eqb rest ctx
  | _ => false
  end.
Definition area_lex_ok (p : string * string) (col row col2 row2 ctx : string) : bool :=
  match first_token lexer_tokens 0 (fst p ++ col ++ row ++ ":" ++ col2 ++ row2 ++ ctx) with
  | Some (Some (cls, pay, rest)) =>
      let t := {| tclass := cls; tpay := pay |} in
      Nat.eqb cls L_MatrixOfCellIdentifiersToken && title_matches t (snd p) && String.eqb (grp t 5) col && String.eqb (grp t 7) row
      && String.eqb (grp t 8) col2 && String.eqb (grp t 10) row2 && String.eqb rest ctx
  | _ => false
  end.

Definition cell_sweep : bool :=
  forallb (fun p => forallb (fun d1 => forallb (fun col => forallb (fun d2 => forallb (fun row => forallb (fun ctx =>
    cell_lex_ok p d1 col d2 row ctx) ctx_list) row_list) dollar_list) col_list) dollar_list) pfx_list.
Definition area_sweep : bool :=
  forallb (fun p => forallb (fun col => forallb (fun row => forallb (fun ctx =>
    area_lex_ok p col row "XFD" "1048576" ctx && area_lex_ok p col "" col "" ctx) ctx_list) row_list) col_list) pfx_list.

Lemma ref_lex_sweeps : cell_sweep = true /\ area_sweep = true.
Proof. split; vm_compute; reflexivity. Qed.
