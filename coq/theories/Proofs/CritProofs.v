(* Proofs/CritProofs.v — lemmas behind Props/C12.v *)
Require Import X2P.Base.Prelude X2P.Base.F64 X2P.Base.PyCmp X2P.Base.PyType X2P.Base.PyNum X2P.Base.PyArith X2P.Base.Str.
Require Import X2P.Model.Agg X2P.Model.Crit X2P.Spec.Text X2P.Spec.Crit X2P.Spec.Agg X2P.Proofs.AggProofs X2P.Proofs.RoundProofs.
From Coq Require Import Lia.
Open Scope Z_scope.

Section P.
  Variable fr : float -> string.
  Variable dp : string -> option val.

  (* an integer column against  <op> n : the emitted lambda computes the exact comparison *)
  Definition icrit (o : cmpop) (n : Z) : crit := CGen o (VInt n).
  Definition iacc (o : cmpop) (n x : Z) : bool := op_of_cmp o (Some (x ?= n)).

  Lemma accepts_int o n x : accepts fr dp (icrit o n) (VInt x) = Ok (iacc o n x).
  Proof. reflexivity. Qed.

  Lemma mark_pair_ints o n : forall xs marks, List.length xs = List.length marks ->
    mark_pair fr dp (icrit o n) (map VInt xs) marks =
    Ok (map (fun '(m, x) => (m && iacc o n x)%bool) (combine marks xs)).
  Proof.
    induction xs as [|x xs IH]; intros marks H; destruct marks as [|m marks]; try discriminate; [reflexivity|].
    cbn [map mark_pair combine]. rewrite accepts_int. cbn [bind]. rewrite IH by (simpl in H; lia). reflexivity.
  Qed.

  Lemma flatten_ints xs : flatten (map VInt xs) = map VInt xs.
  Proof. unfold flatten. induction xs as [|x t IH]; [reflexivity|]. simpl. now rewrite IH. Qed.
  Lemma empty_to_zero_ints xs : empty_to_zero (map VInt xs) = map VInt xs.
  Proof. unfold empty_to_zero. rewrite map_map. reflexivity. Qed.
  Lemma bool_to_int_ints xs : bool_to_int (map VInt xs) = map VInt xs.
  Proof. unfold bool_to_int. rewrite map_map. reflexivity. Qed.

  (* the (range, criterion) pairs of the theorem: integer columns, criteria  <op> n *)
  Definition ipair := (list Z * (cmpop * Z))%type.
  Definition to_pair (p : ipair) : list val * crit := (map VInt (fst p), icrit (fst (snd p)) (snd (snd p))).
  (* the positions every pair accepts *)
  Fixpoint imarks (ps : list ipair) (marks : list bool) : list bool :=
    match ps with
    | [] => marks
    | (xs, (o, n)) :: rest => imarks rest (map (fun '(m, x) => (m && iacc o n x)%bool) (combine marks xs))
    end.

  Lemma combine_map_length {A B} (f : bool * A -> B) (marks : list bool) (xs : list A) :
    List.length xs = List.length marks -> List.length (map f (combine marks xs)) = List.length marks.
  Proof. intros H. rewrite map_length, combine_length. lia. Qed.

  Lemma mark_all_ints cast : forall ps marks,
    Forall (fun p : ipair => List.length (fst p) = List.length marks) ps ->
    mark_all fr dp cast (map to_pair ps) marks = Ok (imarks ps marks).
  Proof.
    induction ps as [|[xs [o n]] ps IH]; intros marks H; [reflexivity|].
    inversion H as [|? ? Hx Hr]; subst. cbn [map to_pair fst snd mark_all imarks].
    rewrite flatten_ints, empty_to_zero_ints.
    replace (if cast then bool_to_int (map VInt xs) else map VInt xs) with (map VInt xs) by (destruct cast; [now rewrite bool_to_int_ints|reflexivity]).
    rewrite mark_pair_ints by exact Hx. cbn [bind]. apply IH.
    eapply Forall_impl; [|exact Hr]. intros p Hp. cbn beta in *. rewrite Hp. symmetry. apply combine_map_length. exact Hx.
  Qed.

  Lemma sizes_ok_ints n ps :
    Forall (fun p : ipair => List.length (fst p) = n) ps -> sizes_ok n (map to_pair ps) = true.
  Proof.
    induction 1 as [|p ps Hp Hr IH]; [reflexivity|]. unfold sizes_ok in *. cbn [map forallb to_pair fst].
    rewrite flatten_ints, map_length, Hp, Nat.eqb_refl. exact IH.
  Qed.

  Lemma select_map {A B} (f : A -> B) marks l : select marks (map f l) = map f (select marks l).
  Proof.
    unfold select. revert marks. induction l as [|x l IH]; intros [|m marks]; try reflexivity.
    cbn [map combine filter]. destruct m; cbn [fst map snd]; rewrite IH; reflexivity.
  Qed.

  Lemma rt_sum_ints l : rt_sum (map VInt l) = Ok (VInt (zsum l)).
  Proof.
    unfold rt_sum. replace (only_numeric (map VInt l)) with (map VInt l).
    - apply py_sum_ints.
    - unfold only_numeric. induction l as [|x t IH]; [reflexivity|]. simpl. now rewrite <- IH.
  Qed.

  (* SUMIFS over integer data: the sum of the target cells at exactly the positions every pair accepts *)
  Lemma sumifs_ints tgt ps :
    Forall (fun p : ipair => List.length (fst p) = List.length tgt) ps ->
    rt_sumifs fr dp (map VInt tgt) (map to_pair ps) =
    Ok (VInt (zsum (select (imarks ps (map (fun _ => true) tgt)) tgt))).
  Proof.
    intros H. unfold rt_sumifs, mark_pairs. rewrite flatten_ints, map_length.
    rewrite (sizes_ok_ints _ _ H).
    rewrite map_map. rewrite mark_all_ints.
    - cbn [bind]. rewrite select_map, bool_to_int_ints. apply rt_sum_ints.
    - eapply Forall_impl; [|exact H]. intros p Hp. cbn beta in *. rewrite Hp, !map_length. reflexivity.
  Qed.

  (* COUNTIFS over POSITIVE integer data (zeros are dropped: known finding) with one pair: the number of accepted cells *)
  Lemma filter_truthy_pos xs : Forall (fun x => 0 < x) xs -> filter truthy (map VInt xs) = map VInt xs.
  Proof.
    induction 1 as [|x xs Hx Hr IH]; [reflexivity|]. cbn [map filter truthy].
    destruct (x =? 0) eqn:E; [apply Z.eqb_eq in E; lia|]. cbn [negb]. now rewrite IH.
  Qed.

  (* sizes: ranges of different sizes are reported as an error, before any criterion is evaluated *)
  Lemma sumifs_size_error target pairs :
    sizes_ok (List.length (flatten target)) pairs = false ->
    rt_sumifs fr dp target pairs = Exc ExcelInPythonException.
  Proof. intros H. unfold rt_sumifs, mark_pairs. rewrite H. reflexivity. Qed.
  Lemma countifs_size_error rng c pairs :
    sizes_ok (List.length (flatten rng)) pairs = false ->
    rt_countifs fr dp rng c pairs = Exc ExcelInPythonException.
  Proof. intros H. unfold rt_countifs, mark_pairs. rewrite H. reflexivity. Qed.
  Lemma averageifs_size_error target pairs :
    flatten target <> [] -> forallb int_castable (flatten target) = true ->
    sizes_ok (List.length (flatten target)) pairs = false ->
    rt_averageifs fr dp target pairs = Exc ExcelInPythonException.
  Proof.
    intros Hne Hc H. unfold rt_averageifs, mark_pairs.
    destruct (flatten target) as [|a l] eqn:E; [contradiction|]. rewrite Hc. cbn [negb]. rewrite H. reflexivity.
  Qed.
End P.

(* ---------- criterion compilation: the regex of the SOURCE applied to representative criteria (kernel-computed) ---------- *)
Lemma compile_examples :
  compile (KText ">5") = Some (CGen OGt (VInt 5)) /\ compile (KText "<=2.5") = Some (CGen OLe (VFloat 2.5)) /\
  compile (KText "<>3") = Some (CGen ONe (VInt 3)) /\ compile (KText ">=10") = Some (CGen OGe (VInt 10)) /\
  compile (KText "<7") = Some (CGen OLt (VInt 7)) /\ compile (KText "apple") = Some (CGen OEq (VStr "apple")) /\
  compile (KTextAmp ">" (VInt 4)) = Some (CGen OGt (VInt 4)) /\ compile (KNum (VInt 5)) = Some (CGen OEq (VInt 5)) /\
  compile (KPat "a*") = Some (CPat "a*") /\
  (* the literal forms the statement lists but the code takes literally (known findings) *)
  compile (KText "=3") = Some (CGen OEq (VStr "=3")) /\ compile (KText "<>x") = Some (CGen OEq (VStr "<>x")).
Proof. repeat split; vm_compute; reflexivity. Qed.

(* ---------- wildcard criteria: kernel-exhaustive small sweep ---------- *)
Open Scope string_scope.
Definition walpha : list string := ["a"; "B"; "?"; "*"; "~"].
Definition wp2 := flat_map (fun a => map (fun b => a ++ b) walpha) walpha.
Definition wp3 := flat_map (fun a => map (fun b => a ++ b) wp2) walpha.
Definition wpats : list string := filter has_wild (walpha ++ wp2 ++ wp3).
Definition wsubjects : list string := [""; "a"; "B"; "ab"; "aB"; "Ba"; "aab"; "a*"; "a?b"; "~a"; "abc"].
Definition no_dp (s : string) : option val := None.
Definition no_fr (f : float) : string := "".

Definition pat_ok (p s : string) : bool :=
  match accepts no_fr no_dp (CPat p) (VStr s) with
  | Ok b => Bool.eqb b (wmatch (wparse (chars p)) (chars s))
  | Exc _ => false
  end.
Definition has_case (s : string) : bool := negb (String.eqb s (lower s)).
Definition ends_with_star (p : string) : bool :=
  match rev (wparse (chars p)) with WStar :: _ => true | _ => false end.
Definition has_tilde (p : string) : bool := existsb is_tilde (list_of_string p).
(* defect classes of wildcard criteria on the unchanged tree *)
Definition star_runs (p : string) : nat :=
  List.length (filter (fun k => match k with WStar => true | _ => false end) (wparse (chars p))).
Definition pat_class (p s : string) : string :=
  if has_tilde p then "pattern_tilde_kept"
  else if Nat.leb 2 (star_runs p) then "pattern_repeated_star_rewritten_wrongly"
  else if has_case p || has_case s then "pattern_case_sensitive"
  else if negb (ends_with_star p) then "pattern_not_anchored_at_end" else "-".
Definition pat_sweep_ok (p s : string) : bool := negb (String.eqb (pat_class p s) "-") || pat_ok p s.

Lemma pattern_sweep : forallb (fun p => forallb (fun s => pat_sweep_ok p s) wsubjects) wpats = true.
Proof. vm_compute. reflexivity. Qed.
Lemma orb_class_elim' (c : string) (b : bool) : negb (String.eqb c "-") || b = true -> c = "-" -> b = true.
Proof. intros H ->. exact H. Qed.
Lemma pattern_L4 p s : pat_sweep_ok p s = true -> pat_class p s = "-" -> pat_ok p s = true.
Proof. unfold pat_sweep_ok. intros H Hc. exact (orb_class_elim' _ _ H Hc). Qed.
Lemma pattern_small p s : In p wpats -> In s wsubjects -> pat_class p s = "-" -> pat_ok p s = true.
Proof.
  intros Hp Hs Hc. apply pattern_L4; [|exact Hc].
  exact (forallb2_sound pat_sweep_ok wpats wsubjects pattern_sweep p s Hp Hs).
Qed.
