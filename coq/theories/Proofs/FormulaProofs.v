(* Proofs/FormulaProofs.v — value-level lemmas behind Props/C01.v *)
Require Import X2P.Base.Prelude X2P.Base.F64 X2P.Base.PyCmp X2P.Base.PyType X2P.Base.PyNum X2P.Base.PyArith X2P.Base.Str.
Require Import X2P.Model.Peg X2P.Model.Emit X2P.Gen.Grammar X2P.Spec.Formula X2P.Spec.Shape.
Open Scope Z_scope.

(* a blank operand behaves exactly as the integer 0 under + - * / and the unary signs, on either side, against every value *)
Theorem blank_is_zero o y :
  py_arith o VEmpty y = py_arith o (VInt 0) y /\ py_arith o y VEmpty = py_arith o y (VInt 0) /\
  py_neg VEmpty = py_neg (VInt 0) /\ py_pos VEmpty = py_pos (VInt 0).
Proof. repeat split; destruct y; reflexivity. Qed.
(* and Excel's side gives the blank the number 0 *)
Theorem blank_is_zero_spec o y : x_arith o VEmpty y = x_arith o (VInt 0) y /\ x_arith o y VEmpty = x_arith o y (VInt 0).
Proof. split; unfold x_arith; replace (x_to_num VEmpty) with (x_to_num (VInt 0)) by (vm_compute; reflexivity); reflexivity. Qed.

(* on doubles the emitted operators ARE Excel's: the same IEEE operation on the same operands *)
Theorem float_arith_same o f g v :
  x_arith o (VFloat f) (VFloat g) = XVal v -> py_arith o (VFloat f) (VFloat g) = Ok v.
Proof.
  unfold x_arith, py_arith. cbn [x_to_num as_int_like]. unfold arith_ff.
  destruct o; try (intros H; injection H as <-; reflexivity).
  destruct (f_is_zero g); [discriminate|]. intros H; injection H as <-; reflexivity.
Qed.

(* the integer grid: for all operands in [-12, 12] (and a few larger ones whose products stay below 2^53) Python's exact integers and Excel's doubles agree *)
Definition GRID : list Z := [-12; -11; -10; -9; -8; -7; -6; -5; -4; -3; -2; -1; 0; 1; 2; 3; 4; 5; 6; 7; 8; 9; 10; 11; 12; 100; 1000; 67108864; -94906265].
Definition OPS : list aop := [AAdd; ASub; AMul; ADiv].
Definition int_ok (o : aop) (x y : Z) : bool :=
  match x_arith o (VInt x) (VInt y) with
  | XErr _ => match py_arith o (VInt x) (VInt y) with Exc ZeroDivisionError => true | _ => false end   (* the known finding: error as exception *)
  | XSilent => true
  | r => match agree r (py_arith o (VInt x) (VInt y)) with Some b => b | None => true end
  end.
Lemma int_grid : forallb (fun o => forallb (fun x => forallb (fun y => int_ok o x y) GRID) GRID) OPS = true.
Proof. vm_compute. reflexivity. Qed.
Lemma forallb_elim' {A} (f : A -> bool) l x : forallb f l = true -> In x l -> f x = true.
Proof. intros H Hx. exact (proj1 (forallb_forall f l) H x Hx). Qed.
Theorem int_arith_grid o x y : In o OPS -> In x GRID -> In y GRID -> int_ok o x y = true.
Proof.
  intros Ho Hx Hy.
  pose proof (forallb_elim' _ _ o int_grid Ho) as H1. cbv beta in H1.
  pose proof (forallb_elim' _ _ x H1 Hx) as H2. cbv beta in H2.
  exact (forallb_elim' _ _ y H2 Hy).
Qed.

(* Python groups a juxtaposition the way the emitter relies on: examples of regroup *)
Lemma regroup_examples :
  let a := IAtom (PCell "a") in let b := IAtom (PCell "b") in let c := IAtom (PCell "c") in
  regroup [a; IOp AAdd; b; IOp AMul; c] = Some (PBin AAdd (PCell "a") (PBin AMul (PCell "b") (PCell "c"))) /\
  regroup [a; IOp ASub; b; IOp ASub; c] = Some (PBin ASub (PBin ASub (PCell "a") (PCell "b")) (PCell "c")) /\
  regroup [a; IOp ADiv; b; IOp ADiv; c] = Some (PBin ADiv (PBin ADiv (PCell "a") (PCell "b")) (PCell "c")) /\
  regroup [IOp ASub; a; IOp AMul; b] = Some (PBin AMul (PUn true (PCell "a")) (PCell "b")) /\
  regroup [a; b] = None.
Proof. repeat split; vm_compute; reflexivity. Qed.

(* ---------- numeric literals (after fix F15) ---------- *)
Lemma dec_digits s : dec_Z s = digits_Z s.
Proof. reflexivity. Qed.
Lemma sdec_signed s : sdec_Z s = signed_Z s.
Proof. destruct s; reflexivity. Qed.

(* a literal with a fraction or a negative exponent is read as q2f of its exact decimal value, for every digit string *)
Theorem literal_fraction_nearest t :
  String.eqb (grp t 2) "" = false ->
  (String.eqb (grp t 5) "" = false \/ (String.eqb (grp t 7) "" = false /\ signed_Z (grp t 7) < 0)) ->
  let '(p, q) := literal_rational (grp t 2) (grp t 5) (grp t 7) in
  literal_value t = Some (VFloat (q2f p q)).
Proof.
  intros H2 H. unfold literal_value, literal_rational. rewrite H2. cbn [negb].
  rewrite sdec_signed, !dec_digits.
  set (e := signed_Z (grp t 7)). set (n := digits_Z (grp t 2 ++ grp t 5)). set (d := 10 ^ Z.of_nat (String.length (grp t 5))).
  assert (C : negb (String.eqb (grp t 5) "") || negb (String.eqb (grp t 7) "") && (e <? 0) = true).
  { destruct H as [H|[H7 He]]; [rewrite H; reflexivity|]. rewrite H7. apply Z.ltb_lt in He. fold e in He. rewrite He. apply orb_true_r. }
  rewrite C.
  destruct (String.eqb (grp t 7) "") eqn:E7.
  - assert (e = 0) as -> by (unfold e; apply String.eqb_eq in E7; rewrite E7; reflexivity).
    cbn [Z.leb Z.compare]. replace (n * 10 ^ 0) with n by (rewrite Z.pow_0_r, Z.mul_1_r; reflexivity). reflexivity.
  - destruct (0 <=? e); reflexivity.
Qed.

(* integer literals: the grid *)
Definition int_literal_ok (i : Z) (e : Z) : bool :=
  match agree (XVal (VFloat (q2f (i * 10 ^ e) 1))) (Ok (VInt (i * 10 ^ e))) with Some b => b | None => false end.
Lemma int_literal_grid :
  forallb (fun i => forallb (fun e => int_literal_ok i e) [0; 1; 2; 3; 5; 9]) (map Z.of_nat (List.seq 0 2000)) = true.
Proof. vm_compute. reflexivity. Qed.

(* the literals of the old rebuild that were off (regression witnesses for fix F15) *)
Lemma literal_examples :
  let lit (i f e : string) := mkTok L_LiteralToken [i ++ (if String.eqb f "" then "" else "." ++ f) ++ (if String.eqb e "" then "" else "e" ++ e); ""; i;
                                                    (if String.eqb f "" then "" else "." ++ f); (if String.eqb f "" then "" else "."); f;
                                                    (if String.eqb e "" then "" else "e" ++ e); e; ""; ""; ""; ""]%string in
  literal_value (lit "3" "" "-1") = Some (VFloat 0.3) /\
  literal_value (lit "12" "034" "-2") = Some (VFloat 0.12034) /\
  literal_value (lit "1" "5" "3") = Some (VFloat 1500) /\
  literal_value (lit "007" "" "") = Some (VInt 7) /\
  literal_value (lit "1" "" "3") = Some (VInt 1000).
Proof. repeat split; vm_compute; reflexivity. Qed.
