(* Spec/Compare.v — what C10 says about the six comparison operators.
   Kinds: number, text, date/date-time, blank.  The spec is a partial function: it is silent (None)
   on pairs of different kinds other than those the statement names (blank against 0, "", FALSE,
   positive numbers, non-empty texts, dates; date against date-time). *)
Require Import X2P.Base.Prelude X2P.Base.F64 X2P.Base.PyCmp.
Open Scope Z_scope.

Definition is_zero_num (v : val) : bool :=
  match as_num v with Some n => match num_cmp n (NZ 0) with Some Eq => true | _ => false end | None => false end.

(* three-way order where the statement defines one *)
Definition xl_order (a b : val) : option comparison :=
  match a, b with
  | (VInt _ | VFloat _), (VInt _ | VFloat _) =>
      match as_num a, as_num b with Some x, Some y => num_cmp x y | _, _ => None end
  | VStr s, VStr t => Some (str_cmp (lower s) (lower t))          (* texts: case-insensitive *)
  | VDT p u, VDT q v => Some (match p ?= q with Eq => u ?= v | c => c end)
  | VDate p, VDate q => Some (p ?= q)
  | VDate p, VDT q v => Some (match p ?= q with Eq => 0 ?= v | c => c end)   (* a date = its midnight *)
  | VDT p u, VDate q => Some (match p ?= q with Eq => u ?= 0 | c => c end)
  | VEmpty, VEmpty => Some Eq
  (* blank against the kinds the statement names *)
  | VEmpty, (VInt _ | VFloat _) =>
      match as_num b with Some y => num_cmp (NZ 0) y | None => None end          (* blank counts as 0 *)
  | (VInt _ | VFloat _), VEmpty =>
      match as_num a with Some x => num_cmp x (NZ 0) | None => None end
  | VEmpty, VStr t => Some (if String.eqb t "" then Eq else Lt)
  | VStr s, VEmpty => Some (if String.eqb s "" then Eq else Gt)
  | VEmpty, VBool false => Some Eq
  | VBool false, VEmpty => Some Eq
  | VEmpty, (VDT _ _ | VDate _) => Some Lt
  | (VDT _ _ | VDate _), VEmpty => Some Gt
  | _, _ => None
  end.

Definition xl_compare (o : cmpop) (a b : val) : option bool :=
  match xl_order a b with
  | Some c => Some (op_of_cmp o (Some c))
  | None => None
  end.
