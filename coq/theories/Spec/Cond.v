(* Spec/Cond.v — what C13 says: lazy branch selection and error containment. *)
Require Import X2P.Base.Prelude X2P.Base.F64 X2P.Base.PyCmp X2P.Base.PyType X2P.Base.PyNum X2P.Base.PyArith.
Require Import X2P.Model.Compare X2P.Model.Agg X2P.Model.Cond.
Open Scope Z_scope.

(* Excel's seven error values (as the texts the runtime uses for them) *)
Definition XL_ERRORS : list string := ["#NUM!"; "#DIV/0!"; "#N/A"; "#NAME?"; "#NULL!"; "#REF!"; "#VALUE!"]%string.
Definition xl_is_error (v : val) : bool :=
  match v with VStr s => existsb (String.eqb s) XL_ERRORS | _ => false end.
(* an evaluation "fails" when it raises or yields an error value *)
Definition failed (r : res val) : bool := match r with Ok v => xl_is_error v | Exc _ => true end.

Section Spec.
  Variable frepr : float -> string.

  Fixpoint xeval (e : cexpr) : res val :=
    match e with
    | Leaf v => Ok v
    | Raise e => Exc e
    | Bin o a b => do x <- xeval a; do y <- xeval b; eval_bin frepr o x y
    | If c t f =>
        do cv <- xeval c;                                   (* only the chosen branch is evaluated *)
        if truthy cv then xeval t else match f with Some f => xeval f | None => Ok (VBool false) end
    | IfError a b =>
        let r := xeval a in
        if failed r then xeval b else r                     (* the fallback is evaluated only when needed *)
    | Ifs args =>
        (fix scan (l : list cexpr) : res val :=
           match l with
           | c :: v :: rest => do cv <- xeval c; if truthy cv then xeval v else scan rest
           | _ => Ok (VStr "#N/A")
           end) args
    | Sum args =>
        do vs <- (fix all (l : list cexpr) : res (list val) :=
                    match l with [] => Ok [] | x :: t => do v <- xeval x; do r <- all t; Ok (v :: r) end) args;
        rt_sum (only_numeric (flatten vs))
    end.
End Spec.

(* decidable side conditions used by the partial theorems *)
Definition ok_plain (r : res val) : bool := match r with Ok v => negb (xl_is_error v) && negb (match v with VList _ => true | _ => false end) | Exc _ => false end.
