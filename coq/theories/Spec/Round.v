(* Spec/Round.v — what C16 says, on exact decimals. *)
Require Import X2P.Base.Prelude X2P.Base.F64.
Open Scope Z_scope.

(* a decimal number: (-1)^neg * mant / 10^scale, scale >= 0 *)
Record dec := { dneg : bool; dmant : Z; dscale : Z }.
Definition dec_double (d : dec) : float :=
  let f := q2f (dmant d) (10 ^ dscale d) in if dneg d then PrimFloat.opp f else f.

Inductive rmode := HalfAway | Away | Toward.
(* |d| * 10^n as a fraction p/q, rounded to an integer k according to the mode *)
Definition round_units (mode : rmode) (mant scale n : Z) : Z :=
  let '(p, q) := if 0 <=? n then (mant * 10 ^ n, 10 ^ scale) else (mant, 10 ^ scale * 10 ^ (- n)) in
  let fl := p / q in let rem := p - fl * q in
  match mode with
  | Toward => fl
  | Away => if rem =? 0 then fl else fl + 1
  | HalfAway => if 2 * rem <? q then fl else fl + 1
  end.
(* the exact decimal result k / 10^n (or k * 10^-n), as the nearest double *)
Definition xl_round_gen (mode : rmode) (d : dec) (n : Z) : float :=
  let k := round_units mode (dmant d) (dscale d) n in
  let f := if 0 <=? n then q2f k (10 ^ n) else q2f (k * 10 ^ (- n)) 1 in
  if dneg d then PrimFloat.opp f else f.

(* does the decimal sit exactly half-way at position n *)
Definition is_tie (d : dec) (n : Z) : bool :=
  let '(p, q) := if 0 <=? n then (dmant d * 10 ^ n, 10 ^ dscale d) else (dmant d, 10 ^ dscale d * 10 ^ (- n)) in
  2 * (p mod q) =? q.
(* does it have digits beyond position n at all *)
Definition needs_rounding (d : dec) (n : Z) : bool :=
  let '(p, q) := if 0 <=? n then (dmant d * 10 ^ n, 10 ^ dscale d) else (dmant d, 10 ^ dscale d * 10 ^ (- n)) in
  negb (p mod q =? 0).

(* x% = x / 100 as a decimal at 15 significant digits: for the decimals of the grid (few digits) simply d/100 *)
Definition xl_percent (d : dec) : float :=
  let f := q2f (dmant d) (10 ^ (dscale d + 2)) in if dneg d then PrimFloat.opp f else f.

(* numeric equality of doubles (+0 = -0) *)
Definition f_numeq (a b : float) : bool := match cmp_f_f a b with Some Eq => true | _ => false end.
