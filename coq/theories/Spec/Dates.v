(* Spec/Dates.v — what C15 says, over the proleptic Gregorian calendar. *)
Require Import X2P.Base.Prelude X2P.Base.Calendar.
Open Scope Z_scope.

(* DATE(y,m,d) = 1 January of year y plus (m-1) months plus (d-1) days *)
Definition xl_date_ord (y m d : Z) : Z :=
  let t := y * 12 + (m - 1) in ord_of_ymd (t / 12) (t mod 12 + 1) 1 + (d - 1).

(* whole months with clamping *)
Definition xl_edate (y m d k : Z) : Z * Z * Z := add_months y m d k.
Definition xl_eomonth (y m k : Z) : Z * Z * Z :=
  let '(y', m', _) := add_months y m 1 k in (y', m', dim y' m').

(* complete months between two dates *)
Definition xl_months (y1 m1 d1 y2 m2 d2 : Z) : Z := 12 * (y2 - y1) + (m2 - m1) - (if d2 <? d1 then 1 else 0).

(* Monday..Friday dates of [a,b] that are not holidays *)
Fixpoint zrange (fuel : nat) (a : Z) : list Z := match fuel with O => [] | S f => a :: zrange f (a + 1) end.
Definition workdays (a b : Z) (hol : list Z) : Z :=
  Z.of_nat (List.length (filter (fun t => (weekday t <? 5) && negb (existsb (Z.eqb t) hol))
                                (zrange (Z.to_nat (b - a + 1)) a))).
