(* Spec/Lookup.v — what C14 says, on integer-keyed tables. *)
Require Import X2P.Base.Prelude.
Open Scope Z_scope.

(* a table row: key and the remaining cells of the row *)
Definition row := (Z * list val)%type.
Definition row_cells (r : row) : list val := VInt (fst r) :: snd r.
(* the entry in 1-based column col of a row *)
Definition entry (r : row) (col : Z) : option val := nth_error (row_cells r) (Z.to_nat (col - 1)).

Definition NAv : val := VStr "#N/A".

(* exact: the first row whose key equals k *)
Definition first_eq (k : Z) (t : list row) : option row := find (fun r => fst r =? k) t.

(* approximate on ascending keys: the last row whose key is <= k *)
Definition last_le (k : Z) (t : list row) : option row :=
  last (map Some (filter (fun r => fst r <=? k) t)) None.

Definition spec_vlookup_exact (k : Z) (t : list row) (col : Z) : option val :=
  match first_eq k t with Some r => entry r col | None => Some NAv end.
Definition spec_vlookup_approx (k : Z) (t : list row) (col : Z) : option val :=
  match last_le k t with Some r => entry r col | None => Some NAv end.

(* positions (1-based) *)
Fixpoint first_pos (k : Z) (keys : list Z) (i : Z) : option Z :=
  match keys with [] => None | x :: t => if x =? k then Some (i + 1) else first_pos k t (i + 1) end.
Definition count_le (k : Z) (keys : list Z) : Z := Z.of_nat (List.length (filter (fun x => x <=? k) keys)).

Definition spec_match_exact (k : Z) (keys : list Z) : val :=
  match first_pos k keys 0 with Some p => VInt p | None => NAv end.
(* ascending keys: position of the last key <= k = number of keys <= k *)
Definition spec_match_approx (k : Z) (keys : list Z) : val :=
  if count_le k keys =? 0 then NAv else VInt (count_le k keys).

(* bijective base 26 *)
Definition letter_val (c : ascii) : Z := Z.of_N (N_of_ascii c) - 64.
Fixpoint col_of_letters_from (s : string) (acc : Z) : Z :=
  match s with EmptyString => acc | String c t => col_of_letters_from t (acc * 26 + letter_val c) end.
Definition col_of_letters (s : string) : Z := col_of_letters_from s 0.
Fixpoint all_AZ (s : string) : bool :=
  match s with EmptyString => true | String c t => is_upper c && all_AZ t end.

(* an independently written column-letter function (N arithmetic, most significant letter found last) *)
Fixpoint letters_f (fuel : nat) (c : N) (acc : string) : string :=
  match fuel with O => acc | S f =>
    if (c =? 0)%N then acc else
    let c1 := (c - 1)%N in
    letters_f f (c1 / 26)%N (String (ascii_of_N (65 + c1 mod 26)) acc)
  end.
Definition letters_of_col (c : N) : string := letters_f 12 c EmptyString.

(* ---------- general Excel-side spec on mixed keys (numbers and texts), executable ---------- *)
Require Import X2P.Base.F64 X2P.Base.PyCmp.

Inductive xkey := KNum (n : num) | KText (s : string) | KOther.
Definition xkey_of (v : val) : xkey :=
  match v with
  | VInt z => KNum (NZ z) | VFloat f => KNum (NF f) | VStr s => KText (lower s) | _ => KOther
  end.
Definition xkey_cmp (a b : xkey) : option comparison :=
  match a, b with
  | KNum x, KNum y => num_cmp x y
  | KText s, KText t => Some (str_cmp s t)
  | _, _ => None
  end.
Definition xkey_eq (a b : xkey) : bool := match xkey_cmp a b with Some Eq => true | _ => false end.
Definition xkey_le (a b : xkey) : bool := match xkey_cmp a b with Some Eq | Some Lt => true | _ => false end.

Definition row_key (r : val) : xkey := match r with VList (k :: _) => xkey_of k | _ => KOther end.
Definition row_entry (r : val) (col : Z) : option val :=
  match r with VList l => nth_error l (Z.to_nat (col - 1)) | _ => None end.

Definition gspec_vlookup (lv : val) (t : list val) (col : Z) (approx : bool) : option val :=
  let k := xkey_of lv in
  if approx then
    match last (map Some (filter (fun r => xkey_le (row_key r) k) t)) None with
    | Some r => row_entry r col | None => Some NAv end
  else
    match find (fun r => xkey_eq (row_key r) k) t with
    | Some r => row_entry r col | None => Some NAv end.

Fixpoint gfirst_pos (k : xkey) (rows : list val) (i : Z) : option Z :=
  match rows with [] => None | r :: t => if xkey_eq (row_key r) k then Some (i + 1) else gfirst_pos k t (i + 1) end.
Fixpoint glast_pos (k : xkey) (rows : list val) (i : Z) (acc : option Z) : option Z :=
  match rows with [] => acc | r :: t => glast_pos k t (i + 1) (if xkey_eq (row_key r) k then Some (i + 1) else acc) end.
Fixpoint glast_le_pos (k : xkey) (rows : list val) (i : Z) (acc : option Z) : option Z :=
  match rows with [] => acc | r :: t => glast_le_pos k t (i + 1) (if xkey_le (row_key r) k then Some (i + 1) else acc) end.
Definition pos_val (p : option Z) : val := match p with Some p => VInt p | None => NAv end.

Definition gspec_match (lv : val) (arr : list val) (mt : Z) : option val :=
  if mt =? 0 then Some (pos_val (gfirst_pos (xkey_of lv) arr 0))
  else if 0 <? mt then Some (pos_val (glast_le_pos (xkey_of lv) arr 0 None))
  else None.
Definition strictly_sorted (t : list val) (descending : bool) : bool :=
  (fix go (l : list val) : bool :=
     match l with
     | a :: ((b :: _) as t') =>
         (if descending then xkey_le (row_key b) (row_key a) else xkey_le (row_key a) (row_key b)) && negb (xkey_eq (row_key a) (row_key b)) && go t'
     | _ => true
     end) t.
(* XMATCH exact: first match forward, LAST match (position in the original array) when searching from the end *)
Definition gspec_xmatch (lv : val) (arr : list val) (mm sm : Z) : option val :=
  if negb (mm =? 0) then None
  else if sm =? 1 then Some (pos_val (gfirst_pos (xkey_of lv) arr 0))
  else if sm =? -1 then Some (pos_val (glast_pos (xkey_of lv) arr 0 None))
  (* binary modes: defined on strictly sorted keys (ascending for 2, descending for -2): the position of the exact match *)
  else if (sm =? 2) && strictly_sorted arr false then Some (pos_val (gfirst_pos (xkey_of lv) arr 0))
  else if (sm =? -2) && strictly_sorted arr true then Some (pos_val (gfirst_pos (xkey_of lv) arr 0))
  else None.

Definition keys_ascending (t : list val) : bool :=
  (fix go (l : list val) : bool :=
     match l with
     | a :: ((b :: _) as t') => xkey_le (row_key a) (row_key b) && go t'
     | _ => true
     end) t.
Definition keys_modelled (t : list val) : bool :=
  forallb (fun r => match row_key r with KOther => false | _ => true end) t.

(* INDEX(area, r, c) on a rectangular area *)
Definition gspec_index (area : list val) (r c : Z) : option val :=
  if (r <? 1) || (c <? 1) then None
  else match nth_error area (Z.to_nat (r - 1)) with
       | Some (VList row) => match nth_error row (Z.to_nat (c - 1)) with Some x => Some x | None => Some (VStr "#REF!") end
       | _ => Some (VStr "#REF!")
       end.
