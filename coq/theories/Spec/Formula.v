(* Spec/Formula.v — what C01 says: Excel's reading of an operator formula (precedence  % > unary sign > * / > + - > & > comparisons,
   equal levels to the left) and Excel's value of it.  Written independently of the translator: a precedence-climbing reader over the
   lexer's tokens and an evaluator over Excel values. *)
Require Import X2P.Base.Prelude X2P.Base.F64 X2P.Base.PyCmp X2P.Base.PyType X2P.Base.PyNum X2P.Base.PyArith X2P.Base.Str.
Require Import X2P.Model.Peg X2P.Gen.Grammar X2P.Spec.Compare.
Open Scope string_scope.
Open Scope Z_scope.

Inductive xexpr :=
  | XNum (p q : Z)                 (* the decimal text of a numeric literal as the rational p/q *)
  | XText (s : string) | XBool (b : bool)
  | XCell (name : string)
  | XNeg (e : xexpr) | XPos (e : xexpr) | XPct (e : xexpr)
  | XBin (o : aop) (a b : xexpr) | XCat (a b : xexpr) | XCmp (o : cmpop) (a b : xexpr).

Definition sgrp (t : tok) (i : nat) : string := nth i (tpay t) "".
Definition dec_Z (s : string) : Z := fold_left (fun acc c => acc * 10 + (Z.of_N (N_of_ascii c) - 48)) (list_of_string s) 0.
Definition sdec_Z (s : string) : Z :=
  match s with String c r => if (N_of_ascii c =? 45)%N then - dec_Z r else dec_Z s | EmptyString => 0 end.
(* I[.F][eE] as an exact rational *)
Definition literal_rational (i f e : string) : Z * Z :=
  let n := dec_Z (i ++ f) in let d := 10 ^ Z.of_nat (String.length f) in
  let x := sdec_Z e in
  if String.eqb e "" then (n, d) else if 0 <=? x then (n * 10 ^ x, d) else (n, d * 10 ^ (- x)).

Definition atom_of (t : tok) : option xexpr :=
  if Nat.eqb (tclass t) L_LiteralToken then
    if negb (String.eqb (sgrp t 2) "") then let '(p, q) := literal_rational (sgrp t 2) (sgrp t 5) (sgrp t 7) in Some (XNum p q)
    else if negb (String.eqb (sgrp t 8) "") then Some (XBool true)
    else if negb (String.eqb (sgrp t 10) "") then Some (XBool false)
    else Some (XText (sgrp t 1))
  else if Nat.eqb (tclass t) L_CellIdentifierToken then
    if String.eqb (sgrp t 3) "" && String.eqb (sgrp t 4) "" then Some (XCell (sgrp t 5 ++ sgrp t 6)) else None
  else None.

Definition cls (t : tok) := tclass t.
Definition is_c (c : nat) (t : tok) : bool := Nat.eqb (tclass t) c.
Definition cmp_of (t : tok) : option cmpop :=
  if is_c L_EqOperatorToken t then Some OEq else if is_c L_NotEqOperatorToken t then Some ONe
  else if is_c L_GtOperatorToken t then Some OGt else if is_c L_GtOrEqualOperatorToken t then Some OGe
  else if is_c L_LtOperatorToken t then Some OLt else if is_c L_LtOrEqualOperatorToken t then Some OLe else None.

(* precedence climbing, one function per level, on fuel *)
Fixpoint x_pct (e : xexpr) (l : list tok) : xexpr * list tok :=
  match l with t :: r => if is_c L_PercentToken t then x_pct (XPct e) r else (e, l) | [] => (e, l) end.

Fixpoint x_unary (fuel : nat) (l : list tok) : option (xexpr * list tok) :=
  match fuel with O => None | S f =>
  match l with
  | [] => None
  | t :: r =>
      if is_c L_MinusOperatorToken t then match x_unary f r with Some (e, r') => Some (XNeg e, r') | None => None end
      else if is_c L_PlusOperatorToken t then match x_unary f r with Some (e, r') => Some (XPos e, r') | None => None end
      else if is_c L_BracketStartToken t then
        match x_cmp f r with
        | Some (e, c :: r') => if is_c L_BracketFinishToken c then Some (x_pct e r') else None
        | _ => None end
      else match atom_of t with Some a => Some (x_pct a r) | None => None end
  end end
with x_mul_loop (fuel : nat) (acc : xexpr) (l : list tok) : option (xexpr * list tok) :=
  match fuel with O => None | S f =>
  match l with
  | t :: r =>
      if is_c L_MultiplicationOperatorToken t then match x_unary f r with Some (e, r') => x_mul_loop f (XBin AMul acc e) r' | None => None end
      else if is_c L_DivOperatorToken t then match x_unary f r with Some (e, r') => x_mul_loop f (XBin ADiv acc e) r' | None => None end
      else Some (acc, l)
  | [] => Some (acc, l)
  end end
with x_mul (fuel : nat) (l : list tok) : option (xexpr * list tok) :=
  match fuel with O => None | S f => match x_unary f l with Some (e, r) => x_mul_loop f e r | None => None end end
with x_add_loop (fuel : nat) (acc : xexpr) (l : list tok) : option (xexpr * list tok) :=
  match fuel with O => None | S f =>
  match l with
  | t :: r =>
      if is_c L_PlusOperatorToken t then match x_mul f r with Some (e, r') => x_add_loop f (XBin AAdd acc e) r' | None => None end
      else if is_c L_MinusOperatorToken t then match x_mul f r with Some (e, r') => x_add_loop f (XBin ASub acc e) r' | None => None end
      else Some (acc, l)
  | [] => Some (acc, l)
  end end
with x_add (fuel : nat) (l : list tok) : option (xexpr * list tok) :=
  match fuel with O => None | S f => match x_mul f l with Some (e, r) => x_add_loop f e r | None => None end end
with x_cat_loop (fuel : nat) (acc : xexpr) (l : list tok) : option (xexpr * list tok) :=
  match fuel with O => None | S f =>
  match l with
  | t :: r =>
      if is_c L_AmpersandToken t then match x_add f r with Some (e, r') => x_cat_loop f (XCat acc e) r' | None => None end
      else Some (acc, l)
  | [] => Some (acc, l)
  end end
with x_cat (fuel : nat) (l : list tok) : option (xexpr * list tok) :=
  match fuel with O => None | S f => match x_add f l with Some (e, r) => x_cat_loop f e r | None => None end end
with x_cmp_loop (fuel : nat) (acc : xexpr) (l : list tok) : option (xexpr * list tok) :=
  match fuel with O => None | S f =>
  match l with
  | t :: r =>
      match cmp_of t with
      | Some o => match x_cat f r with Some (e, r') => x_cmp_loop f (XCmp o acc e) r' | None => None end
      | None => Some (acc, l)
      end
  | [] => Some (acc, l)
  end end
with x_cmp (fuel : nat) (l : list tok) : option (xexpr * list tok) :=
  match fuel with O => None | S f => match x_cat f l with Some (e, r) => x_cmp_loop f e r | None => None end end.

(* the formula after "=": Some e when it is a well-formed operator formula *)
Definition xparse (ts : list tok) : option xexpr :=
  match x_cmp (20 * List.length ts + 48) ts with Some (e, []) => Some e | _ => None end.     (* fuel: never the limiting factor (Proofs/FormulaSpecGrammar.v) *)

(* ---------- Excel's value ---------- *)
Inductive xres := XVal (v : val) | XErr (code : string) | XSilent.     (* XSilent: the spec does not pin the result *)

Definition MAX_EXACT : Z := 2 ^ 53.
(* numbers are doubles; a text that reads as a number is coerced in arithmetic; blank counts as 0; TRUE/FALSE as 1/0 *)
Definition x_to_num (v : val) : xres :=
  match v with
  | VFloat f => XVal (VFloat f)
  | VInt z => if Z.abs z <=? MAX_EXACT then XVal (VFloat (z2f z)) else XSilent
  | VBool b => XVal (VFloat (if b then one else zero))
  | VEmpty => XVal (VFloat zero)
  | VStr s =>
      let l := list_of_string s in
      let isd (c : ascii) := ((48 <=? N_of_ascii c) && (N_of_ascii c <=? 57))%N in
      if negb (existsb isd l) then XErr "#VALUE!"                        (* a text without any digit is no number *)
      else if forallb isd l && (Z.of_nat (List.length l) <? 15) then XVal (VFloat (z2f (dec_Z s)))   (* plain digits: coerced *)
      else XSilent                                                       (* other spellings (dates, signs, blanks ...): not pinned here *)
  | _ => XSilent
  end.
Definition x_arith (o : aop) (a b : val) : xres :=
  match x_to_num a, x_to_num b with
  | XVal (VFloat f), XVal (VFloat g) =>
      match o with
      | AAdd => XVal (VFloat (PrimFloat.add f g)) | ASub => XVal (VFloat (PrimFloat.sub f g))
      | AMul => XVal (VFloat (PrimFloat.mul f g))
      | ADiv => if f_is_zero g then XErr "#DIV/0!" else XVal (VFloat (PrimFloat.div f g))
      end
  | XErr c, _ => XErr c
  | _, XErr c => XErr c
  | _, _ => XSilent
  end.
(* text of a value in a concatenation *)
Definition x_text (v : val) : option string :=
  match v with
  | VStr s => Some s
  | VBool b => Some (if b then "TRUE" else "FALSE")
  | VEmpty => Some ""
  | VInt z => if Z.abs z <? 10 ^ 15 then Some (str_of_Z z) else None
  | VFloat f => match f_trunc f with
                | Some z => if (match cmp_Z_f z f with Some Eq => true | _ => false end) && (Z.abs z <? 10 ^ 15) then Some (str_of_Z z) else None
                | None => None end                          (* fractions: General format, not pinned here *)
  | _ => None
  end.

Section XEval.
  Variable env : string -> val.
  Fixpoint xeval (e : xexpr) : xres :=
    match e with
    | XNum p q => XVal (VFloat (q2f p q))                   (* the double nearest to the decimal text *)
    | XText s => XVal (VStr s)
    | XBool b => XVal (VBool b)
    | XCell n => XVal (env n)
    | XNeg a => match xeval a with XVal v => x_arith ASub (VFloat zero) v | r => r end
    | XPos a => xeval a
    | XPct a => match xeval a with XVal v => x_arith ADiv v (VFloat (z2f 100)) | r => r end
    | XBin o a b => match xeval a, xeval b with
                    | XVal x, XVal y => x_arith o x y
                    | XErr c, _ => XErr c | _, XErr c => XErr c | _, _ => XSilent end
    | XCat a b => match xeval a, xeval b with
                  | XVal x, XVal y => match x_text x, x_text y with Some s, Some t => XVal (VStr (s ++ t)) | _, _ => XSilent end
                  | XErr c, _ => XErr c | _, XErr c => XErr c | _, _ => XSilent end
    | XCmp o a b => match xeval a, xeval b with
                    | XVal x, XVal y => match xl_compare o x y with Some r => XVal (VBool r) | None => XSilent end
                    | XErr c, _ => XErr c | _, XErr c => XErr c | _, _ => XSilent end
    end.
End XEval.

(* agreement of an implementation outcome with Excel's value: numbers by numeric value, texts and booleans exactly, blank as blank;
   Some true / Some false / None (silent) *)
Definition num_agree (f : float) (w : val) : bool :=
  match w with
  | VFloat g => match cmp_f_f f g with Some Eq => true | _ => false end
  | VInt z => match cmp_Z_f z f with Some Eq => true | _ => false end
  | _ => false
  end.
Definition agree (x : xres) (r : res val) : option bool :=
  match x with
  | XSilent => None
  | XErr c => Some (match r with Ok (VStr s) => String.eqb s c | _ => false end)
  | XVal v =>
      Some (match r with
            | Exc _ => false
            | Ok w => match v with
                      | VFloat f => num_agree f w
                      | VInt z => num_agree (z2f z) w
                      | VStr s => match w with VStr t => String.eqb s t | _ => false end
                      | VBool b => match w with VBool c => Bool.eqb b c | _ => false end
                      | VEmpty => match w with VEmpty => true | _ => num_agree zero w end      (* a formula that yields a blank shows 0 *)
                      | _ => false
                      end
            end)
  end.
