(* Spec/Agg.v — what C11 says: folds over the numeric cells of the arguments. *)
Require Import X2P.Base.Prelude X2P.Base.F64 X2P.Base.PyCmp X2P.Base.PyType X2P.Base.PyNum.
Require Import X2P.Model.Agg.
Open Scope Z_scope.

(* an area = rows of cells (row-major); a scalar argument = one value *)
Inductive xarg := XArea (rows : list (list val)) | XScalar (v : val).

Definition is_num (v : val) : bool := match v with VInt _ | VFloat _ => true | _ => false end.
Definition cells_of (a : xarg) : list val := match a with XArea rows => List.concat rows | XScalar v => [v] end.
(* numeric cells, once per mention, in argument order then row-major *)
Definition numeric_cells (args : list xarg) : list val := filter is_num (flat_map cells_of args).
Definition all_cells (args : list xarg) : list val := flat_map cells_of args.

Definition xsum (args : list xarg) : res val := py_sum (numeric_cells args).
Definition xcount (args : list xarg) : Z := Z.of_nat (List.length (numeric_cells args)).
Definition xaverage (args : list xarg) : res val :=
  do s <- xsum args; py_truediv s (VInt (xcount args)).
Definition xcountblank (args : list xarg) : Z :=
  Z.of_nat (List.length (filter (fun v => match v with VEmpty => true | VStr s => String.eqb s "" | _ => false end)
                                (all_cells args))).
Definition xand (args : list xarg) : bool := forallb truthy (all_cells args).
Definition xor (args : list xarg) : bool := existsb truthy (all_cells args).

(* integer data: exact folds *)
Definition zsum (l : list Z) : Z := fold_right Z.add 0 l.
Definition is_least (m : Z) (l : list Z) : Prop := In m l /\ forall x, In x l -> m <= x.
Definition is_greatest (m : Z) (l : list Z) : Prop := In m l /\ forall x, In x l -> x <= m.

(* the area value the code sees for rows of cells *)
Definition area_val (rows : list (list val)) : val := VList (map VList rows).
Definition arg_of_xarg (a : xarg) : arg :=
  match a with XArea rows => AArea (area_val rows) | XScalar v => AExpr v end.
