(* Spec/Text.v — what C17 says: the substring algebra, SEARCH with Excel wildcards. *)
Require Import X2P.Base.Prelude X2P.Base.Str.
Open Scope Z_scope.

Definition chars := list_of_string.

Definition xl_left (t : string) (n : Z) : option string :=
  if n <? 0 then None else Some (string_of_list (firstn (Z.to_nat n) (chars t))).
Definition xl_right (t : string) (n : Z) : option string :=
  if n <? 0 then None
  else Some (string_of_list (skipn (List.length (chars t) - Z.to_nat n) (chars t))).
Definition xl_mid (t : string) (k n : Z) : option string :=
  if (k <? 1) || (n <? 0) then None
  else Some (string_of_list (firstn (Z.to_nat n) (skipn (Z.to_nat (k - 1)) (chars t)))).

(* Excel wildcard patterns: ? one character, * any run, ~ escapes the next ? * or ~ *)
Inductive wtok := WLit (c : ascii) | WOne | WStar.
Definition is_q c := (N_of_ascii c =? 63)%N.
Definition is_star c := (N_of_ascii c =? 42)%N.
Definition is_tilde c := (N_of_ascii c =? 126)%N.
Fixpoint wparse (l : list ascii) : list wtok :=
  match l with
  | [] => []
  | c :: t =>
      if is_tilde c then
        match t with
        | d :: t' => if is_q d || is_star d || is_tilde d then WLit d :: wparse t' else WLit c :: wparse t
        | [] => [WLit c]
        end
      else if is_q c then WOne :: wparse t
      else if is_star c then WStar :: wparse t
      else WLit c :: wparse t
  end.

Definition ci_eq (a b : ascii) : bool := ascii_eqb (lower_ascii a) (lower_ascii b).

(* does the pattern match some prefix of s *)
Fixpoint wprefix (p : list wtok) (s : list ascii) {struct p} : bool :=
  match p with
  | [] => true
  | WLit c :: p' => match s with x :: s' => ci_eq c x && wprefix p' s' | [] => false end
  | WOne :: p' => match s with _ :: s' => wprefix p' s' | [] => false end
  | WStar :: p' =>
      (fix star (s : list ascii) : bool :=
         wprefix p' s || match s with _ :: s' => star s' | [] => false end) s
  end.

(* SEARCH(find, within, start): least 1-based i >= start with an occurrence at i *)
Fixpoint first_occ (p : list wtok) (s : list ascii) (i : Z) : option Z :=
  if wprefix p s then Some i
  else match s with [] => None | _ :: t => first_occ p t (i + 1) end.
Definition xl_search (f within : string) (start : Z) : option Z :=
  let l := chars within in
  if (start <? 1) || (Z.of_nat (List.length l) <? start) then None
  else first_occ (wparse (chars f)) (skipn (Z.to_nat (start - 1)) l) start.
