(* Spec/Safety.v — what C19 says about call syntax. *)
Require Import X2P.Base.Prelude X2P.Base.Str.
Open Scope Z_scope.

Definition is_ident (c : ascii) : bool := is_upper c || is_lower c || is_digit c || (N_of_ascii c =? 95)%N.
Definition is_open (c : ascii) : bool := (N_of_ascii c =? 40)%N.
Definition is_close (c : ascii) : bool := (N_of_ascii c =? 41)%N.

(* identifiers (maximal runs of identifier characters) immediately followed by "(" whose bracket is closed later on the same line *)
Fixpoint has_close (l : list ascii) : bool :=
  match l with [] => false | c :: t => if (N_of_ascii c =? 10)%N then false else is_close c || has_close t end.
Fixpoint calls (l : list ascii) (cur : list ascii) : list (list ascii) :=
  match l with
  | [] => []
  | c :: t =>
      if is_ident c then calls t (cur ++ [c])
      else if is_open c then
        (match cur with [] => [] | _ => if has_close t then [cur] else [] end) ++ calls t []
      else calls t []
  end.
Definition call_idents (s : string) : list (list ascii) := calls (list_of_string s) [].
Definition all_upper (id : list ascii) : bool := forallb is_upper id.

(* Some true: must be listed; Some false: must not be listed; None: the statement does not decide *)
Definition must_list (s : string) : option bool :=
  let ids := call_idents s in
  match ids with
  | [] => Some false
  | _ => if forallb all_upper ids then Some false
         else if existsb all_upper ids then None
         else Some true
  end.

(* defect class of the unchanged tree: a call whose identifier is not all upper-case but ends in an upper-case letter
   (the exemption regex is unanchored) *)
Definition upper_suffix (s : string) : bool :=
  existsb (fun id => negb (all_upper id) && match rev id with c :: _ => is_upper c | [] => false end) (call_idents s).
