(* Spec/Crit.v — what C12 says: which cells a criterion accepts, and the conditional folds. *)
Require Import X2P.Base.Prelude X2P.Base.F64 X2P.Base.PyCmp X2P.Base.PyType X2P.Base.PyNum X2P.Base.Str.
Require Import X2P.Model.Agg X2P.Model.Crit X2P.Spec.Text.
Open Scope string_scope.
Open Scope Z_scope.

(* whole-cell wildcard match, case-insensitive *)
Fixpoint wmatch (p : list wtok) (s : list ascii) {struct p} : bool :=
  match p with
  | [] => match s with [] => true | _ => false end
  | WLit c :: p' => match s with x :: s' => ci_eq c x && wmatch p' s' | [] => false end
  | WOne :: p' => match s with _ :: s' => wmatch p' s' | [] => false end
  | WStar :: p' =>
      (fix star (s : list ascii) : bool :=
         wmatch p' s || match s with _ :: s' => star s' | [] => false end) s
  end.
Definition has_wild (t : string) : bool :=
  existsb (fun k => match k with WOne | WStar => true | _ => false end) (wparse (chars t)).

(* the criterion as Excel sees it: a number, or a text *)
Inductive xcrit := XNum (n : num) | XText (t : string).

Definition num_of_val (v : val) : option num := match v with VInt z => Some (NZ z) | VFloat f => Some (NF f) | _ => None end.
Definition text_is_num (t : string) : option num :=
  match int_of_string t with Ok z => Some (NZ z)
  | Exc _ => match float_of_string t with Ok f => Some (NF f) | Exc _ => None end end.

(* split a leading comparison operator off a criterion text *)
Definition split_op (t : string) : option (cmpop * string) :=
  let pre (p : string) := prefix_l (list_of_string p) (list_of_string t) in
  let rest (k : Z) := str_slice t k (slen t) in
  if pre ">=" then Some (OGe, rest 2) else if pre "<=" then Some (OLe, rest 2)
  else if pre "<>" then Some (ONe, rest 2) else if pre ">" then Some (OGt, rest 1)
  else if pre "<" then Some (OLt, rest 1) else if pre "=" then Some (OEq, rest 1) else None.

(* None = the statement does not decide this (criterion, cell) pair *)
Definition text_eq_crit (t : string) (x : val) : option bool :=
  match x with
  | VStr s => Some (wmatch (wparse (chars t)) (chars s))
  | VEmpty => Some (String.eqb t "")
  | VInt _ | VFloat _ => Some false
  | _ => None
  end.
Definition num_op_crit (o : cmpop) (n : num) (x : val) : option bool :=
  match x with
  | VInt _ | VFloat _ => match num_of_val x with Some a => Some (op_of_cmp o (num_cmp a n)) | None => None end
  | VStr _ | VEmpty => Some (match o with ONe => true | _ => false end)     (* text and blank never satisfy = or an ordering *)
  | _ => None
  end.

Definition xl_accepts (c : xcrit) (x : val) : option bool :=
  match c with
  | XNum n => num_op_crit OEq n x
  | XText t =>
      match split_op t with
      | Some (o, rest) =>
          match text_is_num rest with
          | Some n => num_op_crit o n x
          | None => match o with
                    | OEq => text_eq_crit rest x
                    | ONe => option_map negb (text_eq_crit rest x)
                    | _ => None
                    end
          end
      | None => match text_is_num t with
                | Some n => None                       (* numeric-looking text: matches numbers and texts alike; left undecided *)
                | None => text_eq_crit t x
                end
      end
  end.

(* the criterion value of a formula argument *)
Definition text_form (v : val) : option string :=
  match v with VStr s => Some s | VInt z => Some (str_of_Z z) | VEmpty => Some "" | _ => None end.
Definition xcrit_of (k : ksyn) : option xcrit :=
  match k with
  | KNum v | KExpr v => match v with
                        | VInt _ | VFloat _ => option_map XNum (num_of_val v)
                        | VStr s => Some (XText s)
                        | _ => None end
  | KText s | KPat s => Some (XText s)
  | KTextAmp s v => option_map (fun t => XText (s ++ t)) (text_form v)
  end.

(* positions accepted by every (range, criterion) pair; None when some pair is undecided *)
Fixpoint all_some (l : list (option bool)) : option (list bool) :=
  match l with [] => Some [] | Some b :: t => option_map (cons b) (all_some t) | None :: _ => None end.
Fixpoint xl_marks (pairs : list (list val * xcrit)) (marks : list bool) : option (list bool) :=
  match pairs with
  | [] => Some marks
  | (r, c) :: rest =>
      match all_some (map (xl_accepts c) r) with
      | Some a => xl_marks rest (map (fun '(m, b) => (m && b)%bool) (combine marks a))
      | None => None
      end
  end.
Definition is_num (v : val) : bool := match v with VInt _ | VFloat _ => true | _ => false end.
