(* Spec/Refs.v — what C02 says a reference denotes. *)
Require Import X2P.Base.Prelude X2P.Spec.Lookup.
Open Scope Z_scope.

(* a reference: optional sheet title, 1-based columns and rows; whole-column form when the rows are absent *)
Record xref := { x_sheet : option string; x_c1 : Z; x_r1 : option Z; x_c2 : Z; x_r2 : option Z }.

Fixpoint zseq (n : nat) (a : Z) : list Z := match n with O => [] | S k => a :: zseq k (a + 1) end.
Definition zspan (a b : Z) : list Z := zseq (Z.to_nat (b - a + 1)) a.

(* the cells of the area as 0-based (sheet, column, row), row-major; used_rows = rows of the sheet's used range *)
Definition denote (sheet_index : string -> option Z) (own : Z) (used_rows : Z -> Z) (x : xref) : option (list (list (Z * Z * Z))) :=
  match (match x_sheet x with Some n => sheet_index n | None => Some own end) with
  | None => None                                                            (* unknown sheet: rejected *)
  | Some s =>
      let '(r1, r2) := match x_r1 x, x_r2 x with
                       | Some a, Some b => (a, b)
                       | _, _ => (1, used_rows s)
                       end in
      Some (map (fun r => map (fun c => (s, c - 1, r - 1)) (zspan (x_c1 x) (x_c2 x))) (zspan r1 r2))
  end.
