(* Spec/Shape.v — the grouping of a formula, abstracted from both sides: Excel's reading (xexpr) and Python's reading of the emitted text
   (pyexpr), brought to one normal form in which only genuinely different groupings differ:
     (-a)*b = -(a*b), (-a)/b = -(a/b) (exact in IEEE arithmetic), likewise for a unary + ;  & is associative ;  the 15-digit normalisation wrapper is
     transparent ;  x% = x/100 (also when the formula itself divides by 100). *)
Require Import X2P.Base.Prelude X2P.Base.F64 X2P.Base.PyCmp X2P.Base.PyArith X2P.Model.Round X2P.Model.Emit X2P.Spec.Formula.
Open Scope Z_scope.

Inductive shape :=
  | SNum (f : float) | SText (s : string) | SBool (b : bool) | SCell (n : string)
  | SNeg (a : shape) | SPos (a : shape) | SPct (a : shape)
  | SBin (o : aop) (a b : shape) | SCat (a b : shape) | SCmp (o : cmpop) (a b : shape)
  | SBad.

Definition aop_eqb (a b : aop) : bool :=
  match a, b with AAdd, AAdd | ASub, ASub | AMul, AMul | ADiv, ADiv => true | _, _ => false end.
Definition cmpop_eqb (a b : cmpop) : bool :=
  match a, b with OLt, OLt | OLe, OLe | OGt, OGt | OGe, OGe | OEq, OEq | ONe, ONe => true | _, _ => false end.
Fixpoint shape_eqb (a b : shape) : bool :=
  match a, b with
  | SNum f, SNum g => f_eqb (normalize15 f) (normalize15 g)      (* numeric atoms up to 15 significant digits: grouping, not literal exactness *)
  | SText s, SText t => String.eqb s t
  | SBool x, SBool y => Bool.eqb x y
  | SCell n, SCell m => String.eqb n m
  | SNeg x, SNeg y | SPos x, SPos y | SPct x, SPct y => shape_eqb x y
  | SBin o x1 x2, SBin p y1 y2 => aop_eqb o p && shape_eqb x1 y1 && shape_eqb x2 y2
  | SCat x1 x2, SCat y1 y2 => shape_eqb x1 y1 && shape_eqb x2 y2
  | SCmp o x1 x2, SCmp p y1 y2 => cmpop_eqb o p && shape_eqb x1 y1 && shape_eqb x2 y2
  | _, _ => false
  end.

Definition is_muldiv (o : aop) : bool := match o with AMul | ADiv => true | _ => false end.
(* smart constructors of the normal form *)
Fixpoint mk_pct (a : shape) : shape := match a with SNeg a' => SNeg (mk_pct a') | SPos a' => SPos (mk_pct a') | _ => SPct a end.
Fixpoint pull_signs (o : aop) (a b : shape) : shape :=
  match a with SNeg a' => SNeg (pull_signs o a' b) | SPos a' => SPos (pull_signs o a' b) | _ => SBin o a b end.
Definition is_num100 (b : shape) : bool := match b with SNum f => f_eqb f (z2f 100) | _ => false end.
Definition mk_bin (o : aop) (a b : shape) : shape :=
  if aop_eqb o ADiv && is_num100 b then mk_pct a           (* x/100 and x% are one thing *)
  else if is_muldiv o then pull_signs o a b else SBin o a b.
Fixpoint mk_cat_r (a : shape) (b : shape) : shape :=       (* (x & y) & b  ->  x & (y & b) *)
  match a with SCat x y => SCat x (mk_cat_r y b) | _ => SCat a b end.

Fixpoint shape_x (e : xexpr) : shape :=
  match e with
  | XNum p q => SNum (q2f p q) | XText s => SText s | XBool b => SBool b | XCell n => SCell n
  | XNeg a => SNeg (shape_x a) | XPos a => SPos (shape_x a) | XPct a => mk_pct (shape_x a)
  | XBin o a b => mk_bin o (shape_x a) (shape_x b)
  | XCat a b => mk_cat_r (shape_x a) (shape_x b)
  | XCmp o a b => SCmp o (shape_x a) (shape_x b)
  end.

Fixpoint shape_py (e : pyexpr) : shape :=
  match e with
  | PConst (VInt z) => SNum (z2f z) | PConst (VFloat f) => SNum f | PConst (VStr s) => SText s | PConst (VBool b) => SBool b
  | PConst _ => SBad
  | PCell n => SCell n
  | PUn true a => SNeg (shape_py a) | PUn false a => SPos (shape_py a)
  | PBin AAdd (PStrOf a) (PStrOf b) => mk_cat_r (shape_py a) (shape_py b)
  | PBin o a b => mk_bin o (shape_py a) (shape_py b)
  | PCompare o a b => SCmp o (shape_py a) (shape_py b)
  | PStrOf _ => SBad
  | PNorm a => shape_py a
  end.

(* do the two readings group the formula the same way *)
Definition same_grouping (xe : xexpr) (pe : pyexpr) : bool := shape_eqb (shape_x xe) (shape_py pe).
