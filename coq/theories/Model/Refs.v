(* Model/Refs.v — from a reference token to the cells it denotes: the group indices the token classes read
   (.cell / .matrix), handle_cell, Excel.get_matrix / _get_vertical_range / _get_matrix, and the translated code's
   cell list.  Coordinates are 0-based after handle_cell, as in the code. *)
Require Import X2P.Base.Prelude X2P.Base.PyNum X2P.Base.PyType X2P.Model.Peg X2P.Model.Lexer X2P.Model.Executor X2P.Gen.Grammar.
Open Scope string_scope.
Open Scope Z_scope.

Definition grp (t : tok) (i : nat) : string := nth i (tpay t) "".
Definition or_str (a b : string) : string := if String.eqb a "" then b else a.

(* value[3] or value[4] or in_cell.title *)
Definition ref_title (t : tok) (own : Z) : tref :=
  let s := or_str (grp t 3) (grp t 4) in if String.eqb s "" then TIdx own else TName s.

(* CellIdentifierToken.cell *)
Definition cell_of_token (t : tok) (own : Z) : addr :=
  {| a_t := ref_title t own; a_c := CLetters (grp t 5); a_r := RDigits (grp t 6) |}.
(* MatrixOfCellIdentifiersToken.matrix *)
Definition matrix_of_token (t : tok) (own : Z) : addr * addr :=
  ({| a_t := ref_title t own; a_c := CLetters (grp t 5); a_r := RDigits (grp t 7) |},
   {| a_t := ref_title t own; a_c := CLetters (grp t 8); a_r := RDigits (grp t 10) |}).

(* range(a, b) *)
Fixpoint zrange_n (n : nat) (a : Z) : list Z := match n with O => [] | S k => a :: zrange_n k (a + 1) end.
Definition py_range (a b : Z) : list Z := zrange_n (Z.to_nat (b - a)) a.

(* a resolved cell: (sheet, column, row) *)
Definition coord := (Z * Z * Z)%type.

(* Excel.get_matrix on handled cells; nrows = len(self._data[sheet]) for whole-column references *)
Definition get_matrix (nrows : Z -> Z) (f s : Z * Z * option Z) : res (list (list coord)) :=
  let '(ft, fc, fr) := f in let '(st, sc, sr) := s in
  match fr, sr with
  | None, None =>
      if fc =? sc then Ok (map (fun r => [(ft, fc, r)]) (py_range 0 (nrows ft)))                       (* A:A  -> one cell per row *)
      else Ok (map (fun c => map (fun r => (ft, c, r)) (py_range 0 (nrows ft))) (py_range fc (sc + 1)))  (* A:C  -> one list per COLUMN *)
  | Some r1, Some r2 =>
      if (0 <=? r1) && (0 <=? r2) then
        if negb (ft =? st) then Exc E2PyclParser
        else Ok (map (fun r => map (fun c => (ft, c, r)) (py_range fc (sc + 1))) (py_range r1 (r2 + 1)))
      else Exc E2PyclParser
  | Some r1, None => if 0 <=? r1 then Exc TypeError else Exc E2PyclParser      (* second.row >= 0 with None *)
  | None, Some _ => Exc E2PyclParser
  end.

(* a reference as the translator resolves it *)
Definition resolve_cell (ts : titles) (t : tok) (own : Z) : res coord :=
  do h <- handle ts (cell_of_token t own);
  let '(tt0, c, r) := h in
  match r with Some r => Ok (tt0, c, r) | None => Exc E2PyclParser end.
Definition resolve_matrix (ts : titles) (nrows : Z -> Z) (t : tok) (own : Z) : res (list (list coord)) :=
  let '(a, b) := matrix_of_token t own in
  do ha <- handle ts a; do hb <- handle ts b; get_matrix nrows ha hb.
