(* Model/Agg.v — aggregate helpers of the runtime template and the way the translators call them. *)
Require Import X2P.Base.Prelude X2P.Base.F64 X2P.Base.PyCmp X2P.Base.PyType X2P.Base.PyNum.
Open Scope Z_scope.

(* _flatten_list: nested lists flattened recursively *)
Fixpoint flatten1 (v : val) : list val :=
  match v with
  | VList l => (fix go (l : list val) : list val := match l with [] => [] | x :: t => flatten1 x ++ go t end) l
  | _ => [v]
  end.
Definition flatten (l : list val) : list val := flat_map flatten1 l.

(* _only_numeric_list: type(i) in [float, int]  (or a digit string when with_string_digits) *)
Definition str_isdigit (s : string) : bool :=
  negb (String.eqb s "") && forallb is_digit (list_of_string s).
Definition only_numeric (l : list val) : list val := filter is_exact_number l.
Definition only_numeric_sd (l : list val) : list val :=
  filter (fun v => is_exact_number v || match v with VStr s => str_isdigit s | _ => false end) l.
Definition only_bool (l : list val) : list val := filter (fun v => match v with VBool _ => true | _ => false end) l.
Definition only_datetime (l : list val) : list val := filter (fun v => match v with VDT _ _ => true | _ => false end) l.

(* exact rational value of a number: (p, q), q > 0 *)
Definition num_q (v : val) : option (Z * Z) :=
  match v with
  | VInt z => Some (z, 1)
  | VFloat f => f2q f
  | _ => None
  end.
Definition q_add (a b : Z * Z) : Z * Z := (fst a * snd b + fst b * snd a, snd a * snd b).

(* builtin sum() over ints and floats.  All ints: exact int.  Otherwise a float; modelled as the correctly
   rounded exact sum (equal to CPython's compensated summation whenever every partial sum is exact, which the
   decided domain — integers and dyadic fractions of moderate size — guarantees; see DESIGN.md section 4). *)
Definition all_int (l : list val) : bool := forallb (fun v => match v with VInt _ => true | _ => false end) l.
Definition finite_nums (l : list val) : bool := forallb (fun v => match num_q v with Some _ => true | None => false end) l.
Definition py_sum (l : list val) : res val :=
  if all_int l then Ok (VInt (fold_left (fun a v => match v with VInt z => a + z | _ => a end) l 0))
  else if finite_nums l then
    let '(p, q) := fold_left (fun a v => match num_q v with Some x => q_add a x | None => a end) l (0, 1) in
    Ok (VFloat (q2f p q))
  else Exc OtherExc.        (* inf / nan operands: not modelled *)

(* a / b for numbers (true division) *)
Definition py_truediv (a b : val) : res val :=
  match a, b with
  | VInt x, VInt y => if y =? 0 then Exc ZeroDivisionError else
                      let f := zdiv_f x y in
                      if f_is_inf f then Exc OverflowError else Ok (VFloat f)
  | VFloat x, VInt y => if y =? 0 then Exc ZeroDivisionError else
                        match z2f_checked y with Ok g => Ok (VFloat (PrimFloat.div x g)) | Exc e => Exc e end
  | _, _ => Exc OtherExc
  end.

Definition ERRS : list string := ["#NUM!"; "#DIV/0!"; "#N/A"; "#NAME?"; " #NULL!"; "#REF!"; "#VALUE!"]%string.
(* _find_error_in_list: first element equal to one of the error texts *)
Definition find_error (l : list val) : option val :=
  find (fun v => match v with VStr s => existsb (String.eqb s) ERRS | _ => false end) l.

Definition rt_sum (fl : list val) : res val := py_sum (only_numeric fl).
Definition rt_average (fl : list val) : res val :=
  do s <- rt_sum fl; py_truediv s (VInt (Z.of_nat (List.length (only_numeric fl)))).

(* min()/max(): first extremal element by < / > *)
Fixpoint py_extreme (o : cmpop) (best : val) (l : list val) : res val :=
  match l with
  | [] => Ok best
  | x :: t => do c <- py_cmp o x best; py_extreme o (if c then x else best) t
  end.
Definition rt_minmax (o : cmpop) (fl : list val) : res val :=
  match find_error fl with
  | Some e => Ok e
  | None => match only_numeric fl with [] => Exc ValueError | x :: t => py_extreme o x t end
  end.
Definition rt_min := rt_minmax OLt.
Definition rt_max := rt_minmax OGt.

Definition rt_count (matrices args args_cells : list val) : res val :=
  let fm := flatten matrices in
  Ok (VInt (Z.of_nat (List.length (only_numeric (fm ++ args_cells) ++ only_bool args ++ only_numeric_sd args
                                    ++ only_datetime (fm ++ args_cells ++ args))))).

Definition is_blank (v : val) : bool :=
  match v with VNone => true | VEmpty => true | VStr s => String.eqb s "" | _ => false end.
Definition rt_count_blank (fl : list val) : res val :=
  match find_error fl with
  | Some e => Ok e
  | None => Ok (VInt (Z.of_nat (List.length (filter is_blank fl))))
  end.

Definition rt_and (fl : list val) : res val := Ok (VBool (forallb truthy fl)).
Definition rt_or (fl : list val) : res val := Ok (VBool (existsb truthy fl)).

(* ---- how the translators call them: arguments as written in the formula ---- *)
Inductive arg :=
  | AArea (m : val)        (* an area reference: nested list of its cell values, as get_matrix lays it out *)
  | ALit (v : val)         (* a literal *)
  | ACell (v : val)        (* a single-cell reference: its value *)
  | AExpr (v : val).       (* any other expression: its value *)
Definition arg_val (a : arg) : val := match a with AArea v | ALit v | ACell v | AExpr v => v end.

Inductive aggfn := FSum | FAverage | FMin | FMax | FCount | FCountBlank | FAnd | FOr.

Definition agg (f : aggfn) (args : list arg) : res val :=
  let fl := flatten (map arg_val args) in
  match f with
  | FSum => rt_sum (only_numeric fl)            (* _sum(_only_numeric_list(_flatten_list([...]))) *)
  | FAverage => rt_average (only_numeric fl)
  | FMin => rt_min fl
  | FMax => rt_max fl
  | FCountBlank => rt_count_blank fl
  | FAnd => rt_and fl
  | FOr => rt_or fl
  | FCount =>
      let areas := flat_map (fun a => match a with AArea m => [m] | _ => [] end) args in
      let lits := flatten (flat_map (fun a => match a with ALit v => [v] | _ => [] end) args) in
      let cells := flat_map (fun a => match a with ACell v => [v] | _ => [] end) args in
      match areas with
      | [] => rt_count [] lits cells
      | [m] => (do r <- as_list m; rt_count r lits cells)
      | _ => Exc TypeError          (* two areas are spliced as two positional arguments *)
      end
  end.
