(* Model/Lexer.v — Lexer.parse / RegexpBaseToken.get: ordered regex tokens, taken from the current source
   (Gen/Regexes.v) and run through the Gallina regex engine. *)
Require Import X2P.Base.Prelude X2P.Base.PyNum X2P.Base.Str X2P.Model.Peg X2P.Gen.Regexes.
Require X2P.Base.Regex.
Open Scope string_scope.
Open Scope Z_scope.

Definition tokdef := (string * string * string * Z * Z)%type.
Definition td_name (d : tokdef) : string := let '(n, _, _, _, _) := d in n.

(* result[0][a:b] on the tuple of groups *)
Definition slice_groups (gs : list string) (a b : Z) : list string :=
  let n := Z.of_nat (List.length gs) in
  let a := if a <? 0 then Z.max 0 (a + n) else Z.min a n in
  let b := if b <? 0 then Z.max 0 (b + n) else Z.min b n in
  if b <=? a then [] else firstn (Z.to_nat (b - a)) (skipn (Z.to_nat a) gs).

(* RegexpBaseToken.get for one class: Some (value groups, rest) on a match *)
Definition try_token (d : tokdef) (expr : string) : option (option (list string * string)) :=
  let '(_, re, lm, a, b) := d in
  match Regex.findall false ("^(" ++ re ++ ")(" ++ lm ++ ")$") expr with
  | None => None                                       (* regex outside the modelled subset *)
  | Some [] => Some None
  | Some ((_, gs) :: _) => Some (Some (slice_groups gs a b, last gs ""))
  end.

Inductive lres := LOk (toks : list tok) | LUndefined | LUnmodelled | LFuel.

Definition lstrip_s (s : string) : string := string_of_list (lstrip (list_of_string s)).

(* the for-loop over Lexer.TOKENS for one position *)
Fixpoint first_token (defs : list tokdef) (idx : nat) (expr : string) : option (option (nat * list string * string)) :=
  match defs with
  | [] => Some None                                    (* UndefinedToken.get raises *)
  | d :: rest =>
      match try_token d expr with
      | None => None
      | Some (Some (v, r)) =>
          if String.eqb (td_name d) "WhitespaceToken" then first_token rest (S idx) expr    (* matched, but not consumed *)
          else Some (Some (idx, v, r))
      | Some None => first_token rest (S idx) expr
      end
  end.

Fixpoint lex_loop (fuel : nat) (defs : list tokdef) (expr : string) (acc : list tok) : lres :=
  match fuel with
  | O => LFuel
  | S f =>
      if String.eqb expr "" then LOk (rev acc)
      else match first_token defs 0 (lstrip_s expr) with
           | None => LUnmodelled
           | Some None => LUndefined
           | Some (Some (idx, v, r)) => lex_loop f defs r ({| tclass := idx; tpay := v |} :: acc)
           end
  end.

Definition lex (expr : string) : lres := lex_loop (S (String.length expr)) lexer_tokens expr [].
