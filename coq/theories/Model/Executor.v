(* Model/Executor.v — the Executor facade as a state machine (after the F3/F4 fixes):
   handle_cell normalisation, set_cells (sizes + one override per uid, arrival order), lazy flush into the
   instance's argument map ({**old, **new}), get_cell / get_cells / get_sheet.  The generated class is abstract:
   a query returns the uid asked and the argument map in force; `ev` (the class) is applied outside. *)
Require Import X2P.Base.Prelude X2P.Base.PyNum X2P.Base.PyType X2P.Base.Str X2P.Spec.Lookup.
Open Scope string_scope.
Open Scope Z_scope.

(* ---- addresses as the caller may spell them ---- *)
Inductive tref := TIdx (i : Z) | TName (s : string).
Inductive cref := CIdx (c : Z) | CLetters (s : string).
Inductive rref := RIdx (r : Z) | RDigits (s : string) | RNone.
Record addr := { a_t : tref; a_c : cref; a_r : rref }.

Definition titles := list (string * Z).
Fixpoint title_index (ts : titles) (s : string) : res Z :=
  match ts with [] => Exc E2PyclCell (* unknown worksheet: after fix 7ad1ad6 *) | (k, i) :: t => if String.eqb k s then Ok i else title_index t s end.

Definition upper_ascii (c : ascii) : ascii := if is_lower c then ascii_of_N (N_of_ascii c - 32) else c.
Definition upper (s : string) : string := string_of_list (map upper_ascii (list_of_string s)).
(* openpyxl.utils.column_index_from_string: 1..3 letters, case-insensitive, A..ZZZ (18278) *)
Definition column_index_from_string (s : string) : res Z :=
  let u := upper s in
  if (String.eqb u "") || (3 <? slen u) || negb (all_AZ u) then Exc E2PyclCell      (* openpyxl's ValueError, re-raised by handle_cell (fix 7edbc3d) *)
  else Ok (col_of_letters u).

(* handle_cell: normalised (title, column, row); row None when given as an empty string *)
Definition handle (ts : titles) (a : addr) : res (Z * Z * option Z) :=
  do t <- match a_t a with TIdx i => Ok i | TName s => title_index ts s end;
  do c <- match a_c a with CIdx c => Ok c | CLetters s => (do k <- column_index_from_string s; Ok (k - 1)) end;
  do r <- match a_r a with
          | RIdx r => Ok (Some r)
          | RNone => Ok None
          | RDigits s => if String.eqb s "" then Ok None
                         else match int_of_string s with
                              | Ok k => if k - 1 <? 0 then Exc E2PyclCell else Ok (Some (k - 1))     (* row 0: fix 7edbc3d *)
                              | Exc _ => Exc E2PyclCell                                             (* int() refuses the text: fix 34418e3 *)
                              end
          end;
  Ok (t, c, r).

(* get_sheet's own title lookup: self._titles[sheet] *)
Definition sheet_index (ts : titles) (t : tref) : res Z :=
  match t with TIdx i => Ok i | TName n => match title_index ts n with Ok i => Ok i | Exc _ => Exc KeyError end end.

(* Cell.uid *)
Definition uid_of (t c : Z) (r : option Z) : string :=
  "_" ++ str_of_Z t ++ "_" ++ str_of_Z c ++ "_" ++ match r with Some r => str_of_Z r | None => "any" end.

(* ---- insertion-ordered dict keyed by uid ---- *)
Definition dict := list (string * val).
Fixpoint lookup (m : dict) (u : string) : option val :=
  match m with [] => None | (k, v) :: t => if String.eqb k u then Some v else lookup t u end.
Fixpoint upsert (m : dict) (k : string) (v : val) : dict :=
  match m with
  | [] => [(k, v)]
  | (k', v') :: t => if String.eqb k' k then (k, v) :: t else (k', v') :: upsert t k v
  end.
Definition upsert_all (m l : dict) : dict := fold_left (fun acc kv => upsert acc (fst kv) (snd kv)) l m.

(* ---- state ---- *)
Record state := {
  s_titles : titles;
  s_sizes : list (Z * Z);          (* per sheet: (last_row, last_column) *)
  s_cells : dict;                  (* overrides, one per uid, arrival order *)
  s_args : dict;                   (* the instance's _arguments *)
  s_dirty : bool }.

Inductive op :=
  | SetCells (l : list (addr * val))
  | Get (a : addr)
  | GetMany (l : list addr)
  | GetSheet (t : tref).

(* one query: the uid asked, to be resolved by the class against the argument map in force *)
Inductive out := OQueries (uids : list string) (args : dict) | ONone | OExc (e : exn).

Fixpoint set_nth {A} (l : list A) (n : nat) (x : A) : list A :=
  match l, n with
  | [], _ => []
  | _ :: t, O => x :: t
  | h :: t, S k => h :: set_nth t k x
  end.

(* the loop of set_cells: sizes are updated cell by cell (in place), the override list only after the loop *)
Fixpoint set_loop (ts : titles) (l : list (addr * val)) (sizes : list (Z * Z)) (acc : dict)
  : list (Z * Z) * res dict :=
  match l with
  | [] => (sizes, Ok acc)
  | (a, v) :: rest =>
      match handle ts a with
      | Exc e => (sizes, Exc e)
      | Ok (t, c, r) =>
          match r with
          | None => (sizes, Exc TypeError)                       (* cell.row + 1 with row None *)
          | Some r =>
              match py_index sizes t with
              | Exc e => (sizes, Exc e)
              | Ok (lr, lc) =>
                  let n := Z.to_nat (if t <? 0 then t + Z.of_nat (List.length sizes) else t) in
                  let sizes' := set_nth sizes n (Z.max (r + 1) lr, Z.max (c + 1) lc) in
                  set_loop ts rest sizes' (List.app acc [(uid_of t c (Some r), v)])
              end
          end
      end
  end.

Definition flush (s : state) : state :=
  if s_dirty s then
    {| s_titles := s_titles s; s_sizes := s_sizes s; s_cells := s_cells s;
       s_args := upsert_all (s_args s) (s_cells s); s_dirty := false |}
  else s.

Fixpoint handle_all (ts : titles) (l : list addr) : res (list string) :=
  match l with
  | [] => Ok []
  | a :: t => do h <- handle ts a; let '(ti, c, r) := h in do rest <- handle_all ts t; Ok (uid_of ti c r :: rest)
  end.

(* coordinates of get_sheet: rows outer, columns inner *)
Fixpoint zrange (n : nat) (a : Z) : list Z := match n with O => [] | S k => a :: zrange k (a + 1) end.
Definition sheet_uids (t lr lc : Z) : list string :=
  flat_map (fun r => map (fun c => uid_of t c (Some r)) (zrange (Z.to_nat lc) 0)) (zrange (Z.to_nat lr) 0).

Definition step (s : state) (o : op) : state * out :=
  match o with
  | SetCells l =>
      let '(sizes', r) := set_loop (s_titles s) l (s_sizes s) [] in
      match r with
      | Exc e => ({| s_titles := s_titles s; s_sizes := sizes'; s_cells := s_cells s; s_args := s_args s; s_dirty := s_dirty s |}, OExc e)
      | Ok news =>
          ({| s_titles := s_titles s; s_sizes := sizes'; s_cells := upsert_all (s_cells s) news;
              s_args := s_args s; s_dirty := true |}, ONone)
      end
  | Get a =>
      let s' := flush s in
      match handle (s_titles s) a with
      | Exc e => (s', OExc e)
      | Ok (t, c, r) => (s', OQueries [uid_of t c r] (s_args s'))
      end
  | GetMany l =>
      (* get_cells = [get_cell(c) for c in cells]: flushes at the first cell (if any), stops at the first failing address *)
      match l with
      | [] => (s, OQueries [] (s_args s))
      | _ =>
          let s' := flush s in
          match handle_all (s_titles s) l with
          | Exc e => (s', OExc e)
          | Ok us => (s', OQueries us (s_args s'))
          end
      end
  | GetSheet t =>
      (* get_sheet looks the title up itself: self._titles[sheet] — a plain KeyError, not handle_cell's exception *)
      match sheet_index (s_titles s) t with
      | Exc e => (s, OExc e)
      | Ok ti =>
          match py_index (s_sizes s) ti with
          | Exc e => (s, OExc e)
          | Ok (lr, lc) =>
              let us := sheet_uids ti lr lc in
              match us with
              | [] => (s, OQueries [] (s_args s))
              | _ => let s' := flush s in (s', OQueries us (s_args s'))
              end
          end
      end
  end.

Fixpoint run (s : state) (os : list op) : state * list out :=
  match os with
  | [] => (s, [])
  | o :: rest => let '(s1, r) := step s o in let '(s2, rs) := run s1 rest in (s2, r :: rs)
  end.

Definition init (ts : titles) (sizes : list (Z * Z)) : state :=
  {| s_titles := ts; s_sizes := sizes; s_cells := []; s_args := []; s_dirty := false |}.

(* the class: argument map first, else the cell's own method, else blank *)
Definition cell_preprocessor {R} (method : string -> option R) (blank : R) (inj : val -> R) (args : dict) (u : string) : R :=
  match lookup args u with
  | Some v => inj v
  | None => match method u with Some r => r | None => blank end
  end.
