(* Model/Safety.v — the safety gate: Excel._get_suspicious_constructions with the two regexes of the CURRENT source
   (Gen/Regexes.v), the report key, and the gate of Parser._translate. *)
Require Import X2P.Base.Prelude X2P.Base.PyNum X2P.Model.Lookup X2P.Gen.Regexes.
Require X2P.Base.Regex.
Open Scope string_scope.
Open Scope Z_scope.

(* fragments of the text that look like calls, minus those containing an upper-case call *)
Definition suspicious (text : string) : option (list string) :=
  match Regex.findall false safety_call_re text with
  | None => None
  | Some ms =>
      let frags := map fst ms in
      let keep (f : string) : option bool :=
        match Regex.findall false safety_upper_re f with None => None | Some [] => Some true | Some _ => Some false end in
      (fix go (l : list string) : option (list string) :=
         match l with
         | [] => Some []
         | f :: t => match keep f, go t with
                     | Some true, Some r => Some (f :: r)
                     | Some false, Some r => Some r
                     | _, _ => None
                     end
         end) frags
  end.

(* key of the report: f"'{title}'{column_letter}{row}"  (1-based column and row) *)
Definition report_key (title : string) (col row : Z) : option string :=
  match get_col col with Some l => Some ("'" ++ title ++ "'" ++ l ++ str_of_Z row) | None => None end.

(* one worksheet cell with text; the report lists the cells that have a suspicious fragment *)
Record tcell := { tc_title : string; tc_col : Z; tc_row : Z; tc_text : string }.
Fixpoint report (cells : list tcell) : option (list (string * list string)) :=
  match cells with
  | [] => Some []
  | c :: rest =>
      match suspicious (tc_text c), report rest, report_key (tc_title c) (tc_col c) (tc_row c) with
      | Some [], Some r, _ => Some r
      | Some fr, Some r, Some k => Some ((k, fr) :: r)
      | _, _, _ => None
      end
  end.
