(* Model/Lookup.v — the lookup helpers of the runtime template, loop for loop.
   _vlookup, _match, _xmatch (all four search modes, _binary_search included), _index, _address.get_col. *)
Require Import X2P.Base.Prelude X2P.Base.F64 X2P.Base.PyCmp X2P.Base.PyType X2P.Base.PyNum.
Open Scope Z_scope.

Definition NA : val := VStr "#N/A".
Definition REF : val := VStr "#REF!".

(* lookup_value_type = int if isinstance(lookup_value, EmptyCell) else type(lookup_value) *)
Definition lookup_type (lv : val) : pytype := if is_empty lv then TInt else type_of lv.

(* ------------------------------------------------------------------ _vlookup *)
Fixpoint vlookup_loop (lv : val) (lvt : pytype) (col : Z) (rl : bool) (rows : list val) (last : val)
  : res val :=
  match rows with
  | [] => Ok last
  | row :: rest =>
      do r <- as_list row;
      do k <- py_index r 0;
      if (is_empty k || negb (isinstance k lvt)) && (negb (is_number k) || negb (is_number lv))
      then vlookup_loop lv lvt col rl rest last
      else if rl then
        do c <- py_cmp OLe k lv;
        if c then (do x <- py_index r (col - 1); vlookup_loop lv lvt col rl rest x)
        else Ok last
      else
        do c <- py_cmp OEq k lv;
        if c then py_index r (col - 1) else vlookup_loop lv lvt col rl rest last
  end.

Definition vlookup (lv : val) (table : list val) (col : Z) (rl : val) : res val :=
  if negb (isinstance rl TBool || isinstance rl TInt) then Ok (VStr "#ERROR!")
  else vlookup_loop lv (lookup_type lv) col (truthy rl) table NA.

(* ------------------------------------------------------------------ _match *)
(* value[0].lower() OP lookup_value.lower() if isinstance(value[0], str) else value[0] OP lookup_value *)
Definition match_cmp (o : cmpop) (k lv : val) : res bool :=
  match k with
  | VStr s => match lv with
              | VStr t => py_cmp o (VStr (lower s)) (VStr (lower t))
              | _ => Exc AttributeError
              end
  | _ => py_cmp o k lv
  end.

Definition match_skip (k : val) (lvt : pytype) : bool := is_empty k || negb (isinstance k lvt).

Fixpoint match_exact_loop (lv : val) (lvt : pytype) (rows : list val) (idx : Z) : res val :=
  match rows with
  | [] => Ok NA
  | row :: rest =>
      do r <- as_list row;
      do k <- py_index r 0;
      if match_skip k lvt then match_exact_loop lv lvt rest (idx + 1)
      else do c <- match_cmp OEq k lv;
           if c then Ok (VInt (idx + 1)) else match_exact_loop lv lvt rest (idx + 1)
  end.

Fixpoint match_scan_loop (o : cmpop) (lv : val) (lvt : pytype) (rows : list val) (idx : Z) (last : val)
  : res val :=
  match rows with
  | [] => Ok last
  | row :: rest =>
      do r <- as_list row;
      do k <- py_index r 0;
      if match_skip k lvt then match_scan_loop o lv lvt rest (idx + 1) last
      else do c <- match_cmp o k lv;
           if c then match_scan_loop o lv lvt rest (idx + 1) (VInt (idx + 1)) else Ok last
  end.

Definition pmatch (lv : val) (arr : list val) (mt : Z) : res val :=
  let lvt := lookup_type lv in
  if mt =? 0 then match_exact_loop lv lvt arr 0
  else if 0 <? mt then match_scan_loop OLe lv lvt arr 0 NA
  else match_scan_loop OGe lv lvt arr 0 NA.

(* ------------------------------------------------------------------ _binary_search: returns (exact, next_smallest, next_largest) *)
Definition key_of_row (row : val) : res val := do r <- as_list row; py_index r 0.
Fixpoint bs_loop (fuel : nat) (arr : list val) (lv : val) (reverse : bool) (first last ns nl : Z) : res (Z * Z * Z) :=
  match fuel with
  | O => Exc OutOfFuel
  | S f =>
      if last <? first then Ok (-1, ns, nl) else
      let mid := (last + first) / 2 in
      do row <- py_index arr mid; do k <- key_of_row row;
      do left <- py_cmp (if reverse then OGt else OLt) k lv;
      do right <- py_cmp (if reverse then OLt else OGt) k lv;
      if left then bs_loop f arr lv reverse (mid + 1) last (if reverse then ns else mid) (if reverse then mid else nl)
      else if right then bs_loop f arr lv reverse first (mid - 1) (if reverse then mid else ns) (if reverse then nl else mid)
      else Ok (mid, mid, mid)
  end.
Definition binary_search (arr : list val) (lv : val) (reverse : bool) : res (Z * Z * Z) :=
  let last := Z.of_nat (List.length arr) - 1 in
  do r <- bs_loop (S (List.length arr)) arr lv reverse 0 last (if reverse then last else 0) (if reverse then 0 else last);
  let '(exact, ns, nl) := r in
  do rs <- py_index arr ns; do ks <- key_of_row rs; do g <- py_cmp OGt ks lv;
  let ns' := if g then -1 else ns in
  do rl <- py_index arr nl; do kl <- key_of_row rl; do l <- py_cmp OLt kl lv;
  let nl' := if l then -1 else nl in
  Ok (exact, ns', nl').

(* ------------------------------------------------------------------ _xmatch *)
Definition xmatch (lv : val) (arr : list val) (mm sm : Z) : res val :=
  if sm =? 1 then pmatch lv arr mm
  else if sm =? -1 then pmatch lv (rev arr) mm
  else if (sm =? 2) || (sm =? -2) then
    do r <- binary_search arr lv (sm =? -2);
    let '(exact, ns, nl) := r in
    let index := if mm =? -1 then ns else if mm =? 1 then nl else exact in
    Ok (if index =? -1 then NA else VInt (index + 1))
  else Ok (VStr "#ERROR!").

(* ------------------------------------------------------------------ _index *)
(* matrix_list is a single area (list of rows) here; column_number None is modelled by option *)
Definition index1 (area : list val) (rn : Z) (cn : option Z) (an : Z) : res val :=
  (* area_number > len(matrix_list): matrix_list is the list of rows when a single area is given *)
  if Z.of_nat (List.length area) <? an then Ok REF else
  let '(rn', cn') :=
    if (Z.of_nat (List.length area) =? 1) && (match cn with None => true | _ => false end)
    then (None, Some rn) else (Some rn, cn) in
  (* row = [array[row_number - 1]] if row_number else array *)
  let rows : res (list val) :=
    match rn' with
    | Some r => if r =? 0 then Ok area
                else match py_index area (r - 1) with Ok x => Ok [x] | Exc e => Exc e end
    | None => Ok area
    end in
  match rows with
  | Exc IndexError => Ok REF
  | Exc e => Exc e
  | Ok rows =>
      let pick (row : val) : res val :=
        match cn' with
        | Some c => if c =? 0 then Ok row else (do r <- as_list row; py_index r (c - 1))
        | None => Ok row
        end in
      let vals := (fix go (l : list val) : res (list val) :=
                     match l with
                     | [] => Ok []
                     | x :: t => do v <- pick x; do vs <- go t; Ok (v :: vs)
                     end) rows in
      match vals with
      | Exc IndexError => Ok REF
      | Exc e => Exc e
      | Ok value =>
          match value with
          | [] => Exc IndexError                       (* value[0] on an empty list *)
          | v0 :: _ =>
              let value :=
                match v0 with
                | VList [_] =>                          (* column-shaped: [[x],[y]] -> [x,y] (row[0] for row in value) *)
                    (fix go (l : list val) : list val :=
                       match l with
                       | [] => []
                       | VList (x :: _) :: t => x :: go t
                       | y :: t => y :: go t
                       end) value
                | _ => value
                end in
              match value with
              | [x] => Ok x
              | _ => Ok (VList value)
              end
          end
      end
  end.

(* ------------------------------------------------------------------ _address.get_col *)
Definition letter (i : Z) : ascii := ascii_of_N (Z.to_N (65 + i)).          (* 0 -> "A" *)

(*  letters, _col = '', col
    while _col > 0:
        _col, remainder = divmod(_col - 1, 26)
        letters = ascii_uppercase[remainder] + letters                      *)
Fixpoint get_col_loop (fuel : nat) (c : Z) (acc : string) : option string :=
  if c <=? 0 then Some acc else
  match fuel with
  | O => None
  | S f => get_col_loop f ((c - 1) / 26) (String (letter ((c - 1) mod 26)) acc)
  end.
Definition get_col_fuel (c : Z) : nat := S (Z.to_nat (Z.log2 c)).
Definition get_col (c : Z) : option string := get_col_loop (get_col_fuel c) c "".

(* _address(row, col) with no further arguments: '$' + get_col() + '$' + str(row) *)
Definition address2 (row col : Z) : option string :=
  match get_col col with
  | Some l => Some ("$" ++ l ++ "$" ++ str_of_Z row)%string
  | None => None
  end.
