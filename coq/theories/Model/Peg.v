(* Model/Peg.v — CompositeBaseToken.get as a generic interpreter over a token-set table: ordered alternatives, first match,
   recursion into composite tokens, the control-construction flag that turns "no alternative" into the parser exception. *)
From Coq Require Import List Arith Bool String.
Import ListNotations.

Inductive sym := T (leaf : nat) | N (nt : nat).
(* a lexer token: its class (index in Lexer.TOKENS) and its value (the regex groups it keeps) *)
Record tok := mkTok { tclass : nat; tpay : list string }.
Inductive tree := Leaf (t : tok) | Node (nt : nat) (alt : nat) (kids : list tree).
Inductive pres := POk (t : tree) (rest : list tok) | PNone | PExc (nt : nat) | PFuel.

Section Step.
  Variable rec : nat -> list tok -> pres.
  Variable cc : bool.     (* is the current class one of the control-construction heads *)

  (* the inner loop over the members of one token set *)
  Fixpoint seq (ss : list sym) (ts : list tok) (acc : list tree) (flag : bool)
    : option (list tree * list tok) * bool * option pres :=
    match ss with
    | [] => (Some (rev acc, ts), flag, None)
    | s :: ss' =>
      match ts with
      | [] => (None, flag, None)
      | t :: ts' =>
        match s with
        | T c => if Nat.eqb c (tclass t) then seq ss' ts' (Leaf t :: acc) cc else (None, flag, None)
        | N m => match rec m ts with
                 | POk tr rest => seq ss' rest (tr :: acc) flag
                 | PNone => (None, flag, None)
                 | other => (None, flag, Some other)
                 end
        end
      end
    end.

  Fixpoint alts (nt : nat) (al : list (list sym)) (idx : nat) (toks : list tok) (flag : bool) : pres :=
    match al with
    | [] => if flag then PExc nt else PNone
    | a :: al' =>
      match a with
      | [] => alts nt al' (S idx) toks flag
      | _ => match seq a toks [] flag with
             | (_, _, Some e) => e
             | (Some (kids, rest), _, None) => POk (Node nt idx kids) rest
             | (None, flag', None) => alts nt al' (S idx) toks flag'
             end
      end
    end.
End Step.

Section Interp.
  Variable g : list (list (list sym)).
  Variable is_cc : nat -> bool.
  Fixpoint get (fuel : nat) (nt : nat) (toks : list tok) : pres :=
    match fuel with
    | O => PFuel
    | S f => alts (get f) (is_cc nt) nt (nth nt g []) 0 toks false
    end.
End Interp.

Fixpoint yield (t : tree) : list tok :=
  match t with
  | Leaf k => [k]
  | Node _ _ kids => (fix ys (l : list tree) := match l with [] => [] | x :: l' => yield x ++ ys l' end) kids
  end.
Definition yields (l : list tree) : list tok := flat_map yield l.
Lemma yield_node n a kids : yield (Node n a kids) = yields kids.
Proof. unfold yields. simpl. induction kids as [|x l IH]; simpl; [reflexivity| now rewrite IH]. Qed.

(* AstBuilder.parse after the F1 fix: the entry nonterminal must consume every token *)
Inductive ares := AOk (t : tree) | AReject | AFuel.
Definition ast_builder (g : list (list (list sym))) (is_cc : nat -> bool) (entry fuel : nat) (toks : list tok) : ares :=
  match get g is_cc fuel entry toks with
  | POk t [] => AOk t
  | POk _ (_ :: _) => AReject          (* unconsumed rest: E2PyclParserException *)
  | PNone => AReject                   (* no parse: E2PyclParserException *)
  | PExc _ => AReject                  (* "... has an incorrect structure": E2PyclParserException *)
  | PFuel => AFuel
  end.
