(* Model/Text.v — _left/_right/_mid/_search/_value/_excel_value_to_string and the & emission, as coded. *)
Require Import X2P.Base.Prelude X2P.Base.F64 X2P.Base.PyCmp X2P.Base.PyType X2P.Base.PyNum X2P.Base.Str.
Require X2P.Base.Regex.
Require Import X2P.Gen.Regexes.
Open Scope string_scope.
Open Scope Z_scope.

Definition ERROR := VStr "#ERROR!".
Definition VALUE_ERR := VStr "#VALUE!".

(* _left(text, num_chars) — text a str, num_chars None or an int *)
Definition left (text : string) (n : option Z) : res val :=
  match n with
  | None => do c <- str_index text 0; Ok (VStr c)
  | Some n =>
      if n <? 0 then Ok ERROR
      else if String.eqb text "" then Ok VEmpty
      else if slen text <? n then Ok (VStr text)
      else Ok (VStr (str_slice text 0 n))
  end.

Definition right (text : string) (n : option Z) : res val :=
  match n with
  | None => do c <- str_index text (slen text - 1); Ok (VStr c)
  | Some n =>
      if n <? 0 then Ok ERROR
      else if String.eqb text "" then Ok VEmpty
      else if slen text <? n then Ok (VStr text)
      else Ok (VStr (let a := slen text - n in
                     (* text[len(text) - num_chars:] ; the start is >= 0 here *)
                     str_slice text a (slen text)))
  end.

Definition mid (text : string) (start n : Z) : res val :=
  if start <? 1 then Ok (VStr "#NUM!")
  else if n <? 0 then Ok VALUE_ERR
  else if slen text <? start then Ok VEmpty
  else Ok (VStr (str_slice text (start - 1) (start + n - 1))).

(* ---------- _search ---------- *)
(* the pattern string is taken from the current source (Gen/Regexes.v) *)
Definition WILD_PAT : string := search_wild_re.

Definition of_nat_Z (n : nat) : Z := Z.of_nat n.

Definition search (ftext within : string) (start : option Z) : res val :=
  let start := match start with Some s => if s =? 0 then 1 else s | None => 1 end in
  if (slen within <? start) || (start <=? 0) then Ok VALUE_ERR else
  match Regex.findall false WILD_PAT ftext with
  | None => Exc OtherExc
  | Some [] =>
      let f := str_replace (str_replace ftext "~?" "?") "~*" "*" in
      let r := str_find within f (start - 1) + 1 in
      Ok (if r =? 0 then VALUE_ERR else VInt r)
  | Some _ =>
      let ft := str_replace (str_replace (str_replace (str_replace ftext "?" "(.)") "*" "(.*)") "~(.*)" "\*") "~(.)" "\?" in
      match Regex.finditer true ft within with
      | None => Exc OtherExc                     (* regex outside the modelled subset (or re.error) *)
      | Some ms =>
          match List.find (fun o => start <=? of_nat_Z (Regex.m_start o) + 1) ms with
          | None => Ok VALUE_ERR
          | Some o =>
              let ft2 := str_replace (str_replace (str_replace ft "(.*)" "(.)") "\?" "?") "\." "." in
              let rebuilt := fold_left (fun acc g => str_replace1 acc "(.)" (match g with Some s => s | None => "0" end))
                                       (Regex.m_groups o) ft2 in
              if negb (String.eqb (lower (Regex.m_text o)) (lower rebuilt)) then Ok VALUE_ERR
              else Ok (VInt (of_nat_Z (Regex.m_start o) + 1))
          end
      end
  end.

(* ---------- _excel_value_to_string, & ---------- *)
Section Str.
  Variable frepr : float -> string.
  Definition excel_value_to_string (v : val) : res string :=
    match v with
    | VDT o _ => Ok (str_of_Z (o - 693594))            (* (value - datetime(1899,12,30)).days *)
    | _ => py_str frepr v
    end.
  Definition amp (l r : val) : res val :=
    do a <- py_str frepr l; do b <- py_str frepr r; Ok (VStr (a ++ b)).
  Fixpoint concatenate (args : list val) : res string :=
    match args with
    | [] => Ok ""
    | [x] => excel_value_to_string x
    | x :: t => do a <- excel_value_to_string x; do b <- concatenate t; Ok (a ++ b)
    end.
End Str.

(* ---------- _value(str(x)) on numeric text ---------- *)
Definition has_date_chars (s : string) : bool :=
  existsb (fun c => let n := N_of_ascii c in ((n =? 47) || (n =? 45) || (n =? 58))%N) (list_of_string s).

Definition value (text : string) : res val :=
  let t := strip text in
  match int_of_string t with
  | Ok z => Ok (VInt z)
  | Exc _ =>
      let t := str_replace t "," "." in
      match float_of_string t with
      | Ok f => Ok (VFloat f)
      | Exc _ =>
          if has_date_chars t then Exc OtherExc      (* strptime ladder: not modelled *)
          else
            let pct :=
              if str_endswith t "%" then
                match float_of_string (str_replace (str_slice t 0 (slen t - 1)) "," ".") with
                | Ok f => Some (VFloat (PrimFloat.div f 100))
                | Exc _ => None
                end
              else None in
            match pct with
            | Some v => Ok v
            | None =>
                match float_of_string (str_replace (str_replace t " " "") "," ".") with
                | Ok f => Ok (VFloat f)
                | Exc _ => Ok VALUE_ERR
                end
            end
      end
  end.
