(* Model/Assemble.v — Context.build_class: how the module text is put together.
     __build_function(name, code) = function_template.format(name=name, code=code)
     __build_functions(fs)        = '\n\n'.join(...)
     __build_class(fs)            = class_template.format(functions=..., titles=self._titles, sheets_size=self._sheets_size)
   str.format is modelled for the field forms the two templates use: literal text, {{ and }}, and {name}. *)
Require Import X2P.Base.Prelude X2P.Base.PyNum X2P.Base.Str.
Open Scope string_scope.

Inductive piece := Lit (s : list ascii) | Field (name : list ascii).
Definition LB : ascii := ascii_of_N 123.   (* { *)
Definition RB : ascii := ascii_of_N 125.   (* } *)
Definition is_name_char (c : ascii) : bool :=
  let n := N_of_ascii c in ((97 <=? n) && (n <=? 122) || (65 <=? n) && (n <=? 90) || (48 <=? n) && (n <=? 57) || (n =? 95))%N.

(* read a field name up to the closing brace *)
Fixpoint field_name (l : list ascii) (acc : list ascii) : option (list ascii * list ascii) :=
  match l with
  | [] => None
  | c :: r => if ascii_eqb c RB then (match acc with [] => None | _ => Some (rev acc, r) end)       (* '{}' : positional, not used *)
              else if is_name_char c then field_name r (c :: acc) else None                          (* conversions, specs, attribute access: not used *)
  end.
(* Python's MarkupIterator on the subset: returns the pieces, or None where str.format would raise or the form is outside the subset *)
Fixpoint parse_fmt (fuel : nat) (l : list ascii) (lit : list ascii) : option (list piece) :=
  match fuel with O => None | S f =>
  match l with
  | [] => Some (match lit with [] => [] | _ => [Lit (rev lit)] end)
  | c :: r =>
      if ascii_eqb c LB then
        match r with
        | d :: r' => if ascii_eqb d LB then parse_fmt f r' (LB :: lit)
                     else match field_name r [] with
                          | Some (n, rest) =>
                              match parse_fmt f rest [] with
                              | Some ps => Some ((match lit with [] => [] | _ => [Lit (rev lit)] end) ++ Field n :: ps)%list
                              | None => None end
                          | None => None end
        | [] => None                                                  (* single '{' at the end: ValueError *)
        end
      else if ascii_eqb c RB then
        match r with
        | d :: r' => if ascii_eqb d RB then parse_fmt f r' (RB :: lit) else None      (* single '}': ValueError *)
        | [] => None
        end
      else parse_fmt f r (c :: lit)
  end end.
Definition pieces_of (tmpl : string) : option (list piece) :=
  let l := list_of_string tmpl in parse_fmt (S (List.length l)) l [].

(* rendering: every field is replaced by the text of its argument, in ONE pass: argument text is never looked at again *)
Fixpoint render (ps : list piece) (args : list ascii -> option (list ascii)) : option (list ascii) :=
  match ps with
  | [] => Some []
  | Lit s :: r => match render r args with Some t => Some (s ++ t)%list | None => None end
  | Field n :: r => match args n, render r args with Some v, Some t => Some (v ++ t)%list | _, _ => None end      (* KeyError for a missing name *)
  end.
Definition format_str (tmpl : string) (args : list ascii -> option (list ascii)) : option (list ascii) :=
  match pieces_of tmpl with Some ps => render ps args | None => None end.

Definition args_of (kv : list (string * list ascii)) (n : list ascii) : option (list ascii) :=
  match find (fun p => String.eqb (fst p) (string_of_list n)) kv with Some p => Some (snd p) | None => None end.

(* ---- names of the generated members ---- *)
Definition is_digit (c : ascii) : bool := let n := N_of_ascii c in ((48 <=? n) && (n <=? 57))%N.
Definition is_ident_start (c : ascii) : bool :=
  let n := N_of_ascii c in ((97 <=? n) && (n <=? 122) || (65 <=? n) && (n <=? 90) || (n =? 95))%N.
Definition is_identifier (s : string) : bool :=
  match list_of_string s with
  | c :: r => is_ident_start c && forallb is_name_char r
  | [] => false
  end.
