(* Model/PyAst.v — generic syntax trees of Python source and their decidable equality. *)
From Coq Require Import List String Bool.
Import ListNotations.

Inductive pyast := Node (kind : string) (attrs : list string) (kids : list pyast).

Fixpoint strs_eqb (a b : list string) : bool :=
  match a, b with [], [] => true | x :: a', y :: b' => String.eqb x y && strs_eqb a' b' | _, _ => false end.

Fixpoint pyast_eqb (a b : pyast) {struct a} : bool :=
  match a, b with
  | Node k1 at1 ks1, Node k2 at2 ks2 =>
      String.eqb k1 k2 && strs_eqb at1 at2 &&
      (fix go (l m : list pyast) : bool :=
         match l, m with
         | [], [] => true
         | x :: l', y :: m' => pyast_eqb x y && go l' m'
         | _, _ => false
         end) ks1 ks2
  end.

Fixpoint lookup (tbl : list (string * pyast)) (name : string) : option pyast :=
  match tbl with [] => None | (k, v) :: t => if String.eqb k name then Some v else lookup t name end.
Definition names (tbl : list (string * pyast)) : list string := map fst tbl.
