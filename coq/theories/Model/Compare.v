(* Model/Compare.v — ExcelInPython._compare / _by_operator, as coded (after the F6 fix:
   two operands whose type is exactly int or float are compared directly). *)
Require Import X2P.Base.Prelude X2P.Base.F64 X2P.Base.PyCmp X2P.Base.PyType X2P.Base.PyNum X2P.Base.Calendar.
Open Scope Z_scope.

Definition catchable (e : exn) : bool := match e with ValueError | TypeError => true | _ => false end.

(* try: a  except (ValueError, TypeError): b *)
Definition try_vt {A} (a : res A) (b : res A) : res A :=
  match a with
  | Ok x => Ok x
  | Exc e => if catchable e then b else Exc e
  end.

(* datetime.datetime(d.year, d.month, d.day) for a plain date *)
Definition date_to_dt (v : val) : val := match v with VDate o => VDT o 0 | _ => v end.

Section Compare.
  Variable frepr : float -> string.

  Definition compare (o : cmpop) (l r : val) : res bool :=
    if is_exact_number l && is_exact_number r then py_cmp o l r else
    try_vt (do a <- py_int l; do b <- py_int r; py_cmp o (VInt a) (VInt b))
   (try_vt (do a <- py_float l; do b <- py_float r; py_cmp o (VFloat a) (VFloat b))
   (try_vt (py_cmp o (date_to_dt l) (date_to_dt r))
           (do a <- py_str frepr l; do b <- py_str frepr r; py_cmp o (VStr a) (VStr b)))).
End Compare.
