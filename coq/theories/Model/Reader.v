(* Model/Reader.v — Excel.parse over an abstract sparse worksheet.  openpyxl's read-only row stream (after
   reset_dimensions) is an ORACLE with this contract: rows 1..max_row in order; row r holds the cells of columns
   1..(last stored column of row r), absent cells as None; a row without stored cells is empty.  Excel.parse keeps the
   position in the stream as the coordinate; _fill_cell reads data[sheet][row][column] or None outside. *)
Require Import X2P.Base.Prelude.
From Coq Require Import Arith Lia.
Open Scope nat_scope.

(* a stored cell: 1-based column and row, value *)
Definition sparse := list (nat * nat * val).

Definition lookup_cell (w : sparse) (c r : nat) : option val :=
  match find (fun x => Nat.eqb (fst (fst x)) c && Nat.eqb (snd (fst x)) r) w with Some x => Some (snd x) | None => None end.

Definition max_row (w : sparse) : nat := fold_right (fun x m => Nat.max (snd (fst x)) m) 0 w.
Definition row_len (w : sparse) (r : nat) : nat :=
  fold_right (fun x m => if Nat.eqb (snd (fst x)) r then Nat.max (fst (fst x)) m else m) 0 w.

(* the row stream *)
Definition stream (w : sparse) : list (list (option val)) :=
  map (fun r => map (fun c => lookup_cell w c r) (seq 1 (row_len w r))) (seq 1 (max_row w)).

(* Excel.parse: data, sizes (last_column = longest row, last_row = number of rows) *)
Definition parse_sheet (w : sparse) : list (list (option val)) * (nat * nat) :=
  let d := stream w in (d, (fold_right (fun row m => Nat.max (List.length row) m) 0 d, List.length d)).

(* _fill_cell with 0-based column / row *)
Definition fill (d : list (list (option val))) (c r : nat) : option val :=
  match nth_error d r with
  | Some row => match nth_error row c with Some v => v | None => None end
  | None => None
  end.

(* what the translator emits for a constant cell, and what the emitted text evaluates to *)
Definition emitted_constant (v : option val) : val := match v with Some x => x | None => VEmpty end.
