(* Model/Cond.v — IF / IFS / IFERROR as emitted, evaluated big-step with Python's exceptions.
     IF(c,t,f)      ->  ((t) if (c) else (f))            (f = False when omitted)
     IFERROR(a,b)   ->  self._iferror(lambda: a, b)      (b is an ordinary argument: evaluated first, eagerly)
     IFS(c1,v1,...) ->  self._ifs(self._flatten_list([c1,v1,...]))   (all evaluated before the scan)
   Leaves are opaque values; Bin nodes are the operators the nests sit in. *)
Require Import X2P.Base.Prelude X2P.Base.F64 X2P.Base.PyCmp X2P.Base.PyType X2P.Base.PyNum X2P.Base.PyArith.
Require Import X2P.Model.Compare X2P.Model.Agg.
Open Scope Z_scope.

Inductive bop := BArith (o : aop) | BCmp (o : cmpop) | BAmp.

Inductive cexpr :=
  | Leaf (v : val)
  | Raise (e : exn)                    (* a sub-expression whose evaluation raises this exception class *)
  | Bin (o : bop) (a b : cexpr)
  | If (c t : cexpr) (f : option cexpr)
  | IfError (a b : cexpr)
  | Ifs (args : list cexpr)
  | Sum (args : list cexpr).          (* SUM(...) of scalar expressions: a function position *)

Section Eval.
  Variable frepr : float -> string.

  Definition eval_bin (o : bop) (x y : val) : res val :=
    match o with
    | BArith a => py_arith a x y
    | BCmp c => do b <- compare frepr c x y; Ok (VBool b)
    | BAmp => do s <- py_str frepr x; do t <- py_str frepr y; Ok (VStr (s ++ t))
    end.

  (* _ifs on the flattened, already evaluated list *)
  Fixpoint ifs_scan (l : list val) : res val :=
    match l with
    | [] => Ok (VStr "#N/A")
    | c :: rest =>
        if truthy c then match rest with v :: _ => Ok v | [] => Exc IndexError end
        else match rest with _ :: rest' => ifs_scan rest' | [] => Ok (VStr "#N/A") end
    end.
  Definition rt_ifs (l : list val) : res val :=
    match find_error l with Some e => Ok e | None => ifs_scan l end.

  Definition is_error_value (v : val) : bool :=
    match find_error [v] with Some _ => true | None => false end.

  Fixpoint ceval (e : cexpr) : res val :=
    match e with
    | Leaf v => Ok v
    | Raise e => Exc e
    | Bin o a b => do x <- ceval a; do y <- ceval b; eval_bin o x y
    | If c t f =>
        do cv <- ceval c;
        if truthy cv then ceval t else match f with Some f => ceval f | None => Ok (VBool false) end
    | IfError a b =>
        do fallback <- ceval b;                 (* argument evaluated before the call *)
        match ceval a with
        | Ok v => if is_error_value v then Ok fallback else Ok v
        | Exc _ => Ok fallback                  (* bare except: *)
        end
    | Ifs args =>
        do vs <- (fix all (l : list cexpr) : res (list val) :=
                    match l with [] => Ok [] | x :: t => do v <- ceval x; do r <- all t; Ok (v :: r) end) args;
        rt_ifs (flatten vs)
    | Sum args =>
        do vs <- (fix all (l : list cexpr) : res (list val) :=
                    match l with [] => Ok [] | x :: t => do v <- ceval x; do r <- all t; Ok (v :: r) end) args;
        rt_sum (only_numeric (flatten vs))
    end.
End Eval.
