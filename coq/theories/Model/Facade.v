(* Model/Facade.v — the Parser facade as a state machine (after the F5 fix), over an abstract translation function,
   and the lazy initialisation of the recursive token-set tables as a two-thread small-step system. *)
From Coq Require Import List Arith Bool.
Import ListNotations.

Section F.
  Variable path entry text : Type.
  (* the translation proper: a deterministic function of workbook path and entry cell (None = whole workbook) *)
  Inductive tres := TOk (t : text) | TParserExc | TOtherExc.
  Variable T : path -> option entry -> tres.
  Variable safe : path -> bool.               (* no suspicious cell in the workbook *)

  Record pstate := {
    p_safety : bool;
    p_path : option path;
    p_entry : option entry;
    p_cache : option text;
    p_dirty_path : bool;
    p_dirty_entry : bool }.

  Definition pinit : pstate :=
    {| p_safety := true; p_path := None; p_entry := None; p_cache := None; p_dirty_path := true; p_dirty_entry := true |}.

  Inductive pop := Enable | Disable | SetPath (p : path) | SetEntry (e : entry) | Get | Write.
  Inductive pout := PNone | PText (t : option text) | PParserExc | PSafetyExc | POtherExc.

  (* Parser._translate *)
  Definition translate (s : pstate) : pstate * pout :=
    if negb (p_dirty_path s) && negb (p_dirty_entry s) then (s, PText (p_cache s))
    else match p_path s with
         | None => (s, PParserExc)
         | Some p =>
             if p_safety s && negb (safe p) then (s, PSafetyExc)
             else match T p (p_entry s) with
                  | TOk t => ({| p_safety := p_safety s; p_path := p_path s; p_entry := p_entry s; p_cache := Some t;
                                 p_dirty_path := false; p_dirty_entry := false |}, PText (Some t))
                  | TParserExc => (s, PParserExc)
                  | TOtherExc => (s, POtherExc)
                  end
         end.

  Definition pstep (s : pstate) (o : pop) : pstate * pout :=
    match o with
    | Enable => ({| p_safety := true; p_path := p_path s; p_entry := p_entry s; p_cache := p_cache s;
                    p_dirty_path := p_dirty_path s; p_dirty_entry := p_dirty_entry s || negb (p_safety s) |}, PNone)
    | Disable => ({| p_safety := false; p_path := p_path s; p_entry := p_entry s; p_cache := p_cache s;
                     p_dirty_path := p_dirty_path s; p_dirty_entry := p_dirty_entry s || p_safety s |}, PNone)
    | SetPath p => ({| p_safety := p_safety s; p_path := Some p; p_entry := p_entry s; p_cache := p_cache s;
                       p_dirty_path := true; p_dirty_entry := p_dirty_entry s |}, PNone)
    | SetEntry e => ({| p_safety := p_safety s; p_path := p_path s; p_entry := Some e; p_cache := p_cache s;
                        p_dirty_path := p_dirty_path s; p_dirty_entry := true |}, PNone)
    | Get | Write => translate s          (* write_translation stores exactly the text get_translation returns *)
    end.

  Fixpoint prun (s : pstate) (os : list pop) : pstate * list pout :=
    match os with
    | [] => (s, [])
    | o :: rest => let '(s1, r) := pstep s o in let '(s2, rs) := prun s1 rest in (s2, r :: rs)
    end.

  (* what a FRESH parser configured with the settings in force returns *)
  Definition fresh_result (safety : bool) (p : option path) (e : option entry) : pout :=
    match p with
    | None => PParserExc
    | Some p => if safety && negb (safe p) then PSafetyExc
                else match T p e with TOk t => PText (Some t) | TParserExc => PParserExc | TOtherExc => POtherExc end
    end.
End F.
Arguments p_safety {path entry text}. Arguments p_path {path entry text}. Arguments p_entry {path entry text}.
Arguments p_cache {path entry text}. Arguments p_dirty_path {path entry text}. Arguments p_dirty_entry {path entry text}.
Arguments TOk {text}. Arguments TParserExc {text}. Arguments TOtherExc {text}.
Arguments PNone {text}. Arguments PText {text}. Arguments PParserExc {text}. Arguments PSafetyExc {text}. Arguments POtherExc {text}.
Arguments Enable {path entry}. Arguments Disable {path entry}. Arguments SetPath {path entry}. Arguments SetEntry {path entry}.
Arguments Get {path entry}. Arguments Write {path entry}.

(* ---------- lazy initialisation of RecursiveCompositeBaseToken token sets under two threads ---------- *)
Section Lazy.
  Variable table : Type.
  Variable resolve : table -> table.           (* replaces the CLS placeholder by the class *)
  Hypothesis resolve_idem : forall t, resolve (resolve t) = resolve t.

  (* get_token_sets:  if not PROCESSED: TOKEN_SETS = resolve(TOKEN_SETS); PROCESSED = True;  return TOKEN_SETS
     program counter of one thread: 0 read flag; 1 read table (into a local) ; 2 write table; 3 write flag; 4 return (read table); 5 done *)
  Record thread := { pc : nat; loc : option table; ret : option table }.
  Record shared := { tbl : table; flag : bool }.
  Definition tstep (sh : shared) (th : thread) : shared * thread :=
    match pc th with
    | 0 => if flag sh then (sh, {| pc := 4; loc := loc th; ret := ret th |}) else (sh, {| pc := 1; loc := loc th; ret := ret th |})
    | 1 => (sh, {| pc := 2; loc := Some (resolve (tbl sh)); ret := ret th |})
    | 2 => ({| tbl := match loc th with Some t => t | None => tbl sh end; flag := flag sh |}, {| pc := 3; loc := loc th; ret := ret th |})
    | 3 => ({| tbl := tbl sh; flag := true |}, {| pc := 4; loc := loc th; ret := ret th |})
    | 4 => (sh, {| pc := 5; loc := loc th; ret := Some (tbl sh) |})
    | _ => (sh, th)
    end.
  (* a schedule picks which thread moves *)
  Definition sys := (shared * thread * thread)%type.
  Definition sstep (s : sys) (who : bool) : sys :=
    let '(sh, a, b) := s in
    if who then let '(sh', a') := tstep sh a in (sh', a', b) else let '(sh', b') := tstep sh b in (sh', a, b').
  Definition srun (s : sys) (sched : list bool) : sys := fold_left sstep sched s.
  Definition t0 : thread := {| pc := 0; loc := None; ret := None |}.
End Lazy.
Arguments pc {table}. Arguments loc {table}. Arguments ret {table}. Arguments tbl {table}. Arguments flag {table}.
