(* Model/Taint.v — where workbook text goes in the generated module (after the repr fixes F13, F14):
   constant text cells and sheet titles through repr(); formula string literals through repr(); wildcard-pattern literals
   through repr() inside self._regexp(...).  The reading side: one Python string literal (Base/PyRepr.v). *)
Require Import X2P.Base.Prelude X2P.Base.Str X2P.Base.PyRepr X2P.Model.Peg X2P.Model.Lexer X2P.Gen.Grammar X2P.Gen.Regexes.
Open Scope string_scope.

(* CellTranslator: code = repr(cell.value) for a text constant *)
Definition emit_constant (text : string) : string := py_repr text.

(* the code of a cell whose text is  ="<text>"  : lexed by the real token regexes *)
Inductive femit := FLit (w : string) | FPat (w : string) | FRejected | FUnmodelled.
Definition REGEXP_OPEN : string := "self._regexp(".
Definition inner (s : string) : string := str_slice s 1 (slen s - 1).       (* s[1:-1] *)
Definition emit_text_formula (text : string) : femit :=
  match lex ("=""" ++ text ++ """") with
  | LOk [e; t] =>
      if negb (Nat.eqb (tclass e) L_EqOperatorToken) then FRejected
      else if Nat.eqb (tclass t) L_LiteralToken then
        (* LiteralToken: real_value = repr(value[1]) *)
        FLit (nth 1 (tpay t) "")
      else if Nat.eqb (tclass t) L_PatternToken then
        (* PatternTokenTranslator: f'self._regexp({token.value[0][1:-1]!r})' *)
        FPat (inner (nth 0 (tpay t) ""))
      else FRejected
  | LOk _ => FRejected          (* more than one token after "=": not a plain literal; the parser decides (C05) *)
  | LUndefined => FRejected
  | _ => FUnmodelled
  end.
Definition code_of (f : femit) : option string :=
  match f with
  | FLit w => Some (py_repr w)
  | FPat w => Some (REGEXP_OPEN ++ py_repr w ++ ")")
  | _ => None
  end.

(* is the emitted piece exactly one string literal, and which text does it denote *)
Definition denotes (code : string) : option string :=
  match read_string_literal (list_of_string code) with
  | Some (l, []) => Some (string_of_list l)
  | _ => None
  end.

(* the emitted code of a formula-text cell, read as Python: one string literal, or the fixed template call self._regexp( <one string literal> ) ;
   returns the text the literal denotes *)
Fixpoint strip_prefix (p s : string) : option string :=
  match p, s with
  | EmptyString, _ => Some s
  | String a p', String b s' => if ascii_eqb a b then strip_prefix p' s' else None
  | _, _ => None
  end.
Definition inert_code (code : string) : option string :=
  match strip_prefix REGEXP_OPEN code with
  | Some r =>
      match read_string_literal (list_of_string r) with
      | Some (l, rest) => if String.eqb (string_of_list rest) ")" then Some (string_of_list l) else None
      | None => None
      end
  | None => denotes code
  end.
