(* Model/Graph.v — translation from an entry cell as a memoised depth-first traversal of the dependency graph
   (CellTranslator._set_cell_to_context after the F2 fix: a cell is registered in the context AFTER its precedents;
   a cell met again while it is still being translated raises the parser exception), and evaluation of the
   generated class through _cell_preprocessor (argument map first, else the cell's method, else blank). *)
From Coq Require Import List Arith Bool.
Import ListNotations.

Section G.
  Variable V : Type.                         (* outcome of evaluating a cell: a value or an exception *)
  Variable blank : V.
  Variable out_of_fuel : V.
  Variable deps : nat -> list nat.           (* cells a cell's formula refers to, in translation order *)
  Variable den : nat -> (nat -> V) -> V.     (* a cell's formula as a function of the outcomes of the cells it refers to *)

  Definition mem (c : nat) (l : list nat) : bool := existsb (Nat.eqb c) l.

  Inductive gres := GOk (ctx : list nat) | GCycle | GFuel.

  (* ctx = cells already registered; prog = cells whose formula is being translated (innermost first) *)
  Fixpoint visit_all (rec : nat -> list nat -> gres) (ds : list nat) (ctx : list nat) : gres :=
    match ds with
    | [] => GOk ctx
    | d :: ds' => match rec d ctx with GOk ctx' => visit_all rec ds' ctx' | other => other end
    end.
  Fixpoint dfs (fuel : nat) (prog : list nat) (c : nat) (ctx : list nat) : gres :=
    match fuel with
    | O => GFuel                                  (* Python's recursion limit *)
    | S f => if mem c ctx then GOk ctx
             else if mem c prog then GCycle       (* E2PyclParserException('Circular reference') *)
             else match visit_all (dfs f (c :: prog)) (deps c) ctx with
                  | GOk ctx' => GOk (c :: ctx')
                  | other => other
                  end
    end.

  Definition translate_from (fuel : nat) (c : nat) : gres := dfs fuel [] c [].
  (* translate_file: every cell of the workbook in order, sharing the context *)
  Fixpoint translate_all (fuel : nat) (cells : list nat) (ctx : list nat) : gres :=
    match cells with
    | [] => GOk ctx
    | c :: rest => match dfs fuel [] c ctx with GOk ctx' => translate_all fuel rest ctx' | other => other end
    end.

  (* evaluation in a class that defines exactly the cells of S, with an argument map (the overrides) *)
  Fixpoint eval (S : list nat) (args : nat -> option V) (fuel : nat) (c : nat) : V :=
    match fuel with
    | O => out_of_fuel
    | Datatypes.S f =>
        match args c with
        | Some v => v
        | None => if mem c S then den c (eval S args f) else blank
        end
    end.
End G.
