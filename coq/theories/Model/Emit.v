(* Model/Emit.v — ExpressionTokenTranslator / OperandTokenTranslator / LiteralToken, as coded: from the parse tree of an operator formula
   to the emitted text (kept structured: juxtaposition sequences, parenthesised groups, the three template calls), Python's own grouping
   of that text, and its evaluation with the runtime helpers (_compare, str, _normalize_float_number, _cell_preprocessor). *)
Require Import X2P.Base.Prelude X2P.Base.F64 X2P.Base.PyCmp X2P.Base.PyType X2P.Base.PyNum X2P.Base.PyArith X2P.Base.Str.
Require Import X2P.Model.Peg X2P.Model.Lexer X2P.Model.Compare X2P.Model.Round X2P.Gen.Grammar.
Open Scope string_scope.
Open Scope Z_scope.

(* ---------- the Python expression the emitted text denotes ---------- *)
Inductive pyexpr :=
  | PConst (v : val)
  | PCell (name : string)                         (* self._cell_preprocessor('<uid>') of the same sheet, keyed by its A1 name *)
  | PUn (neg : bool) (e : pyexpr)
  | PBin (o : aop) (a b : pyexpr)
  | PCompare (o : cmpop) (a b : pyexpr)           (* self._compare("<op>", a, b) *)
  | PStrOf (e : pyexpr)                           (* str(e) *)
  | PNorm (e : pyexpr).                           (* self._normalize_float_number(e) *)

(* ---------- the emitted text, structured ---------- *)
Inductive pitem :=
  | IAtom (e : pyexpr)
  | IOp (o : aop)                                 (* the characters + - * / : unary or binary is decided by Python *)
  | IParen (c : list pitem)
  | ICompare (o : cmpop) (l r : list pitem)
  | IStr (c : list pitem)
  | INorm (c : list pitem).

(* ---------- LiteralToken.__init__ ---------- *)
Definition grp (t : tok) (i : nat) : string := nth i (tpay t) "".
Definition digits_Z (s : string) : Z := fold_left (fun acc c => acc * 10 + digit_val c) (list_of_string s) 0.
Definition signed_Z (s : string) : Z :=
  match s with String c r => if (N_of_ascii c =? 45)%N then - digits_Z r else digits_Z s | EmptyString => 0 end.

Definition literal_value (t : tok) : option val :=
  if negb (String.eqb (grp t 2) "") then
    let i := digits_Z (grp t 2) in
    let e := signed_Z (grp t 7) in
    if negb (String.eqb (grp t 5) "") || (negb (String.eqb (grp t 7) "") && (e <? 0)) then
      (* float(<literal text>): correctly rounded decimal -> double (after fix F15) *)
      let n := digits_Z (grp t 2 ++ grp t 5) in let d := 10 ^ Z.of_nat (String.length (grp t 5)) in
      let f := if 0 <=? e then q2f (n * 10 ^ e) d else q2f n (d * 10 ^ (- e)) in
      Some (VFloat f)                                   (* an infinite value is rejected by emit_operand (fix 51bf86d) *)
    else Some (VInt (if String.eqb (grp t 7) "" then i else i * 10 ^ e))
  else if negb (String.eqb (grp t 1) "") || String.eqb (grp t 0) """""" then Some (VStr (grp t 1))
  else if negb (String.eqb (grp t 8) "") then Some (VBool true)
  else if negb (String.eqb (grp t 10) "") then Some (VBool false)
  else None.

(* an integer literal with an exponent above 308 is rejected while the token is built (fix 24efa0a) *)
(* ... and so is one whose integer digits, or whose exponent's digits, are more than int() converts (4300 digits; fix 34418e3): int() is only
   reached when there is no fraction *)
Definition ndigits (s : string) : Z :=
  match s with String c r => if (N_of_ascii c =? 45)%N then Z.of_nat (String.length r) else Z.of_nat (String.length s) | EmptyString => 0 end.
Definition literal_rejected (t : tok) : bool :=
  negb (String.eqb (grp t 2) "") && String.eqb (grp t 5) "" &&
  ((negb (String.eqb (grp t 7) "") && (308 <? signed_Z (grp t 7))) || (4300 <? ndigits (grp t 7)) ||
   ((4300 <? ndigits (grp t 2)) && negb (signed_Z (grp t 7) <? 0))).

(* ---------- the token properties the translator reads ---------- *)
Definition is_nt (n : nat) (t : tree) : bool := match t with Node m _ _ => Nat.eqb m n | Leaf _ => false end.
Definition is_leaf (c : nat) (t : tree) : bool := match t with Leaf k => Nat.eqb (tclass k) c | Node _ _ _ => false end.
Fixpoint first_leaf (fuel : nat) (t : tree) : option tok :=
  match fuel with O => None | S f =>
    match t with Leaf k => Some k | Node _ _ (x :: _) => first_leaf f x | Node _ _ [] => None end end.

Inductive opk := OArith (o : aop) | OCmp (o : cmpop) | OAmp | OPct.
Definition op_of_class (c : nat) : option opk :=
  if Nat.eqb c L_PlusOperatorToken then Some (OArith AAdd) else if Nat.eqb c L_MinusOperatorToken then Some (OArith ASub)
  else if Nat.eqb c L_MultiplicationOperatorToken then Some (OArith AMul) else if Nat.eqb c L_DivOperatorToken then Some (OArith ADiv)
  else if Nat.eqb c L_EqOperatorToken then Some (OCmp OEq) else if Nat.eqb c L_NotEqOperatorToken then Some (OCmp ONe)
  else if Nat.eqb c L_GtOperatorToken then Some (OCmp OGt) else if Nat.eqb c L_GtOrEqualOperatorToken then Some (OCmp OGe)
  else if Nat.eqb c L_LtOperatorToken then Some (OCmp OLt) else if Nat.eqb c L_LtOrEqualOperatorToken then Some (OCmp OLe)
  else if Nat.eqb c L_AmpersandToken then Some OAmp else if Nat.eqb c L_PercentToken then Some OPct else None.
Definition operator_of (t : tree) : option opk :=
  match first_leaf 6 t with Some k => op_of_class (tclass k) | None => None end.

Definition dummy : tree := Node 0 0 [].
Definition HUNDRED : list pitem := [IOp ADiv; IAtom (PConst (VInt 100))].

Inductive emitted := EOk (c : list pitem) | ERejected | EUnmodelled | EFuel.

(* OperandTokenTranslator on the operand kinds of the operator grammar *)
Definition emit_operand (t : tree) : emitted :=
  match t with
  | Node _ _ [Leaf k] =>
      if Nat.eqb (tclass k) L_LiteralToken then
        if literal_rejected k then ERejected else
        match literal_value k with
        | Some (VFloat f) => if f_is_inf f then ERejected else EOk [IAtom (PConst (VFloat f))]
        | Some v => EOk [IAtom (PConst v)] | None => EUnmodelled end
      else if Nat.eqb (tclass k) L_CellIdentifierToken then
        if String.eqb (grp k 3) "" && String.eqb (grp k 4) "" then EOk [IAtom (PCell (grp k 5 ++ grp k 6))] else EUnmodelled
      else EUnmodelled
  | _ => EUnmodelled
  end.

(* one node of the tree; rec is the translation of the sub-expressions *)
Definition emit_node (rec : tree -> emitted) (nt : nat) (kids : list tree) : emitted :=
    let n := List.length kids in
    let k i := nth i kids dummy in
    if Nat.eqb nt N_OneLeftOperandExpressionToken then
      (* operator = value[1].operator (the percent sign), left_operand = value[0]; whatever follows in value[2] is not looked at *)
      match emit_operand (k 0%nat) with
      | EOk l => EOk [INorm (l ++ HUNDRED)]
      | other => other
      end
    else if negb (Nat.eqb nt N_ExpressionToken) then EUnmodelled
    else
      let operator :=
        if is_nt N_OneOperandArithmeticOperatorToken (k 0%nat) then operator_of (k 0%nat)
        else if Nat.eqb n 3 && is_nt N_OperatorToken (k 1%nat) then operator_of (k 1%nat)
        else if Nat.eqb n 5 && is_nt N_OperatorToken (k 3%nat) then operator_of (k 3%nat) else None in
      let left :=
        if is_nt N_OneLeftOperandExpressionToken (k 0%nat) then Some (k 0%nat)
        else if (Nat.eqb n 1 || Nat.eqb n 3) && is_nt N_OperandToken (k 0%nat) then Some (k 0%nat)
        else if Nat.eqb n 5 && is_nt N_ExpressionToken (k 1%nat) then Some (k 1%nat) else None in
      let right :=
        if Nat.eqb n 3 && is_nt N_ExpressionToken (k 2%nat) then Some (k 2%nat)
        else if (Nat.eqb n 2 || Nat.eqb n 3) && is_nt N_ExpressionToken (k 1%nat) then Some (k 1%nat)
        else if Nat.eqb n 5 && is_nt N_ExpressionToken (k 4%nat) then Some (k 4%nat) else None in
      let lb := is_leaf L_BracketStartToken (k 0%nat) && Nat.eqb n 5 in
      let rb := (is_nt N_OneOperandArithmeticOperatorToken (k 0%nat) || is_leaf L_BracketStartToken (k 0%nat)) && (Nat.eqb n 2 || Nat.eqb n 3) in
      let tr (o : option tree) (br : bool) : emitted :=
        match o with
        | None => EOk []
        | Some x =>
            match (if is_nt N_OperandToken x then emit_operand x else rec x) with
            | EOk c => EOk (if br then [IParen c] else c)
            | other => other
            end
        end in
      match tr left lb, tr right rb with
      | EOk l, EOk r =>
          let left_is_pct := match left with Some x => is_nt N_OneLeftOperandExpressionToken x | None => false end in
          match operator with
          | None => EOk (l ++ r)%list
          | Some OAmp =>
              let body := ([IStr l] ++ [IOp AAdd] ++ [IStr r])%list in
              EOk (if left_is_pct then [INorm body] else body)
          | Some (OCmp o) =>
              match left, right with
              | Some _, Some _ => EOk [ICompare o l r]
              | _, _ => EUnmodelled
              end
          | Some OPct =>
              (* after x% only a sign can start the right-hand side (fix: "a percent sign followed directly by an operand is rejected") *)
              if match right with
                 | Some (Node _ _ (x :: _)) => negb (is_nt N_OneOperandArithmeticOperatorToken x)
                 | Some _ => true
                 | None => false end then ERejected else
              let body := ([INorm (l ++ HUNDRED)] ++ r)%list in
              EOk (if left_is_pct then [INorm body] else body)
          | Some (OArith o) =>
              let body := (l ++ [IOp o] ++ r)%list in
              EOk (if left_is_pct then [INorm body] else body)
          end
      | EOk _, other => other
      | other, _ => other
      end.

Fixpoint emit (fuel : nat) (t : tree) : emitted :=
  match fuel with O => EFuel | S f =>
  match t with
  | Leaf _ => EUnmodelled
  | Node nt _ kids => emit_node (emit f) nt kids
  end end.

(* ---------- Python's grouping of a juxtaposition sequence:  sum := term (('+'|'-') term)* ; term := factor (('*'|'/') factor)* ;
   factor := ('+'|'-') factor | atom ---------- *)
Fixpoint p_factor (fuel : nat) (l : list pitem) : option (pyexpr * list pitem) :=
  match fuel with O => None | S f =>
  match l with
  | IOp AAdd :: r => match p_factor f r with Some (e, r') => Some (PUn false e, r') | None => None end
  | IOp ASub :: r => match p_factor f r with Some (e, r') => Some (PUn true e, r') | None => None end
  | IAtom e :: r => Some (e, r)
  | IParen c :: r => match p_sum f c with Some e => Some (e, r) | None => None end
  | ICompare o a b :: r => match p_sum f a, p_sum f b with Some x, Some y => Some (PCompare o x y, r) | _, _ => None end
  | IStr c :: r => match p_sum f c with Some e => Some (PStrOf e, r) | None => None end
  | INorm c :: r => match p_sum f c with Some e => Some (PNorm e, r) | None => None end
  | _ => None
  end end
with p_term_loop (fuel : nat) (acc : pyexpr) (l : list pitem) : option (pyexpr * list pitem) :=
  match fuel with O => None | S f =>
  match l with
  | IOp AMul :: r => match p_factor f r with Some (e, r') => p_term_loop f (PBin AMul acc e) r' | None => None end
  | IOp ADiv :: r => match p_factor f r with Some (e, r') => p_term_loop f (PBin ADiv acc e) r' | None => None end
  | _ => Some (acc, l)
  end end
with p_sum_loop (fuel : nat) (acc : pyexpr) (l : list pitem) : option (pyexpr * list pitem) :=
  match fuel with O => None | S f =>
  match l with
  | IOp AAdd :: r =>
      match p_factor f r with
      | Some (e, r') => match p_term_loop f e r' with Some (t, r'') => p_sum_loop f (PBin AAdd acc t) r'' | None => None end
      | None => None end
  | IOp ASub :: r =>
      match p_factor f r with
      | Some (e, r') => match p_term_loop f e r' with Some (t, r'') => p_sum_loop f (PBin ASub acc t) r'' | None => None end
      | None => None end
  | _ => Some (acc, l)
  end end
with p_sum (fuel : nat) (l : list pitem) : option pyexpr :=
  match fuel with O => None | S f =>
  match p_factor f l with
  | Some (e, r) =>
      match p_term_loop f e r with
      | Some (t, r') => match p_sum_loop f t r' with Some (s, []) => Some s | _ => None end
      | None => None end
  | None => None
  end end.

Fixpoint isize (i : pitem) : nat :=
  match i with
  | IAtom _ | IOp _ => 1
  | IParen c | IStr c | INorm c => S (fold_right (fun x a => isize x + a)%nat 0%nat c)
  | ICompare _ a b => S (fold_right (fun x a => isize x + a)%nat 0%nat a + fold_right (fun x a => isize x + a)%nat 0%nat b)
  end.
Definition regroup (c : list pitem) : option pyexpr :=
  p_sum (4 * (fold_right (fun x a => isize x + a)%nat 0%nat c) + 8) c.

(* ---------- evaluation of the grouped expression with the runtime helpers ---------- *)
Definition norm_val (v : val) : res val :=
  match v with
  | VFloat f => Ok (VFloat (normalize15 f))
  | VStr _ => Exc ValueError                          (* format code 'g' on a str *)
  | _ => match as_int_like v with
         | Some z => do f <- z2f_checked z; Ok (VFloat (normalize15 f))
         | None => Exc OtherExc end
  end.

Section Eval.
  Variable frepr : float -> string.
  Variable env : string -> val.                       (* the value of a referenced cell: workbook constant or override; blank = VEmpty *)
  Fixpoint pyeval (e : pyexpr) : res val :=
    match e with
    | PConst v => Ok v
    | PCell n => Ok (env n)
    | PUn neg a => do x <- pyeval a; if neg then py_neg x else py_pos x
    | PBin o a b => do x <- pyeval a; do y <- pyeval b; py_arith o x y
    | PCompare o a b => do x <- pyeval a; do y <- pyeval b; do r <- compare frepr o x y; Ok (VBool r)
    | PStrOf a => do x <- pyeval a; do s <- py_str frepr x; Ok (VStr s)
    | PNorm a => do x <- pyeval a; norm_val x
    end.
End Eval.

(* ---------- the whole path for a formula text (one expression after "=") ---------- *)
(* is the class one of the control-construction heads (cls in {token[0] for token in ControlConstructionCompositeBaseToken.get_token_sets()});
   tabulated once for speed, Proofs/AssembleProofs.is_cc_table proves the table equal to the membership test for every n *)
Definition is_cc_slow (n : nat) : bool := existsb (Nat.eqb n) cc_heads.
Definition cc_flags : list bool := Eval vm_compute in map is_cc_slow (List.seq 0 (List.length grammar_table)).
Definition is_cc (n : nat) : bool := nth n cc_flags false.
Inductive translated := TOk (e : pyexpr) | TRejected | TSyntaxError | TUnmodelled.
Definition PARSE_FUEL : nat := 60.
Definition tokens_of (formula : string) : option (option (list tok)) :=
  match lex formula with
  | LOk (e :: ts) => if Nat.eqb (tclass e) L_EqOperatorToken then Some (Some ts) else Some None
  | LOk [] => Some None
  | LUndefined => Some None
  | _ => None
  end.
Definition translate_tokens (ts : list tok) : translated :=
  match ast_builder grammar_table is_cc N_ExpressionToken PARSE_FUEL ts with
  | AOk t =>
      match emit 200 t with
      | EOk c => match regroup c with Some e => TOk e | None => TSyntaxError end
      | ERejected => TRejected
      | _ => TUnmodelled
      end
  | AReject => TRejected
  | AFuel => TUnmodelled
  end.
Definition translate_formula (formula : string) : translated :=
  match tokens_of formula with
  | Some (Some ts) => translate_tokens ts
  | Some None => TRejected
  | None => TUnmodelled
  end.
