(* Model/Dates.v — _date, _year/_month/_day, _edate, _eomonth, _datedif, _network_days as coded
   (after the F9 / F10 fixes), on top of Base/Calendar.v. *)
Require Import X2P.Base.Prelude X2P.Base.F64 X2P.Base.PyCmp X2P.Base.PyType X2P.Base.PyNum X2P.Base.Calendar.
Open Scope string_scope.
Open Scope Z_scope.

(* dateutil.relativedelta(months=k) + datetime(y,m,d): _fix normalisation then __radd__ *)
Definition rd_add_months (y m d k : Z) : res (Z * Z * Z) :=
  let '(years, months) :=
    if 11 <? Z.abs k then
      let s := if k <? 0 then -1 else 1 in
      let dv := (k * s) / 12 in let md := (k * s) mod 12 in (dv * s, md * s)
    else (0, k) in
  let year := y + years in
  let month := m + months in
  let '(year, month) :=
    if months =? 0 then (year, m)
    else if 12 <? month then (year + 1, month - 12)
    else if month <? 1 then (year - 1, month + 12)
    else (year, month) in
  if (year <? 1) || (9999 <? year) then Exc ValueError
  else Ok (year, month, Z.min (dim year month) d).

Definition USDAY := 86400000000.

(* _date(year, month, day) for int arguments *)
Definition date (year month day : Z) : res val :=
  let year := if (0 <=? year) && (year <=? 1899) then year + 1900 else year in
  if (year <? 0) || (9999 <? year) then Ok (VStr "#NUM!") else
  do r <- rd_add_months year 1 1 (month - 1);
  let '(y, m, d) := r in
  let o := ord_of_ymd y m d + (day - 1) in
  if ord_in_range o then Ok (VDT o 0) else Exc OverflowError.

Definition year_of (v : val) : res val := match v with VDT o _ | VDate o => let '(y, _, _) := ymd_of_ord o in Ok (VInt y) | _ => Exc AttributeError end.
Definition month_of (v : val) : res val := match v with VDT o _ | VDate o => let '(_, m, _) := ymd_of_ord o in Ok (VInt m) | _ => Exc AttributeError end.
Definition day_of (v : val) : res val := match v with VDT o _ | VDate o => let '(_, _, d) := ymd_of_ord o in Ok (VInt d) | _ => Exc AttributeError end.

(* trunc(months) for an int or float *)
Definition trunc_num (v : val) : res Z :=
  match v with
  | VInt z => Ok z
  | VBool b => Ok (if b then 1 else 0)
  | VEmpty => Ok 0
  | VFloat f => if f_is_nan f then Exc ValueError else if f_is_inf f then Exc OverflowError
                else match f_trunc f with Some z => Ok z | None => Exc ValueError end
  | _ => Exc TypeError
  end.

Definition edate (start months : val) : res val :=
  match start with
  | VDT o us =>
      if negb (is_number months) then Ok (VStr "#VALUE!") else
      do k <- trunc_num months;
      let '(y, m, d) := ymd_of_ord o in
      do r <- rd_add_months y m d k;
      let '(y', m', d') := r in Ok (VDT (ord_of_ymd y' m' d') us)
  | _ => Ok (VStr "#VALUE!")
  end.

Definition eomonth (start months : val) : res val :=
  match start with
  | VDT o us =>
      do k <- trunc_num months;
      let '(y, m, d) := ymd_of_ord o in
      do r <- rd_add_months y m d k;
      let '(y', m', _) := r in Ok (VDT (ord_of_ymd y' m' (dim y' m')) 0)
  | _ => Ok (VStr "#NUM!")
  end.

(* (end - start).days : floor of the difference in days *)
Definition days_between (o1 u1 o2 u2 : Z) : Z := ((o2 - o1) * USDAY + (u2 - u1)) / USDAY.

Definition datedif (s e : val) (mode : string) : res val :=
  match s, e with
  | VDT o1 u1, VDT o2 u2 =>
      if (o2 <? o1) || ((o2 =? o1) && (u2 <? u1)) then Ok (VStr "#NUM!") else
      let '(y1, m1, d1) := ymd_of_ord o1 in
      let '(y2, m2, d2) := ymd_of_ord o2 in
      let days := days_between o1 u1 o2 u2 in
      let ylen := if is_leap y1 && (m1 <=? 2) then 366 else 365 in
      if String.eqb mode "Y" then Ok (VInt (days / ylen))
      else if String.eqb mode "M" then Ok (VInt (12 * (y2 - y1) + (m2 - m1) - (if d2 <? d1 then 1 else 0)))
      else if String.eqb mode "D" then Ok (VInt days)
      else if String.eqb mode "MD" then
        (if d1 <=? d2 then Ok (VInt (d2 - d1))
         else let '(py, pm, _) := ymd_of_ord (ord_of_ymd y2 m2 1 - 1) in Ok (VInt (dim py pm - (d1 - d2))))
      else if String.eqb mode "YM" then
        Ok (VInt ((12 * (y2 - y1) + (m2 - m1) + (if d2 <? d1 then -1 else 0)) mod 12))
      else if String.eqb mode "YD" then Ok (VInt (days mod ylen))
      else Ok (VStr "#NUM!")
  | _, _ => Ok (VStr "#VALUE!")
  end.

(* _network_days: the while loop over dates, on fuel = number of days in the interval *)
Fixpoint nd_loop (fuel : nat) (start stop : Z) (hol : list Z) (acc : Z) : Z :=
  match fuel with
  | O => acc
  | S f => if stop <? start then acc
           else nd_loop f (start + 1) stop hol
                  (if negb ((weekday start =? 5) || (weekday start =? 6)) && negb (existsb (Z.eqb start) hol)
                   then acc + 1 else acc)
  end.
(* holidays: rows of cells; only datetime cells count *)
Definition holiday_ords (h : val) : list Z :=
  match h with
  | VList rows => flat_map (fun r => match r with
                                     | VList cells => flat_map (fun c => match c with VDT o _ => [o] | _ => [] end) cells
                                     | _ => [] end) rows
  | _ => []
  end.
Definition network_days (s e h : val) : res val :=
  match s, e with
  | VDT o1 _, VDT o2 _ =>
      let '(a, b, mult) := if o1 <=? o2 then (o1, o2, 1) else (o2, o1, -1) in
      Ok (VInt (nd_loop (S (Z.to_nat (b - a))) a b (holiday_ords h) 0 * mult))
  | _, _ => Ok (VStr "#VALUE!")
  end.
