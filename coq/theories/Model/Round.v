(* Model/Round.v — _round, _roundup, _rounddown, _normalize_float_number and the % emission, as coded. *)
Require Import X2P.Base.Prelude X2P.Base.F64 X2P.Base.PyCmp X2P.Base.PyType X2P.Base.PyNum.
Open Scope Z_scope.

(* round p/q (q > 0) to an integer, ties to even *)
Definition round_half_even (p q : Z) : Z :=
  let fl := p / q in let r2 := 2 * (p - fl * q) in
  if r2 <? q then fl else if q <? r2 then fl + 1 else if Z.even fl then fl else fl + 1.

Definition signed_zero (x : float) : float := if f_sign x then neg_zero else zero.

(* float.__round__(x, n): the exact binary value rounded half-even at decimal position n, then the nearest double *)
Definition py_round_float (x : float) (n : Z) : res val :=
  match f2q x with
  | None => if f_is_nan x then Exc ValueError else Exc OverflowError     (* round(inf/nan, n) returns x in CPython for ndigits given; see note *)
  | Some (p, q) =>
      let n := Z.max (-400) (Z.min n 400) in
      if 0 <=? n then
        let k := round_half_even (p * 10 ^ n) q in
        Ok (VFloat (if k =? 0 then signed_zero x else q2f k (10 ^ n)))
      else
        let k := round_half_even p (q * 10 ^ (- n)) in
        Ok (VFloat (if k =? 0 then signed_zero x else q2f (k * 10 ^ (- n)) 1))
  end.

(* int.__round__(z, n): n >= 0 returns z; n < 0 rounds half-even to a multiple of 10^-n *)
Definition py_round_int (z : Z) (n : Z) : Z :=
  if 0 <=? n then z else let m := 10 ^ (- n) in round_half_even z m * m.

(* _round(number, num_digits) = round(number, int(num_digits)) *)
Definition rt_round (number digits : val) : res val :=
  do n <- py_int digits;
  match number with
  | VInt z => Ok (VInt (py_round_int z n))
  | VBool b => Ok (VInt (py_round_int (if b then 1 else 0) n))
  | VEmpty => Ok (VInt (py_round_int 0 n))
  | VFloat x =>
      match f2q x with
      | Some _ => py_round_float x n
      | None => Ok (VFloat x)                       (* round(inf, n) / round(nan, n) with ndigits return the float itself *)
      end
  | _ => Exc TypeError
  end.

(* 10 ** n for an int n: an int for n >= 0, a float for n < 0 *)
Definition pow10v (n : Z) : val := if 0 <=? n then VInt (10 ^ n) else VFloat (q2f 1 (10 ^ (- n))).

(* number * factor on the int/float tower *)
Definition py_mul (a b : val) : res val :=
  match a, b with
  | VInt x, VInt y => Ok (VInt (x * y))
  | VInt x, VFloat g => do f <- z2f_checked x; Ok (VFloat (PrimFloat.mul f g))
  | VFloat f, VInt y => do g <- z2f_checked y; Ok (VFloat (PrimFloat.mul f g))
  | VFloat f, VFloat g => Ok (VFloat (PrimFloat.mul f g))
  | _, _ => Exc OtherExc
  end.
Definition py_div (a b : val) : res val :=
  match a, b with
  | VInt x, VInt y => if y =? 0 then Exc ZeroDivisionError else
                      let f := zdiv_f x y in
                      if f_is_inf f then Exc OverflowError else Ok (VFloat f)
  | VInt x, VFloat g => if f_eqb g zero || f_eqb g neg_zero then Exc ZeroDivisionError else
                        do f <- z2f_checked x; Ok (VFloat (PrimFloat.div f g))
  | VFloat f, VInt y => if y =? 0 then Exc ZeroDivisionError else do g <- z2f_checked y; Ok (VFloat (PrimFloat.div f g))
  | VFloat f, VFloat g => if f_eqb g zero || f_eqb g neg_zero then Exc ZeroDivisionError else Ok (VFloat (PrimFloat.div f g))
  | _, _ => Exc OtherExc
  end.
(* math.ceil / math.floor *)
Definition py_ceil_floor (up : bool) (v : val) : res Z :=
  match v with
  | VInt z => Ok z
  | VFloat f => if f_is_nan f then Exc ValueError else if f_is_inf f then Exc OverflowError
                else match (if up then f_ceil f else f_floor f) with Some z => Ok z | None => Exc ValueError end
  | _ => Exc TypeError
  end.

(* _roundup / _rounddown: ceil|floor(number * 10**n) / 10**n, for int n *)
Definition rt_roundupdown (up : bool) (number : val) (n : Z) : res val :=
  let factor := pow10v n in
  do prod <- py_mul number factor;
  do c <- py_ceil_floor up prod;
  py_div (VInt c) factor.

(* _normalize_float_number(x) = float(f'{x:.15g}'): 15 significant digits (half-even on the exact value), nearest double *)
Fixpoint find_e10 (fuel : nat) (p q : Z) (e : Z) : Z :=
  (* largest e with 10^e <= p/q, searched downward from the start value *)
  match fuel with
  | O => e
  | S f => if (if 0 <=? e then q * 10 ^ e <=? p else q <=? p * 10 ^ (- e)) then e else find_e10 f p q (e - 1)
  end.
Definition normalize15 (x : float) : float :=
  match f2q x with
  | None => x
  | Some (p, q) =>
      if p =? 0 then x else
      let a := Z.abs p in
      let e0 := (Z.log2 a - Z.log2 q + 1) * 30103 / 100000 + 1 in      (* upper estimate of log10 *)
      let e := find_e10 8 a q e0 in
      let s := 14 - e in                                                (* scale so that 15 digits remain *)
      let k := if 0 <=? s then round_half_even (a * 10 ^ s) q else round_half_even a (q * 10 ^ (- s)) in
      let r := if 0 <=? s then q2f k (10 ^ s) else q2f (k * 10 ^ (- s)) 1 in
      if p <? 0 then PrimFloat.opp r else r
  end.
(* x% as emitted: self._normalize_float_number(x / 100) *)
Definition percent (x : val) : res val :=
  do d <- py_div x (VInt 100);
  match d with VFloat f => Ok (VFloat (normalize15 f)) | _ => Exc OtherExc end.
