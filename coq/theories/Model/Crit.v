(* Model/Crit.v — criteria of the conditional aggregates: how LambdaTokenTranslator compiles a criterion,
   what the emitted lambda computes, _regexp, and the folds _sum_if/_sumifs/_countifs/_averageifs as coded. *)
Require Import X2P.Base.Prelude X2P.Base.F64 X2P.Base.PyCmp X2P.Base.PyType X2P.Base.PyNum X2P.Base.PyArith X2P.Base.Str.
Require Import X2P.Model.Agg.
Require X2P.Base.Regex.
Require Import X2P.Base.PyRepr X2P.Gen.Regexes.
Open Scope string_scope.
Open Scope Z_scope.

(* ---------- _regexp(pattern): wildcard text -> regex text ---------- *)
(* regex strings come from the current source (Gen/Regexes.v) *)
Definition has_char (c : ascii) (s : string) : bool := existsb (ascii_eqb c) (list_of_string s).

(* replacement templates of re.sub: only the forms  \\  (a backslash) and  \g<0>  (the whole match) are modelled *)
Fixpoint expand_repl (fuel : nat) (t : list ascii) (whole : string) : option string :=
  match fuel with
  | O => None
  | S f =>
      match t with
      | [] => Some ""
      | c :: r =>
          if ascii_eqb c BSL then
            match r with
            | d :: r' =>
                if ascii_eqb d BSL then option_map (fun x => String BSL x) (expand_repl f r' whole)
                else if prefix_l (list_of_string "g<0>") r then
                  option_map (fun x => whole ++ x) (expand_repl f (skipn 4 r) whole)
                else None
            | [] => None
            end
          else option_map (fun x => String c x) (expand_repl f r whole)
      end
  end.
Definition repl_fn (template : string) (whole : string) : string :=
  match expand_repl (S (String.length template)) (list_of_string template) whole with Some s => s | None => "?unmodelled-repl?" end.
Definition repl_ok (template : string) : bool :=
  match expand_repl (S (String.length template)) (list_of_string template) "" with Some _ => true | None => false end.

Definition regexp_of (pattern : string) : option string :=
  if negb (repl_ok regexp_sub1_repl && repl_ok regexp_sub2_repl) then None else
  match Regex.finditer false regexp_flags_re pattern with
  | None => None
  | Some ms =>
      let p1 := fold_left (fun p o =>
                  let g := Regex.m_text o in
                  if has_char "?" g then str_replace1 p g ("." ++ "{" ++ str_of_Z (Z.of_nat (Regex.m_end o - Regex.m_start o)) ++ "}")
                  else if has_char "*" g then str_replace1 p g ".*" else p) ms pattern in
      match Regex.rsub false regexp_sub1_re (repl_fn regexp_sub1_repl) p1 with
      | None => None
      | Some p2 => Regex.rsub false regexp_sub2_re (repl_fn regexp_sub2_repl) p2
      end
  end.

(* ---------- compiled criteria ---------- *)
(* CPat: lambda x: re.match(self._regexp(<pattern text>), str(x))
   CGen: the three-way lambda with comparison `op` and criterion value `cv` *)
Inductive crit := CPat (pattern : string) | CGen (o : cmpop) (cv : val).

Section Lam.
  Variable frepr : float -> string.
  (* dateutil.parser.parse on a str: an oracle, supplied per case for the strings that occur *)
  Variable dparse : string -> option val.

  (* _parse_date_obj *)
  Definition pd (v : val) : option val :=
    match v with VDT _ _ => Some v | VStr s => dparse s | _ => None end.

  Definition accepts (c : crit) (x : val) : res bool :=
    match c with
    | CPat p =>
        do sx <- py_str frepr x;
        match regexp_of p with
        | None => Exc OtherExc
        | Some rx => match Regex.rmatch false rx sx with
                     | None => Exc OtherExc            (* regex outside the modelled subset / re.error *)
                     | Some (Some _) => Ok true
                     | Some None => Ok false
                     end
        end
    | CGen o cv =>
        match pd cv with
        | Some dcv => py_cmp o (match pd x with Some dx => dx | None => VNone end) dcv
        | None =>
            match cv with
            | VStr s => do sx <- py_str frepr x; py_cmp o (VStr (lower sx)) (VStr (lower s))
            | _ => py_cmp o x cv
            end
        end
    end.

  (* ---------- the folds ---------- *)
  Definition empty_to_zero (l : list val) : list val := map (fun v => match v with VEmpty => VInt 0 | _ => v end) l.
  Definition bool_to_int (l : list val) : list val := map (fun v => match v with VBool b => VInt (if b then 1 else 0) | _ => v end) l.

  (* result += sum_range[i] or 0 *)
  Definition or_zero (v : val) : val := if truthy v then v else VInt 0.
  Fixpoint sum_if_loop (rng : list val) (c : crit) (sr : list val) (acc : val) : res val :=
    match rng with
    | [] => Ok acc
    | x :: rt =>
        match sr with
        | [] => Ok acc                                  (* i < len(sum_range) fails from here on; criteria is not called *)
        | s :: st =>
            do a <- accepts c x;
            if a then (do acc' <- py_arith AAdd acc (or_zero s); sum_if_loop rt c st acc')
            else sum_if_loop rt c st acc
        end
    end.
  (* careful: `i < len(sum_range) and criteria(...)`: once i >= len(sum_range) criteria is never called again *)
  Definition rt_sum_if (range_ : list val) (c : crit) (sum_range : list val) : res val :=
    sum_if_loop (flatten range_) c (flatten sum_range) (VInt 0).

  (* marks[i] := marks[i] && criteria(range[i]) for one (range, criteria) pair *)
  Fixpoint mark_pair (c : crit) (rng : list val) (marks : list bool) : res (list bool) :=
    match rng, marks with
    | x :: rt, m :: mt => do a <- accepts c x; do r <- mark_pair c rt mt; Ok ((m && a) :: r)
    | _, _ => Ok []
    end.
  Definition SIZE_ERR {A} : res A := Exc ExcelInPythonException.

  (* first loop of the helpers: every range is flattened and its size checked BEFORE any criterion is evaluated *)
  Definition sizes_ok (n : nat) (pairs : list (list val * crit)) : bool :=
    forallb (fun p => Nat.eqb (List.length (flatten (fst p))) n) pairs.
  Fixpoint mark_all (cast_bool : bool) (pairs : list (list val * crit)) (marks : list bool) : res (list bool) :=
    match pairs with
    | [] => Ok marks
    | (r, c) :: rest =>
        let fr := empty_to_zero (flatten r) in
        let fr := if cast_bool then bool_to_int fr else fr in
        do m <- mark_pair c fr marks; mark_all cast_bool rest m
    end.
  Definition mark_pairs (cast_bool : bool) (n : nat) (pairs : list (list val * crit)) (marks : list bool) : res (list bool) :=
    if sizes_ok n pairs then mark_all cast_bool pairs marks else SIZE_ERR.
  Definition select {A} (marks : list bool) (l : list A) : list A :=
    map snd (filter fst (combine marks l)).

  Definition rt_sumifs (sum_range : list val) (pairs : list (list val * crit)) : res val :=
    let sr := flatten sum_range in
    do marks <- mark_pairs true (List.length sr) pairs (map (fun _ => true) sr);
    rt_sum (bool_to_int (select marks sr)).

  (* _countifs: the count condition is applied to the count range AFTER the other pairs have replaced rejected entries by None *)
  Definition rt_countifs (count_range : list val) (cc : crit) (pairs : list (list val * crit)) : res val :=
    let cr := flatten count_range in
    do marks <- mark_pairs false (List.length cr) pairs (map (fun _ => true) cr);
    let cr' := map (fun '(m, v) => if (m : bool) then v else VNone) (combine marks cr) in
    do kept <- (fix go (l : list val) : res (list val) :=
                  match l with
                  | [] => Ok []
                  | v :: t => do a <- accepts cc v; do r <- go t; Ok ((if a then v else VNone) :: r)
                  end) cr';
    Ok (VInt (Z.of_nat (List.length (filter truthy kept)))).

  Definition int_castable (v : val) : bool := match py_int v with Ok _ => true | Exc _ => false end.
  Definition rt_averageifs (avg_range : list val) (pairs : list (list val * crit)) : res val :=
    let ar := flatten avg_range in
    match ar with
    | [] => Ok (VStr "#DIV0!")
    | _ =>
        if negb (forallb int_castable ar) then Ok (VStr "#DIV0!") else
        do marks <- mark_pairs true (List.length ar) pairs (map (fun _ => true) ar);
        let kept := bool_to_int (select marks ar) in
        match kept with
        | [] => Ok (VStr "#DIV/0!")
        | _ => if existsb is_empty kept then Ok (VStr "#DIV/0!") else rt_average kept
        end
    end.
End Lam.

(* ---------- how LambdaTokenTranslator compiles the criterion argument ---------- *)
(* the criterion as written in the formula *)
Inductive ksyn :=
  | KNum (v : val)                    (* a number / TRUE / FALSE literal *)
  | KText (s : string)                (* a text literal without wildcards *)
  | KTextAmp (s : string) (v : val)   (* "text" & <expression with value v> *)
  | KPat (p : string)                 (* a text literal containing an unescaped ? or * (lexed as a pattern) *)
  | KExpr (v : val).                  (* any other expression, e.g. a cell reference, with value v *)

(* the numeric literal the regex captured, as Python reads it *)
Definition num_literal (s : string) : val :=
  match int_of_string s with
  | Ok z => VInt z
  | Exc _ => match float_of_string s with Ok f => VFloat f | Exc _ => VStr s end
  end.
Definition op_of_text (s : string) : option cmpop :=
  if String.eqb s ">=" then Some OGe else if String.eqb s "<=" then Some OLe
  else if String.eqb s ">" then Some OGt else if String.eqb s "<" then Some OLt
  else if String.eqb s "<>" then Some ONe else None.

(* re.findall(crit_literal_re, <repr of the literal text>): Some (operator text, number text) when it matches *)
Definition parse_crit_literal (s : string) : option (option (string * string)) :=
  match Regex.findall false crit_literal_re (py_repr s) with
  | None => None
  | Some [] => Some None
  | Some ((_, g1 :: g2 :: _) :: _) => Some (Some (g1, g2))
  | Some _ => None
  end.

Definition compile (k : ksyn) : option crit :=
  match k with
  | KNum v => Some (CGen OEq v)
  | KPat p => Some (CPat p)
  | KExpr v => Some (CGen OEq v)
  | KText s =>
      match parse_crit_literal s with
      | None => None
      | Some None => Some (CGen OEq (VStr s))
      | Some (Some (o, n)) =>
          match op_of_text o with
          | Some op => if String.eqb n "" then Some (CGen op VNone)      (* ">" alone: compared with None *)
                       else Some (CGen op (num_literal n))
          | None => None
          end
      end
  | KTextAmp s v =>
      match parse_crit_literal s with
      | None => None
      | Some None => Some (CGen OEq v)                                     (* the literal part is dropped *)
      | Some (Some (o, n)) =>
          match op_of_text o with
          | Some op => Some (CGen op (if String.eqb n "" then v else num_literal n))
          | None => None
          end
      end
  end.
