(* Corr/C06.v — correspondence cases for C06: the parse-level prediction of the model for one formula against the outcome of the
   whole translation of a workbook that contains it. *)
Require Import X2P.Base.Prelude X2P.Base.Str X2P.Model.Peg X2P.Model.Lexer X2P.Model.Emit X2P.Gen.Grammar.
Open Scope string_scope.

Inductive ioutcome := ILoadable | ILib (name : string) | IForeign (name : string) | ISyntaxErr | IBadModule.
Inductive case := CW (formula : string) (io : ioutcome) (oracle_ok : bool).

Inductive prediction := PAccept | PReject | PUnknown.
Definition predict (formula : string) : prediction :=
  match lex formula with
  | LOk ts =>
      match ast_builder grammar_table is_cc N_EntryPointToken PARSE_FUEL ts with
      | AOk _ => PAccept | AReject => PReject | AFuel => PUnknown end
  | LUndefined => PReject
  | _ => PUnknown
  end.

Definition line (c : case) : string :=
  match c with
  | CW formula io ok =>
      let p := predict formula in
      let m := match p, io with
               | PReject, ILib n => Some (String.eqb n "E2PyclParserException")
               | PReject, _ => Some false
               | PAccept, _ => Some true               (* later stages may still raise library exceptions (cycles, unknown sheets, coordinates) *)
               | PUnknown, _ => None
               end in
      (match m with Some b => b2s b | None => "-" end) ++ " 1 " ++ b2s ok ++ " -"
  end.
Definition report (l : list case) : string := lines line l.
