(* Corr/C18.v — correspondence cases for C18. *)
Require Import X2P.Base.Prelude X2P.Model.Reader.
From Coq Require Import Arith.
Open Scope nat_scope.
Open Scope string_scope.

(* per sheet: the stored cells; what Excel.parse produced: data rows, (last_column, last_row) *)
Inductive case := CRd (sheets : list sparse) (impl : list (list (list (option val)) * (nat * nat))) (oracle_ok : bool).

Definition oval_eqb (a b : option val) : bool :=
  match a, b with Some x, Some y => val_eqb x y | None, None => true | _, _ => false end.
Fixpoint row_eqb (a b : list (option val)) : bool :=
  match a, b with [], [] => true | x :: a', y :: b' => oval_eqb x y && row_eqb a' b' | _, _ => false end.
Fixpoint rows_eqb (a b : list (list (option val))) : bool :=
  match a, b with [], [] => true | x :: a', y :: b' => row_eqb x y && rows_eqb a' b' | _, _ => false end.
Definition sheet_eqb (a b : list (list (option val)) * (nat * nat)) : bool :=
  rows_eqb (fst a) (fst b) && Nat.eqb (fst (snd a)) (fst (snd b)) && Nat.eqb (snd (snd a)) (snd (snd b)).
Fixpoint sheets_eqb (a b : list (list (list (option val)) * (nat * nat))) : bool :=
  match a, b with [], [] => true | x :: a', y :: b' => sheet_eqb x y && sheets_eqb a' b' | _, _ => false end.

Definition line (c : case) : string :=
  match c with
  | CRd sheets impl ok => b2s (sheets_eqb (map parse_sheet sheets) impl) ++ " 1 " ++ b2s ok ++ " -"
  end.
Definition report (l : list case) : string := lines line l.
