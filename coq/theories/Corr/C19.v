(* Corr/C19.v — correspondence cases for C19. *)
Require Import X2P.Base.Prelude X2P.Model.Safety X2P.Spec.Safety.
Open Scope string_scope.

Inductive iout := IRaised (rep : list (string * list string)) | INoRaise | IOther.
Inductive case := CS (cells : list tcell) (safety : bool) (impl : iout).

Fixpoint strs_eqb (a b : list string) : bool :=
  match a, b with [], [] => true | x :: a', y :: b' => String.eqb x y && strs_eqb a' b' | _, _ => false end.
Fixpoint rep_eqb (a b : list (string * list string)) : bool :=
  match a, b with
  | [], [] => true
  | (k, f) :: a', (k', f') :: b' => String.eqb k k' && strs_eqb f f' && rep_eqb a' b'
  | _, _ => false
  end.
Definition iout_eqb (a b : iout) : bool :=
  match a, b with
  | IRaised x, IRaised y => rep_eqb x y
  | INoRaise, INoRaise | IOther, IOther => true
  | _, _ => false
  end.
Definition model (cells : list tcell) (safety : bool) : option iout :=
  match report cells with
  | None => None
  | Some [] => Some INoRaise
  | Some r => Some (if safety then IRaised r else INoRaise)
  end.

(* spec on an outcome: with the check on, the listed keys are exactly those of the cells that must be listed
   (cells the statement leaves undecided may or may not appear); with the check off nothing is raised *)
Definition key_of (c : tcell) : string :=
  match report_key (tc_title c) (tc_col c) (tc_row c) with Some k => k | None => "?" end.
Definition spec_ok (cells : list tcell) (safety : bool) (o : iout) : bool :=
  match o with
  | IOther => false
  | INoRaise => negb safety || negb (existsb (fun c => match must_list (tc_text c) with Some true => true | _ => false end) cells)
  | IRaised r =>
      safety &&
      forallb (fun c => match must_list (tc_text c) with
                        | Some true => existsb (fun p => String.eqb (fst p) (key_of c)) r
                        | Some false => negb (existsb (fun p => String.eqb (fst p) (key_of c)) r)
                        | None => true end) cells &&
      forallb (fun p => existsb (fun c => String.eqb (fst p) (key_of c)) cells) r
  end.
Definition classify (cells : list tcell) : string :=
  if existsb (fun c => upper_suffix (tc_text c)) cells then "upper_suffix_identifier_escapes" else "-".

Definition line (c : case) : string :=
  match c with
  | CS cells safety impl =>
      match model cells safety with
      | Some m => b2s (iout_eqb m impl) ++ " " ++ b2s (spec_ok cells safety m) ++ " " ++ b2s (spec_ok cells safety impl) ++ " " ++ classify cells
      | None => "0 - " ++ b2s (spec_ok cells safety impl) ++ " unmodelled"
      end
  end.
Definition report (l : list case) : string := lines line l.
