(* Corr/C12.v — correspondence cases and defect classes for C12. *)
Require Import X2P.Base.Prelude X2P.Base.F64 X2P.Base.PyCmp X2P.Base.PyType X2P.Base.PyNum X2P.Base.Str.
Require Import X2P.Model.Agg X2P.Model.Crit X2P.Spec.Text X2P.Spec.Crit.
Open Scope string_scope.
Open Scope Z_scope.

(* ranges are given as the flat row-major list of their cells; the harness knows which cells a reference denotes *)
Inductive fn := FSumif | FSumifs | FCountifs | FAvgifs.
Inductive case :=
  CCrit (f : fn) (target : list val) (pairs : list (list val * ksyn))
        (reprs : list (float * string)) (dates : list (string * option val)) (impl : res val).

Definition rv_eqb := res_eqb val_eqb.
Fixpoint dparse_of (tbl : list (string * option val)) (s : string) : option val :=
  match tbl with [] => None | (k, v) :: t => if String.eqb k s then v else dparse_of t s end.

Fixpoint compile_pairs (pairs : list (list val * ksyn)) : option (list (list val * crit)) :=
  match pairs with
  | [] => Some []
  | (r, k) :: t => match compile k, compile_pairs t with Some c, Some l => Some ((r, c) :: l) | _, _ => None end
  end.

Definition model (fr : float -> string) (dp : string -> option val) (f : fn) (target : list val) (pairs : list (list val * ksyn)) : res val :=
  match compile_pairs pairs with
  | None => Exc OtherExc
  | Some cp =>
      match f, cp with
      | FSumif, [(r, c)] => rt_sum_if fr dp r c target
      | FSumifs, _ => rt_sumifs fr dp target cp
      | FCountifs, (r, c) :: rest => rt_countifs fr dp r c rest
      | FAvgifs, _ => rt_averageifs fr dp target cp
      | _, _ => Exc OtherExc
      end
  end.

(* ---- spec ---- *)
Fixpoint xpairs (pairs : list (list val * ksyn)) : option (list (list val * xcrit)) :=
  match pairs with
  | [] => Some []
  | (r, k) :: t => match xcrit_of k, xpairs t with Some c, Some l => Some ((r, c) :: l) | _, _ => None end
  end.
Definition same_sizes (n : nat) (pairs : list (list val * ksyn)) : bool :=
  forallb (fun p => Nat.eqb (List.length (fst p)) n) pairs.

Inductive sp := SVal (v : res val) | SErr | SNone.
Definition xsum_sel (sel : list val) : res val := py_sum (filter is_num sel).
Definition spec (f : fn) (target : list val) (pairs : list (list val * ksyn)) : sp :=
  let n := match f with FCountifs => match pairs with (r, _) :: _ => List.length r | [] => O end | _ => List.length target end in
  if negb (same_sizes n pairs) then (match f with FSumif => SNone | _ => SErr end) else
  if existsb (fun v => match v with VInt _ | VFloat _ | VStr _ | VEmpty => false | _ => true end)
             (target ++ flat_map fst pairs) then SNone else
  match xpairs pairs with
  | None => SNone
  | Some xp =>
      match xl_marks xp (map (fun _ => true) (match f with FCountifs => match pairs with (r, _) :: _ => r | [] => [] end | _ => target end)) with
      | None => SNone
      | Some marks =>
          match f with
          | FSumif | FSumifs => SVal (xsum_sel (select marks target))
          | FCountifs => SVal (Ok (VInt (Z.of_nat (List.length (filter (fun b : bool => b) marks)))))
          | FAvgifs =>
              let sel := filter is_num (select marks target) in
              match sel with
              | [] => SErr
              | _ => SVal (do s <- py_sum sel; py_truediv s (VInt (Z.of_nat (List.length sel))))
              end
          end
      end
  end.
Definition is_failure (x : res val) : bool :=
  match x with Exc _ => true | Ok (VStr (String c _)) => (N_of_ascii c =? 35)%N | _ => false end.
Definition st (s : sp) (x : res val) : string :=
  match s with SNone => "-" | SErr => b2s (is_failure x) | SVal v => b2s (rv_eqb v x || (is_failure v && is_failure x)) end.

(* ---- defect classes of the unchanged tree ---- *)
Definition ktext (k : ksyn) : option string :=
  match k with KText s | KPat s => Some s | KTextAmp s v => option_map (fun t => s ++ t) (text_form v)
             | KExpr (VStr s) | KNum (VStr s) => Some s | _ => None end.
Definition knum_op (k : ksyn) : bool :=      (* an ordering / <> criterion against a number *)
  match ktext k with
  | Some t => match split_op t with Some (o, rest) => match text_is_num rest with Some _ => negb (match o with OEq => true | _ => false end) | None => false end | None => false end
  | None => false
  end.
Definition has_kind (p : val -> bool) (r : list val) : bool := existsb p r.
Definition is_text (v : val) := match v with VStr _ => true | _ => false end.
Definition f_zero_b (f : float) : bool := match cmp_f_f f zero with Some Eq => true | _ => false end.
Definition is_zeroish (v : val) : bool :=
  match v with VEmpty => true | VInt 0 => true | VStr s => String.eqb s "" | VFloat f => f_zero_b f | _ => false end.
Definition is_blank_cell (v : val) : bool := match v with VEmpty => true | _ => false end.
Definition any_date (dates : list (string * option val)) : bool :=
  existsb (fun p => match snd p with Some _ => true | None => false end) dates.
Definition kpat (k : ksyn) : bool := match k with KPat _ => true | _ => false end.
Definition keq_or_ne_text (k : ksyn) : bool :=
  match ktext k with
  | Some t => match split_op t with
              | Some (OEq, _) => true
              | Some (_, rest) => match text_is_num rest with Some _ => false | None => true end
              | None => false end
  | None => false
  end.
Definition kamp_dropped (k : ksyn) : bool :=
  match k with KTextAmp s _ => match split_op s with Some (OEq, _) => true | Some _ => false | None => true end | _ => false end.
Definition kneg_number (k : ksyn) : bool :=
  match ktext k with
  | Some t => match split_op t with Some (_, rest) => prefix_l (list_of_string "-") (list_of_string rest) || prefix_l (list_of_string "+") (list_of_string rest) | None => false end
  | None => false
  end.

Definition kexpr_op_text (k : ksyn) : bool :=
  match k with KExpr (VStr s) | KNum (VStr s) => match split_op s with Some _ => true | None => false end | _ => false end.

Definition classify (f : fn) (target : list val) (pairs : list (list val * ksyn)) (dates : list (string * option val)) : string :=
  let ranges := flat_map fst pairs in
  if any_date dates then "crit_text_parsed_as_date"
  else if existsb (fun p => kpat (snd p)) pairs then "crit_wildcard_is_regex_prefix_match"
  else if existsb (fun p => keq_or_ne_text (snd p) || kneg_number (snd p) || kexpr_op_text (snd p)) pairs then "crit_operator_text_taken_literally"
  else if existsb (fun p => kamp_dropped (snd p)) pairs then "crit_amp_literal_dropped"
  else if existsb (fun p => knum_op (snd p) && has_kind is_text (fst p)) pairs then "crit_ordering_raises_on_text_cell"
  else if existsb (fun p => has_kind is_blank_cell (fst p)) pairs then "crit_blank_cell_cast_to_zero"
  else match f with
       | FCountifs => "countifs_drops_zero_or_compares_none"
       | FAvgifs => if has_kind is_text target then "averageifs_text_in_target"
                    else if has_kind is_blank_cell target then "averageifs_blank_in_target" else "-"
       | FSumif => if has_kind is_text target then "sumif_text_in_target" else "-"
       | _ => "-"
       end.

Definition line (c : case) : string :=
  match c with
  | CCrit f target pairs reprs dates impl =>
      let m := model (frepr_of reprs) (dparse_of dates) f target pairs in
      let s := spec f target pairs in
      b2s (rv_eqb m impl) ++ " " ++ st s m ++ " " ++ st s impl ++ " " ++ classify f target pairs dates
  end.
Definition report (l : list case) : string := lines line l.
