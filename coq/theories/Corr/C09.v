(* Corr/C09.v — correspondence cases for C09: the facade replayed against tables of fresh-parser results. *)
Require Import X2P.Base.Prelude X2P.Model.Facade.
From Coq Require Import Arith.
Open Scope string_scope.

(* paths and entries are small numbers; texts are identified by their hash *)
Definition T_of (tbl : list (nat * option nat * tres string)) (p : nat) (e : option nat) : tres string :=
  let oe_eqb (a b : option nat) := match a, b with Some x, Some y => Nat.eqb x y | None, None => true | _, _ => false end in
  match find (fun r => Nat.eqb (fst (fst r)) p && oe_eqb (snd (fst r)) e) tbl with
  | Some r => snd r | None => TOtherExc end.
Definition safe_of (l : list nat) (p : nat) : bool := negb (existsb (Nat.eqb p) l).   (* l = the unsafe workbooks *)

Definition pout_eqb (a b : pout string) : bool :=
  match a, b with
  | PNone, PNone | PParserExc, PParserExc | PSafetyExc, PSafetyExc | POtherExc, POtherExc => true
  | PText (Some x), PText (Some y) => String.eqb x y
  | PText None, PText None => true
  | _, _ => false
  end.
Fixpoint outs_eqb (a b : list (pout string)) : bool :=
  match a, b with [], [] => true | x :: a', y :: b' => pout_eqb x y && outs_eqb a' b' | _, _ => false end.

Inductive case := CP (tbl : list (nat * option nat * tres string)) (unsafe : list nat) (ops : list (pop nat nat))
                     (impl : list (pout string)) (oracle_ok : bool).
Definition line (c : case) : string :=
  match c with
  | CP tbl unsafe ops impl ok =>
      let m := snd (prun nat nat string (T_of tbl) (safe_of unsafe) (pinit nat nat string) ops) in
      b2s (outs_eqb m impl) ++ " 1 " ++ b2s ok ++ " -"
  end.
Definition report (l : list case) : string := lines line l.
