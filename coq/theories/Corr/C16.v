(* Corr/C16.v — correspondence cases and defect classes for C16. *)
Require Import X2P.Base.Prelude X2P.Base.F64 X2P.Base.PyCmp X2P.Base.PyType X2P.Base.PyNum.
Require Import X2P.Model.Round X2P.Spec.Round.
Open Scope string_scope.
Open Scope Z_scope.

Inductive fn := FRound | FUp | FDown | FPercent.
(* function, the decimal the user wrote, the Python number the code received, digits, implementation outcome *)
Inductive case := CR (f : fn) (d : dec) (x : val) (n : Z) (impl : res val).

Definition rv_eqb := res_eqb val_eqb.
Definition model (f : fn) (x : val) (n : Z) : res val :=
  match f with
  | FRound => rt_round x (VInt n)
  | FUp => rt_roundupdown true x n
  | FDown => rt_roundupdown false x n
  | FPercent => percent x
  end.
Definition spec (f : fn) (d : dec) (n : Z) : float :=
  match f with
  | FRound => xl_round_gen HalfAway d n
  | FUp => xl_round_gen Away d n
  | FDown => xl_round_gen Toward d n
  | FPercent => xl_percent d
  end.
(* a result agrees with the spec when it is numerically the expected double (an int result counts when it is that number) *)
Definition agrees (r : res val) (e : float) : bool :=
  match r with
  | Ok (VFloat f) => f_numeq f e
  | Ok (VInt z) => match cmp_Z_f z e with Some Eq => true | _ => false end
  | _ => false
  end.
Definition classify (f : fn) (d : dec) (n : Z) : string :=
  match f with
  | FRound => if is_tie d n then "round_tie_not_half_away" else "-"
  | FUp | FDown =>
      if negb (needs_rounding d n) then "roundupdown_representable_float_product"
      else if dneg d then "roundupdown_negative_direction" else "-"
  | FPercent => "-"
  end.
Definition line (c : case) : string :=
  match c with
  | CR f d x n impl =>
      let m := model f x n in let e := spec f d n in
      b2s (rv_eqb m impl) ++ " " ++ b2s (agrees m e) ++ " " ++ b2s (agrees impl e) ++ " " ++ classify f d n
  end.
Definition report (l : list case) : string := lines line l.
