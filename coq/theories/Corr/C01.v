(* Corr/C01.v — correspondence cases and defect classes for C01. *)
Require Import X2P.Base.Prelude X2P.Base.F64 X2P.Base.PyCmp X2P.Base.PyType X2P.Base.PyNum X2P.Base.PyArith X2P.Base.Str.
Require Import X2P.Model.Peg X2P.Model.Lexer X2P.Model.Round X2P.Model.Emit X2P.Gen.Grammar X2P.Spec.Formula X2P.Spec.Shape.
Open Scope string_scope.
Open Scope Z_scope.

(* ---------- decidable equality of Python expressions ---------- *)
Fixpoint pyexpr_eqb (a b : pyexpr) : bool :=
  match a, b with
  | PConst v, PConst w => val_eqb v w
  | PCell n, PCell m => String.eqb n m
  | PUn s x, PUn t y => Bool.eqb s t && pyexpr_eqb x y
  | PBin o x1 x2, PBin p y1 y2 => aop_eqb o p && pyexpr_eqb x1 y1 && pyexpr_eqb x2 y2
  | PCompare o x1 x2, PCompare p y1 y2 => cmpop_eqb o p && pyexpr_eqb x1 y1 && pyexpr_eqb x2 y2
  | PStrOf x, PStrOf y | PNorm x, PNorm y => pyexpr_eqb x y
  | _, _ => false
  end.

(* ---------- token-level defect classes of the emitter (grouping) ---------- *)
Inductive tkind := KAtom | KOpen | KClose | KAdd | KSub | KMul | KDiv | KAmp | KCmp | KPct | KOther.
Definition kind_of (t : tok) : tkind :=
  let c := tclass t in
  if Nat.eqb c L_LiteralToken || Nat.eqb c L_CellIdentifierToken then KAtom
  else if Nat.eqb c L_BracketStartToken then KOpen else if Nat.eqb c L_BracketFinishToken then KClose
  else if Nat.eqb c L_PlusOperatorToken then KAdd else if Nat.eqb c L_MinusOperatorToken then KSub
  else if Nat.eqb c L_MultiplicationOperatorToken then KMul else if Nat.eqb c L_DivOperatorToken then KDiv
  else if Nat.eqb c L_AmpersandToken then KAmp else if Nat.eqb c L_PercentToken then KPct
  else match cmp_of t with Some _ => KCmp | None => KOther end.
Definition is_operand_end (k : option tkind) : bool :=       (* can a binary operator follow *)
  match k with Some KAtom | Some KClose | Some KPct => true | _ => false end.
Definition is_sign (k : tkind) : bool := match k with KAdd | KSub => true | _ => false end.
Definition is_binop_kind (k : tkind) : bool := match k with KAdd | KSub | KMul | KDiv | KAmp | KCmp => true | _ => false end.

(* after a unary sign: is there, before its group ends, a binary operator that binds less tightly than * /  *)
(* any = true: the sign itself follows a * or /, then every binary operator after it is captured wrongly *)
Fixpoint lower_op_follows (any : bool) (l : list tkind) (prev : option tkind) (depth : nat) : bool :=
  match l with
  | [] => false
  | k :: r =>
      match k with
      | KOpen => lower_op_follows any r (Some k) (S depth)
      | KClose => match depth with O => false | S d => lower_op_follows any r (Some k) d end
      | _ =>
          if Nat.eqb depth 0 && is_operand_end prev &&
             (match k with KAdd | KSub | KAmp | KCmp => true | KMul | KDiv => any | _ => false end) then true
          else lower_op_follows any r (Some k) depth
      end
  end.
Fixpoint unary_sign_scope (l : list tkind) (prev : option tkind) : bool :=
  match l with
  | [] => false
  | k :: r => (is_sign k && negb (is_operand_end prev) &&
               lower_op_follows (match prev with Some KMul | Some KDiv => true | _ => false end) r (Some k) 0) || unary_sign_scope r (Some k)
  end.
(* a comparison or & with another binary operator to its left in the same group *)
Fixpoint cmp_amp_left_scope (l : list tkind) (prev : option tkind) (stack : list bool) : bool :=
  match l with
  | [] => false
  | k :: r =>
      match k with
      | KOpen => cmp_amp_left_scope r (Some k) (false :: stack)
      | KClose => cmp_amp_left_scope r (Some k) (tl stack)
      | _ =>
          if is_binop_kind k && is_operand_end prev then
            (match k with KAmp | KCmp => hd false stack | _ => false end) || cmp_amp_left_scope r (Some k) (true :: tl stack)
          else cmp_amp_left_scope r (Some k) stack
      end
  end.
Fixpoint percent_then_operator (l : list tkind) : bool :=
  match l with
  | KPct :: ((k :: _) as r) => is_binop_kind k || percent_then_operator r
  | _ :: r => percent_then_operator r
  | [] => false
  end.
Fixpoint percent_form (l : list tkind) : bool :=              (* ")%"  or  "%%" *)
  match l with
  | KClose :: ((KPct :: _) as r) | KPct :: ((KPct :: _) as r) => true
  | _ :: r => percent_form r
  | [] => false
  end.
Definition grouping_class (ts : list tok) : string :=
  let ks := map kind_of ts in
  if unary_sign_scope ks None then "unary_sign_takes_the_whole_remainder"
  else if cmp_amp_left_scope ks None [false] then "comparison_or_ampersand_left_operand_is_one_atom"
  else if percent_then_operator ks then "percent_followed_by_operator"
  else "-".

(* ---------- value-level defect classes ---------- *)
Section VClasses.
  Variable env : string -> val.
  Definition is_text (r : xres) : bool := match r with XVal (VStr _) => true | _ => false end.
  Fixpoint has_text_arith (e : xexpr) : bool :=
    match e with
    | XNeg a | XPos a | XPct a => is_text (xeval env a) || has_text_arith a
    | XBin _ a b => is_text (xeval env a) || is_text (xeval env b) || has_text_arith a || has_text_arith b
    | XCat a b | XCmp _ a b => has_text_arith a || has_text_arith b
    | _ => false
    end.
  Definition odd_text_form (r : xres) : bool :=
    match r with XVal (VFloat _) | XVal (VBool _) | XVal VEmpty => true | _ => false end.
  Fixpoint has_cat_form (e : xexpr) : bool :=
    match e with
    | XNeg a | XPos a | XPct a => has_cat_form a
    | XBin _ a b | XCmp _ a b => has_cat_form a || has_cat_form b
    | XCat a b => odd_text_form (xeval env a) || odd_text_form (xeval env b) || has_cat_form a || has_cat_form b
    | _ => false
    end.
  Fixpoint has_pct (e : xexpr) : bool :=
    match e with
    | XPct _ => true
    | XNeg a | XPos a => has_pct a
    | XBin _ a b | XCmp _ a b | XCat a b => has_pct a || has_pct b
    | _ => false
    end.
  Fixpoint has_cmp (e : xexpr) : bool :=
    match e with
    | XCmp _ _ _ => true
    | XNeg a | XPos a | XPct a => has_cmp a
    | XBin _ a b | XCat a b => has_cmp a || has_cmp b
    | _ => false
    end.
  Fixpoint has_pos_bool (e : xexpr) : bool :=
    match e with
    | XPos a => (match xeval env a with XVal (VBool _) => true | _ => false end) || has_pos_bool a
    | XNeg a | XPct a => has_pos_bool a
    | XBin _ a b | XCmp _ a b | XCat a b => has_pos_bool a || has_pos_bool b
    | _ => false
    end.
  Fixpoint has_error (e : xexpr) : bool :=
    match xeval env e with XErr _ => true | _ => false end.
End VClasses.
Definition literal_off (t : tok) : bool :=
  if Nat.eqb (tclass t) L_LiteralToken && negb (String.eqb (sgrp t 2) "") then
    let '(p, q) := literal_rational (sgrp t 2) (sgrp t 5) (sgrp t 7) in
    match literal_value t with Some v => negb (num_agree (q2f p q) v) | None => true end
  else false.

Inductive impl_tree := ITree (e : pyexpr) | IReject | ISyntax | IOther.

Fixpoint env_of (cells : list (string * val)) (n : string) : val :=
  match cells with [] => VEmpty | (k, v) :: r => if String.eqb k n then v else env_of r n end.

Definition tree_eqb (m : translated) (i : impl_tree) : option bool :=
  match m, i with
  | TOk e, ITree e' => Some (pyexpr_eqb e e')
  | TRejected, IReject => Some true
  | TSyntaxError, ISyntax => Some true
  | TUnmodelled, _ => None
  | _, _ => Some false
  end.
Definition ob2s (o : option bool) : string := match o with Some b => b2s b | None => "-" end.

(* tokens of the sweep alphabet, lexed once (Gallina lexer over the regenerated regexes) when this file is compiled *)
Definition SYMBOLS : list string := ["2"; "3"; "4"; "5"; "6"; "7"; "+"; "-"; "*"; "/"; "&"; "<"; "%"; "("; ")"; "A2"; "E2"; "0.5"; "="; "<>"; ">="; "100"].
Definition dtok : tok := mkTok 0 [].
Definition SYM_TOKS : list tok := Eval vm_compute in map (fun s => match lex s with LOk [t] => t | _ => dtok end) SYMBOLS.
Inductive source := SFormula (formula : string) | SSymbols (ids : list nat).
Inductive case := CF (src : source) (cells : list (string * val)) (reprs : list (float * string)) (it : impl_tree) (iv : res val).

Definition line (c : case) : string :=
  match c with
  | CF src cells reprs it iv =>
      let env := env_of cells in let fr := frepr_of reprs in
      let toks : option (option (list tok)) :=
        match src with SFormula f => tokens_of f | SSymbols ids => Some (Some (map (fun i => nth i SYM_TOKS dtok) ids)) end in
      let m := match toks with Some (Some ts) => translate_tokens ts | Some None => TRejected | None => TUnmodelled end in
      let mv : res val := match m with TOk e => pyeval fr env e | TRejected => Exc E2PyclParser | _ => Exc SyntaxError end in
      let meq := match tree_eqb m it with
                 | Some b => Some (b && res_eqb val_eqb mv iv)
                 | None => None end in
      let ts := match toks with Some (Some ts) => ts | _ => [] end in
      match xparse ts with
      | None => ob2s meq ++ " - - -"                       (* not a well-formed operator formula: C05/C06 decide *)
      | Some xe =>
          let sp := xeval env xe in
          let s := agree sp mv in let i := agree sp iv in
          let cls :=
            match m with
            | TRejected => if percent_form (map kind_of ts) then "percent_after_bracket_or_percent_rejected" else "-"
            | TOk pe =>
                if negb (same_grouping xe pe) then grouping_class ts
                else if existsb literal_off ts then "numeric_literal_not_the_nearest_double"
                else if has_text_arith env xe then "text_operand_in_arithmetic"
                else if has_cat_form env xe then "number_boolean_blank_text_form_in_concatenation"
                else if has_error env xe then "error_value_raised_as_exception"
                else if has_pos_bool env xe then "unary_plus_turns_boolean_into_number"
                else if has_pct xe then "percent_normalised_to_15_digits"
                else if has_cmp xe then "comparison_operand_semantics_decided_by_C10"
                else "-"
            | _ => "-"
            end in
          ob2s meq ++ " " ++ ob2s s ++ " " ++ ob2s i ++ " " ++ cls
      end
  end.
Definition report (l : list case) : string := lines line l.
