(* Corr/C17.v — correspondence cases for C17. *)
Require Import X2P.Base.Prelude X2P.Base.F64 X2P.Base.PyCmp X2P.Base.PyType X2P.Base.PyNum X2P.Base.Str.
Require Import X2P.Model.Text X2P.Spec.Text X2P.Proofs.TextProofs.
Open Scope string_scope.
Open Scope Z_scope.

Inductive case :=
  | CLeft (t : string) (n : option Z) (impl : res val)
  | CRight (t : string) (n : option Z) (impl : res val)
  | CMid (t : string) (k n : Z) (impl : res val)
  | CSearch (f w : string) (start : option Z) (impl : res val)
  | CAmp (l r : val) (reprs : list (float * string)) (impl : res val)
  | CConcat (args : list val) (reprs : list (float * string)) (impl : res val)
  | CValue (t : string) (impl : res val).

Definition rv_eqb := res_eqb val_eqb.
Definition is_err (x : res val) : bool :=
  match x with Ok (VStr (String c _)) => (N_of_ascii c =? 35)%N | _ => false end.
(* spec outcome: a value, "some error value", or silence *)
Inductive sp := SVal (v : val) | SErr | SNone.
Definition st (s : sp) (x : res val) : string :=
  match s with SNone => "-" | SErr => b2s (is_err x) | SVal v => b2s (rv_eqb (Ok v) x) end.
Definition of_opt (o : option string) : sp := match o with Some s => SVal (VStr s) | None => SErr end.

(* Excel text form of an operand of & / CONCATENATE, where the statement is unambiguous *)
Definition text_form (v : val) : option string :=
  match v with
  | VStr s => Some s
  | VInt z => Some (str_of_Z z)
  | VBool b => Some (if b then "TRUE" else "FALSE")
  | VEmpty => Some ""
  | VFloat f => match f2q f with Some (p, 1) => Some (str_of_Z p) | _ => None end
  | _ => None
  end.
Fixpoint text_forms (l : list val) : option string :=
  match l with
  | [] => Some ""
  | x :: t => match text_form x, text_forms t with Some a, Some b => Some (a ++ b) | _, _ => None end
  end.
Definition form_class (l : list val) : string :=
  if existsb (fun v => match v with VFloat _ => true | _ => false end) l then "number_text_form"
  else if existsb (fun v => match v with VBool _ => true | _ => false end) l then "boolean_text_form"
  else if existsb (fun v => match v with VEmpty => true | _ => false end) l then "blank_text_form" else "-".

Definition start_of (o : option Z) : Z := match o with Some s => if s =? 0 then 1 else s | None => 1 end.

Definition line (c : case) : string :=
  let row m impl s cls := b2s (rv_eqb m impl) ++ " " ++ st s m ++ " " ++ st s impl ++ " " ++ cls in
  match c with
  | CLeft t n impl =>
      row (left t n) impl (match n with Some n => of_opt (xl_left t n) | None => of_opt (xl_left t 1) end)
          (if String.eqb t "" then "empty_text_is_blank" else "-")
  | CRight t n impl =>
      row (right t n) impl (match n with Some n => of_opt (xl_right t n) | None => of_opt (xl_right t 1) end)
          (if String.eqb t "" then "empty_text_is_blank" else "-")
  | CMid t k n impl =>
      row (mid t k n) impl (of_opt (xl_mid t k n)) (if slen t <? k then "empty_text_is_blank" else "-")
  | CSearch f w s impl =>
      row (search f w s) impl
          (match xl_search f w (start_of s) with Some i => SVal (VInt i) | None => SErr end)
          (search_class f w (start_of s))
  | CAmp l r reprs impl =>
      row (amp (frepr_of reprs) l r) impl
          (match text_forms [l; r] with Some s => SVal (VStr s) | None => SNone end) (form_class [l; r])
  | CConcat args reprs impl =>
      row (match concatenate (frepr_of reprs) args with Ok s => Ok (VStr s) | Exc e => Exc e end) impl
          (match text_forms args with Some s => SVal (VStr s) | None => SNone end) (form_class args)
  | CValue t impl =>
      let m := value t in
      row m impl (match m with Ok (VInt _) | Ok (VFloat _) => (match m with Ok v => SVal v | _ => SNone end) | _ => SNone end) "-"
  end.
Definition report (l : list case) : string := lines line l.
