(* Corr/C07.v — correspondence cases for C07. *)
Require Import X2P.Base.Prelude X2P.Base.Str X2P.Base.PyRepr X2P.Model.Taint.
Open Scope string_scope.

Inductive kind := KConstant | KFormulaText.
(* position, the workbook text, the code the translator emitted for the cell (None = rejected with the parser exception),
   the verdict of the oracle on the generated module (no workbook identifier is executable, canary untouched, constants and plain
   literals evaluate to themselves) *)
Inductive case := CT (k : kind) (text : string) (impl : option string) (oracle_ok : bool).

Definition model (k : kind) (text : string) : option (option string) :=
  match k with
  | KConstant => Some (Some (emit_constant text))
  | KFormulaText => match emit_text_formula text with FUnmodelled => None | f => Some (code_of f) end
  end.
Definition ostr_eqb (a b : option string) : bool :=
  match a, b with Some x, Some y => String.eqb x y | None, None => true | _, _ => false end.

(* spec on the model: the emitted piece is inert; a constant and a plain literal denote the text itself *)
Definition spec_ok (k : kind) (text : string) (code : option string) : bool :=
  match code with
  | None => true
  | Some c =>
      match inert_code c with
      | Some t => match k with
                  | KConstant => String.eqb t text
                  | KFormulaText => String.eqb t text
                  end
      | None => false
      end
  end.
Definition classify (k : kind) (text : string) : string := "-".

Definition line (c : case) : string :=
  match c with
  | CT k text impl ok =>
      match model k text with
      | Some m => b2s (ostr_eqb m impl) ++ " " ++ b2s (spec_ok k text m) ++ " " ++ b2s ok ++ " " ++ classify k text
      | None => "0 - " ++ b2s ok ++ " " ++ classify k text
      end
  end.
Definition report (l : list case) : string := lines line l.

(* ---- second correspondence: the VALUE of a formula-text cell.  Excel: the text itself.  Model: the payload of a plain literal;
   _regexp(payload) for a wildcard literal (Model/Crit.regexp_of, regenerated regexes). ---- *)
Require Import X2P.Model.Crit.
Inductive vcase := CV (text : string) (value : option string).
Definition vmodel (text : string) : option (option string) :=
  match emit_text_formula text with
  | FLit w => Some (Some w)
  | FPat w => match regexp_of w with Some r => Some (Some r) | None => None end
  | FRejected => Some None
  | FUnmodelled => None
  end.
Definition vspec (text : string) (v : option string) : bool :=
  match v with Some t => String.eqb t text | None => true end.
Definition vclass (text : string) : string :=
  match emit_text_formula text with FPat _ => "wildcard_literal_evaluates_to_regex" | _ => "-" end.
Definition vline (c : vcase) : string :=
  match c with
  | CV text v =>
      match vmodel text with
      | Some m => b2s (ostr_eqb m v) ++ " " ++ b2s (vspec text m) ++ " " ++ b2s (vspec text v) ++ " " ++ vclass text
      | None => "0 - " ++ b2s (vspec text v) ++ " " ++ vclass text
      end
  end.
Definition report_value (l : list vcase) : string := lines vline l.
