(* Corr/C14.v — correspondence cases for C14: the harness supplies inputs and the implementation's
   outcome; the report says, per case, whether the model equals the implementation and whether
   the Excel-side spec equals the model. *)
Require Import X2P.Base.Prelude X2P.Base.F64 X2P.Base.PyCmp X2P.Base.PyType X2P.Base.PyNum.
Require Import X2P.Model.Lookup X2P.Spec.Lookup.
Open Scope string_scope.
Open Scope Z_scope.

Inductive case :=
  | CVlookup (lv : val) (t : list val) (col : Z) (rl : val) (impl : res val)
  | CMatch (lv : val) (arr : list val) (mt : Z) (impl : res val)
  | CXmatch (lv : val) (arr : list val) (mm sm : Z) (impl : res val)
  | CIndex (area : list val) (r : Z) (c : option Z) (an : Z) (impl : res val)
  | CAddr (row col : Z) (impl : res val)
  | CColumn (letters : string) (impl : res val).      (* COLUMN(<ref with these column letters>) or COLUMN() in that column *)

Definition rv_eqb := res_eqb val_eqb.

(* spec status: "1" spec = model, "0" spec <> model, "-" spec silent on this input *)
Definition spec_status (spec : option val) (model : res val) : string :=
  match spec with
  | None => "-"
  | Some v => b2s (rv_eqb (Ok v) model)
  end.

(* defect classes of the unchanged tree (known findings), decided here *)
Definition all_text_keys (t : list val) : bool :=
  forallb (fun r => match row_key r with KText _ => true | _ => false end) t.
(* the lookup value is a float and some key an int, or the other way round: _match's type gate skips it *)
Definition num_type_mix (lv : val) (arr : list val) : bool :=
  match lv with
  | VFloat _ => existsb (fun r => match r with VList (VInt _ :: _) => true | _ => false end) arr
  | VInt _ => existsb (fun r => match r with VList (VFloat _ :: _) => true | _ => false end) arr
  | _ => false
  end.
Definition classify (c : case) : string :=
  match c with
  | CVlookup (VStr _) t _ _ _ => "vlookup_text_case_sensitive"
  | CXmatch lv arr _ sm _ => if sm =? -1 then "xmatch_reverse_position"
                             else if num_type_mix lv arr then "match_int_float_gate" else "-"
  | CMatch lv arr _ _ => if num_type_mix lv arr then "match_int_float_gate" else "-"
  | _ => "-"
  end.

(* one row: model=impl  spec=model  spec=impl  class *)
Definition row3 (m impl : res val) (sp : option val) (cls : string) : string :=
  b2s (rv_eqb m impl) ++ " " ++ spec_status sp m ++ " " ++ spec_status sp impl ++ " " ++ cls.

Definition line (cs : case) : string :=
  match cs with
  | CVlookup lv t col rl impl =>
      let m := vlookup lv t col rl in
      let sp := if keys_modelled t && (negb (truthy rl) || keys_ascending t)
                   && match rl with VBool _ => true | _ => false end
                then gspec_vlookup lv t col (truthy rl) else None in
      row3 m impl sp (classify cs)
  | CMatch lv arr mt impl =>
      let m := pmatch lv arr mt in
      let sp := if keys_modelled arr && ((mt =? 0) || keys_ascending arr) then gspec_match lv arr mt else None in
      row3 m impl sp (classify cs)
  | CXmatch lv arr mm sm impl =>
      let m := xmatch lv arr mm sm in
      let sp := if keys_modelled arr then gspec_xmatch lv arr mm sm else None in
      row3 m impl sp (classify cs)
  | CIndex area r c an impl =>
      let m := index1 area r c an in
      let sp := match c with Some c => if an =? 1 then gspec_index area r c else None | None => None end in
      row3 m impl sp (classify cs)
  | CAddr row col impl =>
      let m := match address2 row col with Some s => Ok (VStr s) | None => Exc OutOfFuel end in
      let sp := if (1 <=? col) && (col <=? 16384) && (1 <=? row)
                then Some (VStr ("$" ++ letters_of_col (Z.to_N col) ++ "$" ++ str_of_Z row)) else None in
      row3 m impl sp (classify cs)
  | CColumn letters impl =>
      let m := Ok (VInt (col_of_letters letters)) in
      row3 m impl (Some (VInt (col_of_letters letters))) "-"
  end.

Definition report (l : list case) : string := lines line l.
