(* Corr/C13.v — correspondence cases for C13. *)
Require Import X2P.Base.Prelude X2P.Base.F64 X2P.Base.PyCmp X2P.Base.PyType X2P.Base.PyNum X2P.Base.PyArith.
Require Import X2P.Model.Cond X2P.Spec.Cond X2P.Proofs.CondProofs.
Open Scope string_scope.
Open Scope Z_scope.

Inductive case := CC (e : cexpr) (reprs : list (float * string)) (impl : res val).
Definition rv_eqb := res_eqb val_eqb.

(* does the expression contain an IFERROR whose fallback raises / an IFS that is not over plain scalars ... : the class name *)
Fixpoint has_iferror (e : cexpr) : bool :=
  match e with
  | Leaf _ | Raise _ => false | Bin _ a b => has_iferror a || has_iferror b
  | If c t f => has_iferror c || has_iferror t || match f with Some f => has_iferror f | None => false end
  | IfError _ _ => true
  | Ifs l | Sum l => (fix any (l : list cexpr) := match l with [] => false | x :: t => has_iferror x || any t end) l
  end.
Fixpoint has_ifs (e : cexpr) : bool :=
  match e with
  | Leaf _ | Raise _ => false | Bin _ a b => has_ifs a || has_ifs b
  | If c t f => has_ifs c || has_ifs t || match f with Some f => has_ifs f | None => false end
  | IfError a b => has_ifs a || has_ifs b
  | Ifs _ => true
  | Sum l => (fix any (l : list cexpr) := match l with [] => false | x :: t => has_ifs x || any t end) l
  end.
Definition classify (fr : float -> string) (e : cexpr) : string :=
  if good fr e then "-"
  else if has_ifs e then "ifs_evaluates_everything"
  else if has_iferror e then "iferror_fallback_eager_or_null_spelling" else "-".

(* spec outcome comparison: an Excel error (any failure) on the spec side matches any failure on the other side *)
Definition same_outcome (sp x : res val) : bool :=
  if failed sp then failed x else rv_eqb sp x.

Definition line (c : case) : string :=
  match c with
  | CC e reprs impl =>
      let fr := frepr_of reprs in
      let m := ceval fr e in let sp := xeval fr e in
      b2s (rv_eqb m impl) ++ " " ++ b2s (same_outcome sp m) ++ " " ++ b2s (same_outcome sp impl) ++ " " ++ classify fr e
  end.
Definition report (l : list case) : string := lines line l.
