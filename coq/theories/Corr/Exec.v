(* Corr/Exec.v — correspondence cases for the Executor state machine (C04 and C08). *)
Require Import X2P.Base.Prelude X2P.Base.PyNum X2P.Model.Executor.
Open Scope string_scope.
Open Scope Z_scope.

(* what the harness observed on the real Executor after each operation *)
Inductive iobs :=
  | IExc (e : exn)
  | IDone (uids : list string)            (* uids of the cells a query evaluated, in order ([] for set_cells) *)
  .
Record snap := { sn_cells : dict; sn_args : dict; sn_sizes : list (Z * Z) }.
(* titles, initial sizes, operations, observations with state snapshots, verdict of the property-level oracle on the implementation *)
Inductive case := CE (ts : titles) (sizes : list (Z * Z)) (ops : list op) (obs : list (iobs * snap)) (oracle_ok : bool).

Fixpoint dict_eqb (a b : dict) : bool :=
  match a, b with
  | [], [] => true
  | (k, v) :: a', (k', v') :: b' => String.eqb k k' && val_eqb v v' && dict_eqb a' b'
  | _, _ => false
  end.
Fixpoint sizes_eqb (a b : list (Z * Z)) : bool :=
  match a, b with
  | [], [] => true
  | (x, y) :: a', (x', y') :: b' => (x =? x') && (y =? y') && sizes_eqb a' b'
  | _, _ => false
  end.
Fixpoint strs_eqb (a b : list string) : bool :=
  match a, b with [], [] => true | x :: a', y :: b' => String.eqb x y && strs_eqb a' b' | _, _ => false end.

Definition out_matches (o : out) (i : iobs) : bool :=
  match o, i with
  | OExc e, IExc f => exn_eqb e f
  | ONone, IDone [] => true
  | OQueries us _, IDone vs => strs_eqb us vs
  | _, _ => false
  end.
Definition state_matches (s : state) (sn : snap) : bool :=
  dict_eqb (s_cells s) (sn_cells sn) && dict_eqb (s_args s) (sn_args sn) && sizes_eqb (s_sizes s) (sn_sizes sn).

Fixpoint replay (s : state) (ops : list op) (obs : list (iobs * snap)) : bool :=
  match ops, obs with
  | [], [] => true
  | o :: ops', (i, sn) :: obs' =>
      let '(s', r) := step s o in
      out_matches r i && state_matches s' sn && replay s' ops' obs'
  | _, _ => false
  end.

Definition line (c : case) : string :=
  match c with
  | CE ts sizes ops obs ok =>
      (* spec = model is the content of C04_last_write_wins / C08_*: proved, not re-evaluated per case *)
      b2s (replay (init ts sizes) ops obs) ++ " 1 " ++ b2s ok ++ " -"
  end.
Definition report (l : list case) : string := lines line l.
