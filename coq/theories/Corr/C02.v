(* Corr/C02.v — correspondence cases for C02. *)
Require Import X2P.Base.Prelude X2P.Base.PyNum X2P.Model.Peg X2P.Model.Lexer X2P.Model.Executor X2P.Model.Refs X2P.Spec.Refs X2P.Gen.Grammar X2P.Gen.Regexes.
Open Scope string_scope.
Open Scope Z_scope.

Inductive iout := ICells (m : list (list (Z * Z * Z))) | IExc (e : exn).
(* titles, used rows per sheet, own sheet, reference text, the reference as the harness generated it, implementation outcome *)
Inductive case := CRf (ts : titles) (rows : list Z) (own : Z) (text : string) (x : xref) (impl : iout).

Definition nrows_of (rows : list Z) (s : Z) : Z := nth (Z.to_nat s) rows 0.

Definition model (ts : titles) (rows : list Z) (own : Z) (text : string) : option iout :=
  match first_token lexer_tokens 0 text with
  | Some (Some (cls, pay, rest)) =>
      let t := {| tclass := cls; tpay := pay |} in
      if negb (String.eqb rest "") then None
      else if Nat.eqb cls L_CellIdentifierToken then
        Some (match resolve_cell ts t own with Ok c => ICells [[c]] | Exc e => IExc e end)
      else if Nat.eqb cls L_MatrixOfCellIdentifiersToken then
        Some (match resolve_matrix ts (nrows_of rows) t own with Ok m => ICells m | Exc e => IExc e end)
      else None
  | _ => None
  end.

Fixpoint row_eqb (a b : list (Z * Z * Z)) : bool :=
  match a, b with
  | [], [] => true
  | (x, y, z) :: a', (u, v, w) :: b' => (x =? u) && (y =? v) && (z =? w) && row_eqb a' b'
  | _, _ => false
  end.
Fixpoint m_eqb (a b : list (list (Z * Z * Z))) : bool :=
  match a, b with [], [] => true | x :: a', y :: b' => row_eqb x y && m_eqb a' b' | _, _ => false end.
Definition iout_eqb (a b : iout) : bool :=
  match a, b with ICells x, ICells y => m_eqb x y | IExc e, IExc f => exn_eqb e f | _, _ => false end.

Definition spec (ts : titles) (rows : list Z) (own : Z) (x : xref) : iout :=
  let idx (n : string) := match title_index ts n with Ok i => Some i | Exc _ => None end in
  match denote idx own (nrows_of rows) x with
  | Some m => ICells m
  | None => IExc KeyError
  end.
(* an unknown sheet must be rejected: any exception satisfies the statement *)
Definition spec_ok (sp o : iout) : bool :=
  match sp, o with IExc _, IExc _ => true | _, _ => iout_eqb sp o end.

Definition has_quote2 (s : string) : bool :=
  Nat.leb 3 (List.length (filter (fun c => (N_of_ascii c =? 39)%N) (list_of_string s))).
Definition classify (text : string) (x : xref) : string :=
  if has_quote2 text then "apostrophe_in_sheet_title"
  else match x_r1 x with
       | None => if negb (x_c1 x =? x_c2 x) then "whole_columns_delivered_column_by_column" else "-"
       | Some _ => "-"
       end.

Definition line (c : case) : string :=
  match c with
  | CRf ts rows own text x impl =>
      let sp := spec ts rows own x in
      match model ts rows own text with
      | Some m => b2s (iout_eqb m impl) ++ " " ++ b2s (spec_ok sp m) ++ " " ++ b2s (spec_ok sp impl) ++ " " ++ classify text x
      | None => "0 - " ++ b2s (spec_ok sp impl) ++ " " ++ classify text x
      end
  end.
Definition report (l : list case) : string := lines line l.
