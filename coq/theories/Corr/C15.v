(* Corr/C15.v — correspondence cases for C15. *)
Require Import X2P.Base.Prelude X2P.Base.F64 X2P.Base.PyCmp X2P.Base.PyType X2P.Base.PyNum X2P.Base.Calendar.
Require Import X2P.Model.Dates X2P.Spec.Dates.
Open Scope string_scope.
Open Scope Z_scope.

Inductive case :=
  | CDate (y m d : Z) (impl : res val)
  | CYmd (which : Z) (v : val) (impl : res val)            (* 0 YEAR, 1 MONTH, 2 DAY *)
  | CEdate (s m : val) (impl : res val)
  | CEomonth (s m : val) (impl : res val)
  | CDatedif (s e : val) (mode : string) (impl : res val)
  | CNetdays (s e h : val) (impl : res val)
  | CCal (y m d : Z) (ordinal wd dimv : Z).                  (* datetime/calendar library facts: toordinal, weekday, monthrange *)

Definition rv_eqb := res_eqb val_eqb.
Definition st (sp : option (res val)) (x : res val) : string :=
  match sp with None => "-" | Some v => b2s (rv_eqb v x) end.
Definition row (m impl : res val) (sp : option (res val)) (cls : string) : string :=
  b2s (rv_eqb m impl) ++ " " ++ st sp m ++ " " ++ st sp impl ++ " " ++ cls.

Definition in_years (o : Z) : bool := ord_in_range o.

Definition line (c : case) : string :=
  match c with
  | CDate y m d impl =>
      let sp := if (1900 <=? y) && (y <=? 9999) then
                  let t := y * 12 + (m - 1) in
                  if (1 <=? t / 12) && (t / 12 <=? 9999) && in_years (xl_date_ord y m d)
                  then Some (Ok (VDT (xl_date_ord y m d) 0)) else None
                else None in
      row (date y m d) impl sp "-"
  | CYmd w v impl =>
      let m := if w =? 0 then year_of v else if w =? 1 then month_of v else day_of v in
      row m impl (Some m) "-"
  | CEdate s k impl =>
      let sp := match s, k with
                | VDT o us, VInt k => let '(y, m, d) := ymd_of_ord o in let '(y', m', d') := xl_edate y m d k in
                                      if (1 <=? y') && (y' <=? 9999) then Some (Ok (VDT (ord_of_ymd y' m' d') us)) else None
                | _, _ => None end in
      row (edate s k) impl sp "-"
  | CEomonth s k impl =>
      let sp := match s, k with
                | VDT o us, VInt k => let '(y, m, d) := ymd_of_ord o in let '(y', m', d') := xl_eomonth y m k in
                                      if (1 <=? y') && (y' <=? 9999) then Some (Ok (VDT (ord_of_ymd y' m' d') 0)) else None
                | _, _ => None end in
      row (eomonth s k) impl sp "-"
  | CDatedif s e mode impl =>
      let sp := match s, e with
                | VDT o1 0, VDT o2 0 =>
                    if o1 <=? o2 then
                      let '(y1, m1, d1) := ymd_of_ord o1 in let '(y2, m2, d2) := ymd_of_ord o2 in
                      let M := xl_months y1 m1 d1 y2 m2 d2 in
                      if String.eqb mode "D" then Some (Ok (VInt (o2 - o1)))
                      else if String.eqb mode "M" then Some (Ok (VInt M))
                      else if String.eqb mode "Y" then Some (Ok (VInt (M / 12)))
                      else if String.eqb mode "YM" then Some (Ok (VInt (M mod 12)))
                      else None
                    else None
                | _, _ => None end in
      row (datedif s e mode) impl sp (if String.eqb mode "Y" then "datedif_Y_by_days" else "-")
  | CNetdays s e h impl =>
      let sp := match s, e with
                | VDT o1 _, VDT o2 _ =>
                    Some (Ok (VInt (if o1 <=? o2 then workdays o1 o2 (holiday_ords h) else - workdays o2 o1 (holiday_ords h))))
                | _, _ => None end in
      row (network_days s e h) impl sp "-"
  | CCal y m d o wd dv =>
      (* library oracle check: the model's calendar agrees with datetime/calendar *)
      let ok := (ord_of_ymd y m d =? o) && (weekday o =? wd) && (dim y m =? dv) &&
                (let '(y', m', d') := ymd_of_ord o in (y' =? y) && (m' =? m) && (d' =? d)) in
      b2s ok ++ " 1 1 -"
  end.
Definition report (l : list case) : string := lines line l.
