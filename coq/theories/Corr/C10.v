(* Corr/C10.v — correspondence cases for C10. *)
Require Import X2P.Base.Prelude X2P.Base.F64 X2P.Base.PyCmp X2P.Base.PyType X2P.Base.PyNum.
Require Import X2P.Model.Compare X2P.Spec.Compare.
Open Scope string_scope.
Open Scope Z_scope.

(* operator, operands, float reprs used by the str() fallback, implementation outcome *)
Inductive case := CCmp (o : cmpop) (l r : val) (reprs : list (float * string)) (impl : res bool).

Definition rb_eqb := res_eqb Bool.eqb.
Definition st (sp : option bool) (x : res bool) : string :=
  match sp with None => "-" | Some b => b2s (rb_eqb (Ok b) x) end.

Definition parses_num (s : string) : bool :=
  match int_of_string s with Ok _ => true | _ => match float_of_string s with Ok _ => true | _ => false end end.
Definition has_upper (s : string) : bool := negb (String.eqb s (lower s)).
Definition small_fraction (f : float) : bool :=
  match f_trunc f with Some 0 => negb (match cmp_f_f f zero with Some Eq => true | _ => false end) | _ => false end.

Definition classify (o : cmpop) (l r : val) : string :=
  match l, r with
  | VEmpty, VStr s | VStr s, VEmpty =>
      if String.eqb s "" then "blank_ne_emptytext"
      else if parses_num s then "blank_vs_numeric_text" else "-"
  | VEmpty, VFloat f | VFloat f, VEmpty => if small_fraction f then "blank_vs_fraction" else "-"
  | VStr s, VStr t =>
      if parses_num s && parses_num t then "numeric_text_as_number"
      else if has_upper s || has_upper t then "text_case_sensitive" else "-"
  | _, _ => "-"
  end.

Definition line (c : case) : string :=
  match c with
  | CCmp o l r reprs impl =>
      let m := compare (frepr_of reprs) o l r in
      let sp := xl_compare o l r in
      b2s (rb_eqb m impl) ++ " " ++ st sp m ++ " " ++ st sp impl ++ " " ++ classify o l r
  end.
Definition report (l : list case) : string := lines line l.
