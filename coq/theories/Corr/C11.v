(* Corr/C11.v — correspondence cases for C11. *)
Require Import X2P.Base.Prelude X2P.Base.F64 X2P.Base.PyCmp X2P.Base.PyType X2P.Base.PyNum.
Require Import X2P.Model.Agg X2P.Spec.Agg.
Open Scope string_scope.
Open Scope Z_scope.

(* function, arguments as written (tagged), implementation outcome.
   An area argument carries its cells as rows (the harness knows which cells the reference denotes);
   `shape` tells how get_matrix lays that area out for the code: true = as rows (rectangles, A:A single column);
   false = several whole columns A:C, which the code delivers column by column. *)
Inductive carg := KArea (rows : list (list val)) (by_rows : bool) | KLit (v : val) | KCell (v : val) | KExpr (v : val).
Inductive case := CAgg (f : aggfn) (args : list carg) (impl : res val).

Fixpoint transpose_fuel (fuel : nat) (rows : list (list val)) : list (list val) :=
  match fuel with
  | O => []
  | S k => if forallb (fun r => match r with [] => true | _ => false end) rows then []
           else map (fun r => match r with x :: _ => x | [] => VEmpty end) rows
                :: transpose_fuel k (map (fun r => match r with _ :: t => t | [] => [] end) rows)
  end.
Definition transpose (rows : list (list val)) : list (list val) :=
  transpose_fuel (S (fold_right (fun r m => Nat.max (List.length r) m) O rows)) rows.

Definition to_arg (a : carg) : arg :=
  match a with
  | KArea rows by_rows => AArea (area_val (if by_rows then rows else transpose rows))
  | KLit v => ALit v | KCell v => ACell v | KExpr v => AExpr v
  end.
Definition to_xarg (a : carg) : xarg :=
  match a with KArea rows _ => XArea rows | KLit v | KCell v | KExpr v => XScalar v end.

Definition rv_eqb := res_eqb val_eqb.
Definition st (sp : option (res val)) (x : res val) : string :=
  match sp with None => "-" | Some v => b2s (rv_eqb v x) end.

Definition has_date (args : list xarg) : bool :=
  existsb (fun v => match v with VDT _ _ | VDate _ => true | _ => false end) (all_cells args).
Definition has_error_text (args : list xarg) : bool :=
  match find_error (all_cells args) with Some _ => true | None => false end.
Definition no_numeric (args : list xarg) : bool := match numeric_cells args with [] => true | _ => false end.

Definition spec (f : aggfn) (args : list carg) : option (res val) :=
  let xs := map to_xarg args in
  if has_error_text xs then None else
  match f with
  | FSum => if has_date xs then None else Some (xsum xs)
  | FAverage => if has_date xs then None else if no_numeric xs then Some (Ok (VStr "#DIV/0!")) else Some (xaverage xs)
  | FMin => if has_date xs then None else
            match numeric_cells xs with [] => Some (Ok (VInt 0)) | x :: t => Some (py_extreme OLt x t) end
  | FMax => if has_date xs then None else
            match numeric_cells xs with [] => Some (Ok (VInt 0)) | x :: t => Some (py_extreme OGt x t) end
  | FCount => if existsb (fun a => match a with KLit _ => true | _ => false end) args then None
              else Some (Ok (VInt (xcount xs + Z.of_nat (List.length (only_datetime (all_cells xs))))))
  | FCountBlank => Some (Ok (VInt (xcountblank xs)))
  | FAnd => if forallb (fun v => match v with VBool _ | VInt _ | VFloat _ => true | _ => false end) (all_cells xs)
            then Some (Ok (VBool (xand xs))) else None
  | FOr => if forallb (fun v => match v with VBool _ | VInt _ | VFloat _ => true | _ => false end) (all_cells xs)
           then Some (Ok (VBool (xor xs))) else None
  end.

Definition n_areas (args : list carg) : nat :=
  List.length (filter (fun a => match a with KArea _ _ => true | _ => false end) args).
Definition classify (f : aggfn) (args : list carg) : string :=
  match f with
  | FCount => if Nat.leb 2 (n_areas args) then "count_several_areas"
              else if existsb (fun a => match a with KExpr v => is_num v | _ => false end) args
              then "count_ignores_expression_args" else "-"
  | FAverage | FMin | FMax => if no_numeric (map to_xarg args) then "fold_over_no_numeric_cell_raises" else "-"
  | _ => "-"
  end.

Definition line (c : case) : string :=
  match c with
  | CAgg f args impl =>
      let m := agg f (map to_arg args) in
      let sp := spec f args in
      b2s (rv_eqb m impl) ++ " " ++ st sp m ++ " " ++ st sp impl ++ " " ++ classify f args
  end.
Definition report (l : list case) : string := lines line l.
