(* Corr/C05.v — correspondence cases for C05 (lexer + token-set parser). *)
Require Import X2P.Base.Prelude X2P.Base.Str X2P.Model.Peg X2P.Model.Lexer X2P.Gen.Grammar X2P.Gen.Regexes X2P.Props.C05.
From Coq Require Import Arith.
Open Scope string_scope.

(* what the implementation did with a formula text *)
Inductive iout :=
  | ILexExc                                             (* Lexer raised the parser exception *)
  | IParsed (classes : list nat) (shape : list (nat * nat))   (* token classes, and the tree as preorder (nonterminal, alternative) *)
  | IRejected (classes : list nat)                      (* AstBuilder raised the parser exception *)
  | IForeign.                                           (* any other exception *)
Inductive case := CF (formula : string) (impl : iout) (oracle_ok : bool).

Fixpoint shape (t : tree) : list (nat * nat) :=
  match t with
  | Leaf _ => []
  | Node nt idx kids => (nt, idx) :: (fix go (l : list tree) := match l with [] => [] | x :: l' => (shape x ++ go l')%list end) kids
  end.
Fixpoint nats_eqb (a b : list nat) : bool :=
  match a, b with [], [] => true | x :: a', y :: b' => Nat.eqb x y && nats_eqb a' b' | _, _ => false end.
Fixpoint shape_eqb (a b : list (nat * nat)) : bool :=
  match a, b with
  | [], [] => true
  | (x, y) :: a', (u, v) :: b' => Nat.eqb x u && Nat.eqb y v && shape_eqb a' b'
  | _, _ => false
  end.

Definition model (f : string) : option iout :=
  match lex f with
  | LUndefined => Some ILexExc
  | LOk toks =>
      match parse_tokens 40 toks with
      | AOk t => Some (IParsed (map tclass toks) (shape t))
      | AReject => Some (IRejected (map tclass toks))
      | AFuel => None
      end
  | _ => None
  end.
Definition iout_eqb (a b : iout) : bool :=
  match a, b with
  | ILexExc, ILexExc | IForeign, IForeign => true
  | IParsed c s, IParsed c' s' => nats_eqb c c' && shape_eqb s s'
  | IRejected c, IRejected c' => nats_eqb c c'
  | _, _ => false
  end.

(* defect class: blanks between the brackets of TRUE() / FALSE() (these are single literal tokens in the lexer) *)
Definition has_sub (f sub : string) : bool := negb (Z.eqb (str_find f sub 0) (-1)).
Definition tab : string := String (ascii_of_N 9) "".
Definition classify (f : string) : string :=
  if has_sub f "TRUE( " || has_sub f "FALSE( " || has_sub f ("TRUE(" ++ tab) || has_sub f ("FALSE(" ++ tab)
  then "blank_inside_boolean_call" else "-".

Definition line (c : case) : string :=
  match c with
  | CF f impl ok =>
      match model f with
      | Some m => b2s (iout_eqb m impl) ++ " 1 " ++ b2s ok ++ " " ++ classify f
      | None => "0 - " ++ b2s ok ++ " unmodelled"
      end
  end.
Definition report (l : list case) : string := lines line l.
