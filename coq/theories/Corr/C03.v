(* Corr/C03.v — correspondence cases for C03: concrete dependency tables. *)
Require Import X2P.Base.Prelude X2P.Model.Graph.
From Coq Require Import Arith.
Open Scope string_scope.

Inductive iout := IOk (cells : list nat) | ICycle | IOther.
(* number of cells, dependency table, entry (None = whole workbook, cells in this order), what the implementation did *)
Inductive case := CG (n : nat) (deps : list (nat * list nat)) (entry : option nat) (order : list nat) (impl : iout).

Fixpoint deps_of (tbl : list (nat * list nat)) (c : nat) : list nat :=
  match tbl with [] => [] | (k, ds) :: t => if Nat.eqb k c then ds else deps_of t c end.

Fixpoint insert_sorted (x : nat) (l : list nat) : list nat :=
  match l with [] => [x] | y :: t => if Nat.leb x y then (if Nat.eqb x y then l else x :: l) else y :: insert_sorted x t end.
Definition sort_set (l : list nat) : list nat := fold_right insert_sorted [] l.
Fixpoint list_eqb (a b : list nat) : bool :=
  match a, b with [], [] => true | x :: a', y :: b' => Nat.eqb x y && list_eqb a' b' | _, _ => false end.

(* independent spec: reachable set by iterated expansion; cycle = some reachable cell reaches itself *)
Fixpoint expand (tbl : list (nat * list nat)) (fuel : nat) (seen : list nat) : list nat :=
  match fuel with
  | O => seen
  | S f => expand tbl f (sort_set (seen ++ flat_map (deps_of tbl) seen))
  end.
Definition reach_set (tbl : list (nat * list nat)) (n : nat) (starts : list nat) : list nat := expand tbl (S n) (sort_set starts).
Definition on_cycle (tbl : list (nat * list nat)) (n : nat) (x : nat) : bool :=
  mem x (expand tbl (S n) (sort_set (deps_of tbl x))) && negb (match deps_of tbl x with [] => true | _ => false end).
Definition spec (tbl : list (nat * list nat)) (n : nat) (starts : list nat) : iout :=
  let r := reach_set tbl n starts in
  if existsb (on_cycle tbl n) r then ICycle else IOk r.

Definition iout_eqb (a b : iout) : bool :=
  match a, b with
  | IOk x, IOk y => list_eqb (sort_set x) (sort_set y)
  | ICycle, ICycle | IOther, IOther => true
  | _, _ => false
  end.
Definition of_gres (r : gres) : iout := match r with GOk ctx => IOk ctx | GCycle => ICycle | GFuel => IOther end.

Definition line (c : case) : string :=
  match c with
  | CG n tbl entry order impl =>
      let m := match entry with
               | Some e => of_gres (translate_from (deps_of tbl) (S (S n)) e)
               | None => of_gres (translate_all (deps_of tbl) (S (S n)) order [])
               end in
      let sp := spec tbl n (match entry with Some e => [e] | None => order end) in
      b2s (iout_eqb m impl) ++ " " ++ b2s (iout_eqb sp m) ++ " " ++ b2s (iout_eqb sp impl) ++ " -"
  end.
Definition report (l : list case) : string := lines line l.
